//! C09: the JSON and the Cedar schema syntaxes denote the same schema.
//!
//! Inputs (one case = one generated schema):
//!   * `gen_schema.rs` worlds (JSON, fully qualified, "plain": translation is expected to succeed),
//!   * `gen_schema_text.rs` specs rendered by OUR printers as JSON and as Cedar text (name resolution, shadowing,
//!     quoting, annotations, multi-name declarations …), plus fixed probes.
//! The four-way comparison, all on the implementation (propfail):
//!   JSON  → ValidatorSchema (A);  JSON → `to_cedarschema` → parse → ValidatorSchema (B);  and one more hop B-text → JSON → (A2)
//!   Cedar → ValidatorSchema (C);  Cedar → `to_json_value` → ValidatorSchema (D);          and one more hop D-json → Cedar → (C2)
//!   whenever the input is accepted and the translation succeeds: the translated schema loads, A == B == A2, C == D == C2
//!   (`ValidatorSchema: PartialEq` AND the canonical serialisation of `sx_schema.rs`), the core and the public API agree,
//!   ~5 generated policies get the same validation verdict and ~5+ data items (requests, entities, single-fault
//!   mutations) the same request/entity validation verdict under both schemas.
//! Translation failures are allowed by the property; they are counted per reason (`xlate_fail:…`).
//! Model lines (diffed against lean `Ops/SchemaSyntax.lean`):
//!   `(sty print <tyjson>)`   reply `(toks …)`     — the printer of fmt.rs on every type expression of the fragment
//!   `(sty parse (toks …))`   reply `(ok <tyjson>)|(err)` — the Cedar type grammar + to_json_schema.rs
//!   `(sty resolve "ns" (commons …) (entities …) (actions "ns"…) entity|common|either "name")`
//!                            reply `(common "q")|(entity "q")|(builtin "Long")|(undefined)|(shadow)`
//!     — observed end-to-end: a synthetic JSON schema with the same declared names (each common type a record with
//!       one marker attribute) and a probe attribute of the reference under test, loaded by `ValidatorSchema`.
//!   `(sty collect-frag (toks …))`  reply `(ok <frag in BTreeMap order>)|(err dup-decl|dup-ns|syntax)` — `from_cedarschema_str`, first error class
//!   `(sty to-cedar-checked <frag> (nonrec "q"…))`  reply `(toks …)|(err collision|nonrecord)` — `Fragment::to_cedarschema()`
//!   `(sty print-frag-a <afrag>)` reply `(toks …)`; `(sty parse-frag-a (toks …))` reply `(ok (items …))|(err)` — annotations on namespaces
//!     and declarations (`to_cedarschema` after stripping attribute annotations; the real grammar `parse_schema`)
use crate::gen_schema as gs;
use crate::gen_schema_text as gt;
use crate::out::Out;
use crate::rng::Rng;
use crate::sx::qs;
use crate::sx_schema;
use crate::Args;
use cedar_policy_core::ast::{self, EntityType, EntityUID, RestrictedExpr};
use cedar_policy_core::entities::{Entities, TCComputation};
use cedar_policy_core::extensions::Extensions;
use cedar_policy_core::validator::json_schema::{self, Fragment};
use cedar_policy_core::validator::types::{EntityKind, Type};
use cedar_policy_core::validator::{CoreSchema, RawName, ValidationMode, Validator, ValidatorEntityTypeKind, ValidatorSchema};
use serde_json::{json, Map, Value as J};
use smol_str::SmolStr;
use std::collections::{BTreeMap, BTreeSet};
use std::panic::{catch_unwind, AssertUnwindSafe};
use std::sync::Arc;

fn ext() -> &'static Extensions<'static> {
    Extensions::all_available()
}

/// first identifier of the Debug form: the enum variant of an error
fn variant_of(dbg: &str) -> String {
    let first: String = dbg.chars().take_while(|c| c.is_ascii_alphanumeric() || *c == '_').collect();
    // wrappers: show the wrapped variant as well (`Schema(TypeNotDefined(…` → `Schema.TypeNotDefined`)
    let rest = &dbg[first.len()..];
    if ["Schema", "Parsing", "ToJsonSchemaErrors", "CedarSchema"].contains(&first.as_str()) && rest.starts_with('(') {
        let inner: String = rest[1..].chars().take_while(|c| c.is_ascii_alphanumeric() || *c == '_').collect();
        if !inner.is_empty() {
            return format!("{first}.{inner}");
        }
    }
    first
}

fn guard<T>(f: impl FnOnce() -> T) -> Result<T, String> {
    catch_unwind(AssertUnwindSafe(f)).map_err(|_| "PANIC".to_string())
}

fn load_json(j: &J) -> Result<ValidatorSchema, String> {
    guard(|| ValidatorSchema::from_json_value(j.clone(), ext()).map_err(|e| variant_of(&format!("{e:?}"))))?
}

fn load_cedar(t: &str) -> Result<ValidatorSchema, String> {
    guard(|| ValidatorSchema::from_cedarschema_str(t, ext()).map(|x| x.0).map_err(|e| variant_of(&format!("{e:?}"))))?
}

/// JSON → Cedar text through the core fragment; the reason of a failure is the error variant
fn json_to_cedar(j: &J) -> Result<String, String> {
    guard(|| {
        let f = Fragment::<RawName>::from_json_value(j.clone()).map_err(|e| format!("json-fragment:{}", variant_of(&format!("{e:?}"))))?;
        f.to_cedarschema().map_err(|e| variant_of(&format!("{e:?}")))
    })?
}

/// Cedar text → JSON through the public fragment
fn cedar_to_json(t: &str) -> Result<J, String> {
    guard(|| {
        let (f, _) = cedar_policy::SchemaFragment::from_cedarschema_str(t).map_err(|e| format!("cedar-fragment:{}", variant_of(&format!("{e:?}"))))?;
        f.to_json_value().map_err(|e| variant_of(&format!("{e:?}")))
    })?
}

fn same_schema(a: &ValidatorSchema, b: &ValidatorSchema) -> (bool, bool) {
    (a == b, sx_schema::schema(a) == sx_schema::schema(b))
}

// ------------------------------------------------------------------------------------------------
// policies and data generated from a resolved schema
// ------------------------------------------------------------------------------------------------

fn euid_of(schema: &ValidatorSchema, r: &mut Rng, t: &EntityType) -> EntityUID {
    let id: String = match schema.get_entity_type(t).map(|e| &e.kind) {
        Some(ValidatorEntityTypeKind::Enum(choices)) => {
            let c: &str = choices.first().as_ref();
            c.to_string()
        }
        _ => (*r.pick(&["a", "b"])).to_string(),
    };
    EntityUID::from_components(t.clone(), ast::Eid::new(id), None)
}

fn ext_ctor(name: &str) -> (&'static str, &'static str) {
    match name {
        "decimal" => ("decimal", "1.5"),
        "ipaddr" => ("ip", "10.0.0.1"),
        "datetime" => ("datetime", "2024-01-01"),
        _ => ("duration", "1h"),
    }
}

/// a value of the given validator type
fn value_of(schema: &ValidatorSchema, r: &mut Rng, t: &Type) -> Option<RestrictedExpr> {
    Some(match t {
        Type::Never => return None,
        Type::Bool(_) => RestrictedExpr::val(r.chance(50)),
        Type::Long => RestrictedExpr::val(r.range(-3, 40)),
        Type::String => RestrictedExpr::val(*r.pick(&["", "s", "x y"])),
        Type::Set { element_type: None } => RestrictedExpr::set(Vec::<RestrictedExpr>::new()),
        Type::Set { element_type: Some(e) } => {
            let n = r.below(3);
            let mut xs = Vec::new();
            for _ in 0..n {
                xs.push(value_of(schema, r, e)?);
            }
            RestrictedExpr::set(xs)
        }
        Type::Record { attrs, .. } => {
            let kvs = attr_values(schema, r, attrs.iter().map(|(k, a)| (k.clone(), a.is_required, (*a.attr_type).clone())).collect())?;
            RestrictedExpr::record(kvs).ok()?
        }
        Type::Entity(EntityKind::AnyEntity) => return None,
        Type::Entity(EntityKind::Entity(lub)) => RestrictedExpr::val(euid_of(schema, r, lub.get_single_entity()?)),
        Type::ExtensionType { name } => {
            let (f, a) = ext_ctor(&name.to_string());
            RestrictedExpr::call_extension_fn(crate::gen::name(f), vec![RestrictedExpr::val(a)])
        }
    })
}

fn attr_values(schema: &ValidatorSchema, r: &mut Rng, attrs: Vec<(SmolStr, bool, Type)>) -> Option<Vec<(SmolStr, RestrictedExpr)>> {
    let mut kvs = Vec::new();
    for (k, req, t) in attrs {
        if req || r.chance(50) {
            kvs.push((k, value_of(schema, r, &t)?));
        }
    }
    Some(kvs)
}

/// one single-fault mutation of an attribute map (wrong type / missing required / undeclared)
fn mutate_kvs(r: &mut Rng, kvs: &mut Vec<(SmolStr, RestrictedExpr)>, required: &[SmolStr]) -> &'static str {
    match r.below(3) {
        0 if !kvs.is_empty() => {
            let i = r.below(kvs.len());
            // a value that is of no declared type at once: a record with an odd key
            kvs[i].1 = RestrictedExpr::record(vec![(SmolStr::from("zz_odd"), RestrictedExpr::val(7))]).unwrap();
            "wrong-type"
        }
        1 if kvs.iter().any(|(k, _)| required.contains(k)) => {
            let idx: Vec<usize> = kvs.iter().enumerate().filter(|(_, (k, _))| required.contains(k)).map(|x| x.0).collect();
            kvs.remove(*r.pick(&idx));
            "missing-required"
        }
        _ => {
            kvs.push((SmolStr::from("zz_extra"), RestrictedExpr::val(7)));
            "undeclared-attr"
        }
    }
}

enum Datum {
    Req(EntityUID, EntityUID, EntityUID, Vec<(SmolStr, RestrictedExpr)>),
    Ent(ast::Entity),
}

fn datum_verdict(schema: &ValidatorSchema, d: &Datum) -> String {
    let r = guard(|| match d {
        Datum::Req(p, a, rs, ctx) => {
            let c = ast::Context::from_pairs(ctx.iter().cloned(), ext()).map_err(|_| "ctx-construct".to_string())?;
            ast::Request::new((p.clone(), None), (a.clone(), None), (rs.clone(), None), c, Some(schema), ext()).map(|_| ()).map_err(|e| variant_of(&format!("{e:?}")))
        }
        Datum::Ent(e) => {
            let core = CoreSchema::new(schema);
            Entities::from_entities([e.clone()], Some(&core), TCComputation::ComputeNow, ext()).map(|_| ()).map_err(|e| variant_of(&format!("{e:?}")))
        }
    });
    match r {
        Ok(Ok(())) => "ok".into(),
        Ok(Err(c)) => format!("reject:{c}"),
        Err(_) => "PANIC".into(),
    }
}

fn describe_datum(d: &Datum) -> String {
    match d {
        Datum::Req(p, a, r, ctx) => format!("request p={p} a={a} r={r} ctx={{{}}}", ctx.iter().map(|(k, v)| format!("{k:?}: {v}")).collect::<Vec<_>>().join(", ")),
        Datum::Ent(e) => format!("entity {e}"),
    }
}

/// requests and entities (conformant and single-fault mutated) derived from the resolved schema `s`
fn gen_data(r: &mut Rng, s: &ValidatorSchema, n: usize) -> Vec<(String, Datum)> {
    let mut res = Vec::new();
    let mut acts: Vec<_> = s.action_ids().filter(|a| a.applies_to_principals().next().is_some() && a.applies_to_resources().next().is_some()).collect();
    acts.sort_by_key(|a| a.name().to_string());
    let mut ets: Vec<_> = s.entity_types().collect();
    ets.sort_by_key(|e| e.name().to_string());
    for i in 0..n {
        if i % 2 == 0 && !acts.is_empty() {
            let a = *r.pick(&acts);
            let mut ps: Vec<_> = a.applies_to_principals().cloned().collect();
            ps.sort();
            let mut rs: Vec<_> = a.applies_to_resources().cloned().collect();
            rs.sort();
            let (pt0, rt0) = (r.pick(&ps).clone(), r.pick(&rs).clone());
            let mut p = euid_of(s, r, &pt0);
            let rr = euid_of(s, r, &rt0);
            let (attrs, required): (Vec<_>, Vec<SmolStr>) = match a.context_type() {
                Type::Record { attrs, .. } => (
                    attrs.iter().map(|(k, a)| (k.clone(), a.is_required, (*a.attr_type).clone())).collect(),
                    attrs.iter().filter(|(_, a)| a.is_required).map(|(k, _)| k.clone()).collect(),
                ),
                _ => (vec![], vec![]),
            };
            let Some(mut ctx) = attr_values(s, r, attrs) else { continue };
            let tag = match r.below(4) {
                0 => "conformant",
                1 => {
                    // principal of a type the action does not apply to (when there is one)
                    match ets.iter().find(|e| !ps.contains(e.name())) {
                        Some(e) => {
                            p = euid_of(s, r, e.name());
                            "principal-type"
                        }
                        None => "conformant",
                    }
                }
                _ => mutate_kvs(r, &mut ctx, &required),
            };
            res.push((format!("req:{tag}"), Datum::Req(p, a.name().clone(), rr, ctx)));
        } else if !ets.is_empty() {
            let et = *r.pick(&ets);
            let uid = euid_of(s, r, et.name());
            let attrs: Vec<_> = et.attributes().iter().map(|(k, a)| (k.clone(), a.is_required, (*a.attr_type).clone())).collect();
            let required: Vec<SmolStr> = et.attributes().iter().filter(|(_, a)| a.is_required).map(|(k, _)| k.clone()).collect();
            let Some(mut kvs) = attr_values(s, r, attrs) else { continue };
            let mut tags = Vec::new();
            if let Some(tt) = et.tag_type() {
                if r.chance(60) {
                    if let Some(v) = value_of(s, r, tt) {
                        tags.push((SmolStr::from("k1"), v));
                    }
                }
            }
            // a parent of a permitted type, or (fault) of any other type
            let mut parents = std::collections::HashSet::new();
            let permitted: Vec<_> = ets.iter().filter(|t| t.descendants.contains(et.name())).collect();
            let mut tag = "conformant";
            match r.below(5) {
                0 if !permitted.is_empty() => {
                    let pt1 = r.pick(&permitted).name().clone();
                    let pu = euid_of(s, r, &pt1);
                    // (an entity that is its own parent is a hierarchy cycle, not a schema matter)
                    if pu != uid {
                        parents.insert(pu);
                    }
                }
                1 => {
                    if let Some(t) = ets.iter().find(|t| !t.descendants.contains(et.name())) {
                        let pu = euid_of(s, r, t.name());
                        if pu != uid {
                            parents.insert(pu);
                            tag = "ancestor-type";
                        }
                    }
                }
                2 if et.tag_type().is_none() => {
                    tags.push((SmolStr::from("k1"), RestrictedExpr::val(1)));
                    tag = "undeclared-tag";
                }
                3 => tag = mutate_kvs(r, &mut kvs, &required),
                _ => {}
            }
            let e = ast::Entity::new(uid, kvs, std::collections::HashSet::new(), parents, tags, ext());
            if let Ok(e) = e {
                res.push((format!("ent:{tag}"), Datum::Ent(e)));
            }
        }
    }
    res
}

fn strq(s: &str) -> String {
    format!("{s:?}")
}

/// an expression that uses `acc : t` in a way only that type admits (strict validation)
fn use_expr(s: &ValidatorSchema, r: &mut Rng, acc: &str, t: &Type, depth: u32) -> String {
    match t {
        Type::Bool(_) => format!("({acc} || false)"),
        Type::Long => format!("({acc} + 1 > 0)"),
        Type::String => format!("({acc} like \"a*\")"),
        Type::Set { element_type: Some(e) } => match e.as_ref() {
            Type::Long => format!("{acc}.contains(1)"),
            Type::String => format!("{acc}.contains(\"s\")"),
            _ => format!("{acc}.containsAll({acc})"),
        },
        Type::Set { element_type: None } => format!("{acc}.containsAll({acc})"),
        Type::Record { attrs, .. } => {
            let ks: Vec<_> = attrs.iter().collect();
            if ks.is_empty() || depth == 0 {
                format!("({acc} == {acc})")
            } else {
                let (k, a) = *r.pick(&ks);
                let inner = use_expr(s, r, &format!("{acc}[{}]", strq(k)), &a.attr_type, depth - 1);
                if a.is_required { inner } else { format!("({acc} has {} && {inner})", strq(k)) }
            }
        }
        Type::Entity(EntityKind::Entity(lub)) => match lub.get_single_entity() {
            Some(et) => format!("({acc} == {})", euid_of(s, r, et)),
            None => format!("({acc} == {acc})"),
        },
        Type::ExtensionType { name } => match name.to_string().as_str() {
            "decimal" => format!("{acc}.lessThan(decimal(\"1.0\"))"),
            "ipaddr" => format!("{acc}.isLoopback()"),
            "datetime" => format!("({acc} < datetime(\"2024-01-01\"))"),
            _ => format!("({acc}.toDays() > 0)"),
        },
        _ => format!("({acc} == {acc})"),
    }
}

fn gen_policies(r: &mut Rng, s: &ValidatorSchema, n: usize) -> Vec<String> {
    let mut acts: Vec<_> = s.action_ids().filter(|a| a.applies_to_principals().next().is_some() && a.applies_to_resources().next().is_some()).collect();
    acts.sort_by_key(|a| a.name().to_string());
    let mut all_ets: Vec<_> = s.entity_types().map(|e| e.name().clone()).collect();
    all_ets.sort();
    let mut res = Vec::new();
    if acts.is_empty() {
        return res;
    }
    for i in 0..n {
        let a = *r.pick(&acts);
        let mut ps: Vec<_> = a.applies_to_principals().cloned().collect();
        ps.sort();
        let mut rs: Vec<_> = a.applies_to_resources().cloned().collect();
        rs.sort();
        let (pt, rt) = (r.pick(&ps).clone(), r.pick(&rs).clone());
        let mut conds: Vec<String> = Vec::new();
        for (var, vt) in [("principal", Some(&pt)), ("resource", Some(&rt)), ("context", None)] {
            let attrs: Vec<(SmolStr, bool, Type)> = match vt {
                Some(t) => s.get_entity_type(t).map(|e| e.attributes().iter().map(|(k, a)| (k.clone(), a.is_required, (*a.attr_type).clone())).collect()).unwrap_or_default(),
                None => match a.context_type() {
                    Type::Record { attrs, .. } => attrs.iter().map(|(k, a)| (k.clone(), a.is_required, (*a.attr_type).clone())).collect(),
                    _ => vec![],
                },
            };
            if attrs.is_empty() || !r.chance(75) {
                continue;
            }
            let (k, req, t) = r.pick(&attrs).clone();
            let acc = format!("{var}[{}]", strq(&k));
            let e = match i % 5 {
                // deliberately ill-typed use / unguarded optional access / undeclared attribute: must be rejected under both
                3 => format!("({acc} + 1 > 0 && {acc} like \"x\")"),
                4 if r.chance(50) => format!("({var}[\"zz_nope\"] == 1)"),
                _ => use_expr(s, r, &acc, &t, 2),
            };
            conds.push(if req || (i % 5 == 4) { e } else { format!("({var} has {} && {e})", strq(&k)) });
        }
        if let Some(tt) = s.get_entity_type(&pt).and_then(|e| e.tag_type()) {
            if r.chance(50) {
                conds.push(format!("(principal.hasTag(\"k\") && {})", use_expr(s, r, "principal.getTag(\"k\")", tt, 1)));
            }
        }
        if r.chance(40) {
            let g = r.pick(&all_ets).clone();
            conds.push(format!("resource in {}", euid_of(s, r, &g)));
        }
        if r.chance(30) {
            let g = *r.pick(&acts);
            conds.push(format!("action in {}", g.name()));
        }
        let cond = if conds.is_empty() { "true".to_string() } else { conds.join(" && ") };
        res.push(format!("permit(principal is {pt}, action == {}, resource is {rt}) when {{ {cond} }};", a.name()));
    }
    res
}

fn policy_verdict(s: &ValidatorSchema, text: &str) -> String {
    let r = guard(|| {
        let ps = cedar_policy_core::parser::parse_policyset(text).map_err(|_| "PARSE".to_string())?;
        let v = Validator::new(s.clone());
        let res = v.validate(&ps, ValidationMode::Strict);
        let mut kinds: Vec<String> = res.validation_errors().map(|e| variant_of(&format!("{e:?}"))).collect();
        kinds.sort();
        Ok::<_, String>(if res.validation_passed() { "valid".to_string() } else { format!("invalid[{}]", kinds.join(",")) })
    });
    match r {
        Ok(Ok(v)) => v,
        Ok(Err(e)) => e,
        Err(_) => "PANIC".into(),
    }
}

/// identical validation verdicts for policies and data under the two schemas (`s1` is the original)
fn compare_verdicts(out: &mut Out, r: &mut Rng, case: &str, route: &str, s1: &ValidatorSchema, s2: &ValidatorSchema, world: Option<&gs::SchemaSpec>) {
    for p in gen_policies(r, s1, 5) {
        let (v1, v2) = (policy_verdict(s1, &p), policy_verdict(s2, &p));
        out.count(&format!("policy_verdict:{}", if v1 == "valid" { "valid" } else if v1 == "PARSE" { "unparsable" } else { "invalid" }));
        out.nontrivial(&format!("pol|{p}|{v1}"));
        if v1 != v2 || v1 == "PANIC" {
            out.propfail("policy validation verdict differs between original and translated schema", case, &format!("{route}: policy `{p}`: original={v1} translated={v2}"));
        }
    }
    let mut data = gen_data(r, s1, 6);
    if let Some(spec) = world {
        // gen_schema.rs data: a conformant store and requests, plus single-fault mutations
        let store = gs::gen_store(r, spec);
        for (i, e) in store.entities.iter().enumerate().take(3) {
            let fl = *r.pick(gs::ENTITY_FAULTS);
            let d = if i == 1 { gs::mutate_entity(r, spec, e, fl).map(|(m, pl)| (m, pl.fault.name())) } else { None };
            let (e, tag) = d.unwrap_or((e.clone(), "conformant"));
            if let Ok(ent) = e.to_entity() {
                data.push((format!("gs-ent:{tag}"), Datum::Ent(ent)));
            }
        }
        for i in 0..3 {
            let q0 = gs::gen_request(r, spec);
            let fl = *r.pick(gs::REQUEST_FAULTS);
            let d = if i > 0 { gs::mutate_request(r, spec, &q0, fl).map(|(m, pl)| (m, pl.fault.name())) } else { None };
            let (q, tag) = d.unwrap_or((q0, "conformant"));
            let ctx: Vec<(SmolStr, RestrictedExpr)> = q.context.iter().map(|(k, v)| (SmolStr::from(k.as_str()), v.to_rexpr())).collect();
            data.push((format!("gs-req:{tag}"), Datum::Req(gs::mk_uid(&q.principal), gs::mk_uid(&q.action), gs::mk_uid(&q.resource), ctx)));
        }
    }
    for (tag, d) in data {
        let (v1, v2) = (datum_verdict(s1, &d), datum_verdict(s2, &d));
        out.count(&format!("datum:{tag}:{}", if v1 == "ok" { "ok" } else { "reject" }));
        out.nontrivial(&format!("dat|{}|{v1}", describe_datum(&d)));
        if v1 != v2 || v1 == "PANIC" {
            out.propfail("request/entity validation verdict differs between original and translated schema", case, &format!("{route}: {tag} {}: original={v1} translated={v2}", describe_datum(&d)));
        }
        if tag.ends_with(":conformant") && v1 != "ok" {
            out.count(&format!("generator_conformant_datum_rejected:{tag}:{v1}"));
        }
    }
}

// ------------------------------------------------------------------------------------------------
// the four-way comparison
// ------------------------------------------------------------------------------------------------

/// JSON rewrites that reproduce, on the JSON side, the lossy steps of the printer (fmt.rs):
///  * `entity-ref-as-eoc`: every `{"type":"Entity","name":n}` becomes `{"type":"EntityOrCommon","name":n}`;
///  * `common-ref-as-eoc`: every `{"type":n}` (n not a keyword) becomes `{"type":"EntityOrCommon","name":n}`
///    (the Cedar syntax has only entity-or-common references: a printed must-be-entity / must-be-common reference is
///    re-resolved with the RFC 24 priorities and may bind to another declaration);
///  * `drop-half-empty-appliesTo`: an `appliesTo` one of whose lists is empty is dropped altogether (with its other list and context).
fn rewrite_json(j: &J, ent: bool, com: bool, drop_applies: bool) -> J {
    match j {
        J::Object(m) => {
            if let Some(J::String(t)) = m.get("type") {
                if ent && t == "Entity" && m.get("name").map_or(false, |n| n.is_string()) {
                    let mut m2 = m.clone();
                    m2.insert("type".into(), J::String("EntityOrCommon".into()));
                    return J::Object(m2);
                }
                if com && !JSON_TYPE_KEYWORDS.contains(&t.as_str()) && !m.contains_key("id") && !m.contains_key("name") {
                    let mut m2 = m.clone();
                    m2.insert("type".into(), J::String("EntityOrCommon".into()));
                    m2.insert("name".into(), J::String(t.clone()));
                    return J::Object(m2);
                }
            }
            let mut m2 = Map::new();
            for (k, v) in m {
                // (an action may itself be called "appliesTo": only an ApplySpec object has these keys)
                if drop_applies && k == "appliesTo" && (v.get("principalTypes").is_some() || v.get("resourceTypes").is_some()) {
                    let empty = |f: &str| v.get(f).and_then(|x| x.as_array()).map_or(true, |a| a.is_empty());
                    if empty("principalTypes") || empty("resourceTypes") {
                        continue;
                    }
                }
                m2.insert(k.clone(), rewrite_json(v, ent, com, drop_applies));
            }
            J::Object(m2)
        }
        J::Array(xs) => J::Array(xs.iter().map(|x| rewrite_json(x, ent, com, drop_applies)).collect()),
        other => other.clone(),
    }
}

/// is the inequality with `b` exactly what a combination of the known lossy printer steps produces on `src_json`?
/// (smallest combination first)
/// does a NAMED namespace of the JSON schema declare one name both as entity type and as common type?  fmt.rs refuses to
/// translate such schemas (`NameCollisions`); the recorded finding C09-entity-ref-rebinds-to-common-type-empty-namespace is
/// about the EMPTY namespace only, so a difference on a schema with a named-namespace collision is never "explained"
fn named_namespace_collision(j: &J) -> bool {
    let Some(o) = j.as_object() else { return false };
    o.iter().any(|(ns, body)| {
        !ns.is_empty()
            && match (body.get("entityTypes").and_then(|x| x.as_object()), body.get("commonTypes").and_then(|x| x.as_object())) {
                (Some(e), Some(c)) => e.keys().any(|k| c.contains_key(k)),
                _ => false,
            }
    })
}

fn explain(src_json: Option<&J>, b: &ValidatorSchema) -> Option<String> {
    let j = src_json?;
    if named_namespace_collision(j) { return None; }
    let names = ["entity-ref-as-eoc", "common-ref-as-eoc", "drop-half-empty-appliesTo"];
    let mut masks: Vec<u32> = (1..8).collect();
    masks.sort_by_key(|m: &u32| m.count_ones());
    for m in masks {
        if let Ok(a2) = load_json(&rewrite_json(j, m & 1 != 0, m & 2 != 0, m & 4 != 0)) {
            if same_schema(&a2, b) == (true, true) {
                return Some((0..3).filter(|i| m & (1 << i) != 0).map(|i| names[i]).collect::<Vec<_>>().join("+"));
            }
        }
    }
    None
}

/// is the load failure (error class `class`) of the translation exactly what a known lossy printer step produces on `src_json`?
fn explain_load_failure(src_json: &J, class: &str) -> String {
    if named_namespace_collision(src_json) { return "[unexplained]".to_string(); }
    let names = ["entity-ref-as-eoc", "common-ref-as-eoc", "drop-half-empty-appliesTo"];
    let mut masks: Vec<u32> = (1..8).collect();
    masks.sort_by_key(|m: &u32| m.count_ones());
    let bare = class.rsplit('.').next().unwrap_or(class);
    for m in masks {
        if let Err(c) = load_json(&rewrite_json(src_json, m & 1 != 0, m & 2 != 0, m & 4 != 0)) {
            if c.rsplit('.').next().unwrap_or(&c) == bare {
                return format!("[explained-by:{}]", (0..3).filter(|i| m & (1 << i) != 0).map(|i| names[i]).collect::<Vec<_>>().join("+"));
            }
        }
    }
    "[unexplained]".to_string()
}

fn report_unequal(out: &mut Out, case: &str, route: &str, a: &ValidatorSchema, b: &ValidatorSchema, src: &str, translated: &str, src_json: Option<&J>) -> bool {
    let (eq, canon) = same_schema(a, b);
    if eq && canon {
        out.count(&format!("equal:{route}"));
        return true;
    }
    let what = if !canon { "translated schema differs from the original" } else { "translated schema differs from the original under PartialEq only" };
    let expl = match explain(src_json, b) {
        Some(e) => format!("[explained-by:{e}]"),
        None => "[unexplained]".to_string(),
    };
    out.count(&format!("unequal:{route}:{expl}"));
    out.propfail(what, case, &format!("{route} {expl}: source={src} :: translated={translated} :: original={} :: loaded-translation={}", sx_schema::schema(a), sx_schema::schema(b)));
    false
}

/// JSON input: A, B (and A2 through one more hop)
fn check_json_input(out: &mut Out, r: &mut Rng, case: &str, kind: &str, j: &J, world: Option<&gs::SchemaSpec>) -> Option<ValidatorSchema> {
    let a = match load_json(j) {
        Ok(a) => a,
        Err(c) => {
            out.count(&format!("json_input_rejected:{kind}:{c}"));
            if c == "PANIC" {
                out.propfail("schema loader panicked", case, &format!("JSON {j}"));
            }
            return None;
        }
    };
    out.count(&format!("json_input_accepted:{kind}"));
    // public loader = core loader
    match guard(|| cedar_policy::Schema::from_json_value(j.clone())) {
        Ok(Ok(p)) => {
            let ps: &ValidatorSchema = p.as_ref();
            if ps != &a {
                out.propfail("public and core loaders disagree", case, &format!("JSON {j}"));
            }
        }
        _ => out.propfail("public and core loaders disagree", case, &format!("public Schema::from_json_value rejects JSON {j}")),
    }
    let text = match json_to_cedar(j) {
        Ok(t) => t,
        Err(reason) => {
            out.count(&format!("xlate_fail:json->cedar:{kind}:{reason}"));
            if reason == "PANIC" {
                out.propfail("translation panicked", case, &format!("to_cedarschema on JSON {j}"));
            }
            return Some(a);
        }
    };
    out.count(&format!("xlate_ok:json->cedar:{kind}"));
    // the public fragment prints the same text
    match guard(|| cedar_policy::SchemaFragment::from_json_value(j.clone()).ok().and_then(|f| f.to_cedarschema().ok())) {
        Ok(Some(t2)) if t2 == text => {}
        other => out.propfail("public and core translations disagree", case, &format!("JSON {j}: core={text:?} public={other:?}")),
    }
    let jsrc = j.to_string();
    match load_cedar(&text) {
        Ok(b) => {
            if report_unequal(out, case, "json->cedar", &a, &b, &jsrc, &text, Some(j)) {
                compare_verdicts(out, r, case, "json->cedar", &a, &b, world);
            }
        }
        Err(c) => {
            let expl = explain_load_failure(j, &c);
            out.count(&format!("unloadable:json->cedar:{expl}"));
            out.propfail("translated schema does not load", case, &format!("json->cedar {expl}: {c}: source={jsrc} :: translated={text}"))
        }
    }
    // one more hop: the produced text back to JSON
    match cedar_to_json(&text) {
        Ok(j2) => match load_json(&j2) {
            Ok(a2) => {
                report_unequal(out, case, "json->cedar->json", &a, &a2, &jsrc, &j2.to_string(), Some(j));
            }
            Err(c) => {
                let expl = explain_load_failure(j, &c);
                out.count(&format!("unloadable:json->cedar->json:{expl}"));
                out.propfail("translated schema does not load", case, &format!("json->cedar->json {expl}: {c}: source={jsrc} :: translated={j2}"))
            }
        },
        Err(reason) => {
            // the printer's own output is not translatable back
            out.propfail("translated schema does not load", case, &format!("json->cedar->json: translation of printed text failed ({reason}): {text}"));
        }
    }
    Some(a)
}

/// Cedar input: C, D (and C2 through one more hop)
fn check_cedar_input(out: &mut Out, r: &mut Rng, case: &str, kind: &str, text: &str) -> Option<ValidatorSchema> {
    let c = match load_cedar(text) {
        Ok(c) => c,
        Err(cl) => {
            out.count(&format!("cedar_input_rejected:{kind}:{cl}"));
            if cl == "PANIC" {
                out.propfail("schema loader panicked", case, &format!("Cedar {text}"));
            }
            return None;
        }
    };
    out.count(&format!("cedar_input_accepted:{kind}"));
    match guard(|| cedar_policy::Schema::from_cedarschema_str(text).map(|x| x.0)) {
        Ok(Ok(p)) => {
            let ps: &ValidatorSchema = p.as_ref();
            if ps != &c {
                out.propfail("public and core loaders disagree", case, &format!("Cedar {text}"));
            }
        }
        _ => out.propfail("public and core loaders disagree", case, &format!("public Schema::from_cedarschema_str rejects {text}")),
    }
    let j = match cedar_to_json(text) {
        Ok(j) => j,
        Err(reason) => {
            out.count(&format!("xlate_fail:cedar->json:{kind}:{reason}"));
            return Some(c);
        }
    };
    out.count(&format!("xlate_ok:cedar->json:{kind}"));
    // the core fragment serialises to the same JSON
    match guard(|| Fragment::<RawName>::from_cedarschema_str(text, ext()).ok().and_then(|(f, _)| serde_json::to_value(&f).ok())) {
        Ok(Some(j2)) if j2 == j => {}
        other => out.propfail("public and core translations disagree", case, &format!("Cedar {text}: public={j} core={other:?}")),
    }
    match load_json(&j) {
        Ok(d) => {
            if report_unequal(out, case, "cedar->json", &c, &d, text, &j.to_string(), None) {
                compare_verdicts(out, r, case, "cedar->json", &c, &d, None);
            }
        }
        Err(cl) => out.propfail("translated schema does not load", case, &format!("cedar->json: {cl}: source={text} :: translated={j}")),
    }
    match json_to_cedar(&j) {
        Ok(t2) => match load_cedar(&t2) {
            Ok(c2) => {
                report_unequal(out, case, "cedar->json->cedar", &c, &c2, text, &t2, None);
            }
            Err(cl) => out.propfail("translated schema does not load", case, &format!("cedar->json->cedar: {cl}: source={text} :: translated={t2}")),
        },
        Err(reason) => out.count(&format!("xlate_fail:cedar->json->cedar:{kind}:{reason}")),
    }
    Some(c)
}

// ------------------------------------------------------------------------------------------------
// model lines: type expressions
// ------------------------------------------------------------------------------------------------

/// `json_schema::Type` → sexp (annotations dropped; `None` for open records, which the Cedar syntax cannot express)
fn ty_sx(t: &json_schema::Type<RawName>) -> Option<String> {
    use json_schema::{Type as T, TypeVariant as V};
    Some(match t {
        T::CommonTypeRef { type_name, .. } => format!("(cref {})", qs(&type_name.to_string())),
        T::Type { ty, .. } => match ty {
            V::Boolean => "bool".into(),
            V::Long => "long".into(),
            V::String => "string".into(),
            V::Set { element } => format!("(set {})", ty_sx(element)?),
            V::Entity { name } => format!("(entity {})", qs(&name.to_string())),
            V::EntityOrCommon { type_name } => format!("(eoc {})", qs(&type_name.to_string())),
            V::Extension { name } => format!("(ext {})", qs(&name.to_string())),
            V::Record(rt) => {
                if rt.additional_attributes {
                    return None;
                }
                let mut s = String::from("(record");
                for (k, a) in &rt.attributes {
                    s.push_str(&format!(" ({} {} {})", qs(k), if a.required { "req" } else { "opt" }, ty_sx(&a.ty)?));
                }
                s.push(')');
                s
            }
        },
    })
}

fn strip_annotations(t: &json_schema::Type<RawName>) -> json_schema::Type<RawName> {
    use json_schema::{Type as T, TypeVariant as V};
    match t {
        T::Type { ty: V::Set { element }, loc } => T::Type { ty: V::Set { element: Box::new(strip_annotations(element)) }, loc: loc.clone() },
        T::Type { ty: V::Record(rt), loc } => T::Type {
            ty: V::Record(json_schema::RecordType {
                attributes: rt.attributes.iter().map(|(k, a)| {
                    let mut a2 = a.clone();
                    a2.ty = strip_annotations(&a.ty);
                    a2.annotations = Default::default();
                    (k.clone(), a2)
                }).collect(),
                additional_attributes: rt.additional_attributes,
            }),
            loc: loc.clone(),
        },
        other => other.clone(),
    }
}

/// lexer of the Cedar schema syntax (the `match` block of grammar.lalrpop); string literals are unescaped by the
/// real `to_unescaped_string`.  `None`: not lexable.
fn lex(src: &str) -> Option<Vec<String>> {
    let cs: Vec<char> = src.chars().collect();
    let mut i = 0;
    let mut toks = Vec::new();
    while i < cs.len() {
        let c = cs[i];
        if c.is_whitespace() {
            i += 1;
        } else if c == '/' && cs.get(i + 1) == Some(&'/') {
            while i < cs.len() && cs[i] != '\n' && cs[i] != '\r' {
                i += 1;
            }
        } else if c == '_' || c.is_ascii_alphabetic() {
            let st = i;
            while i < cs.len() && (cs[i] == '_' || cs[i].is_ascii_alphanumeric()) {
                i += 1;
            }
            toks.push(format!("(id {})", qs(&cs[st..i].iter().collect::<String>())));
        } else if c == '"' {
            let st = i + 1;
            i += 1;
            loop {
                match cs.get(i) {
                    None => return None,
                    Some('\\') => i += 2,
                    Some('"') => break,
                    Some(_) => i += 1,
                }
            }
            let raw: String = cs[st..i.min(cs.len())].iter().collect();
            i += 1;
            let un = cedar_policy_core::parser::unescape::to_unescaped_string(&raw).ok()?;
            toks.push(format!("(str {})", qs(&un)));
        } else {
            let t = match c {
                ',' => "comma",
                ';' => "semi",
                ':' => {
                    if cs.get(i + 1) == Some(&':') {
                        i += 1;
                        "dcolon"
                    } else {
                        "colon"
                    }
                }
                '{' => "lb",
                '}' => "rb",
                '[' => "lk",
                ']' => "rk",
                '<' => "lt",
                '>' => "gt",
                '=' => "eq",
                '?' => "q",
                '@' => "at",
                '(' => "lp",
                ')' => "rp",
                _ => return None,
            };
            toks.push(t.to_string());
            i += 1;
        }
    }
    Some(toks)
}

/// drop `@key` / `@key("value")` groups (annotations are not part of the model's type expressions)
fn drop_annotations(toks: Vec<String>) -> Vec<String> {
    let mut res = Vec::new();
    let mut i = 0;
    while i < toks.len() {
        if toks[i] == "at" && i + 1 < toks.len() {
            i += 2;
            if i + 2 < toks.len() && toks[i] == "lp" && toks[i + 1].starts_with("(str ") && toks[i + 2] == "rp" {
                i += 3;
            }
        } else {
            res.push(toks[i].clone());
            i += 1;
        }
    }
    res
}

fn all_types(f: &Fragment<RawName>) -> Vec<json_schema::Type<RawName>> {
    fn sub(t: &json_schema::Type<RawName>, acc: &mut Vec<json_schema::Type<RawName>>) {
        use json_schema::{Type as T, TypeVariant as V};
        acc.push(t.clone());
        match t {
            T::Type { ty: V::Set { element }, .. } => sub(element, acc),
            T::Type { ty: V::Record(rt), .. } => {
                for a in rt.attributes.values() {
                    sub(&a.ty, acc);
                }
            }
            _ => {}
        }
    }
    let mut acc = Vec::new();
    for ns in f.0.values() {
        for c in ns.common_types.values() {
            sub(&c.ty, &mut acc);
        }
        for e in ns.entity_types.values() {
            if let json_schema::EntityTypeKind::Standard(s) = &e.kind {
                sub(&s.shape.0, &mut acc);
                if let Some(t) = &s.tags {
                    sub(t, &mut acc);
                }
            }
        }
        for a in ns.actions.values() {
            if let Some(ap) = &a.applies_to {
                sub(&ap.context.0, &mut acc);
            }
        }
    }
    acc
}

/// `(sty print …)`: the real printer on a type expression of the fragment, tokenised
fn emit_print(out: &mut Out, case: &str, t: &json_schema::Type<RawName>) {
    let t = strip_annotations(t);
    let Some(sx) = ty_sx(&t) else { return };
    let printed = t.to_string();
    let Some(toks) = lex(&printed) else {
        out.propfail("printer output is not lexable", case, &printed);
        return;
    };
    out.nontrivial(&format!("print|{sx}"));
    out.count("model:print");
    out.line(format!("(sty print {sx})"), format!("(toks {})", toks.join(" ")).replace("(toks )", "(toks)"), format!("{case} print {printed:?}"));
}

/// `(sty parse …)`: the real parser on `type T__ = <text>;`
fn emit_parse(out: &mut Out, case: &str, text: &str) {
    let Some(toks) = lex(text) else { return };
    let annotated = toks.iter().any(|t| t == "at");
    let toks = drop_annotations(toks);
    if toks.iter().any(|t| t == "semi" || t == "at") {
        return;
    }
    let src = format!("type T__ = {text};");
    let imp = match guard(|| Fragment::<RawName>::from_cedarschema_str(&src, ext()).map(|x| x.0)) {
        Ok(Ok(f)) => {
            let ts: Vec<_> = f.0.values().flat_map(|ns| ns.common_types.values()).collect();
            if ts.len() != 1 || f.0.len() != 1 {
                return;
            }
            match ty_sx(&ts[0].ty) {
                Some(s) => format!("(ok {s})"),
                None => return,
            }
        }
        // annotations are erased for the model: a rejection of an annotated text may be about them (duplicate keys)
        Ok(Err(_)) if annotated => {
            out.count("model:parse:skipped-annotated-rejected");
            return;
        }
        Ok(Err(_)) => "(err)".to_string(),
        Err(_) => {
            out.propfail("schema parser panicked", case, &src);
            return;
        }
    };
    out.nontrivial(&format!("parse|{}", toks.join(" ")));
    out.count(if imp == "(err)" { "model:parse:err" } else { "model:parse:ok" });
    out.line(format!("(sty parse (toks {}))", toks.join(" ")).replace("(toks )", "(toks)"), imp, format!("{case} parse {text:?}"));
}

/// `(sty parse-entity …)`: the real parser on one standard entity declaration (empty namespace, no resolution)
fn emit_parse_entity(out: &mut Out, case: &str, text: &str) {
    let Some(toks) = lex(text) else { return };
    if toks.iter().any(|t| t == "at") {
        return;
    }
    let imp = match guard(|| Fragment::<RawName>::from_cedarschema_str(text, ext()).map(|x| x.0)) {
        Ok(Ok(f)) => {
            if f.0.len() != 1 {
                return;
            }
            let Some(ns) = f.0.values().next() else { return };
            if !ns.common_types.is_empty() || !ns.actions.is_empty() || ns.entity_types.is_empty() {
                return;
            }
            let mut names: Vec<String> = ns.entity_types.keys().map(|k| qs(&k.to_string())).collect();
            names.sort();
            let Some(first) = ns.entity_types.values().next() else { return };
            let json_schema::EntityTypeKind::Standard(st) = &first.kind else { return };
            let (Some(shape), tags) = (ty_sx(&strip_annotations(&st.shape.0)), st.tags.as_ref().map(|t| ty_sx(&strip_annotations(t)))) else { return };
            let tags = match tags {
                None => "(notags)".to_string(),
                Some(Some(t)) => format!("(tags {t})"),
                Some(None) => return,
            };
            format!("(ok (names{}) (in{}) {shape} {tags})", names.iter().map(|n| format!(" {n}")).collect::<String>(),
                st.member_of_types.iter().map(|m| format!(" {}", qs(&m.to_string()))).collect::<String>())
        }
        Ok(Err(e)) => {
            // a repeated name is refused after parsing (not part of the grammar the model mirrors)
            let msg = format!("{e:?}");
            if msg.contains("Duplicate") || msg.contains("duplicate") {
                out.count("model:parse-entity:skipped-duplicate-name");
                return;
            }
            "(err)".to_string()
        }
        Err(_) => {
            out.propfail("schema parser panicked", case, text);
            return;
        }
    };
    out.nontrivial(&format!("parse-entity|{}", toks.join(" ")));
    out.count(if imp == "(err)" { "model:parse-entity:err" } else { "model:parse-entity:ok" });
    out.line(format!("(sty parse-entity (toks {}))", toks.join(" ")), imp, format!("{case} parse-entity {text:?}"));
}

/// entity declaration texts: every optional part of the `Entity` production in every form, keywords as names, and
/// single-token mutations
fn entity_decl_texts(r: &mut Rng, n: usize) -> Vec<String> {
    let names = ["A", "B", "User", "in", "tags", "entity", "Set", "enum", "type", "namespace", "action", "Long", "if", "true", "__cedar", "_x1"];
    let paths = ["G", "NS::G", "A::B::C", "Set", "in", "tags", "NS::if", "__cedar::Long", "Long"];
    let shapes = ["{}", "{ a: Long }", "{ a: Long, }", "{ a?: Set<String>, \"b c\": NS::T }", "{ a: { b?: Long } }", "{ tags: tags, in?: in }", "{ a Long }", "{ a: }", "Set<Long>", "T"];
    let tys = ["String", "Set<String>", "NS::T", "{ a: Long }", "Set<Set<Long>>", "Set", "tags", "", "Set<"];
    let mut res = Vec::new();
    for _ in 0..n {
        let mut t = String::from("entity ");
        let k = 1 + r.below(3);
        let mut used: Vec<&str> = Vec::new();
        for i in 0..k {
            let mut nm = *r.pick(&names);
            while used.contains(&nm) { nm = *r.pick(&names); }
            used.push(nm);
            if i > 0 { t.push_str(", "); }
            t.push_str(nm);
        }
        match r.below(6) {
            0 => {}
            1 => { t.push_str(" in "); t.push_str(*r.pick(&paths)); }
            2 => t.push_str(" in []"),
            _ => {
                let m = 1 + r.below(3);
                t.push_str(" in [");
                for i in 0..m { if i > 0 { t.push_str(", "); } t.push_str(*r.pick(&paths)); }
                t.push(']');
            }
        }
        match r.below(4) {
            0 => {}
            1 => { t.push(' '); t.push_str(*r.pick(&shapes)); }
            _ => { t.push_str(" = "); t.push_str(*r.pick(&shapes)); }
        }
        if r.chance(50) { t.push_str(" tags "); t.push_str(*r.pick(&tys)); }
        t.push(';');
        if r.chance(25) {
            let reps: &[(&str, &str)] = &[(";", ""), (";", ";;"), (",", ",,"), (",", ""), ("[", ""), ("]", ""), ("=", "= ="), ("in", "in in"), ("tags", "tags tags"), ("entity", ""), ("]", ",]"), ("{", "= {")];
            let (a, b) = *r.pick(reps);
            t = t.replacen(a, b, 1);
        }
        res.push(t);
    }
    res
}

/// single-token mutations of a type expression text (the parser must reject / accept like the model)
fn mutate_text(r: &mut Rng, text: &str) -> String {
    let reps: &[(&str, &str)] = &[
        (">", ""), ("<", ""), (":", ""), (",", ",,"), ("{", ""), ("}", ""), ("::", ":"), ("::", ":: ::"), ("?", "??"), ("Set<", "Set<Set<"),
        ("Long", "if"), ("String", "in"), ("Bool", "__cedar"), (":", "?:"), ("}", ",}"), ("{", "{,"), ("Set", "Set Set"), (">", ">>"), ("\"", ""),
    ];
    for _ in 0..8 {
        let (from, to) = *r.pick(reps);
        let idx: Vec<usize> = text.match_indices(from).map(|x| x.0).collect();
        if !idx.is_empty() {
            let i = *r.pick(&idx);
            return format!("{}{}{}", &text[..i], to, &text[i + from.len()..]);
        }
    }
    format!("{text} {text}")
}

// ------------------------------------------------------------------------------------------------
// model lines, declaration / fragment level: `(sty print-frag …)`, `(sty parse-frag …)`
// ------------------------------------------------------------------------------------------------

/// `(frag (ns …)…)` of a JSON-form fragment; `sorted`: entries and namespaces sorted by their encoding (the canonical form of a
/// parse result), otherwise in `BTreeMap` iteration order (what the printer walks).  `None`: outside the model's data
/// (additional attributes, an entity shape that is not a record).
fn frag_sx(f: &Fragment<RawName>, sorted: bool) -> Option<String> {
    frag_sx_nonrec(f, sorted, &mut None)
}

/// as `frag_sx`; with `nonrec = Some(_)` an entity type whose shape is not a record literal is encoded with the empty record and its
/// fully qualified name is pushed (in the order fmt.rs meets them: namespace order, entity-type key order)
fn frag_sx_nonrec(f: &Fragment<RawName>, sorted: bool, nonrec: &mut Option<Vec<String>>) -> Option<String> {
    fn join(mut v: Vec<String>, sorted: bool) -> String {
        if sorted {
            v.sort();
        }
        v.iter().map(|x| format!(" {x}")).collect()
    }
    let names = |v: &Vec<RawName>| v.iter().map(|m| format!(" {}", qs(&m.to_string()))).collect::<String>();
    let mut nss = Vec::new();
    for (name, ns) in f.0.iter() {
        let mut commons = Vec::new();
        for (n, c) in &ns.common_types {
            commons.push(format!("({} {})", qs(&n.to_string()), ty_sx(&strip_annotations(&c.ty))?));
        }
        let mut ents = Vec::new();
        for (n, e) in &ns.entity_types {
            let body = match &e.kind {
                json_schema::EntityTypeKind::Enum { choices } => {
                    format!("(enum{})", choices.iter().map(|c| { let s: &str = c.as_ref(); format!(" {}", qs(s)) }).collect::<String>())
                }
                json_schema::EntityTypeKind::Standard(st) => {
                    let mut shape = strip_annotations(&st.shape.0);
                    if !matches!(shape, json_schema::Type::Type { ty: json_schema::TypeVariant::Record(_), .. }) {
                        match nonrec {
                            Some(v) => {
                                v.push(match name { None => n.to_string(), Some(ns) => format!("{ns}::{n}") });
                                shape = json_schema::Type::Type { ty: json_schema::TypeVariant::Record(json_schema::RecordType { attributes: BTreeMap::new(), additional_attributes: false }), loc: None };
                            }
                            None => return None,
                        }
                    }
                    let tags = match &st.tags {
                        None => "(notags)".to_string(),
                        Some(t) => format!("(tags {})", ty_sx(&strip_annotations(t))?),
                    };
                    format!("(std (in{}) {} {tags})", names(&st.member_of_types), ty_sx(&shape)?)
                }
            };
            ents.push(format!("({} {body})", qs(&n.to_string())));
        }
        let mut acts = Vec::new();
        for (n, a) in &ns.actions {
            let m = match &a.member_of {
                None => "(noin)".to_string(),
                Some(rs) => format!("(in{})", rs.iter().map(|r| format!(" (ref {} {})", match &r.ty { Some(t) => qs(&t.to_string()), None => "none".to_string() }, qs(&r.id))).collect::<String>()),
            };
            let ap = match &a.applies_to {
                None => "(noapplies)".to_string(),
                Some(ap) => format!("(applies (p{}) (r{}) {})", names(&ap.principal_types), names(&ap.resource_types), ty_sx(&strip_annotations(&ap.context.0))?),
            };
            acts.push(format!("({} (act {m} {ap}))", qs(n)));
        }
        let nm = match name { None => String::new(), Some(n) => n.to_string() };
        nss.push(format!("(ns {} (commons{}) (entities{}) (actions{}))", qs(&nm), join(commons, sorted), join(ents, sorted), join(acts, sorted)));
    }
    Some(format!("(frag{})", join(nss, sorted)))
}

/// `(sty print-frag …)`: the real `to_cedarschema` on a whole fragment, tokenised (annotations dropped), against the model's printer
fn emit_frag_print(out: &mut Out, case: &str, f: &Fragment<RawName>) -> Option<String> {
    let Ok(Ok(text)) = guard(|| f.to_cedarschema()) else { return None };
    let sx = frag_sx(f, false)?;
    let Some(toks) = lex(&text) else {
        out.propfail("printer output is not lexable", case, &text);
        return None;
    };
    let toks = drop_annotations(toks);
    out.nontrivial(&format!("print-frag|{sx}"));
    out.count("model:print-frag");
    out.add("model:print-frag:tokens", toks.len() as u64);
    out.line(format!("(sty print-frag {sx})"), format!("(toks {})", toks.join(" ")).replace("(toks )", "(toks)"), format!("{case} print-frag {text:?}"));
    Some(text)
}

/// `(sty parse-frag …)`: the real schema parser + to_json_schema.rs on a whole text against the model's parser
fn emit_frag_parse(out: &mut Out, case: &str, text: &str) {
    emit_frag_collect(out, case, text);
    let Some(toks) = lex(text) else { return };
    let annotated = toks.iter().any(|t| t == "at");
    let toks = drop_annotations(toks);
    if toks.iter().any(|t| t == "at" || t == "lp" || t == "rp") {
        return;
    }
    let imp = match guard(|| Fragment::<RawName>::from_cedarschema_str(text, ext()).map(|x| x.0)) {
        Ok(Ok(f)) => match frag_sx(&f, true) {
            Some(s) => format!("(ok {s})"),
            None => return,
        },
        Ok(Err(e)) => {
            // repeated declarations / namespaces are refused after parsing (`build_namespace_bindings`: not modelled);
            // annotations are erased for the model: a rejection of an annotated text may be about them
            let msg = format!("{e:?}");
            if msg.contains("Duplicate") || msg.contains("duplicate") {
                out.count("model:parse-frag:skipped-duplicate");
                return;
            }
            if annotated {
                out.count("model:parse-frag:skipped-annotated-rejected");
                return;
            }
            "(err)".to_string()
        }
        Err(_) => {
            out.propfail("schema parser panicked", case, text);
            return;
        }
    };
    out.nontrivial(&format!("parse-frag|{}", toks.join(" ")));
    out.count(if imp == "(err)" { "model:parse-frag:err" } else { "model:parse-frag:ok" });
    out.line(format!("(sty parse-frag (toks {}))", toks.join(" ")).replace("(toks )", "(toks)"), imp, format!("{case} parse-frag {text:?}"));
}

// ------------------------------------------------------------------------------------------------
// `(sty collect-frag …)`: the BTreeMap collection of to_json_schema.rs with its duplicate detection
// ------------------------------------------------------------------------------------------------

/// class of the FIRST error of `Fragment::from_cedarschema_str`: `CedarSchemaError::Parsing(CedarSchemaParseError)` whose
/// `errors()` is `CedarSchemaParseErrors::SyntaxError(_)` (→ syntax) or `CedarSchemaParseErrors::JsonError(ToJsonSchemaErrors)`,
/// first element `ToJsonSchemaError::DuplicateDeclarations(_)` (→ dup-decl) / `ToJsonSchemaError::DuplicateNamespaces(_)`
/// (→ dup-ns) / anything else (→ syntax).  Second component: the list also holds a `ToJsonSchemaError::ReservedName`.
fn collect_err_class(e: &cedar_policy_core::validator::CedarSchemaError) -> (&'static str, bool) {
    use cedar_policy_core::validator::cedar_schema::parser::CedarSchemaParseErrors as PE;
    use cedar_policy_core::validator::CedarSchemaError as CE;
    match e {
        CE::Parsing(pe) => match pe.errors() {
            PE::JsonError(errs) => {
                let vs: Vec<String> = errs.iter().map(|x| variant_of(&format!("{x:?}"))).collect();
                let reserved = vs.iter().any(|v| v == "ReservedName");
                match vs.first().map(|x| x.as_str()) {
                    Some("DuplicateDeclarations") => ("dup-decl", reserved),
                    Some("DuplicateNamespaces") => ("dup-ns", reserved),
                    _ => ("syntax", reserved),
                }
            }
            _ => ("syntax", false),
        },
        _ => ("syntax", false),
    }
}

/// does some SINGLE declaration (or namespace header) of the text fail to convert on its own?  (the real grammar, then the real
/// `cedar_schema_to_json_schema` on one-declaration schemas; a duplicate inside one multi-name declaration does not count)
fn has_conversion_error(text: &str) -> bool {
    use cedar_policy_core::validator::cedar_schema::{parser::parse_schema, to_json_schema::cedar_schema_to_json_schema};
    let Ok(Ok(schema)) = guard(|| parse_schema(text)) else { return false };
    let bad = |one| match guard(|| cedar_schema_to_json_schema(one, ext()).map(|x| x.0)) {
        Ok(Ok(_)) => false,
        Ok(Err(errs)) => errs.iter().any(|x| !variant_of(&format!("{x:?}")).starts_with("Duplicate") || variant_of(&format!("{x:?}")) == "DuplicateContext" || variant_of(&format!("{x:?}")) == "DuplicatePrincipalOrResource"),
        Err(_) => true,
    };
    for ns in &schema {
        let mut hdr = ns.clone();
        hdr.data.decls = vec![];
        if bad(vec![hdr]) {
            return true;
        }
        for d in &ns.data.decls {
            let mut one = ns.clone();
            one.data.decls = vec![d.clone()];
            if bad(vec![one]) {
                return true;
            }
        }
    }
    false
}

/// `(sty collect-frag (toks …))`: reply `(ok <frag in BTreeMap iteration order>)` | `(err dup-decl|dup-ns|syntax)`
fn emit_frag_collect(out: &mut Out, case: &str, text: &str) {
    let Some(toks) = lex(text) else { return };
    let annotated = toks.iter().any(|t| t == "at");
    let toks = drop_annotations(toks);
    if toks.iter().any(|t| t == "at" || t == "lp" || t == "rp") {
        return;
    }
    let imp = match guard(|| Fragment::<RawName>::from_cedarschema_str(text, ext()).map(|x| x.0)) {
        Ok(Ok(f)) => match frag_sx(&f, false) {
            Some(s) => format!("(ok {s})"),
            None => return,
        },
        Ok(Err(e)) => {
            let (class, reserved) = collect_err_class(&e);
            if class == "syntax" && annotated {
                // annotations are erased for the model: the rejection may be about them
                out.count("model:collect-frag:skipped-annotated-rejected");
                return;
            }
            if class != "syntax" && (reserved || has_conversion_error(text)) {
                // Rust looks for duplicates BEFORE converting the declarations, the model converts first (SchemaCollect.lean header)
                out.count("model:collect-frag:skipped-duplicate-and-conversion-error");
                return;
            }
            format!("(err {class})")
        }
        Err(_) => {
            out.propfail("schema parser panicked", case, text);
            return;
        }
    };
    out.nontrivial(&format!("collect-frag|{}", toks.join(" ")));
    out.count(&format!("model:collect-frag:{}", if imp.starts_with("(ok") { "ok" } else { &imp[5..imp.len() - 1] }));
    out.line(format!("(sty collect-frag (toks {}))", toks.join(" ")).replace("(toks )", "(toks)"), imp, format!("{case} collect-frag {text:?}"));
}

/// the top-level structure of a schema text: the declarations (start, end, inside a namespace block?) and the namespace blocks
fn decl_spans(text: &str) -> (Vec<(usize, usize, bool)>, Vec<(usize, usize)>) {
    let b = text.as_bytes();
    let (mut decls, mut nss) = (Vec::new(), Vec::new());
    let (mut i, mut depth, mut start) = (0usize, 0usize, 0usize);
    let mut ns_start: Option<usize> = None;
    let mut in_ns = false;
    while i < b.len() {
        match b[i] {
            b'"' => {
                i += 1;
                while i < b.len() && b[i] != b'"' {
                    i += if b[i] == b'\\' { 2 } else { 1 };
                }
            }
            b'/' if b.get(i + 1) == Some(&b'/') => {
                while i < b.len() && b[i] != b'\n' {
                    i += 1;
                }
            }
            b'n' if depth == 0 && !in_ns && text[i..].starts_with("namespace") && (i == 0 || !(b[i - 1].is_ascii_alphanumeric() || b[i - 1] == b'_'))
                && !b.get(i + 9).map_or(false, |c| c.is_ascii_alphanumeric() || *c == b'_') && text[start..i].trim().chars().all(|c| c != ';') =>
            {
                // annotations before `namespace` belong to the block
                ns_start = Some(start);
                i += 8;
            }
            b'{' => {
                if depth == 0 && ns_start.is_some() && !in_ns {
                    in_ns = true;
                    start = i + 1;
                }
                depth += 1;
            }
            b'}' => {
                depth = depth.saturating_sub(1);
                if depth == 0 && in_ns {
                    if let Some(s) = ns_start.take() {
                        nss.push((s, i + 1));
                    }
                    in_ns = false;
                    start = i + 1;
                }
            }
            b';' if depth == (if in_ns { 1 } else { 0 }) => {
                decls.push((start, i + 1, in_ns));
                start = i + 1;
            }
            _ => {}
        }
        i += 1;
    }
    (decls, nss)
}

/// texts with a repeated declaration (in the same namespace), a repeated namespace block, or both
fn dup_texts(r: &mut Rng, text: &str) -> Vec<(&'static str, String)> {
    let (decls, nss) = decl_spans(text);
    let mut res = Vec::new();
    let dup_decl = |r: &mut Rng, t: &str| -> Option<String> {
        let (decls, _) = decl_spans(t);
        if decls.is_empty() {
            return None;
        }
        let (s, e, in_ns) = *r.pick(&decls);
        // a bare declaration may be repeated anywhere at top level (all bare declarations form ONE namespace)
        if !in_ns && r.chance(50) {
            Some(format!("{t} {}", &t[s..e]))
        } else {
            Some(format!("{}{} {}{}", &t[..e], "", &t[s..e], &t[e..]))
        }
    };
    if !decls.is_empty() {
        if let Some(t) = dup_decl(r, text) {
            res.push(("dup-decl", t));
        }
    }
    if !nss.is_empty() {
        let (s, e) = *r.pick(&nss);
        let t = if r.chance(50) { format!("{text} {}", &text[s..e]) } else { format!("{} {text}", &text[s..e]) };
        if let Some(t2) = dup_decl(r, &t) {
            res.push(("dup-both", t2));
        }
        res.push(("dup-ns", t));
    }
    res
}

fn emit_dup_lines(out: &mut Out, r: &mut Rng, case: &str, text: &str) {
    for (kind, t) in dup_texts(r, text) {
        out.count(&format!("dup_family:{kind}"));
        emit_frag_collect(out, &format!("{case} {kind}"), &t);
        if r.chance(30) {
            emit_frag_collect(out, &format!("{case} {kind} mutated"), &mutate_decl_text(r, &t));
        }
    }
}

// ------------------------------------------------------------------------------------------------
// `(sty to-cedar-checked …)`: the refusals of fmt.rs `json_schema_to_cedar_schema_str`
// ------------------------------------------------------------------------------------------------

/// the real `Fragment::to_cedarschema()`: `Ok(text)` → `(toks …)`; `Err(ToCedarSchemaSyntaxError::NameCollisions(_))` → `(err collision)`;
/// `Err(ToCedarSchemaSyntaxError::UnconvertibleEntityTypeShape(_))` → `(err nonrecord)`
fn emit_to_cedar_checked(out: &mut Out, case: &str, f: &Fragment<RawName>) {
    use cedar_policy_core::validator::cedar_schema::fmt::ToCedarSchemaSyntaxError as E;
    let mut nonrec = Some(Vec::new());
    let Some(sx) = frag_sx_nonrec(f, false, &mut nonrec) else { return };
    let nonrec = nonrec.unwrap_or_default();
    let imp = match guard(|| f.to_cedarschema()) {
        Ok(Ok(text)) => {
            let Some(toks) = lex(&text) else {
                out.propfail("printer output is not lexable", case, &text);
                return;
            };
            format!("(toks {})", drop_annotations(toks).join(" ")).replace("(toks )", "(toks)")
        }
        Ok(Err(E::NameCollisions(_))) => "(err collision)".to_string(),
        Ok(Err(E::UnconvertibleEntityTypeShape(_))) => "(err nonrecord)".to_string(),
        Err(_) => {
            out.propfail("to_cedarschema panicked", case, &sx);
            return;
        }
    };
    let req = format!("(sty to-cedar-checked {sx} (nonrec{}))", nonrec.iter().map(|n| format!(" {}", qs(n))).collect::<String>());
    out.nontrivial(&format!("to-cedar-checked|{req}"));
    out.count(&format!("model:to-cedar-checked:{}", if imp.starts_with("(toks") { "ok" } else { &imp[5..imp.len() - 1] }));
    out.line(req, imp, format!("{case} to-cedar-checked"));
}

/// JSON fragments with an entity type and a common type of the same name (in a named / in the empty namespace; the name also
/// referenced through `Set<…>` and a record) and with entity shapes that are not record literals
fn clash_jsons(r: &mut Rng, j: &J) -> Vec<(&'static str, J)> {
    fn ns_mut<'a>(j: &'a mut J, ns: &str) -> &'a mut Map<String, J> {
        let m = j.as_object_mut().unwrap();
        let e = m.entry(ns.to_string()).or_insert_with(|| json!({"entityTypes": {}, "actions": {}}));
        e.as_object_mut().unwrap()
    }
    fn add_clash(r: &mut Rng, j: &mut J, ns: &str) {
        let d = ns_mut(j, ns);
        let ents: Vec<String> = d.get("entityTypes").and_then(|e| e.as_object()).map(|e| e.keys().cloned().collect()).unwrap_or_default();
        let name = if ents.is_empty() || r.chance(20) { "Clash".to_string() } else { r.pick(&ents).clone() };
        if let Some(e) = d.get_mut("entityTypes").and_then(|e| e.as_object_mut()) {
            e.entry(name.clone()).or_insert_with(|| json!({}));
        }
        let cs = d.entry("commonTypes".to_string()).or_insert_with(|| json!({}));
        if let Some(cs) = cs.as_object_mut() {
            cs.insert(name.clone(), json!({"type": "Long"}));
            match r.below(4) {
                0 => { cs.insert("ClashRefSet".into(), json!({"type": "Set", "element": {"type": "EntityOrCommon", "name": name}})); }
                1 => { cs.insert("ClashRefRec".into(), json!({"type": "Record", "attributes": {"a": {"type": "Entity", "name": name}, "b": {"type": "Set", "element": {"type": name}}}})); }
                2 => {
                    if let Some(e) = d.get_mut("entityTypes").and_then(|e| e.as_object_mut()) {
                        e.insert("ClashUser".into(), json!({"shape": {"type": "Record", "attributes": {"a": {"type": "Set", "element": {"type": "Entity", "name": name}}}}}));
                    }
                }
                _ => {}
            }
        }
    }
    fn add_nonrec(r: &mut Rng, j: &mut J, ns: &str) {
        let d = ns_mut(j, ns);
        let shapes = [
            json!({"type": "Long"}), json!({"type": "String"}), json!({"type": "Set", "element": {"type": "Long"}}),
            json!({"type": "EntityOrCommon", "name": "NonRecShape"}), json!({"type": "NonRecShape"}), json!({"type": "Extension", "name": "ipaddr"}),
        ];
        let shape = r.pick(&shapes).clone();
        let cs = d.entry("commonTypes".to_string()).or_insert_with(|| json!({}));
        if let Some(cs) = cs.as_object_mut() {
            cs.insert("NonRecShape".into(), json!({"type": "Record", "attributes": {"x": {"type": "Long"}}}));
        }
        if let Some(e) = d.get_mut("entityTypes").and_then(|e| e.as_object_mut()) {
            let std: Vec<String> = e.iter().filter(|(_, v)| v.get("enum").is_none()).map(|(k, _)| k.clone()).collect();
            let name = if std.is_empty() || r.chance(20) { "NonRec".to_string() } else { r.pick(&std).clone() };
            let ent = e.entry(name).or_insert_with(|| json!({}));
            if let Some(ent) = ent.as_object_mut() {
                ent.insert("shape".into(), shape);
            }
        }
    }
    let Some(m) = j.as_object() else { return vec![] };
    let named: Vec<String> = m.keys().filter(|k| !k.is_empty()).cloned().collect();
    let a_named = |r: &mut Rng| if named.is_empty() || r.chance(15) { "Clash::N".to_string() } else { r.pick(&named).clone() };
    let any_ns = |r: &mut Rng| if r.chance(40) { String::new() } else { a_named(r) };
    let mut res = Vec::new();
    let mut a = j.clone();
    let ns = a_named(r);
    add_clash(r, &mut a, &ns);
    res.push(("clash-named", a));
    let mut b = j.clone();
    add_clash(r, &mut b, "");
    res.push(("clash-empty", b));
    let mut c = j.clone();
    let ns = any_ns(r);
    add_nonrec(r, &mut c, &ns);
    res.push(("nonrecord", c));
    let mut d = j.clone();
    let ns = a_named(r);
    add_clash(r, &mut d, &ns);
    let ns = any_ns(r);
    add_nonrec(r, &mut d, &ns);
    res.push(("clash-and-nonrecord", d));
    res
}

fn emit_clash_lines(out: &mut Out, r: &mut Rng, case: &str, j: &J) {
    for (kind, cj) in clash_jsons(r, j) {
        match guard(|| Fragment::<RawName>::from_json_value(cj.clone())) {
            Ok(Ok(f)) => {
                out.count(&format!("clash_family:{kind}"));
                emit_to_cedar_checked(out, &format!("{case} {kind} json={cj}"), &f);
            }
            _ => out.count(&format!("clash_family:{kind}:json-rejected")),
        }
    }
}

// ------------------------------------------------------------------------------------------------
// `(sty print-frag-a …)` / `(sty parse-frag-a …)`: annotations on namespaces and declarations
// ------------------------------------------------------------------------------------------------

fn anns_sx(a: &cedar_policy_core::est::Annotations) -> String {
    format!("(anns{})", a.0.iter().map(|(k, v)| format!(" ({} {})", qs(&k.to_string()), match v { Some(v) => qs(v.val.as_str()), None => "none".to_string() })).collect::<String>())
}

/// the fragment without the annotations on record ATTRIBUTES (outside the model); second component: were there any?
fn strip_attr_annotations(f: &Fragment<RawName>) -> (Fragment<RawName>, bool) {
    let mut g = f.clone();
    let mut any = false;
    let mut fix = |t: &mut json_schema::Type<RawName>| {
        let s = strip_annotations(t);
        if format!("{s:?}") != format!("{t:?}") {
            any = true;
        }
        *t = s;
    };
    for ns in g.0.values_mut() {
        for c in ns.common_types.values_mut() {
            fix(&mut c.ty);
        }
        for e in ns.entity_types.values_mut() {
            if let json_schema::EntityTypeKind::Standard(st) = &mut e.kind {
                fix(&mut st.shape.0);
                if let Some(t) = &mut st.tags {
                    fix(t);
                }
            }
        }
        for a in ns.actions.values_mut() {
            if let Some(ap) = &mut a.applies_to {
                fix(&mut ap.context.0);
            }
        }
    }
    (g, any)
}

/// `(afrag (ns "N" <anns> (commons ("n" <anns> ty)…) (entities …) (actions …))…)` in `BTreeMap` order
fn afrag_sx(f: &Fragment<RawName>) -> Option<String> {
    let plain = frag_sx(f, false)?; // inside the model's data at all?
    let _ = plain;
    let mut nss = Vec::new();
    for (name, ns) in f.0.iter() {
        let one = Fragment(BTreeMap::from([(name.clone(), ns.clone())]));
        let _ = one;
        let mut commons = String::new();
        for (n, c) in &ns.common_types {
            commons += &format!(" ({} {} {})", qs(&n.to_string()), anns_sx(&c.annotations), ty_sx(&c.ty)?);
        }
        let mut ents = String::new();
        for (n, e) in &ns.entity_types {
            // the entry body as `frag_sx` encodes it
            let mut m = ns.clone();
            m.common_types.clear();
            m.actions.clear();
            m.entity_types.retain(|k, _| k == n);
            let enc = frag_sx(&Fragment(BTreeMap::from([(name.clone(), m)])), false)?;
            let key = format!("(entities ({} ", qs(&n.to_string()));
            let st = enc.find(&key)? + key.len();
            let en = enc.rfind(")) (actions")?;
            ents += &format!(" ({} {} {})", qs(&n.to_string()), anns_sx(&e.annotations), &enc[st..en]);
        }
        let mut acts = String::new();
        for (n, a) in &ns.actions {
            let mut m = ns.clone();
            m.common_types.clear();
            m.entity_types.clear();
            m.actions.retain(|k, _| k == n);
            let enc = frag_sx(&Fragment(BTreeMap::from([(name.clone(), m)])), false)?;
            let key = format!("(actions ({} ", qs(n));
            let st = enc.find(&key)? + key.len();
            let en = enc.len() - 4; // entry, `(actions`, `(ns`, `(frag`
            acts += &format!(" ({} {} {})", qs(n), anns_sx(&a.annotations), &enc[st..en]);
        }
        let nm = match name { None => String::new(), Some(n) => n.to_string() };
        nss.push(format!(" (ns {} {} (commons{commons}) (entities{ents}) (actions{acts}))", qs(&nm), anns_sx(&ns.annotations)));
    }
    Some(format!("(afrag{})", nss.concat()))
}

/// the real `to_cedarschema` on a fragment whose record attributes carry no annotations, annotations kept as tokens
fn emit_frag_print_a(out: &mut Out, case: &str, f: &Fragment<RawName>) -> Option<String> {
    let (g, had_attr_anns) = strip_attr_annotations(f);
    if had_attr_anns {
        out.count("model:print-frag-a:attribute-annotations-stripped");
    }
    let Ok(Ok(text)) = guard(|| g.to_cedarschema()) else { return None };
    let sx = afrag_sx(&g)?;
    let Some(toks) = lex(&text) else {
        out.count("model:print-frag-a:skipped-unlexable");
        return None;
    };
    out.nontrivial(&format!("print-frag-a|{sx}"));
    out.count(if sx.contains("(anns (") { "model:print-frag-a:annotated" } else { "model:print-frag-a:plain" });
    out.line(format!("(sty print-frag-a {sx})"), format!("(toks {})", toks.join(" ")).replace("(toks )", "(toks)"), format!("{case} print-frag-a {text:?}"));
    Some(text)
}

/// the real grammar (`cedar_schema::parser::parse_schema`, which runs `deduplicate_annotations`) on a text: the items in source
/// order with their annotation maps (`ast::Annotations`: key order, an absent value is "") and the kind of every declaration
fn emit_frag_parse_a(out: &mut Out, case: &str, text: &str) {
    use cedar_policy_core::validator::cedar_schema::parser::parse_schema;
    let Some(toks) = lex(text) else { return };
    let a_sx = |a: &ast::Annotations| format!("(anns{})", a.iter().map(|(k, v)| format!(" ({} {})", qs(&k.to_string()), qs(v.val.as_str()))).collect::<String>());
    let imp = match guard(|| parse_schema(text)) {
        Ok(Ok(schema)) => {
            if has_conversion_error(text) {
                // reserved names are refused by the model's PARSER, by Rust in the conversion
                out.count("model:parse-frag-a:skipped-conversion-error");
                return;
            }
            let mut items = String::new();
            for ns in &schema {
                let kind = |d: &str| match variant_of(d).as_str() { "Entity" => "entity", "Action" => "action", _ => "type" };
                match &ns.data.name {
                    Some(p) => {
                        items += &format!(" (ns {} {}", qs(&p.to_string()), a_sx(&ns.annotations));
                        for d in &ns.data.decls {
                            items += &format!(" ({} {})", kind(&format!("{:?}", d.data.node)), a_sx(&d.annotations));
                        }
                        items += ")";
                    }
                    None => {
                        for d in &ns.data.decls {
                            items += &format!(" (decl {} {})", kind(&format!("{:?}", d.data.node)), a_sx(&d.annotations));
                        }
                    }
                }
            }
            format!("(ok (items{items}))")
        }
        Ok(Err(_)) => "(err)".to_string(),
        Err(_) => {
            out.propfail("schema parser panicked", case, text);
            return;
        }
    };
    out.nontrivial(&format!("parse-frag-a|{}", toks.join(" ")));
    out.count(if imp == "(err)" { "model:parse-frag-a:err" } else if imp.contains("(anns (") { "model:parse-frag-a:ok-annotated" } else { "model:parse-frag-a:ok-plain" });
    out.line(format!("(sty parse-frag-a (toks {}))", toks.join(" ")).replace("(toks )", "(toks)"), imp, format!("{case} parse-frag-a {text:?}"));
}

/// repeat one `@key…` line (→ `DuplicateAnnotations`) or drop the value of one
fn mutate_ann_text(r: &mut Rng, text: &str) -> String {
    let lines: Vec<&str> = text.lines().collect();
    let idx: Vec<usize> = lines.iter().enumerate().filter(|(_, l)| l.trim_start().starts_with('@')).map(|x| x.0).collect();
    if idx.is_empty() {
        return format!("@doc @doc {text}");
    }
    let i = *r.pick(&idx);
    let mut res: Vec<String> = lines.iter().map(|l| l.to_string()).collect();
    match r.below(3) {
        0 => res.insert(i, lines[i].to_string()),
        1 => res[i] = lines[i].split('(').next().unwrap_or("").to_string(),
        _ => res[i] = format!("{} @", lines[i]),
    }
    res.join("\n")
}

fn emit_annot_lines(out: &mut Out, r: &mut Rng, case: &str, f: &Fragment<RawName>) {
    if let Some(printed) = emit_frag_print_a(out, case, f) {
        emit_frag_parse_a(out, case, &printed);
        if r.chance(40) {
            emit_frag_parse_a(out, case, &mutate_ann_text(r, &printed));
        }
        if r.chance(20) {
            emit_frag_parse_a(out, case, &mutate_decl_text(r, &printed));
        }
    }
}

/// single-token mutations at the declaration level
fn mutate_decl_text(r: &mut Rng, text: &str) -> String {
    let reps: &[(&str, &str)] = &[
        (";", ""), (";", ";;"), ("appliesTo", "appliesTo appliesTo"), ("principal", "resource"), ("resource", "principal"), ("[", ""), ("]", ""),
        (",", ""), ("enum", "in"), ("action", "entity"), ("entity", "action"), ("namespace", "type"), ("=", ""), ("context", "principal"),
        (" in ", " in in "), ("{", ""), ("}", ""), ("[", "[,"), ("]", ",]"), ("type ", "type Set"), ("type ", "type Long"), ("::", ""),
        ("context:", "context: Set<Long>,"), ("}", ",}"), ("namespace ", "namespace __cedar::"), ("\"", ""), ("appliesTo {", "appliesTo {}"),
        (";", " attributes {};"), ("principal:", "principal: [],"), ("enum [", "enum []"),
    ];
    for _ in 0..8 {
        let (from, to) = *r.pick(reps);
        let idx: Vec<usize> = text.match_indices(from).map(|x| x.0).collect();
        if !idx.is_empty() {
            let i = *r.pick(&idx);
            return format!("{}{}{}", &text[..i], to, &text[i + from.len()..]);
        }
    }
    format!("{text} {text}")
}

/// fragment-level model lines for one fragment (JSON side: printed and re-parsed; Cedar side: the given text and a mutation of it)
fn emit_frag_lines(out: &mut Out, r: &mut Rng, case: &str, f: &Fragment<RawName>, text: Option<&str>) {
    emit_to_cedar_checked(out, case, f);
    emit_annot_lines(out, r, case, f);
    if let Some(printed) = emit_frag_print(out, case, f) {
        emit_frag_parse(out, case, &printed);
        if r.chance(30) {
            emit_frag_parse(out, case, &mutate_decl_text(r, &printed));
        }
    }
    if let Some(t) = text {
        emit_frag_parse(out, case, t);
        if r.chance(50) {
            emit_frag_parse(out, case, &mutate_decl_text(r, t));
        }
        emit_dup_lines(out, r, case, t);
    } else if let Ok(Ok(printed)) = guard(|| f.to_cedarschema()) {
        emit_dup_lines(out, r, case, &printed);
    }
}

// ------------------------------------------------------------------------------------------------
// model lines: name resolution (observed end to end through a synthetic schema)
// ------------------------------------------------------------------------------------------------

#[derive(Clone, Debug, Default)]
struct DeclEnv {
    /// namespace → (commons, entities, has actions)
    ns: BTreeMap<String, (BTreeSet<String>, BTreeSet<String>, bool)>,
}

const JSON_TYPE_KEYWORDS: &[&str] = &["Long", "String", "Boolean", "Set", "Record", "Entity", "EntityOrCommon", "Extension"];

fn decl_env(f: &Fragment<RawName>) -> DeclEnv {
    let mut env = DeclEnv::default();
    for (n, ns) in &f.0 {
        let name = n.as_ref().map(|n| n.to_string()).unwrap_or_default();
        let e = env.ns.entry(name).or_default();
        for c in ns.common_types.keys() {
            e.0.insert(c.to_string());
        }
        for t in ns.entity_types.keys() {
            e.1.insert(t.to_string());
        }
        e.2 = !ns.actions.is_empty();
    }
    env
}

fn referenced_names(f: &Fragment<RawName>) -> Vec<String> {
    use json_schema::{Type as T, TypeVariant as V};
    let mut v: BTreeSet<String> = BTreeSet::new();
    for t in all_types(f) {
        match t {
            T::CommonTypeRef { type_name, .. } => {
                v.insert(type_name.to_string());
            }
            T::Type { ty: V::Entity { name }, .. } => {
                v.insert(name.to_string());
            }
            T::Type { ty: V::EntityOrCommon { type_name }, .. } => {
                v.insert(type_name.to_string());
            }
            _ => {}
        }
    }
    v.into_iter().collect()
}

/// the synthetic schema: same declared names; every common type `Q` is `{ "Q": Long }`
fn resolve_probe(env: &DeclEnv, ns: &str, kind: &str, name: &str) -> (String, String) {
    let mut top = Map::new();
    let mut commons: Vec<String> = Vec::new();
    let mut entities: Vec<String> = Vec::new();
    let mut action_ns: Vec<String> = Vec::new();
    let mut all_ns: Vec<String> = env.ns.keys().cloned().collect();
    if !all_ns.iter().any(|n| n == ns) {
        all_ns.push(ns.to_string());
    }
    for n in &all_ns {
        let (cs, es, has_actions) = env.ns.get(n).cloned().unwrap_or_default();
        let mut cts = Map::new();
        for c in &cs {
            let q = gt::qualify(n, c);
            let mut attrs = Map::new();
            attrs.insert(q.clone(), json!({"type": "Long"}));
            cts.insert(c.clone(), json!({"type": "Record", "attributes": attrs}));
            commons.push(q);
        }
        let mut ets = Map::new();
        for e in &es {
            ets.insert(e.clone(), json!({}));
            entities.push(gt::qualify(n, e));
        }
        let mut acts = Map::new();
        if has_actions {
            acts.insert(format!("act in {n}"), json!({}));
            action_ns.push(n.clone());
        }
        if n == ns {
            let t = match kind {
                "entity" => json!({"type": "Entity", "name": name}),
                "common" => json!({"type": name}),
                _ => json!({"type": "EntityOrCommon", "name": name}),
            };
            ets.insert("Probe__".into(), json!({"shape": {"type": "Record", "attributes": {"p": t}}}));
            entities.push(gt::qualify(n, "Probe__"));
        }
        top.insert(n.clone(), json!({"commonTypes": cts, "entityTypes": ets, "actions": acts}));
    }
    commons.sort();
    entities.sort();
    entities.dedup();
    let req = format!(
        "(sty resolve {} (commons{}) (entities{}) (actions{}) {kind} {})",
        qs(ns),
        commons.iter().map(|c| format!(" {}", qs(c))).collect::<String>(),
        entities.iter().map(|c| format!(" {}", qs(c))).collect::<String>(),
        action_ns.iter().map(|c| format!(" {}", qs(c))).collect::<String>(),
        qs(name)
    );
    let j = J::Object(top);
    let imp = match guard(|| ValidatorSchema::from_json_value(j.clone(), ext())) {
        Err(_) => "(panic)".to_string(),
        Ok(Err(e)) => match variant_of(&format!("{e:?}")).as_str() {
            "TypeNotDefined" => "(undefined)".into(),
            "TypeShadowing" => "(shadow)".into(),
            other => format!("(error {other})"),
        },
        Ok(Ok(s)) => {
            let pt: EntityType = crate::gen::name(&gt::qualify(ns, "Probe__")).into();
            match s.get_entity_type(&pt).and_then(|e| e.attributes().iter().find(|(k, _)| k.as_str() == "p").map(|(_, a)| (*a.attr_type).clone())) {
                None => "(probe-missing)".into(),
                Some(Type::Long) => "(builtin \"Long\")".into(),
                Some(Type::String) => "(builtin \"String\")".into(),
                Some(Type::Bool(_)) => "(builtin \"Bool\")".into(),
                Some(Type::ExtensionType { name }) => format!("(builtin {})", qs(&name.to_string())),
                Some(Type::Record { attrs, .. }) => match attrs.iter().next() {
                    Some((k, _)) => format!("(common {})", qs(k)),
                    None => "(odd-record)".into(),
                },
                Some(Type::Entity(EntityKind::Entity(lub))) => match lub.get_single_entity() {
                    Some(e) => format!("(entity {})", qs(&e.to_string())),
                    None => "(odd-entity)".into(),
                },
                Some(_) => "(odd-type)".into(),
            }
        }
    };
    (req, imp)
}

fn emit_resolves(out: &mut Out, r: &mut Rng, case: &str, f: &Fragment<RawName>, n: usize) {
    let mut env = decl_env(f);
    // names the JSON format itself refuses as common-type names / probe collisions are left out of the environment
    for v in env.ns.values_mut() {
        v.0.retain(|c| !["Bool", "Boolean", "Entity", "Extension", "Long", "Record", "Set", "String"].contains(&c.as_str()));
        v.1.remove("Probe__");
        v.1.remove("Action");
    }
    let mut names = referenced_names(f);
    for b in ["Long", "String", "Bool", "ipaddr", "decimal", "datetime", "duration", "__cedar::Long", "__cedar::ipaddr", "__cedar::T", "Nope", "NS::Nope", "Action", "Probe__"] {
        names.push(b.to_string());
    }
    let declared: Vec<String> = env.ns.iter().flat_map(|(n, (cs, es, _))| cs.iter().chain(es.iter()).flat_map(move |b| [b.clone(), gt::qualify(n, b)])).collect();
    names.extend(declared);
    let mut nss: Vec<String> = env.ns.keys().cloned().collect();
    nss.push("Other".into());
    for _ in 0..n {
        let ns = r.pick(&nss).clone();
        let name = r.pick(&names).clone();
        let kind = *r.pick(&["entity", "common", "either", "either"]);
        if kind == "common" && JSON_TYPE_KEYWORDS.contains(&name.as_str()) {
            continue;
        }
        let (req, imp) = resolve_probe(&env, &ns, kind, &name);
        out.nontrivial(&format!("resolve|{req}"));
        out.count(&format!("model:resolve:{}", imp.trim_start_matches('(').split(|c| c == ' ' || c == ')').next().unwrap_or("")));
        out.line(req, imp, format!("{case} resolve ns={ns:?} kind={kind} name={name:?}"));
    }
}

fn emit_model_lines(out: &mut Out, r: &mut Rng, case: &str, f: &Fragment<RawName>, texts: &[String]) {
    let types = all_types(f);
    for (i, t) in types.iter().enumerate() {
        // all top-level ones would be too many lines: sample
        if i < 4 || r.chance(25) {
            emit_print(out, case, t);
            let printed = strip_annotations(t).to_string();
            if r.chance(50) {
                emit_parse(out, case, &printed);
            }
            if r.chance(20) {
                emit_parse(out, case, &mutate_text(r, &printed));
            }
        }
    }
    for (i, t) in texts.iter().enumerate() {
        if i < 4 || r.chance(25) {
            emit_parse(out, case, t);
            if r.chance(25) {
                emit_parse(out, case, &mutate_text(r, t));
            }
        }
    }
    emit_resolves(out, r, case, f, 5);
}

// ------------------------------------------------------------------------------------------------
// annotations survive translation (not observable in ValidatorSchema: compared on the fragments)
// ------------------------------------------------------------------------------------------------

fn annotations_of(f: &Fragment<RawName>) -> Vec<String> {
    fn anns(path: &str, a: &cedar_policy_core::est::Annotations, acc: &mut Vec<String>) {
        for (k, v) in a.0.iter() {
            acc.push(format!("{path} @{k}={:?}", v.as_ref().map(|x| x.as_ref().to_string())));
        }
    }
    fn ty(path: &str, t: &json_schema::Type<RawName>, acc: &mut Vec<String>) {
        use json_schema::{Type as T, TypeVariant as V};
        match t {
            T::Type { ty: V::Set { element }, .. } => ty(&format!("{path}/elem"), element, acc),
            T::Type { ty: V::Record(rt), .. } => {
                for (k, a) in &rt.attributes {
                    anns(&format!("{path}/{k:?}"), &a.annotations, acc);
                    ty(&format!("{path}/{k:?}"), &a.ty, acc);
                }
            }
            _ => {}
        }
    }
    let mut acc = Vec::new();
    for (n, ns) in &f.0 {
        let nn = n.as_ref().map(|n| n.to_string()).unwrap_or_default();
        anns(&format!("ns {nn}"), &ns.annotations, &mut acc);
        for (c, d) in &ns.common_types {
            anns(&format!("{nn}/type {c}"), &d.annotations, &mut acc);
            ty(&format!("{nn}/type {c}"), &d.ty, &mut acc);
        }
        for (e, d) in &ns.entity_types {
            anns(&format!("{nn}/entity {e}"), &d.annotations, &mut acc);
            if let json_schema::EntityTypeKind::Standard(s) = &d.kind {
                ty(&format!("{nn}/entity {e}/shape"), &s.shape.0, &mut acc);
                if let Some(t) = &s.tags {
                    ty(&format!("{nn}/entity {e}/tags"), t, &mut acc);
                }
            }
        }
        for (a, d) in &ns.actions {
            anns(&format!("{nn}/action {a:?}"), &d.annotations, &mut acc);
            if let Some(ap) = d.applies_to.as_ref().filter(|ap| !ap.principal_types.is_empty() && !ap.resource_types.is_empty()) {
                ty(&format!("{nn}/action {a:?}/context"), &ap.context.0, &mut acc);
            }
        }
    }
    acc.sort();
    acc
}

fn check_annotations(out: &mut Out, case: &str, f: &Fragment<RawName>) {
    let before = annotations_of(f);
    if before.is_empty() {
        return;
    }
    let Ok(Ok(text)) = guard(|| f.to_cedarschema()) else { return };
    match guard(|| Fragment::<RawName>::from_cedarschema_str(&text, ext()).map(|x| x.0)) {
        Ok(Ok(f2)) => {
            let after = annotations_of(&f2);
            out.count("annotations_roundtrip_checked");
            out.add("annotations_seen", before.len() as u64);
            if after != before {
                out.propfail("annotations are not preserved by translation", case, &format!("before={before:?} after={after:?} text={text}"));
            }
        }
        _ => {}
    }
}

// ------------------------------------------------------------------------------------------------
// the stream
// ------------------------------------------------------------------------------------------------

pub fn run(args: &Args, out: &mut Out) {
    let mut rng = Rng::new(args.seed);
    probes(out, &mut rng.fork());
    for case in 0..args.n {
        let mut r = rng.fork();
        let sub = r.0;
        out.cases += 1;
        if case % 3 == 0 {
            // plain world of gen_schema.rs (JSON, fully qualified)
            let (w, _) = gs::gen_schema_world(&mut r);
            let cname = format!("case={case} sub={sub} plain {}", gs::describe(&w.spec));
            out.sample(format!("{cname} schema={}", w.json));
            check_json_input(out, &mut r, &cname, "plain", &w.json, Some(&w.spec));
            // its library rendering is also a Cedar-syntax input
            if let Some(t) = &w.cedar_text {
                check_cedar_input(out, &mut r, &cname, "plain-rendered", t);
            }
            if let Ok(Ok(f)) = guard(|| Fragment::<RawName>::from_json_value(w.json.clone())) {
                emit_model_lines(out, &mut r, &cname, &f, &[]);
                emit_frag_lines(out, &mut r, &cname, &f, None);
            }
            emit_clash_lines(out, &mut r, &cname, &w.json);
        } else {
            let spec = gt::gen_tspec(&mut r);
            let cname = format!("case={case} sub={sub} text {}", spec.describe());
            let j = spec.to_json();
            let t = spec.to_cedar(&mut r);
            out.sample(format!("{cname} cedar={}", t.text));
            check_json_input(out, &mut r, &cname, "gen-json", &j, None);
            check_cedar_input(out, &mut r, &cname, "gen-cedar", &t.text);
            if let Ok(Ok(f)) = guard(|| Fragment::<RawName>::from_json_value(j.clone())) {
                check_annotations(out, &cname, &f);
                emit_model_lines(out, &mut r, &cname, &f, &[]);
                emit_frag_lines(out, &mut r, &cname, &f, None);
            }
            emit_clash_lines(out, &mut r, &cname, &j);
            if let Ok(Ok((f, _))) = guard(|| Fragment::<RawName>::from_cedarschema_str(&t.text, ext())) {
                check_annotations(out, &cname, &f);
                emit_model_lines(out, &mut r, &cname, &f, &t.type_exprs);
                emit_frag_lines(out, &mut r, &cname, &f, Some(&t.text));
            }
        }
    }
}

/// fixed schemas (both syntaxes) around the corners of name resolution and quoting
fn probes(out: &mut Out, r: &mut Rng) {
    let cedar: &[&str] = &[
        // an entity type named like a primitive shadows it; __cedar:: still reaches the primitive
        "entity Long; entity E { a: Long, b: __cedar::Long, c: Set<Long> }; action a appliesTo { principal: E, resource: Long };",
        // a common type named like an extension type
        "type ipaddr = Long; entity E { a: ipaddr, b: __cedar::ipaddr }; action a appliesTo { principal: E, resource: E, context: { x: ipaddr } };",
        // the same inside a namespace, with a global declaration of another name next to it
        "type G = String; namespace NS { type decimal = { d: __cedar::decimal }; entity E { a: decimal, g: G, h: Set<NS::decimal> }; action a appliesTo { principal: E, resource: E }; }",
        // common type and entity type of the same name (RFC 24: the common type wins)
        "namespace NS { type T = Long; entity T; entity E { a: T, b: NS::T }; action a appliesTo { principal: [E, T], resource: T }; }",
        "type T = Long; entity T; entity E in T { a: T }; action a appliesTo { principal: [E, T], resource: T };",
        // common types referencing common types, across namespaces
        "namespace A { type X = B::Y; entity E { x: X } tags X; } namespace B { type Y = { z?: Set<A::E> }; }",
        // quoting, keywords as identifiers
        "entity type, entity, Set { \"if\": Long, \"has space\"?: String, in: Bool, \"\": Long, \"a\\\"b\": Long, type: type, Set: Set<Set> }; action \"list all\", \"\", type, \"in\" appliesTo { principal: type, resource: [entity, Set], context: { \"context\": Long } };",
        // annotations
        "@doc(\"ns\") namespace NS { @doc(\"t\") @x type T = { @a(\"1\") a: Long }; @if entity E { @in(\"q\\\"uote\") a: T }; @doc action a in [Action::\"b\"] appliesTo { principal: E, resource: E }; action b; }",
        // action groups and memberOf across namespaces
        "namespace A { entity E in [B::G, E]; action g; action a in [g, Action::\"g\", B::Action::\"h\"] appliesTo { principal: E, resource: B::G }; } namespace B { entity G enum [\"x\", \"y z\"]; action h; }",
        // empty namespace declaration and an empty schema
        "namespace Empty {} entity E;",
        "",
    ];
    for (i, t) in cedar.iter().enumerate() {
        let cname = format!("probe cedar#{i}");
        check_cedar_input(out, r, &cname, "probe", t);
        if let Ok(Ok((f, _))) = guard(|| Fragment::<RawName>::from_cedarschema_str(t, ext())) {
            check_annotations(out, &cname, &f);
            emit_model_lines(out, r, &cname, &f, &[]);
            emit_frag_lines(out, r, &cname, &f, Some(t));
        }
    }
    let jsons: Vec<J> = vec![
        // entity reference where a common type of the same name exists in the SAME (non-empty) namespace: fmt.rs refuses
        json!({"NS": {"commonTypes": {"T": {"type": "Long"}}, "entityTypes": {"T": {}, "E": {"shape": {"type": "Record", "attributes": {"a": {"type": "Entity", "name": "T"}}}}}, "actions": {}}}),
        // … in the EMPTY namespace
        json!({"": {"commonTypes": {"T": {"type": "Long"}}, "entityTypes": {"T": {}, "E": {"shape": {"type": "Record", "attributes": {"a": {"type": "Entity", "name": "T"}}}}}, "actions": {}}}),
        // primitives written in all JSON forms
        json!({"": {"entityTypes": {"E": {"shape": {"type": "Record", "attributes": {
            "a": {"type": "Long"}, "b": {"type": "EntityOrCommon", "name": "Long"}, "c": {"type": "__cedar::Long"}, "d": {"type": "Bool"},
            "e": {"type": "Extension", "name": "ipaddr"}, "f": {"type": "ipaddr"}, "g": {"type": "EntityOrCommon", "name": "__cedar::ipaddr"}}}}}, "actions": {}}}),
        // entity type named Long + every way to say Long
        json!({"": {"entityTypes": {"Long": {}, "E": {"shape": {"type": "Record", "attributes": {
            "a": {"type": "Long"}, "b": {"type": "EntityOrCommon", "name": "Long"}, "c": {"type": "Entity", "name": "Long"}, "d": {"type": "__cedar::Long"}}}}}, "actions": {}}}),
        // appliesTo with empty lists, action without appliesTo
        json!({"": {"entityTypes": {"E": {}}, "actions": {"a": {"appliesTo": {"principalTypes": [], "resourceTypes": ["E"]}}, "b": {}, "c": {"appliesTo": {"principalTypes": ["E"], "resourceTypes": ["E"]}, "memberOf": [{"id": "a"}, {"id": "b", "type": "Action"}]}}}}),
        // must-be-common reference to the builtin alias `ipaddr` inside a namespace that declares an entity type `ipaddr`
        json!({"A": {"entityTypes": {"ipaddr": {}, "E": {"shape": {"type": "Record", "attributes": {"a": {"type": "ipaddr"}}}}}, "actions": {}}}),
        // … the entity reference sits inside the definition of the common type of the same name: the translation is a cycle
        json!({"": {"commonTypes": {"T": {"type": "Record", "attributes": {"n": {"type": "Entity", "name": "T", "required": false}}}}, "entityTypes": {"T": {}}, "actions": {}}}),
        // shape given by a common type (not expressible)
        json!({"": {"commonTypes": {"S": {"type": "Record", "attributes": {}}}, "entityTypes": {"E": {"shape": {"type": "S"}}}, "actions": {}}}),
    ];
    for (i, j) in jsons.iter().enumerate() {
        let cname = format!("probe json#{i}");
        check_json_input(out, r, &cname, "probe", j, None);
        if let Ok(Ok(f)) = guard(|| Fragment::<RawName>::from_json_value(j.clone())) {
            emit_model_lines(out, r, &cname, &f, &[]);
            emit_frag_lines(out, r, &cname, &f, None);
        }
    }
    // type-expression texts for the parser
    for t in [
        "Long", "Set<Long>", "Set<Set<A::B::C>>", "{}", "{a: Long}", "{a: Long,}", "{a?: Long, \"b c\": {x: Set<String>}}", "{\"if\": Long}", "{if: Long}", "A::if", "Set", "Set<Set>", "{Set: Set}",
        "__cedar::Long", "{__cedar: Long}", "__cedar", "{,}", "{a: Long,,}", "{a Long}", "Set<>", "Set<Long", "A::", "::A", "{a: Long b: Long}", "{a??: Long}", "{\"a\"?: Long}", "{a: }", "",
        "{true: Long}", "{a: Long, a: String}", "{b: Long, a: String, \"b\": Bool}", "{\"\\u{1F600}\": Long}", "{a: {b: {c: {}}}}", "Set<{a: Long}>", "A :: B", "{in: Long}", "{type: type}", "{entity?: namespace}",
    ] {
        emit_parse(out, "probe type text", t);
    }
    // entity declarations for the declaration-level parser
    for t in ["entity E;", "entity A, B in [G, NS::H] = { a?: Long } tags Set<String>;", "entity A in G { a: Long };", "entity A in [];", "entity A = {};", "entity A {} tags Long;",
        "entity A = ;", "entity A, ;", "entity if;", "entity A in;", "entity A in [G,];", "entity A tags;", "entity in in in;", "entity tags tags tags;", "entity A = { a: Long } = { b: Long };",
        "entity A tags Long in G;", "entity A", "entity;", "entity A in [G H];", "entity A in NS::;", "entity Set in Set tags Set;", "entity A in Set<B>;"] {
        emit_parse_entity(out, "probe entity text", t);
    }
    for t in entity_decl_texts(r, 400) {
        emit_parse_entity(out, "generated entity text", &t);
    }
    let _ = Arc::new(0);
}
