//! C04: hierarchy membership = parent reachability after any store history.
//! Histories of from/add/upsert/remove over a small pool of uids run through the real
//! `cedar_policy_core::entities::Entities` operations. Observable after each op: ok / error kind and, for
//! every record, its sorted direct parents and sorted ancestors. Implementation-only checks (`propfail`):
//! ancestors / `is_descendant_of` / `e in a` through the evaluator / `is_ancestor_of` / `principal in X`
//! through `is_authorized` against a reachability oracle recomputed from a spec parent graph maintained by
//! the harness; "rejected <=> result would be cyclic (or a conflicting duplicate)"; a store accepted with
//! EnforceAlreadyComputed is transitively closed and acyclic.
use crate::out::Out;
use crate::rng::Rng;
use crate::sx;
use crate::Args;
use cedar_policy_core::ast::{
    Context, Entity, EntityType, EntityUID, Eid, Expr, Name, PartialValue, PolicySet, Request, Value,
};
use cedar_policy_core::authorizer::{Authorizer, Decision};
use cedar_policy_core::entities::err::EntitiesError;
use cedar_policy_core::entities::{Entities, NoEntitiesSchema, TCComputation};
use cedar_policy_core::evaluator::Evaluator;
use cedar_policy_core::extensions::Extensions;
use cedar_policy_core::parser;
use smol_str::SmolStr;
use std::collections::{BTreeMap, BTreeSet, HashMap, HashSet};
use std::panic::{catch_unwind, AssertUnwindSafe};
use std::str::FromStr;
use std::sync::Arc;

#[derive(Clone, Copy, PartialEq, Eq, Debug)]
pub enum Mode { Compute, Enforce, Assume }

#[derive(Clone, Debug, PartialEq, Eq)]
pub struct Ent { pub u: usize, pub tag: u32, pub par: BTreeSet<usize>, pub ind: BTreeSet<usize> }

#[derive(Clone, Debug)]
pub enum Op { From(Mode, Vec<Ent>), Add(Mode, Vec<Ent>), Upsert(Mode, Vec<Ent>), Remove(Mode, Vec<usize>) }

const POOL: &[(&str, &str)] = &[("T", "a"), ("T", "b"), ("G", "c"), ("T", "d"), ("G", "e"), ("T", "f"), ("T", "g"), ("G", "h")];

fn mk(i: usize) -> EntityUID {
    EntityUID::from_components(EntityType::from(Name::from_str(POOL[i].0).unwrap()), Eid::new(POOL[i].1), None)
}

fn mode_tc(m: Mode) -> TCComputation {
    match m { Mode::Compute => TCComputation::ComputeNow, Mode::Enforce => TCComputation::EnforceAlreadyComputed, Mode::Assume => TCComputation::AssumeAlreadyComputed }
}
fn mode_s(m: Mode) -> &'static str { match m { Mode::Compute => "compute", Mode::Enforce => "enforce", Mode::Assume => "assume" } }

fn entity(e: &Ent) -> Entity {
    let attrs: Vec<(SmolStr, PartialValue)> = if e.tag == 0 { vec![] } else { vec![("t".into(), PartialValue::from(Value::from(e.tag as i64)))] };
    Entity::new_with_attr_partial_value(
        mk(e.u),
        attrs,
        e.ind.iter().map(|&i| mk(i)).collect::<HashSet<_>>(),
        e.par.iter().map(|&i| mk(i)).collect::<HashSet<_>>(),
        Vec::<(SmolStr, PartialValue)>::new(),
    )
}

fn ent_sx(e: &Ent) -> String {
    let l = |s: &BTreeSet<usize>| s.iter().map(|&i| format!(" {}", sx::uid(&mk(i)))).collect::<String>();
    format!("(ent {} {} (par{}) (ind{}))", sx::uid(&mk(e.u)), e.tag, l(&e.par), l(&e.ind))
}

fn op_sx(o: &Op) -> String {
    let es = |v: &Vec<Ent>| v.iter().map(ent_sx).collect::<Vec<_>>().join(" ");
    match o {
        Op::From(m, v) => format!("(from {} ({}))", mode_s(*m), es(v)),
        Op::Add(m, v) => format!("(add {} ({}))", mode_s(*m), es(v)),
        Op::Upsert(m, v) => format!("(upsert {} ({}))", mode_s(*m), es(v)),
        Op::Remove(m, v) => format!("(remove {} ({}))", mode_s(*m), v.iter().map(|&i| sx::uid(&mk(i))).collect::<Vec<_>>().join(" ")),
    }
}

fn op_desc(o: &Op) -> String {
    let n = |i: usize| POOL[i].1;
    let es = |v: &Vec<Ent>| v.iter().map(|e| {
        let p: Vec<&str> = e.par.iter().map(|&i| n(i)).collect();
        let mut s = format!("{}<{}", n(e.u), p.join(","));
        if !e.ind.is_empty() { s.push_str(&format!(";ind {}", e.ind.iter().map(|&i| n(i)).collect::<Vec<_>>().join(","))); }
        if e.tag != 0 { s.push_str(&format!(";tag{}", e.tag)); }
        s
    }).collect::<Vec<_>>().join(" ");
    match o {
        Op::From(m, v) => format!("from[{}]({})", mode_s(*m), es(v)),
        Op::Add(m, v) => format!("add[{}]({})", mode_s(*m), es(v)),
        Op::Upsert(m, v) => format!("upsert[{}]({})", mode_s(*m), es(v)),
        Op::Remove(m, v) => format!("remove[{}]({})", mode_s(*m), v.iter().map(|&i| n(i)).collect::<Vec<_>>().join(" ")),
    }
}

fn err_kind(e: &EntitiesError) -> &'static str {
    match e {
        EntitiesError::Duplicate(_) => "duplicate",
        // the wrapped TcError is private: classify by the Debug form of the enum variant
        EntitiesError::TransitiveClosureError(t) => {
            let d = format!("{t:?}");
            if d.contains("HasCycle") { "cycle" } else if d.contains("MissingTcEdge") { "missing" } else { "other" }
        }
        _ => "other",
    }
}

fn apply(store: Entities, o: &Op) -> Result<Entities, EntitiesError> {
    let ext = Extensions::all_available();
    match o {
        Op::From(m, v) => Entities::from_entities(v.iter().map(entity), None::<&NoEntitiesSchema>, mode_tc(*m), ext),
        Op::Add(m, v) => store.add_entities(v.iter().map(|e| Arc::new(entity(e))), None::<&NoEntitiesSchema>, mode_tc(*m), ext),
        Op::Upsert(m, v) => store.upsert_entities(v.iter().map(|e| Arc::new(entity(e))), None::<&NoEntitiesSchema>, mode_tc(*m), ext),
        Op::Remove(m, v) => store.remove_entities(v.iter().map(|&i| mk(i)), mode_tc(*m)),
    }
}

fn state_sx(store: &Entities) -> String {
    let mut rows: Vec<String> = Vec::new();
    for e in store.iter() {
        let set = |it: Vec<String>| { let mut v = it; v.sort(); v.dedup(); v.iter().map(|s| format!(" {s}")).collect::<String>() };
        rows.push(format!("({} (p{}) (a{}))", sx::uid(e.uid()), set(e.parents().map(sx::uid).collect()), set(e.ancestors().map(sx::uid).collect())));
    }
    rows.sort();
    format!("({})", rows.join(" "))
}

/// spec state: records present -> (tag, direct parents); `anc` is what deep_eq sees (closure for stored records)
#[derive(Clone, Default)]
struct Spec { recs: BTreeMap<usize, (u32, BTreeSet<usize>)> }

impl Spec {
    fn reach(&self, from: usize) -> BTreeSet<usize> {
        let mut seen = BTreeSet::new();
        let mut stack: Vec<usize> = self.recs.get(&from).map(|r| r.1.iter().cloned().collect()).unwrap_or_default();
        while let Some(x) = stack.pop() {
            if seen.insert(x) {
                if let Some(r) = self.recs.get(&x) { stack.extend(r.1.iter().cloned()); }
            }
        }
        seen
    }
    fn cyclic(&self) -> bool { self.recs.keys().any(|&k| self.reach(k).contains(&k)) }
}

/// expected outcome of a ComputeNow operation whose inputs carry no indirect ancestors, on a store that
/// satisfies the property (ancestors = reach): Ok(new spec) or Err(kind)
fn spec_apply(sp: &Spec, o: &Op) -> Result<Spec, &'static str> {
    let mut n = sp.clone();
    match o {
        Op::From(_, v) | Op::Add(_, v) => {
            // what deep_eq compares against: stored records are closed, records of this batch are not yet
            let mut anc: BTreeMap<usize, BTreeSet<usize>> = BTreeMap::new();
            if let Op::From(..) = o { n = Spec::default(); } else { for &k in sp.recs.keys() { anc.insert(k, sp.reach(k)); } }
            for e in v {
                match n.recs.get(&e.u) {
                    Some((tag, _)) => { if *tag != e.tag || anc[&e.u] != e.par { return Err("duplicate"); } }
                    None => { n.recs.insert(e.u, (e.tag, e.par.clone())); anc.insert(e.u, e.par.clone()); }
                }
            }
        }
        Op::Upsert(_, v) => { for e in v { n.recs.insert(e.u, (e.tag, e.par.clone())); } }
        Op::Remove(_, v) => {
            for &u in v {
                if n.recs.remove(&u).is_some() { for r in n.recs.values_mut() { r.1.remove(&u); } }
            }
        }
    }
    if n.cyclic() { Err("cycle") } else { Ok(n) }
}

fn pure_op(o: &Op) -> bool {
    match o {
        Op::From(m, v) | Op::Add(m, v) | Op::Upsert(m, v) => *m == Mode::Compute && v.iter().all(|e| e.ind.is_empty()),
        Op::Remove(m, _) => *m == Mode::Compute,
    }
}

fn request() -> Request {
    Request::new((mk(0), None), (mk(1), None), (mk(2), None), Context::empty(), None::<&cedar_policy_core::ast::RequestSchemaAllPass>, Extensions::all_available()).expect("request")
}

/// `what` of the failures caused by stale ancestors left behind by an upsert batch that names a uid more than once
/// (the defect fixed in /repo's `upsert_entities`; the classification stays so that a regression is reported under
/// its own name — with the repaired code it must never fire)
pub const STALE_REPEATED: &str = "stale ancestor after upsert batch repeating a uid";

/// some uid named more than once in the batch of an upsert
fn repeated_uid(o: &Op) -> Option<usize> {
    if let Op::Upsert(_, v) = o {
        for (i, e) in v.iter().enumerate() { if v[..i].iter().any(|d| d.u == e.u) { return Some(e.u); } }
    }
    None
}

/// the statement evaluated on the implementation's store against the oracle. `rep`: the store is the result
/// of an upsert batch repeating a uid; if then the only deviation is *surplus* ancestors (parent graph as in
/// the spec, no reachable ancestor missing), every failure is reported under `STALE_REPEATED` (with the
/// original check in the detail) and `true` is returned (the history is no longer followed by the oracle).
fn check_store(store: &Entities, sp: &Spec, n: usize, desc: &str, out: &mut Out, r: &mut Rng, rep: bool) -> bool {
    let mut stale_only = false;
    if rep {
        let mut surplus = false;
        let mut missing = false;
        for e in 0..n {
            if let cedar_policy_core::entities::Dereference::Data(x) = store.entity(&mk(e)) {
                let reach = sp.reach(e);
                for i in 0..n {
                    match (x.is_descendant_of(&mk(i)), reach.contains(&i)) { (true, false) => surplus = true, (false, true) => missing = true, _ => {} }
                }
            }
        }
        stale_only = surplus && !missing;
    }
    let fail = |out: &mut Out, what: &str, detail: &str| {
        if stale_only && what.ends_with("differs from parent reachability") { out.propfail(STALE_REPEATED, desc, &format!("[{what}] {detail}")); } else { out.propfail(what, desc, detail); }
    };
    let ev = Evaluator::new(request(), store, Extensions::all_available());
    let api: cedar_policy::Entities = store.clone().into();
    // records and their direct parents are the spec graph
    let mut have: BTreeMap<usize, BTreeSet<usize>> = BTreeMap::new();
    for i in 0..n {
        if let cedar_policy_core::entities::Dereference::Data(e) = store.entity(&mk(i)) {
            let ps: BTreeSet<usize> = (0..n).filter(|&j| e.is_child_of(&mk(j))).collect();
            if e.parents().count() != ps.len() { out.propfail("parent outside the pool", desc, &format!("{}", POOL[i].1)); }
            have.insert(i, ps);
        }
    }
    let want: BTreeMap<usize, BTreeSet<usize>> = sp.recs.iter().map(|(k, v)| (*k, v.1.clone())).collect();
    if have != want || store.len() != want.len() {
        out.propfail("direct-parent graph differs from the spec operations", desc, &format!("impl {have:?} spec {want:?}"));
        return false;
    }
    for e in 0..n {
        let reach = sp.reach(e);
        let ent = match store.entity(&mk(e)) { cedar_policy_core::entities::Dereference::Data(x) => Some(x), _ => None };
        if let Some(x) = ent {
            let anc: BTreeSet<EntityUID> = x.ancestors().cloned().collect();
            let exp: BTreeSet<EntityUID> = reach.iter().map(|&i| mk(i)).collect();
            if anc != exp {
                fail(out, "ancestor listing differs from parent reachability", &format!("entity {} ancestors {:?} reachable {:?}", POOL[e].1, anc.iter().map(|u| u.to_string()).collect::<Vec<_>>(), reach.iter().map(|&i| POOL[i].1).collect::<Vec<_>>()));
            }
            if x.parents().any(|p| x.is_indirect_descendant_of(p)) { fail(out, "parents and indirect ancestors overlap", POOL[e].1); }
            if let Some(it) = api.ancestors(&mk(e).into()) {
                let a2: BTreeSet<String> = it.map(|u| u.to_string()).collect();
                let e2: BTreeSet<String> = exp.iter().map(|u| u.to_string()).collect();
                if a2 != e2 { fail(out, "cedar_policy::Entities::ancestors differs from parent reachability", POOL[e].1); }
            } else { fail(out, "cedar_policy::Entities::ancestors is None for a present entity", POOL[e].1); }
        }
        for a in 0..n {
            let want_in = e == a || reach.contains(&a);
            if let Some(x) = ent {
                if x.is_descendant_of(&mk(a)) != reach.contains(&a) {
                    fail(out, "is_descendant_of differs from parent reachability", &format!("{} -> {}", POOL[e].1, POOL[a].1));
                }
            }
            let got = catch_unwind(AssertUnwindSafe(|| ev.interpret(&Expr::is_in(Expr::val(mk(e)), Expr::val(mk(a))), &HashMap::new())));
            match got {
                Ok(Ok(v)) => {
                    if v != Value::from(want_in) { fail(out, "`e in a` differs from parent reachability", &format!("{} in {} = {v} expected {want_in}", POOL[e].1, POOL[a].1)); }
                }
                Ok(Err(er)) => fail(out, "`e in a` errors", &format!("{} in {}: {er}", POOL[e].1, POOL[a].1)),
                Err(_) => fail(out, "panic evaluating `e in a`", &format!("{} in {}", POOL[e].1, POOL[a].1)),
            }
            out.count("pairs_checked");
            let anc_of = api.is_ancestor_of(&mk(a).into(), &mk(e).into());
            if e != a {
                if anc_of != reach.contains(&a) { fail(out, "is_ancestor_of differs from parent reachability", &format!("is_ancestor_of({}, {}) = {anc_of}", POOL[a].1, POOL[e].1)); }
            } else if !anc_of {
                // documented as "same semantics as `b in a`", but false for a present entity and itself
                out.count("is_ancestor_of_reflexive_false_for_present_entity");
            }
        }
    }
    // one pair through the authorizer: permit(principal in X, ...)
    let (e, a) = (r.below(n), r.below(n));
    let pol = format!("permit(principal in {}, action, resource);", mk(a));
    if let Ok(p) = parser::parse_policy(None, &pol) {
        let mut ps = PolicySet::new();
        ps.add_static(p).expect("add");
        let rq = Request::new((mk(e), None), (mk(1), None), (mk(2), None), Context::empty(), None::<&cedar_policy_core::ast::RequestSchemaAllPass>, Extensions::all_available()).expect("request");
        let resp = Authorizer::new().is_authorized(rq, &ps, store);
        let want_in = e == a || sp.reach(e).contains(&a);
        if (resp.decision == Decision::Allow) != want_in {
            fail(out, "`principal in X` through is_authorized differs from parent reachability", &format!("{} in {}", POOL[e].1, POOL[a].1));
        }
        out.count("authorizer_pairs_checked");
    }
    stale_only
}

/// out-edge relation of the implementation's store is transitively closed and has no self-edge
fn closed_acyclic(store: &Entities) -> bool {
    for e in store.iter() {
        if e.is_descendant_of(e.uid()) { return false; }
        for p in e.ancestors() {
            if let cedar_policy_core::entities::Dereference::Data(pe) = store.entity(p) {
                if pe.ancestors().any(|g| !e.is_descendant_of(g)) { return false; }
            }
        }
    }
    true
}

pub fn run_history(ops: &[Op], n: usize, tag: &str, out: &mut Out, r: &mut Rng) {
    let desc = format!("{tag} pool={} :: {}", n, ops.iter().map(op_desc).collect::<Vec<_>>().join(" ; "));
    let req = format!("(tc (ops {}))", ops.iter().map(op_sx).collect::<Vec<_>>().join(" "));
    let mut store = Entities::new();
    let mut sp = Spec::default();
    let mut pure = true; // every op so far was ComputeNow without user-supplied indirect ancestors
    let mut replies: Vec<String> = Vec::new();
    for (k, o) in ops.iter().enumerate() {
        let cur = store.clone();
        let res = catch_unwind(AssertUnwindSafe(|| apply(cur, o)));
        let res = match res {
            Ok(x) => x,
            Err(_) => { out.propfail("panic in a store operation", &desc, &format!("op #{k}")); replies.push("(panic)".into()); break; }
        };
        let is_from = matches!(o, Op::From(..));
        let op_pure = pure_op(o) && (pure || is_from);
        out.count(match o { Op::From(..) => "op_from", Op::Add(..) => "op_add", Op::Upsert(..) => "op_upsert", Op::Remove(..) => "op_remove" });
        match &res {
            Ok(s) => { replies.push(format!("(ok {})", state_sx(s))); out.count("op_ok"); }
            Err(e) => { replies.push(format!("(err {})", err_kind(e))); out.count(&format!("op_err_{}", err_kind(e))); }
        }
        let mut stale = false;
        if op_pure {
            let base = if is_from { Spec::default() } else { sp.clone() };
            let exp = spec_apply(&base, o);
            match (&res, &exp) {
                (Ok(s), Ok(nsp)) => {
                    let d = match repeated_uid(o) {
                        Some(u) => { out.count("upsert_batch_repeating_a_uid_checked"); format!("{desc} [after op #{k}: {} repeats uid {}]", op_desc(o), POOL[u].1) }
                        None => format!("{desc} [after op #{k}]"),
                    };
                    stale = check_store(s, nsp, n, &d, out, r, repeated_uid(o).is_some());
                    if stale { out.count("stale_after_upsert_batch_repeating_a_uid"); }
                    out.count("stores_checked_against_oracle");
                }
                (Err(e), Err(kind)) => {
                    if err_kind(e) != *kind { out.propfail("wrong error kind", &desc, &format!("op #{k}: impl {} expected {kind}", err_kind(e))); }
                    if *kind == "cycle" { out.count("cyclic_result_rejected"); }
                }
                (Ok(_), Err(kind)) => out.propfail("operation accepted although the result is cyclic / a conflicting duplicate", &desc, &format!("op #{k}: expected error {kind}")),
                (Err(e), Ok(_)) => out.propfail("operation rejected although the result is acyclic and has no conflicting duplicate", &desc, &format!("op #{k}: error {}", err_kind(e))),
            }
            // after the stale-ancestor shape (regression of the fixed defect) the store no longer satisfies the property: stop following it
            if let (Ok(_), Ok(nsp)) = (&res, exp) { sp = nsp; pure = !stale; }
        } else if res.is_ok() {
            pure = false;
        }
        if let (Ok(s), Op::From(Mode::Enforce, _) | Op::Add(Mode::Enforce, _) | Op::Upsert(Mode::Enforce, _) | Op::Remove(Mode::Enforce, _)) = (&res, o) {
            out.count("enforce_accepted");
            if !closed_acyclic(s) { out.propfail("store accepted with EnforceAlreadyComputed is not transitively closed and acyclic", &desc, &format!("op #{k}")); }
        }
        if let Ok(s) = res { store = s; }
    }
    let imp = format!("(tc {})", replies.join(" "));
    if ops.len() >= 2 && replies.iter().any(|x| x.starts_with("(ok")) { out.nontrivial(&req); }
    out.sample(format!("{desc} ==> {imp}"));
    out.line(req, imp, desc);
    out.cases += 1;
}

// ---------------------------------------------------------------- generators

fn rand_parents(r: &mut Rng, n: usize, u: usize, order: Option<&[usize]>, dens: u32) -> BTreeSet<usize> {
    let mut p = BTreeSet::new();
    match order {
        // acyclic: only to uids later in `order`
        Some(ord) => {
            let pos = ord.iter().position(|&x| x == u).unwrap();
            for &v in &ord[pos + 1..] { if r.chance(dens) { p.insert(v); } }
        }
        None => { for v in 0..n { if r.chance(dens) { p.insert(v); } } }
    }
    p
}

fn shuffle(r: &mut Rng, n: usize) -> Vec<usize> {
    let mut v: Vec<usize> = (0..n).collect();
    for i in (1..n).rev() { let j = r.below(i + 1); v.swap(i, j); }
    v
}

fn closure_of(es: &[Ent]) -> BTreeMap<usize, BTreeSet<usize>> {
    let sp = Spec { recs: es.iter().map(|e| (e.u, (0, e.par.clone()))).collect() };
    es.iter().map(|e| (e.u, sp.reach(e.u))).collect()
}

fn gen_batch(r: &mut Rng, n: usize, order: &[usize], cyc: bool, size: usize) -> Vec<Ent> {
    let mut v = Vec::new();
    for _ in 0..size {
        let u = r.below(n);
        let dens = *r.pick(&[15u32, 30, 50]);
        let par = if cyc && r.chance(50) { rand_parents(r, n, u, None, dens) } else { rand_parents(r, n, u, Some(order), dens) };
        v.push(Ent { u, tag: if r.chance(15) { 1 + r.below(2) as u32 } else { 0 }, par, ind: BTreeSet::new() });
    }
    // duplicates inside one batch: identical or conflicting
    if !v.is_empty() && r.chance(20) {
        let mut d = v[r.below(v.len())].clone();
        if r.chance(50) { if r.chance(50) { d.tag += 1; } else { let x = r.below(n); if !d.par.remove(&x) { d.par.insert(x); } } }
        let at = r.below(v.len() + 1);
        v.insert(at, d);
    }
    v
}

fn with_indirect(r: &mut Rng, n: usize, mut v: Vec<Ent>, closed: bool) -> Vec<Ent> {
    let cl = closure_of(&v);
    for e in v.iter_mut() { e.ind = cl[&e.u].difference(&e.par).cloned().collect(); }
    if !closed && !v.is_empty() {
        let i = r.below(v.len());
        match r.below(3) {
            0 => { if let Some(&x) = v[i].ind.iter().next() { v[i].ind.remove(&x); } else { v[i].ind.insert(r.below(n)); } }
            1 => { let u = v[i].u; v[i].ind.insert(u); }
            _ => { v[i].ind.insert(r.below(n)); }
        }
    }
    v
}

fn gen_history(r: &mut Rng) -> (Vec<Op>, usize) {
    let n = 4 + r.below(5);
    let order = shuffle(r, n);
    let len = 1 + r.below(8);
    let mut ops = Vec::new();
    let cyc_rate = *r.pick(&[0u32, 10, 25]);
    for k in 0..len {
        let cyc = r.chance(cyc_rate);
        let last = k + 1 == len;
        let mode = if r.chance(88) { Mode::Compute } else if last && r.chance(30) { Mode::Assume } else { Mode::Enforce };
        let sz = 1 + r.below(3);
        let op = if k == 0 && r.chance(85) || r.chance(6) {
            // a whole graph
            let mut v = Vec::new();
            let dens = *r.pick(&[20u32, 35, 55]);
            for u in 0..n {
                if r.chance(75) {
                    let par = if cyc && r.chance(40) { rand_parents(r, n, u, None, dens) } else { rand_parents(r, n, u, Some(&order), dens) };
                    v.push(Ent { u, tag: 0, par, ind: BTreeSet::new() });
                }
            }
            if r.chance(10) && !v.is_empty() {
                let mut d = v[r.below(v.len())].clone();
                if r.chance(50) { d.tag = 1; }
                v.push(d);
            }
            let v = if mode != Mode::Compute { let closed = r.chance(60); with_indirect(r, n, v, closed) } else if r.chance(4) { with_indirect(r, n, v, true) } else { v };
            Op::From(mode, v)
        } else {
            match r.below(10) {
                0..=2 => { let v = gen_batch(r, n, &order, cyc, sz); let v = if mode != Mode::Compute && r.chance(70) { let c = r.chance(60); with_indirect(r, n, v, c) } else { v }; Op::Add(mode, v) }
                3..=6 => { let v = gen_batch(r, n, &order, cyc, sz); let v = if mode != Mode::Compute && r.chance(70) { let c = r.chance(60); with_indirect(r, n, v, c) } else { v }; Op::Upsert(mode, v) }
                _ => Op::Remove(mode, (0..sz).map(|_| r.below(n)).collect()),
            }
        };
        ops.push(op);
    }
    (ops, n)
}

/// scripted shapes with random relabelling: diamonds / alternative paths around a removed or replaced node,
/// cycles of length 1..5 closed by add or upsert
fn gen_scripted(r: &mut Rng) -> (Vec<Op>, usize) {
    let n = 6 + r.below(3);
    let lab = shuffle(r, n);
    let e = |u: usize, ps: &[usize]| Ent { u: lab[u], tag: 0, par: ps.iter().map(|&p| lab[p]).collect(), ind: BTreeSet::new() };
    let ops = match r.below(7) {
        0 => {
            // x -> a -> t and x -> b -> t ; remove / replace a : t must survive through b, a's private ancestor must go
            let base = vec![e(0, &[1, 2]), e(1, &[3, 4]), e(2, &[3]), e(3, &[5]), e(4, &[])];
            let second = if r.chance(50) { Op::Remove(Mode::Compute, vec![lab[1]]) } else { Op::Upsert(Mode::Compute, vec![e(1, &[])]) };
            vec![Op::From(Mode::Compute, base), second, Op::Remove(Mode::Compute, vec![lab[2]])]
        }
        1 => {
            // chain of length L closed into a cycle by upsert of the last node
            let l = 1 + r.below(5);
            let mut base = Vec::new();
            for i in 0..l { base.push(e(i, &if i + 1 < l { vec![i + 1] } else { vec![] })); }
            vec![Op::From(Mode::Compute, base), Op::Upsert(Mode::Compute, vec![e(l - 1, &[0])]), Op::Upsert(Mode::Compute, vec![e(0, &[])])]
        }
        2 => {
            // cycle closed by adding the record of a dangling parent
            let l = 2 + r.below(4);
            let mut base = Vec::new();
            for i in 0..l - 1 { base.push(e(i, &[i + 1])); }
            vec![Op::From(Mode::Compute, base), Op::Add(Mode::Compute, vec![e(l - 1, &[0])]), Op::Add(Mode::Compute, vec![e(l - 1, &[])])]
        }
        3 => {
            // cycle inside one from / one add batch
            let l = 1 + r.below(5);
            let cyc: Vec<Ent> = (0..l).map(|i| e(i, &[(i + 1) % l])).collect();
            if r.chance(50) { vec![Op::From(Mode::Compute, cyc)] } else { vec![Op::From(Mode::Compute, vec![e(5, &[0])]), Op::Add(Mode::Compute, cyc)] }
        }
        4 => {
            // replace a middle node so that descendants lose one path and gain another; then remove the new path
            let base = vec![e(0, &[1]), e(1, &[2]), e(2, &[3]), e(3, &[]), e(4, &[5]), e(5, &[])];
            vec![Op::From(Mode::Compute, base), Op::Upsert(Mode::Compute, vec![e(1, &[4])]), Op::Remove(Mode::Compute, vec![lab[4]]), Op::Upsert(Mode::Compute, vec![e(1, &[2, 5])])]
        }
        5 => {
            // REGRESSION family (defect C04-upsert-batch-repeated-uid-stale-ancestor, fixed in /repo): an upsert batch
            // naming one uid more than once (the last record wins), mixed with overwrites of its descendants. Before
            // the fix the first overwrite dropped an ancestor from the descendants and the second found them no
            // longer marked as descendants, which left a stale indirect ancestor; the repaired code dedupes the
            // batch first, so no failure may appear here.
            if r.chance(40) {
                // x -> w -> u, w -> v -> y ; [u<y, u<, w<]
                let base = vec![e(0, &[1]), e(1, &[2, 3]), e(2, &[]), e(3, &[4]), e(4, &[])];
                vec![Op::From(Mode::Compute, base), Op::Upsert(Mode::Compute, vec![e(2, &[4]), e(2, &[]), e(1, &[])])]
            } else {
                // random DAG along 0..m (edges to larger indices only); u two or three times with different
                // parents, interleaved with and followed by overwrites of other nodes
                let m = 5 + r.below(2);
                let mut base = Vec::new();
                for i in 0..m { let ps: Vec<usize> = (i + 1..m).filter(|_| r.chance(45)).collect(); base.push(e(i, &ps)); }
                let u = 1 + r.below(m - 2);
                let mut b = Vec::new();
                for _ in 0..2 + r.below(2) {
                    let ps: Vec<usize> = (u + 1..m).filter(|_| r.chance(40)).collect();
                    b.push(e(u, &ps));
                    if r.chance(60) { let w = r.below(m - 1); let ps: Vec<usize> = (w + 1..m).filter(|_| r.chance(35)).collect(); b.push(e(w, &ps)); }
                }
                let w = r.below(u);
                let ps: Vec<usize> = (w + 1..m).filter(|_| r.chance(25)).collect();
                b.push(e(w, &ps));
                // sometimes also a NEW uid (no record yet) named twice: pushed at its first occurrence, replaced in place by the second
                if m < n && r.chance(40) {
                    for _ in 0..2 {
                        let ps: Vec<usize> = (0..m).filter(|_| r.chance(35)).collect();
                        let at = r.below(b.len() + 1);
                        b.insert(at, e(m, &ps));
                    }
                }
                vec![Op::From(Mode::Compute, base), Op::Upsert(Mode::Compute, b)]
            }
        }
        _ => {
            // several nodes of one chain replaced / removed in one batch, in both orders
            let base = vec![e(0, &[1]), e(1, &[2]), e(2, &[3]), e(3, &[4]), e(4, &[]), e(5, &[2])];
            let mut b = vec![e(1, &[5]), e(2, &[4])];
            if r.chance(50) { b.reverse(); }
            let mut rm = vec![lab[2], lab[1]];
            if r.chance(50) { rm.reverse(); }
            vec![Op::From(Mode::Compute, base), Op::Upsert(Mode::Compute, b), Op::Remove(Mode::Compute, rm)]
        }
    };
    (ops, n)
}

// ---------------------------------------------------------------- exhaustive small scope

/// all records for uid `u` over a pool of `n`: every parent subset (including itself)
fn all_ents(n: usize) -> Vec<Ent> {
    let mut v = Vec::new();
    for u in 0..n { for m in 0..(1usize << n) { v.push(Ent { u, tag: 0, par: (0..n).filter(|j| m >> j & 1 == 1).collect(), ind: BTreeSet::new() }); } }
    v
}

/// all parent graphs on the pool `0..n`: every uid absent or present with any parent subset
fn all_graphs(n: usize) -> Vec<Vec<Ent>> {
    let mut gs: Vec<Vec<Ent>> = vec![vec![]];
    for u in 0..n {
        let mut next = Vec::new();
        for g in &gs {
            next.push(g.clone());
            for m in 0..(1usize << n) {
                let mut g2 = g.clone();
                g2.push(Ent { u, tag: 0, par: (0..n).filter(|j| m >> j & 1 == 1).collect(), ind: BTreeSet::new() });
                next.push(g2);
            }
        }
        gs = next;
    }
    gs
}

fn all_single_ops(n: usize) -> Vec<Op> {
    let mut v = Vec::new();
    for e in all_ents(n) { v.push(Op::Add(Mode::Compute, vec![e.clone()])); v.push(Op::Upsert(Mode::Compute, vec![e])); }
    for u in 0..n { v.push(Op::Remove(Mode::Compute, vec![u])); }
    for u in 0..n { for w in 0..n { if u != w { v.push(Op::Remove(Mode::Compute, vec![u, w])); } } }
    v
}

fn exhaustive(args: &Args, out: &mut Out, r: &mut Rng) {
    // quick: every graph on <=3 uids x every single op. thorough: additionally 3 uids x every 2-op history
    // and acyclic graphs on 4 uids x every single op, strided over the 12 shards.
    let shard = (args.seed % 1000) as usize;
    let ops3 = all_single_ops(3);
    let mut idx = 0usize;
    for g in all_graphs(3) {
        for o in &ops3 {
            idx += 1;
            if args.thorough && idx % 12 != shard % 12 { continue; }
            run_history(&[Op::From(Mode::Compute, g.clone()), o.clone()], 3, "exh3x1", out, r);
            out.count("exhaustive_3uids_1op");
        }
    }
    if !args.thorough { return; }
    // 2-op histories on 3 uids, on acyclic base graphs (a cyclic base is rejected: covered above)
    for g in all_graphs(3) {
        let sp = Spec { recs: g.iter().map(|e| (e.u, (0, e.par.clone()))).collect() };
        if sp.cyclic() { continue; }
        for o1 in &ops3 {
            for o2 in &ops3 {
                idx += 1;
                if idx % 12 != shard % 12 || (idx / 12) % 2 != 0 { continue; }
                run_history(&[Op::From(Mode::Compute, g.clone()), o1.clone(), o2.clone()], 3, "exh3x2", out, r);
                out.count("exhaustive_3uids_2ops_strided");
            }
        }
    }
    let ops4 = all_single_ops(4);
    for g in all_graphs(4) {
        let sp = Spec { recs: g.iter().map(|e| (e.u, (0, e.par.clone()))).collect() };
        if sp.cyclic() { continue; }
        for o in &ops4 {
            idx += 1;
            if idx % 12 != shard % 12 || (idx / 12) % 2 != 0 { continue; }
            run_history(&[Op::From(Mode::Compute, g.clone()), o.clone()], 4, "exh4x1", out, r);
            out.count("exhaustive_4uids_1op_strided");
        }
    }
}

pub fn run(args: &Args, out: &mut Out) {
    let mut r = Rng::new(args.seed);
    for i in 0..args.n {
        let mut cr = r.fork();
        let (ops, n) = if i % 10 == 9 { gen_scripted(&mut cr) } else { gen_history(&mut cr) };
        run_history(&ops, n, if i % 10 == 9 { "scripted" } else { "random" }, out, &mut cr);
    }
    exhaustive(args, out, &mut r);
}
