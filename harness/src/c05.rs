//! C05: policy text -> AST -> text round trip.
//!
//! Implementation-only checks (out.propfail; they are the property itself):
//!   (c) parse_impl(print_impl x) succeeds and is structurally identical to x, and evaluates identically, for
//!       expressions, policies, templates and whole policy sets (multiset modulo order-derived ids);
//! Model correspondence (out.line, diffed against the Lean driver):
//!   (a) Parse_model(lex(t)) = parse_impl(t)            for generated texts t AND for t = print_impl(e);
//!   (p) Print_model(e) ~ lex(print_impl e)             token-for-token, string tokens compared by unescaped value (model side);
//!   (b) parse_impl(render(Print_model e)) = e          (the harness runs the driver as a sub-process; see `route_b`);
//!   (d) unescape_model(raw) = to_unescaped_string(raw) / parsed `like` pattern, on escape-heavy raw literals;
//!   (x) the extension-function call-style table used by both printers/parsers.
//! `lex` below is a small tokenizer for the token classes of grammar.lalrpop (trusted).
use crate::c02;
use crate::gen::{self, World};
use crate::out::Out;
use crate::rng::Rng;
use crate::sx;
use crate::Args;
use cedar_policy_core::ast::{self, Expr, PolicyID, PolicySet};
use cedar_policy_core::authorizer::Authorizer;
use cedar_policy_core::extensions::Extensions;
use cedar_policy_core::parser;
use std::collections::HashMap;
use std::fmt::Write as _;
use std::panic::{catch_unwind, AssertUnwindSafe};
use std::str::FromStr;

// ---------------------------------------------------------------------------------------------
// tokenizer (token classes of grammar.lalrpop `match { ... }`)
// ---------------------------------------------------------------------------------------------
#[derive(Clone, Debug, PartialEq, Eq)]
pub enum Tok {
    Id(String),
    Num(String),
    Str(String), // raw text between the quotes, not unescaped
    Slot(String),
    P(&'static str),
}

const PUNCT2: &[(&str, &str)] = &[("::", "dcolon"), ("==", "eqeq"), ("!=", "neq"), ("<=", "le"), (">=", "ge"), ("||", "oror"), ("&&", "andand")];
const PUNCT1: &[(char, &str)] = &[
    ('@', "at"), ('.', "dot"), (',', "comma"), (';', "semi"), (':', "colon"), ('(', "lparen"), (')', "rparen"), ('{', "lbrace"),
    ('}', "rbrace"), ('[', "lbrack"), (']', "rbrack"), ('<', "lt"), ('>', "gt"), ('+', "plus"), ('-', "minus"), ('*', "star"),
    ('/', "slash"), ('%', "percent"), ('!', "bang"), ('=', "eq"),
];

fn is_id_start(c: char) -> bool { c == '_' || c.is_ascii_alphabetic() }
fn is_id_cont(c: char) -> bool { c == '_' || c.is_ascii_alphanumeric() }

pub fn lex(s: &str) -> Result<Vec<Tok>, String> {
    let cs: Vec<char> = s.chars().collect();
    let mut i = 0;
    let mut out = Vec::new();
    while i < cs.len() {
        let c = cs[i];
        if c.is_whitespace() { i += 1; continue; }
        if c == '/' && i + 1 < cs.len() && cs[i + 1] == '/' {
            while i < cs.len() && cs[i] != '\n' && cs[i] != '\r' { i += 1; }
            continue;
        }
        if is_id_start(c) {
            let st = i;
            while i < cs.len() && is_id_cont(cs[i]) { i += 1; }
            out.push(Tok::Id(cs[st..i].iter().collect()));
            continue;
        }
        if c == '?' {
            let st = i;
            i += 1;
            if i < cs.len() && is_id_start(cs[i]) {
                while i < cs.len() && is_id_cont(cs[i]) { i += 1; }
                out.push(Tok::Slot(cs[st..i].iter().collect()));
                continue;
            }
            return Err("lone ?".into());
        }
        if c.is_ascii_digit() {
            let st = i;
            while i < cs.len() && cs[i].is_ascii_digit() { i += 1; }
            out.push(Tok::Num(cs[st..i].iter().collect()));
            continue;
        }
        if c == '"' {
            // "(\\.|[^"\\])*"   ('.' does not match '\n')
            let st = i + 1;
            i += 1;
            loop {
                if i >= cs.len() { return Err("unterminated string".into()); }
                if cs[i] == '"' { break; }
                if cs[i] == '\\' {
                    if i + 1 >= cs.len() || cs[i + 1] == '\n' { return Err("bad escape in string token".into()); }
                    i += 2;
                } else { i += 1; }
            }
            out.push(Tok::Str(cs[st..i].iter().collect()));
            i += 1;
            continue;
        }
        if i + 1 < cs.len() {
            let two: String = cs[i..i + 2].iter().collect();
            if let Some((_, n)) = PUNCT2.iter().find(|(p, _)| *p == two) { out.push(Tok::P(n)); i += 2; continue; }
        }
        if let Some((_, n)) = PUNCT1.iter().find(|(p, _)| *p == c) { out.push(Tok::P(n)); i += 1; continue; }
        return Err(format!("unexpected char {c:?}"));
    }
    Ok(out)
}

pub fn toks_sx(ts: &[Tok]) -> String {
    let mut o = String::from("(tokens");
    for t in ts {
        o.push(' ');
        match t {
            Tok::Id(s) => write!(o, "(id {})", sx::qs(s)).unwrap(),
            Tok::Num(s) => write!(o, "(num {s})").unwrap(),
            Tok::Str(s) => write!(o, "(str {})", sx::qs(s)).unwrap(),
            Tok::Slot(s) => write!(o, "(slot {})", sx::qs(s)).unwrap(),
            Tok::P(p) => o.push_str(p),
        }
    }
    o.push(')');
    o
}

/// render a token list back to text (used by route (b) on the model's tokens)
pub fn render(ts: &[Tok]) -> String {
    let mut o = String::new();
    for t in ts {
        if !o.is_empty() { o.push(' '); }
        match t {
            Tok::Id(s) | Tok::Num(s) | Tok::Slot(s) => o.push_str(s),
            Tok::Str(s) => { o.push('"'); o.push_str(s); o.push('"'); }
            Tok::P(p) => {
                if let Some((t, _)) = PUNCT2.iter().find(|(_, n)| n == p) { o.push_str(t); }
                else if let Some((c, _)) = PUNCT1.iter().find(|(_, n)| n == p) { o.push(*c); }
            }
        }
    }
    o
}

// ---------------------------------------------------------------------------------------------
// minimal s-expression reader for the model's `(tokens ...)` replies (route b)
// ---------------------------------------------------------------------------------------------
fn parse_tokens_reply(s: &str) -> Option<Vec<Tok>> {
    let cs: Vec<char> = s.trim().chars().collect();
    let mut i = 0;
    let expect = |i: &mut usize, p: &str| -> bool {
        let pc: Vec<char> = p.chars().collect();
        if cs.len() >= *i + pc.len() && cs[*i..*i + pc.len()] == pc[..] { *i += pc.len(); true } else { false }
    };
    if !expect(&mut i, "(tokens") { return None; }
    let mut out = Vec::new();
    let read_str = |i: &mut usize| -> Option<String> {
        if cs.get(*i) != Some(&'"') { return None; }
        *i += 1;
        let mut o = String::new();
        loop {
            let c = *cs.get(*i)?;
            if c == '"' { *i += 1; return Some(o); }
            if c == '\\' {
                let d = *cs.get(*i + 1)?;
                if d == '"' || d == '\\' { o.push(d); *i += 2; }
                else if d == 'u' {
                    *i += 3; // \u{
                    let mut n: u32 = 0;
                    while *cs.get(*i)? != '}' { n = n * 16 + cs[*i].to_digit(16)?; *i += 1; }
                    *i += 1;
                    o.push(char::from_u32(n)?);
                } else { return None; }
            } else { o.push(c); *i += 1; }
        }
    };
    loop {
        while cs.get(i) == Some(&' ') { i += 1; }
        match cs.get(i)? {
            ')' => return Some(out),
            '(' => {
                i += 1;
                let st = i;
                while cs.get(i)? != &' ' { i += 1; }
                let kind: String = cs[st..i].iter().collect();
                i += 1;
                let t = match kind.as_str() {
                    "id" => Tok::Id(read_str(&mut i)?),
                    "str" => Tok::Str(read_str(&mut i)?),
                    "slot" => Tok::Slot(read_str(&mut i)?),
                    "num" => { let st = i; while cs.get(i)? != &')' { i += 1; } Tok::Num(cs[st..i].iter().collect()) }
                    _ => return None,
                };
                if cs.get(i)? != &')' { return None; }
                i += 1;
                out.push(t);
            }
            _ => {
                let st = i;
                while !matches!(cs.get(i)?, ' ' | ')') { i += 1; }
                let a: String = cs[st..i].iter().collect();
                let p = PUNCT2.iter().map(|x| x.1).chain(PUNCT1.iter().map(|x| x.1)).find(|n| *n == a)?;
                out.push(Tok::P(p));
            }
        }
    }
}

// ---------------------------------------------------------------------------------------------
// real-code wrappers
// ---------------------------------------------------------------------------------------------
fn parse_expr(t: &str) -> Result<Result<Expr, String>, String> {
    catch_unwind(AssertUnwindSafe(|| Expr::from_str(t).map_err(|e| format!("{e}")))).map_err(c02::panic_msg)
}

fn print_expr(e: &Expr) -> Result<String, String> {
    catch_unwind(AssertUnwindSafe(|| e.to_string())).map_err(c02::panic_msg)
}

fn first_unescape_err(dbg: &str) -> String {
    // Debug of UnescapeError / ToASTErrorKind::Unescape(UnescapeError { err: X, ...
    match dbg.find("err: ") {
        Some(i) => {
            let rest = &dbg[i + 5..];
            let end = rest.find(|c: char| !c.is_ascii_alphanumeric()).unwrap_or(rest.len());
            rest[..end].to_string()
        }
        None => "Other".into(),
    }
}

// ---------------------------------------------------------------------------------------------
// (d) unescape
// ---------------------------------------------------------------------------------------------
const RAW_PIECES: &[&str] = &[
    "a", "b", "Z", "0", " ", "é", "\u{1F600}", "\u{0301}", "\u{200B}", "\u{7f}", "\u{10FFFF}", "\u{E000}", "\u{378}", "\t", "\n", "'", "*", "**",
    "\\n", "\\r", "\\t", "\\\\", "\\0", "\\'", "\\\"", "\\x41", "\\x7f", "\\x00", "\\x7F", "\\u{0}", "\\u{41}", "\\u{1F600}", "\\u{10FFFF}",
    "\\u{10ffff}", "\\u{00_41}", "\\u{0_0_4_1}", "\\u{000041}", "\\u{d7ff}", "\\u{e000}", "\\*", "\\*\\*", "\\\\*", "\\u{2a}", "\\x2a",
];
const RAW_BAD: &[&str] = &[
    "\\x80", "\\xff", "\\xZZ", "\\x4", "\\x", "\\u{110000}", "\\u{D800}", "\\u{dfff}", "\\u{}", "\\u{_1}", "\\u{1234567}", "\\u{0000041}", "\\u1", "\\u",
    "\\u{41", "\\u{4g}", "\\q", "\\ ", "\\a", "\\1", "\\N", "\\U{41}", "\\", "\"", "\r", "\\\n  x", "\\\n\n x", "\\\n", "\\u{ 41}", "\\u{41 }", "\\x 41",
    "\\u{FFFFFF}", "\\u{ffffffff}", "\\u{100000000}",
];

fn gen_raw(r: &mut Rng, bad_pct: u32) -> String {
    let n = r.below(7);
    let mut s = String::new();
    for _ in 0..n {
        if r.chance(bad_pct) { s.push_str(*r.pick(RAW_BAD)); } else { s.push_str(*r.pick(RAW_PIECES)); }
    }
    s
}

fn lexable_inside_string(raw: &str) -> bool {
    lex(&format!("\"{raw}\"")).map(|t| t.len() == 1 && t[0] == Tok::Str(raw.to_string())).unwrap_or(false)
}

fn unescape_case(raw: &str, out: &mut Out) {
    out.cases += 1;
    let r = catch_unwind(AssertUnwindSafe(|| parser::unescape::to_unescaped_string(raw)));
    let imp = match r {
        Ok(Ok(s)) => format!("(ok (s {}))", sx::qs(&s)),
        Ok(Err(es)) => format!("(err {})", first_unescape_err(&format!("{:?}", es.head))),
        Err(p) => { out.propfail("panic in to_unescaped_string", raw, &c02::panic_msg(p)); return; }
    };
    out.count(if imp.starts_with("(ok") { "unescape_str_ok" } else { "unescape_str_err" });
    out.line(format!("(unescape str {})", sx::qs(raw)), imp.clone(), format!("unescape str {raw:?}"));
    out.nontrivial(&format!("u{raw}"));
    out.sample(format!("unescape {raw:?} ==> {imp}"));
    // the same raw text inside a string literal of an expression must denote the same string
    if lexable_inside_string(raw) {
        let text = format!("\"{raw}\"");
        match parse_expr(&text) {
            Ok(Ok(e)) => {
                let got = match e.expr_kind() { ast::ExprKind::Lit(ast::Literal::String(s)) => format!("(ok (s {}))", sx::qs(s)), _ => "(not-a-string)".into() };
                if got != imp { out.propfail("string literal in expression differs from to_unescaped_string", &text, &format!("{got} vs {imp}")); }
            }
            Ok(Err(_)) => if imp.starts_with("(ok") { out.propfail("string literal rejected but to_unescaped_string accepts", &text, &imp); },
            Err(p) => out.propfail("panic parsing string literal", &text, &p),
        }
        // pattern route: `"" like "<raw>"`
        let ptext = format!("\"\" like \"{raw}\"");
        let pimp = match catch_unwind(AssertUnwindSafe(|| Expr::from_str(&ptext))) {
            Ok(Ok(e)) => match e.expr_kind() {
                ast::ExprKind::Like { pattern, .. } => format!("(ok {})", sx::pattern_sx(pattern.get_elems())),
                _ => "(not-a-like)".into(),
            },
            Ok(Err(es)) => {
                let mut k = "Other".to_string();
                for e in es.iter() {
                    let d = format!("{e:?}");
                    if d.contains("Unescape") { k = first_unescape_err(&d); break; }
                }
                format!("(err {k})")
            }
            Err(p) => { out.propfail("panic parsing like pattern", &ptext, &c02::panic_msg(p)); return; }
        };
        out.count(if pimp.starts_with("(ok") { "unescape_pat_ok" } else { "unescape_pat_err" });
        out.line(format!("(unescape pat {})", sx::qs(raw)), pimp, format!("unescape pat {raw:?}"));
    }
}

// ---------------------------------------------------------------------------------------------
// text generators
// ---------------------------------------------------------------------------------------------
const IDENT_ATTRS: &[&str] = &["n", "m", "s", "b", "f", "ls", "es", "r", "d", "ip", "t", "du", "principal", "action", "resource", "context", "permit", "forbid", "when", "unless", "_x9", "A"];
const RESERVED_ATTRS: &[&str] = &["if", "then", "else", "true", "false", "in", "is", "like", "has", "__cedar"];
const STR_ATTRS: &[&str] = &["has space", "", "if", "true", "in", "__cedar", "é", "a\\\"b", "\\u{1F600}", "x\\ny", "9a", "a-b", "\\0", "n", "A::B", "\u{1F600}", "tab\\t", "*"];
const STR_LITS: &[&str] = &[
    "", "a", "abc", "k1", "hello world", "\\n", "\\\"", "\\\\", "\\0", "\\'", "'", "\\t\\r", "é", "\u{1F600}", "\\u{1F600}", "\\x41", "\\u{0}", "\u{0301}x", "\u{200B}", "a*b", "\\u{10FFFF}",
    "1.0", "10.0.0.1", "1970-01-01", "1d", "//not a comment", "/* x */", "?principal", "\u{7f}", "\u{E000}", "\u{378}",
];
const PATTERNS: &[&str] = &["", "*", "a*", "*a*", "a\\*b", "\\*", "**", "\\\\*", "\\\"*", "\\0*", "\u{1F600}*", "\\u{1F600}", "é\\*é", "a'b", "\\'", "*\\n*", "\\u{2a}", "\\x2a", "\u{0301}", "\\t"];
const EIDS: &[&str] = &["a", "b", "c", "d", "", "e\\\"q", "\u{1F600}", "\\u{1F600}", "x y", "\\\\", "\\n", "\\0", "'", "\\'", "a::b", "\u{0301}", "*", "\u{200B}"];
const TYPES: &[&str] = &["User", "Group", "NS::Doc", "Action", "A::B::C", "_T", "principal", "NS::action", "when::unless"];
const LONGS: &[&str] = &[
    "0", "1", "2", "7", "007", "1000", "9223372036854775807", "9223372036854775806", "4611686018427387904", "3037000500",
];
const NEG_FORMS: &[&str] = &[
    "-1", "- 1", "--1", "---1", "----1", "-(1)", "-(-1)", "(-1)", "-(-(1))", "- -1", "-9223372036854775808", "--9223372036854775808", "-(9223372036854775807)",
    "-9223372036854775807", "---9223372036854775808", "----9223372036854775808", "-0", "--0", "-(0)", "(-(1))", "-((1))",
];
const BAD_FORMS: &[&str] = &[
    "9223372036854775808", "-9223372036854775809", "-(9223372036854775808)", "18446744073709551615", "18446744073709551616", "-18446744073709551616", "-----1", "!!!!!true", "1 / 2", "1 % 2",
    "1 == 2 == 3", "1 < 2 < 3", "1 < 2 == true", "principal has a has b", "principal has a == true", "1 == principal has a", "principal is User is User", "principal is User in resource in resource",
    "principal like \"a\" like \"b\"", "principal has 1", "principal has (a)", "principal has a.b()", "principal has a[\"b\"]", "principal has \"a\".b", "principal has true", "principal has if.then", "principal has A::b",
    "principal like a", "principal like 1", "principal is 1", "principal is \"User\"", "principal is (User)", "principal is User::\"a\"", "foo", "A::B", "foo.bar", "foo[\"bar\"]", "foo(1)", "principal(1)", "principal.foo(1)",
    "decimal.foo(1)", "contains(1)", "isEmpty()", "lessThan(1, 2)", "ip(\"1\").decimal()", "1.decimal(\"1\")", "[1].contains()", "[1].contains(1, 2)", "[1].isEmpty(1)", "[].getTag()", "(1)(2)", "(1 + 1)(\"foo\")",
    "1 = 2", "a = b", "principal.if", "principal.true", "principal.__cedar", "{if: 1}.if", "{true: 1}", "{A::B: 1}", "{1: 1}", "{(a): 1}", "{a: 1, a: 2}", "{\"a\": 1, a: 2}", "{a: 1,}", "[1,]", "[,]", "{,}", "f(1,)",
    "principal[a]", "principal[1]", "principal[\"a\" + \"b\"]", "?other", "?principal.foo", "if 1 then 2", "1 + if true then 1 else 2", "if true then 1 else 2 + 3", "(if true then 1 else 2) + 3",
    "if true then 1 else if false then 2 else 3", "true && if true then true else false", "User::{a: 1}", "User::\"a\"::\"b\"", "User::", "::User", "\"a\"::\"b\"", "- \"a\"", "-true", "!1", "-principal", "--principal.n",
    "-[1]", "!{}", "-\"\\q\"", "\"\\q\"", "\"\\u{110000}\"", "\"a\" like \"\\q\"", "principal[\"\\q\"]", "User::\"\\q\"", "{\"\\q\": 1}", "principal has \"\\q\"", "1 +", "+1", "()", "(", ")", "", "1 1", "1 2 3", "a b",
    "true::false::x(1)", "if::then::else(1)", "A::decimal(\"1\")", "decimal::ip(\"1\")", "unknown(\"x\")", "unknown(1, 2)", "error(\"x\")", "true.foo", "\"s\".foo", "\"s\"[\"foo\"]", "true[\"foo\"]", "\"s\".contains(1)", "true.isEmpty()",
    "1.foo", "1[\"foo\"]", "1 .foo", "(1).foo", "(-1).foo", "-1.foo", "-1[\"a\"]", "(-1)[\"a\"]", "- - 1 .foo", "1 - -1", "1 - - 1", "1--1", "1 - 1", "1 -1", "1-1", "1 + -1", "1 * -1", "-1 * -1", "- 1 * 2", "!true && !false", "!!true", "!!!true", "!!!!true",
    "!-1", "-!1", "!(-1)", "-(!1)", "true && false", "true || false", "true && true && false", "true || false || false", "(true && false) || true", "true && (false || true)", "true && principal", "principal && true", "true && 1", "false || \"a\"",
    "principal in principal in principal", "context.a.b.c", "context[\"a\"][\"b\"]", "context.a[\"b\"].c", "context.a.contains(1).b", "context.a.b(1)", "context has a.b.c", "context has principal.action", "context has context", "context has \"a b\"",
    "context has a && context.a has b", "(context has a) && (context.a has b)", "principal is User in Group::\"a\"", "principal is User && principal in Group::\"a\"", "(principal is User) && (principal in Group::\"a\")",
    "principal is NS::Doc in [Group::\"a\"]", "principal is principal", "principal is action in action", "1 is User", "1 in 2 is User", "1 is User in 2 + 3", "1 is User in (2 is User)", "principal is User == true",
    "1 != 2", "!(1 == 2)", "1 > 2", "!(1 <= 2)", "1 >= 2", "!(1 < 2)", "!(1 != 2)", "!(1 > 2)", "! 1 > 2", "1 > 2 > 3", "1 > -2", "-1 > 2",
];

struct TG {
    /// 0 minimal, 1 full, 2 redundant
    paren: u8,
    ill_pct: u32,
}

impl TG {
    fn wrap(&self, r: &mut Rng, s: String, needed: bool) -> String {
        let mut n = if needed { 1 } else { 0 };
        match self.paren {
            1 => n = n.max(1),
            2 => if r.chance(35) { n += 1 + r.below(2); },
            _ => {}
        }
        let mut s = s;
        for _ in 0..n { s = if r.chance(15) { format!("( {s} )") } else { format!("({s})") }; }
        s
    }
    fn uid(&self, r: &mut Rng) -> String { format!("{}::\"{}\"", r.pick(TYPES), r.pick(EIDS)) }
    fn strlit(&self, r: &mut Rng) -> String { format!("\"{}\"", if r.chance(85) { (*r.pick(STR_LITS)).to_string() } else { gen_raw(r, 0).replace('"', "\\\"").replace('\n', "\\n") }) }
    fn leaf(&self, r: &mut Rng) -> String {
        match r.below(16) {
            0 | 1 => (*r.pick(&["principal", "action", "resource", "context"])).to_string(),
            2 => (*r.pick(&["true", "false"])).to_string(),
            3 | 4 => (*r.pick(LONGS)).to_string(),
            5 => (*r.pick(NEG_FORMS)).to_string(),
            6 | 7 => self.strlit(r),
            8 | 9 => self.uid(r),
            10 => format!("context.{}", r.pick(IDENT_ATTRS)),
            11 => format!("principal[\"{}\"]", r.pick(STR_ATTRS)),
            12 => (*r.pick(&["[]", "{}", "[1, 2]", "{a: 1}", "decimal(\"1.0\")", "ip(\"10.0.0.1\")", "datetime(\"1970-01-01\")", "duration(\"1d\")"])).to_string(),
            13 => if r.chance(self.ill_pct * 4) { (*r.pick(BAD_FORMS)).to_string() } else { "1".into() },
            _ => (*r.pick(&["1", "principal", "\"a\"", "context.n"])).to_string(),
        }
    }
    /// text parseable at grammar level `lvl` (0 Expr, 1 Or, 2 And, 3 Relation, 4 Add, 5 Mult, 6 Unary, 7 Member)
    fn gen(&self, r: &mut Rng, lvl: u8, depth: u32) -> String {
        if depth == 0 { let l = self.leaf(r); return self.wrap(r, l, false); }
        // choose the level of the construct
        let d = depth - 1;
        let k = r.below(30);
        let (text, my): (String, u8) = match k {
            0 => (format!("if {} then {} else {}", self.gen(r, 0, d), self.gen(r, 0, d), self.gen(r, 0, d)), 0),
            1 | 2 => { let n = 2 + r.below(2); (self.chain(r, 2, d, n, &["||"]), 1) }
            3 | 4 => { let n = 2 + r.below(2); (self.chain(r, 3, d, n, &["&&"]), 2) }
            5 | 6 => (format!("{} {} {}", self.gen(r, 4, d), r.pick(&["==", "!=", "<", "<=", ">", ">=", "in"]), self.gen(r, 4, d)), 3),
            7 => {
                let rhs = match r.below(6) {
                    0 => format!("\"{}\"", r.pick(STR_ATTRS)),
                    1 => (*r.pick(RESERVED_ATTRS)).to_string(),
                    2 => format!("{}.{}", r.pick(IDENT_ATTRS), r.pick(IDENT_ATTRS)),
                    3 => format!("{}.{}.{}", r.pick(IDENT_ATTRS), r.pick(IDENT_ATTRS), r.pick(IDENT_ATTRS)),
                    _ => (*r.pick(IDENT_ATTRS)).to_string(),
                };
                (format!("{} has {}", self.gen(r, 4, d), rhs), 3)
            }
            8 => (format!("{} like \"{}\"", self.gen(r, 4, d), r.pick(PATTERNS)), 3),
            9 => (if r.chance(50) { format!("{} is {}", self.gen(r, 4, d), r.pick(TYPES)) } else { format!("{} is {} in {}", self.gen(r, 4, d), r.pick(TYPES), self.gen(r, 4, d)) }, 3),
            10 | 11 => { let n = 2 + r.below(3); (self.chain(r, 5, d, n, &["+", "-"]), 4) }
            12 | 13 => { let n = 2 + r.below(2); (self.chain(r, 6, d, n, &["*"]), 5) }
            14 | 15 => {
                let lim = if r.chance(self.ill_pct) { 6 } else { 4 };
                let n = 1 + r.below(lim);
                let op = if r.chance(50) { "!" } else { "-" };
                let sep = if r.chance(30) { " " } else { "" };
                (format!("{}{}", vec![op; n].join(sep), self.gen(r, 7, d)), 6)
            }
            16 | 17 => (format!("{}.{}", self.gen(r, 7, d), if r.chance(self.ill_pct) { *r.pick(RESERVED_ATTRS) } else { *r.pick(IDENT_ATTRS) }), 7),
            18 => (format!("{}[\"{}\"]", self.gen(r, 7, d), r.pick(STR_ATTRS)), 7),
            19 | 20 => {
                let m = *r.pick(&["contains", "containsAll", "containsAny", "getTag", "hasTag", "lessThan", "lessThanOrEqual", "greaterThan", "greaterThanOrEqual", "isInRange", "offset", "durationSince"]);
                (format!("{}.{}({})", self.gen(r, 7, d), m, self.gen(r, 0, d)), 7)
            }
            21 => {
                let m = *r.pick(&["isEmpty", "isIpv4", "isIpv6", "isLoopback", "isMulticast", "toDate", "toTime", "toMilliseconds", "toSeconds", "toMinutes", "toHours", "toDays"]);
                (format!("{}.{}()", self.gen(r, 7, d), m), 7)
            }
            22 => (format!("{}({})", r.pick(&["decimal", "ip", "datetime", "duration"]), self.gen(r, 0, d)), 7),
            23 | 24 => {
                let n = r.below(4);
                let xs: Vec<String> = (0..n).map(|_| self.gen(r, 0, d)).collect();
                (format!("[{}]", xs.join(", ")), 7)
            }
            25 | 26 => {
                let n = r.below(4);
                let mut keys: Vec<String> = Vec::new();
                let mut xs: Vec<String> = Vec::new();
                for _ in 0..n {
                    let (k, canon) = match r.below(4) {
                        0 => { let s = *r.pick(STR_ATTRS); (format!("\"{s}\""), format!("s:{s}")) }
                        1 => { let s = *r.pick(&["if", "in", "is", "has", "like", "then", "else", "__cedar"]); (s.to_string(), format!("s:{s}")) }
                        _ => { let s = *r.pick(IDENT_ATTRS); (s.to_string(), format!("s:{s}")) }
                    };
                    if keys.contains(&canon) && !r.chance(self.ill_pct) { continue; }
                    keys.push(canon);
                    xs.push(format!("{}: {}", k, self.gen(r, 0, d)));
                }
                (format!("{{{}}}", xs.join(", ")), 7)
            }
            _ => { let l = self.leaf(r); (l, 8) }
        };
        // leaves may themselves be low-level forms (e.g. `-1`, `1 - 1`): treat unknown leaf level conservatively
        let my = if my == 8 { leaf_level(&text) } else { my };
        let needed = my < lvl && !(r.chance(self.ill_pct) && self.paren == 0);
        self.wrap(r, text, needed)
    }
    fn chain(&self, r: &mut Rng, operand_lvl: u8, d: u32, n: usize, ops: &[&str]) -> String {
        let mut s = String::new();
        for i in 0..n {
            if i > 0 { let sp = if r.chance(15) { "" } else { " " }; s.push_str(sp); s.push_str(*r.pick(ops)); s.push_str(sp); }
            // the first operand of a left-associative chain may be at the chain's own level
            let l = if i == 0 && r.chance(40) { operand_lvl - 1 } else { operand_lvl };
            s.push_str(&self.gen(r, l, d));
        }
        s
    }
}

/// grammar level of a leaf / fixed-form text: determined by really lexing it (top-level tokens only)
fn leaf_level(t: &str) -> u8 {
    let Ok(ts) = lex(t) else { return 7 };
    let mut depth = 0i32;
    let mut lvl = 7u8;
    for (i, tk) in ts.iter().enumerate() {
        match tk {
            Tok::P("lparen") | Tok::P("lbrack") | Tok::P("lbrace") => depth += 1,
            Tok::P("rparen") | Tok::P("rbrack") | Tok::P("rbrace") => depth -= 1,
            _ if depth > 0 => {}
            Tok::Id(s) if s == "if" && i == 0 => lvl = lvl.min(0),
            Tok::P("oror") => lvl = lvl.min(1),
            Tok::P("andand") => lvl = lvl.min(2),
            Tok::P("eqeq") | Tok::P("neq") | Tok::P("lt") | Tok::P("le") | Tok::P("gt") | Tok::P("ge") | Tok::P("eq") => lvl = lvl.min(3),
            Tok::Id(s) if matches!(s.as_str(), "in" | "has" | "like" | "is") && i > 0 && !matches!(ts[i - 1], Tok::P("dot")) => lvl = lvl.min(3),
            Tok::P("plus") => lvl = lvl.min(4),
            Tok::P("minus") if i > 0 && !matches!(ts[i - 1], Tok::P("minus") | Tok::P("plus") | Tok::P("star") | Tok::P("bang")) => lvl = lvl.min(4),
            Tok::P("star") | Tok::P("slash") | Tok::P("percent") => lvl = lvl.min(5),
            Tok::P("minus") | Tok::P("bang") => lvl = lvl.min(6),
            _ => {}
        }
    }
    lvl
}

// ---------------------------------------------------------------------------------------------
// expression cases
// ---------------------------------------------------------------------------------------------
struct Ctx {
    worlds: Vec<(World, (String, String))>,
    driver: Option<DriverProc>,
    b_batch: Vec<(String, Expr)>,
}

fn same_eval(w: &World, a: &Expr, b: &Expr) -> Result<(), String> {
    let ra = c02::eval(w, a).map_err(|p| format!("panic evaluating original: {p}"))?;
    let rb = c02::eval(w, b).map_err(|p| format!("panic evaluating reparsed: {p}"))?;
    let (sa, sb) = (sx::result(&ra), sx::result(&rb));
    if sa == sb { Ok(()) } else { Err(format!("original evaluates to {sa}, reparsed print to {sb}")) }
}

/// the property on one accepted expression: print, reparse, compare, evaluate
fn roundtrip_expr(cx: &mut Ctx, e: &Expr, origin: &str, out: &mut Out, n_worlds: usize) -> Option<String> {
    let p = match print_expr(e) { Ok(p) => p, Err(m) => { out.propfail("panic printing expression", origin, &m); return None; } };
    match parse_expr(&p) {
        Err(m) => { out.propfail("panic parsing printed expression", origin, &format!("printed: {p} ; {m}")); }
        Ok(Err(m)) => { out.propfail("printed expression does not parse", origin, &format!("printed: {p} ; error: {m}")); }
        Ok(Ok(e2)) => {
            out.count("c_expr_roundtrips");
            if !e2.eq_shape(e) || e2 != *e {
                out.propfail("printed expression parses to a different AST", origin, &format!("printed: {p} ; original: {:?} ; reparsed: {:?}", sx::expr(e), sx::expr(&e2)));
            } else {
                for (w, _) in cx.worlds.iter().take(n_worlds) {
                    out.count("c_expr_evals");
                    if let Err(m) = same_eval(w, e, &e2) { out.propfail("printed expression evaluates differently", origin, &format!("printed: {p} ; {m}")); }
                }
            }
            // printing is a fixpoint after one round (not required by the property; counted only)
            if let Ok(p2) = print_expr(&e2) { if p2 == p { out.count("c_expr_print_fixpoint"); } else { out.count("c_expr_print_not_fixpoint"); } }
        }
    }
    Some(p)
}

fn parse_line(text: &str, res: &Result<Expr, String>, tag: &str, out: &mut Out) {
    match lex(text) {
        Ok(ts) => {
            let imp = match res {
                Ok(e) => match sx::expr(e) { Some(s) => format!("(ok {s})"), None => { out.count("outside_protocol"); return; } },
                Err(_) => "(none)".to_string(),
            };
            out.count(if res.is_ok() { "a_parse_accept" } else { "a_parse_reject" });
            out.line(format!("(parse {})", toks_sx(&ts)), imp, format!("{tag} {text}"));
        }
        Err(le) => {
            out.count("lex_reject");
            if res.is_ok() {
                // the trusted tokenizer disagrees with the real lexer: make it visible as a correspondence break
                out.line("(lex-error)".into(), format!("(harness tokenizer rejected accepted text: {le})"), format!("{tag} {text}"));
            }
        }
    }
}

fn expr_case(cx: &mut Ctx, text: &str, tag: &str, out: &mut Out, n_worlds: usize) {
    out.cases += 1;
    let res = match parse_expr(text) { Ok(r) => r, Err(p) => { out.propfail("panic in parser", text, &p); return; } };
    // (a) on the generated text
    parse_line(text, &res, tag, out);
    let Ok(e) = res else { out.count("text_rejected"); return };
    out.count("text_accepted");
    if e.subexpressions().count() >= 3 { out.nontrivial(&sx::expr(&e).unwrap_or_default()); }
    // (c)
    let Some(p) = roundtrip_expr(cx, &e, text, out, n_worlds) else { return };
    out.sample(format!("{text}  ==print==>  {p}"));
    let Some(esx) = sx::expr(&e) else { return };
    // (a) on the printed text
    if p != text { parse_line(&p, &Ok(e.clone()), "printed", out); }
    // (p) the model's printer against the tokenised real print
    if let Ok(pt) = lex(&p) {
        out.count("p_print_lines");
        out.line(format!("(print-check {} {})", esx, toks_sx(&pt)), "(same)".into(), format!("print-check {p}"));
    } else {
        out.line("(lex-error)".into(), "(harness tokenizer rejected printed text)".into(), format!("printed {p}"));
    }
    // (b) queued for the driver sub-process
    if cx.driver.is_some() {
        cx.b_batch.push((esx, e));
        if cx.b_batch.len() >= 512 { route_b(cx, out); }
    }
}

// ---------------------------------------------------------------------------------------------
// (b): parse_impl(render(Print_model e)) == e, through the compiled model as a sub-process
// ---------------------------------------------------------------------------------------------
struct DriverProc { path: String }

fn find_driver() -> Option<DriverProc> {
    let mut cands: Vec<std::path::PathBuf> = Vec::new();
    if let Ok(p) = std::env::var("VERIF_DRIVER") { cands.push(p.into()); }
    if let Ok(exe) = std::env::current_exe() {
        // <root>/harness/target/debug/harness -> <root>/lean/.lake/build/bin/driver
        if let Some(root) = exe.ancestors().nth(4) { cands.push(root.join("lean/.lake/build/bin/driver")); }
    }
    cands.into_iter().find(|p| p.exists()).map(|p| DriverProc { path: p.to_string_lossy().into_owned() })
}

fn route_b(cx: &mut Ctx, out: &mut Out) {
    let batch = std::mem::take(&mut cx.b_batch);
    if batch.is_empty() { return; }
    let Some(d) = &cx.driver else { return };
    let mut input = String::new();
    for (esx, _) in &batch { input.push_str("(print "); input.push_str(esx); input.push_str(")\n"); }
    let tmp = std::env::temp_dir().join(format!("c05-b-{}.txt", std::process::id()));
    if std::fs::write(&tmp, &input).is_err() { out.count("b_io_error"); return; }
    let res = std::process::Command::new(&d.path).stdin(std::fs::File::open(&tmp).unwrap()).output();
    let _ = std::fs::remove_file(&tmp);
    let Ok(o) = res else { out.count("b_io_error"); return };
    let text = String::from_utf8_lossy(&o.stdout).into_owned();
    let replies: Vec<&str> = text.lines().collect();
    for (k, (esx, e)) in batch.iter().enumerate() {
        let reply = replies.get(k).copied().unwrap_or("<missing>");
        let fail = |out: &mut Out, why: String| {
            // a failure of route (b) is a model/implementation disagreement: emit a line whose impl side can never match
            out.line(format!("(print {esx})"), format!("(route-b-failed {})", sx::qs(&why)), format!("route-b {}", e));
        };
        let Some(ts) = parse_tokens_reply(reply) else { fail(out, format!("unreadable model reply {reply}")); continue };
        let rendered = render(&ts);
        match parse_expr(&rendered) {
            Ok(Ok(e2)) if e2.eq_shape(e) => out.count("b_ok"),
            Ok(Ok(e2)) => fail(out, format!("model print {rendered} parses to {:?}", sx::expr(&e2))),
            Ok(Err(m)) => fail(out, format!("model print {rendered} rejected: {m}")),
            Err(p) => fail(out, format!("model print {rendered} panics the parser: {p}")),
        }
    }
}

// ---------------------------------------------------------------------------------------------
// operator x operator grid
// ---------------------------------------------------------------------------------------------
/// (template with `#` holes, name)
const OPS: &[&str] = &[
    "!#", "-#", "!!#", "--#", "# * #", "# + #", "# - #", "# == #", "# != #", "# < #", "# <= #", "# > #", "# >= #", "# in #", "# && #", "# || #",
    "# has a", "# has \"b c\"", "# has a.b", "# has if", "# like \"a*\"", "# is T", "# is T in #", "if # then # else #", "#.a", "#[\"a b\"]", "#[\"if\"]",
    "#.contains(#)", "#.containsAll(#)", "#.containsAny(#)", "#.isEmpty()", "#.getTag(#)", "#.hasTag(#)", "#.lessThan(#)", "#.isIpv4()", "#.isInRange(#)", "#.offset(#)",
    "decimal(#)", "ip(#)", "[#, #]", "[#]", "{a: #, \"b c\": #}", "(#)",
];
const GRID_LEAVES: &[&str] = &["principal", "1", "-1", "\"s\"", "true", "context.n", "-9223372036854775808", "User::\"a\""];

fn fill(tpl: &str, fills: &[String]) -> String {
    let mut o = String::new();
    let mut k = 0;
    for c in tpl.chars() {
        if c == '#' { o.push_str(&fills[k]); k += 1; } else { o.push(c); }
    }
    o
}

fn grid(cx: &mut Ctx, out: &mut Out, thorough: bool) {
    let holes = |t: &str| t.chars().filter(|c| *c == '#').count();
    let mut li = 0usize;
    for parent in OPS {
        let np = holes(parent);
        for pos in 0..np {
            for child in OPS {
                let nc = holes(child);
                // child operands: rotate through the leaves so every leaf kind shows up in every position over the grid
                let leaf_sets: usize = if thorough { GRID_LEAVES.len() } else { 1 };
                for ls in 0..leaf_sets {
                    let cfill: Vec<String> = (0..nc).map(|j| GRID_LEAVES[(li + ls + j) % GRID_LEAVES.len()].to_string()).collect();
                    let ctext = fill(child, &cfill);
                    for variant in 0..3 {
                        let c = match variant { 0 => ctext.clone(), 1 => format!("({ctext})"), _ => format!("(({ctext}))") };
                        let pfill: Vec<String> = (0..np).map(|j| if j == pos { c.clone() } else { GRID_LEAVES[(li + ls + j + 3) % GRID_LEAVES.len()].to_string() }).collect();
                        let text = fill(parent, &pfill);
                        out.count("grid_texts");
                        expr_case(cx, &text, "grid", out, 1);
                    }
                }
                li += 1;
            }
        }
    }
}

// ---------------------------------------------------------------------------------------------
// ASTs with arbitrary string content, built through the public constructors
// ---------------------------------------------------------------------------------------------
fn gen_unicode_string(r: &mut Rng) -> String {
    let n = r.below(6);
    let mut s = String::new();
    for _ in 0..n {
        let c = match r.below(12) {
            0 => '\0', 1 => '"', 2 => '\\', 3 => '\'', 4 => '*', 5 => *r.pick(&['\n', '\r', '\t', '\u{7f}', '\u{1b}']),
            6 => *r.pick(&['\u{0301}', '\u{200B}', '\u{FEFF}', '\u{E000}', '\u{378}', '\u{10FFFF}', '\u{2028}', '\u{85}', '\u{a0}', '\u{ad}']),
            7 => char::from_u32(r.below(0x11_0000) as u32).unwrap_or('x'),
            8 => char::from_u32(0x1F600 + r.below(80) as u32).unwrap_or('x'),
            _ => (b'a' + r.below(26) as u8) as char,
        };
        s.push(c);
    }
    s
}

fn literal_asts(cx: &mut Ctx, r: &mut Rng, out: &mut Out) {
    let s = gen_unicode_string(r);
    let e = match r.below(6) {
        0 => Expr::val(s.as_str()),
        1 => Expr::get_attr(Expr::var(ast::Var::Context), s.as_str().into()),
        2 => Expr::has_attr(Expr::var(ast::Var::Context), s.as_str().into()),
        3 => Expr::val(ast::EntityUID::from_components(ast::EntityType::from(gen::name("NS::Doc")), ast::Eid::new(s.as_str()), None)),
        4 => {
            let elems: Vec<ast::PatternElem> = s.chars().map(|c| if c == 'w' { ast::PatternElem::Wildcard } else { ast::PatternElem::Char(c) }).collect();
            Expr::like(Expr::val("a*b"), ast::Pattern::from(elems))
        }
        _ => Expr::record(vec![(s.as_str().into(), Expr::val(1))]).unwrap(),
    };
    out.cases += 1;
    out.count("literal_asts");
    let origin = format!("constructed AST {:?}", sx::expr(&e));
    if let Some(p) = roundtrip_expr(cx, &e, &origin, out, 1) {
        parse_line(&p, &Ok(e.clone()), "printed-literal", out);
        if let (Ok(pt), Some(esx)) = (lex(&p), sx::expr(&e)) {
            out.line(format!("(print-check {} {})", esx, toks_sx(&pt)), "(same)".into(), format!("print-check {p}"));
            if cx.driver.is_some() { cx.b_batch.push((esx, e)); }
        }
    }
}

// ---------------------------------------------------------------------------------------------
// policies, templates, policy sets (implementation-only)
// ---------------------------------------------------------------------------------------------
const ANN_KEYS: &[&str] = &["id", "doc", "if", "in", "true", "permit", "when", "__cedar", "_a1", "principal", "like", "else"];
const ANN_VALS: &[&str] = &["", "x", "hello world", "\\n", "\\\"q\\\"", "\\\\", "\\0", "\\u{1F600}", "\u{1F600}", "é", "'", "\\'", "a*b", "\\t", "\u{0301}", "//c", "\\x41", "\u{200B}"];

fn gen_policy_text(r: &mut Rng, tg: &TG, template: bool) -> String {
    let mut s = String::new();
    let na = r.below(4);
    let mut used: Vec<&str> = Vec::new();
    for _ in 0..na {
        let k = *r.pick(ANN_KEYS);
        if used.contains(&k) { continue; }
        used.push(k);
        if r.chance(20) { write!(s, "@{k} ").unwrap(); } else { write!(s, "@{k}(\"{}\")\n", r.pick(ANN_VALS)).unwrap(); }
    }
    s.push_str(if r.chance(50) { "permit" } else { "forbid" });
    let pr = |r: &mut Rng, v: &str, slot: &str| -> String {
        let n = if template { 9 } else { 6 };
        match r.below(n) {
            0 => v.to_string(),
            1 => format!("{v} == {}", tg.uid(r)),
            2 => format!("{v} in {}", tg.uid(r)),
            3 => format!("{v} is {}", r.pick(TYPES)),
            4 => format!("{v} is {} in {}", r.pick(TYPES), tg.uid(r)),
            5 => v.to_string(),
            6 => format!("{v} == {slot}"),
            7 => format!("{v} in {slot}"),
            _ => format!("{v} is {} in {slot}", r.pick(TYPES)),
        }
    };
    let p = pr(r, "principal", "?principal");
    let a = match r.below(5) {
        0 => "action".to_string(),
        1 => format!("action == Action::\"{}\"", r.pick(EIDS)),
        2 => format!("action in Action::\"{}\"", r.pick(EIDS)),
        3 => format!("action in [Action::\"{}\", NS::Action::\"{}\"]", r.pick(EIDS), r.pick(EIDS)),
        _ => "action in []".to_string(),
    };
    let rs = pr(r, "resource", "?resource");
    write!(s, "({p}, {a}, {rs}{})", if r.chance(10) { "," } else { "" }).unwrap();
    let nc = r.below(4);
    for _ in 0..nc {
        let d = r.below(4) as u32;
        write!(s, " {} {{ {} }}", if r.chance(60) { "when" } else { "unless" }, tg.gen(r, 0, d)).unwrap();
    }
    s.push(';');
    s
}

fn template_facts(t: &ast::Template) -> String {
    format!(
        "effect={} annotations={:?} principal={} action={} resource={} slots={:?} cond={:?}",
        t.effect(),
        t.annotations().map(|(k, v)| (k.to_string(), v.val.to_string())).collect::<Vec<_>>(),
        t.principal_constraint(), t.action_constraint(), t.resource_constraint(),
        t.slots().map(|s| s.id.to_string()).collect::<Vec<_>>(),
        sx::expr(&t.condition()),
    )
}

/// structural identity ignoring the id and source locations
fn same_template_modulo_id(a: &ast::Template, b: &ast::Template) -> bool {
    a.effect() == b.effect()
        && a.annotations().map(|(k, v)| (k.clone(), v.val.clone())).collect::<Vec<_>>() == b.annotations().map(|(k, v)| (k.clone(), v.val.clone())).collect::<Vec<_>>()
        && a.principal_constraint() == b.principal_constraint()
        && a.action_constraint() == b.action_constraint()
        && a.resource_constraint() == b.resource_constraint()
        && a.slots().map(|s| s.id).collect::<Vec<_>>() == b.slots().map(|s| s.id).collect::<Vec<_>>()
        && a.non_scope_constraints().is_some() == b.non_scope_constraints().is_some()
        && a.condition().eq_shape(&b.condition())
}

fn authorize(w: &World, t: &ast::Template, r: &mut Rng) -> Result<String, String> {
    let mut ps = PolicySet::new();
    let tid = t.id().clone();
    let slots: Vec<ast::SlotId> = t.slots().map(|s| s.id).collect();
    if slots.is_empty() {
        let p = ast::StaticPolicy::try_from(t.clone()).map_err(|e| format!("static: {e}"))?;
        ps.add_static(p).map_err(|e| format!("add: {e}"))?;
    } else {
        ps.add_template(t.clone()).map_err(|e| format!("addt: {e}"))?;
        let mut vals = HashMap::new();
        for s in slots { vals.insert(s, if r.chance(50) { w.principal.clone() } else if r.chance(50) { w.resource.clone() } else { gen::gen_uid(r) }); }
        ps.link(tid, PolicyID::from_string("link0"), vals).map_err(|e| format!("link: {e}"))?;
    }
    let resp = catch_unwind(AssertUnwindSafe(|| Authorizer::new().is_authorized(w.request(), &ps, &w.entities))).map_err(c02::panic_msg)?;
    Ok(format!("{:?} reasons={} errors={}", resp.decision, resp.diagnostics.reason.len(), resp.diagnostics.errors.len()))
}

/// model correspondence on the policy level: `(polparse id tokens)` — the model's policy parser on `lex(text)` against the real
/// parser's result (accept: the AST as a C08 `(body …)`; reject: `(none)`).
fn polparse_line(text: &str, id: &PolicyID, res: Option<&ast::Template>, tag: &str, out: &mut Out) {
    let ts = match lex(text) {
        Ok(ts) => ts,
        Err(le) => {
            out.count("pol_lex_reject");
            if res.is_some() { out.line("(lex-error)".into(), format!("(harness tokenizer rejected accepted policy text: {le})"), format!("{tag} {text}")); }
            return;
        }
    };
    let imp = match res {
        Some(t) => match crate::c08::body_sx(t) { Some(b) => format!("(ok {b})"), None => { out.count("pol_outside_protocol"); return; } },
        None => "(none)".to_string(),
    };
    out.count(if res.is_some() { "pp_polparse_accept" } else { "pp_polparse_reject" });
    out.line(format!("(polparse {} {})", sx::qs(id.as_ref()), toks_sx(&ts)), imp, format!("{tag} {text}"));
}

/// `(polprint body tokens)`: the model's policy printer against `lex(Display)`, string tokens compared by value
fn polprint_line(t: &ast::Template, printed: &str, out: &mut Out) {
    let (Some(b), Ok(ts)) = (crate::c08::body_sx(t), lex(printed)) else { out.count("pol_outside_protocol"); return; };
    out.count("pp_polprint");
    out.line(format!("(polprint {b} {})", toks_sx(&ts)), "(same)".into(), format!("polprint {printed}"));
}


/// canonical token list for the `(lex …)` lines: numbers by value (leading zeros stripped)
fn toks_sx_canon(ts: &[Tok]) -> String {
    let canon: Vec<Tok> = ts.iter().map(|t| match t {
        Tok::Num(d) => { let z = d.trim_start_matches('0'); Tok::Num(if z.is_empty() { "0".into() } else { z.to_string() }) }
        other => other.clone(),
    }).collect();
    toks_sx(&canon)
}

/// lexer correspondence for one policy text:
///  * `(lex "text")`: the model lexer against the harness tokenizer (token list, or `(lexerr)` for a lexical error);
///  * `(lexpolparse "id" "text")`: model lexer + model policy parser against the REAL `parse_policy_or_template` on the raw text
///    (no harness tokenizer in between: this line ties the model lexer to the LALRPOP-generated lexer itself);
///  * impl-only: a text the harness tokenizer rejects must be rejected by the real parser.
fn lex_lines(text: &str, id: &PolicyID, tag: &str, out: &mut Out) {
    if text.len() > 6000 { return; }
    let hl = lex(text);
    let imp_lex = match &hl { Ok(ts) => toks_sx_canon(ts), Err(_) => "(lexerr)".to_string() };
    out.count(if hl.is_ok() { "lex_ok" } else { "lex_err" });
    out.line(format!("(lex {})", sx::qs(text)), imp_lex, format!("lex[{tag}] {text}"));
    let res = match catch_unwind(AssertUnwindSafe(|| parser::parse_policy_or_template(Some(id.clone()), text))) {
        Ok(r) => r.ok(),
        Err(p) => { out.propfail("panic parsing policy", text, &c02::panic_msg(p)); return; }
    };
    if hl.is_err() && res.is_some() { out.propfail("real parser accepts a text with a lexical error (per the harness tokenizer)", text, ""); }
    let imp = match &res {
        Some(t) => match crate::c08::body_sx(t) { Some(b) => format!("(ok {b})"), None => { out.count("pol_outside_protocol"); return; } },
        None => "(none)".to_string(),
    };
    out.count(if res.is_some() { "lexpolparse_accept" } else { "lexpolparse_reject" });
    if res.is_some() { out.nontrivial(&format!("L{imp}")); }
    out.line(format!("(lexpolparse {} {})", sx::qs(id.as_ref()), sx::qs(text)), imp, format!("lexpolparse[{tag}] {text}"));
}

const LEX_SEPS: &[&str] = &[" ", " ", "", "", "\n", "\t ", "\r\n", " // c ? \" & \\ \n", "//\n", "//x\r", "\u{a0}", "\u{2003}\u{3000}", "\u{b}\u{c}", " /", "\u{85}"];
const LEX_BAD: &[&str] = &["\"abc", "\"a\\\nb\"", "?", "? x", "&", "|", "#", "\"\\\"", "'a'", "`", "\u{feff}", "\"a\\", "$x", "~", "^", "a|b", "&&&", "\u{200b}"];
const LEX_ODD: &[&str] = &["\"a\\\\\"", "\"\\\"\"", "\"\\*\"", "\"a\nb\"", "\"a//b\"", "\"\\u{1F600}\"", "\"\u{e9}\u{1F600}\"", "007", "1a", "a1_", "_", "__cedar", "?principalx", "?_", "?resource", "<==", ">==", "!==", ":::", "=!", "<>", "|| &&", "1.2", "-1", "/ /", "*/"];

/// the text re-rendered from its tokens with random separators (none, blanks of several Unicode kinds, line ends, comments) and,
/// sometimes, an odd or malformed piece spliced in
fn lex_noise(text: &str, r: &mut Rng) -> Option<String> {
    let ts = lex(text).ok()?;
    let mut o = String::new();
    let splice = if r.chance(45) { Some(r.below(ts.len() + 1)) } else { None };
    let bad = r.chance(40);
    for (i, t) in ts.iter().enumerate() {
        if splice == Some(i) { o.push_str(*r.pick(if bad { LEX_BAD } else { LEX_ODD })); o.push_str(*r.pick(LEX_SEPS)); }
        o.push_str(&render(std::slice::from_ref(t)));
        o.push_str(*r.pick(LEX_SEPS));
    }
    if splice == Some(ts.len()) { o.push_str(*r.pick(if bad { LEX_BAD } else { LEX_ODD })); }
    Some(o)
}

fn policy_case(cx: &mut Ctx, text: &str, r: &mut Rng, out: &mut Out) {
    out.cases += 1;
    let id = PolicyID::from_string("p\"0\n");
    lex_lines(text, &id, "raw", out);
    for _ in 0..2 { if let Some(nt) = lex_noise(text, r) { lex_lines(&nt, &id, "noise", out); } }
    let t = match catch_unwind(AssertUnwindSafe(|| parser::parse_policy_or_template(Some(id.clone()), text))) {
        Ok(Ok(t)) => t,
        Ok(Err(_)) => { out.count("policy_text_rejected"); polparse_line(text, &id, None, "poltext", out); return; }
        Err(p) => { out.propfail("panic parsing policy", text, &c02::panic_msg(p)); return; }
    };
    polparse_line(text, &id, Some(&t), "poltext", out);
    let is_template = t.slots().count() > 0;
    out.count(if is_template { "template_text_accepted" } else { "policy_text_accepted" });
    out.nontrivial(&format!("P{}", template_facts(&t)));
    // two printers: the AST's Display and the EST's Display (cst -> est)
    let mut printed: Vec<(&str, String)> = Vec::new();
    match catch_unwind(AssertUnwindSafe(|| t.to_string())) { Ok(p) => printed.push(("ast", p)), Err(p) => out.propfail("panic printing policy", text, &c02::panic_msg(p)) }
    match catch_unwind(AssertUnwindSafe(|| parser::parse_policy_or_template_to_est_and_ast(Some(id.clone()), text).map(|(est, _)| est.to_string()))) {
        Ok(Ok(p)) => printed.push(("est", p)),
        Ok(Err(e)) => out.propfail("est route rejects accepted policy text", text, &format!("{e}")),
        Err(p) => out.propfail("panic printing policy through EST", text, &c02::panic_msg(p)),
    }
    for (which, p) in printed {
        if which == "ast" {
            polprint_line(&t, &p, out);
            polparse_line(&p, &id, Some(&t), "polprinted", out);
            lex_lines(&p, &id, "display", out);
        }
        out.sample(format!("{text}  ==print({which})==>  {p}"));
        match catch_unwind(AssertUnwindSafe(|| parser::parse_policy_or_template(Some(id.clone()), &p))) {
            Err(pm) => out.propfail(&format!("panic parsing printed policy ({which} printer)"), text, &format!("printed: {p} ; {}", c02::panic_msg(pm))),
            Ok(Err(e)) => out.propfail(&format!("printed policy does not parse ({which} printer)"), text, &format!("printed: {p} ; error: {e}")),
            Ok(Ok(t2)) => {
                out.count(&format!("c_policy_roundtrips_{which}"));
                if t2 != t || !same_template_modulo_id(&t, &t2) {
                    out.propfail(&format!("printed policy parses to a different object ({which} printer)"), text, &format!("printed: {p} ; original: {} ; reparsed: {}", template_facts(&t), template_facts(&t2)));
                } else {
                    // static policies must stay static, templates templates
                    let s1 = parser::parse_policy(Some(id.clone()), text).is_ok();
                    let s2 = parser::parse_policy(Some(id.clone()), &p).is_ok();
                    if s1 != s2 { out.propfail("static/template status changed by printing", text, &format!("printed: {p}")); }
                    for wi in 0..2usize.min(cx.worlds.len()) {
                        let mut r1 = r.clone();
                        let mut r2 = r.clone();
                        let w = &cx.worlds[wi].0;
                        let a = authorize(w, &t, &mut r1);
                        let b = authorize(w, &t2, &mut r2);
                        out.count("c_policy_evals");
                        if a != b { out.propfail(&format!("printed policy authorizes differently ({which} printer)"), text, &format!("printed: {p} ; {a:?} vs {b:?}")); }
                    }
                }
            }
        }
    }
    // the policy's condition as an expression: model correspondence of the expression layer on policy-derived ASTs
    if !is_template {
        let cond = t.condition();
        let _ = cond; // covered by expr_case on the same generator; kept implementation-only here
    }
}

fn policyset_case(cx: &mut Ctx, texts: &[String], out: &mut Out) {
    let _ = cx;
    out.cases += 1;
    let src = texts.join("\n");
    let ps = match catch_unwind(AssertUnwindSafe(|| parser::parse_policyset(&src))) {
        Ok(Ok(ps)) => ps,
        Ok(Err(_)) => { out.count("policyset_text_rejected"); return; }
        Err(p) => { out.propfail("panic parsing policy set", &src, &c02::panic_msg(p)); return; }
    };
    out.count("policyset_text_accepted");
    // print the whole set: every template / static policy with the AST printer, in the set's own iteration order
    let printed: String = ps.all_templates().map(|t| t.to_string()).collect::<Vec<_>>().join("\n");
    match catch_unwind(AssertUnwindSafe(|| parser::parse_policyset(&printed))) {
        Err(p) => out.propfail("panic parsing printed policy set", &src, &format!("printed: {printed} ; {}", c02::panic_msg(p))),
        Ok(Err(e)) => out.propfail("printed policy set does not parse", &src, &format!("printed: {printed} ; error: {e}")),
        Ok(Ok(ps2)) => {
            out.count("c_policyset_roundtrips");
            let a: Vec<&ast::Template> = ps.all_templates().collect();
            let mut b: Vec<&ast::Template> = ps2.all_templates().collect();
            let mut ok = a.len() == b.len() && ps.static_policies().count() == ps2.static_policies().count() && ps.templates().count() == ps2.templates().count();
            if ok {
                for t in &a {
                    match b.iter().position(|u| same_template_modulo_id(t, u)) { Some(i) => { b.swap_remove(i); } None => { ok = false; break; } }
                }
            }
            if !ok { out.propfail("printed policy set is a different collection of policies", &src, &format!("printed: {printed}")); }
        }
    }
    // public API: PolicySet::from_str / to_cedar
    if let Ok(Ok(pps)) = catch_unwind(AssertUnwindSafe(|| cedar_policy::PolicySet::from_str(&src))) {
        match pps.to_cedar() {
            None => out.propfail("to_cedar returned None for a parsed policy set", &src, ""),
            Some(txt) => match catch_unwind(AssertUnwindSafe(|| parser::parse_policyset(&txt))) {
                Ok(Ok(ps3)) => {
                    out.count("c_policyset_api_roundtrips");
                    let mut b: Vec<&ast::Template> = ps3.all_templates().collect();
                    let mut ok = ps.all_templates().count() == b.len();
                    for t in ps.all_templates() {
                        match b.iter().position(|u| same_template_modulo_id(t, u)) { Some(i) => { b.swap_remove(i); } None => { ok = false; break; } }
                    }
                    if !ok { out.propfail("PolicySet::to_cedar yields a different collection of policies", &src, &format!("printed: {txt}")); }
                }
                Ok(Err(e)) => out.propfail("PolicySet::to_cedar output does not parse", &src, &format!("printed: {txt} ; error: {e}")),
                Err(p) => out.propfail("panic parsing PolicySet::to_cedar output", &src, &c02::panic_msg(p)),
            },
        }
    }
}

// ---------------------------------------------------------------------------------------------
pub fn run(args: &Args, out: &mut Out) {
    let mut rng = Rng::new(args.seed);
    let mut worlds = Vec::new();
    for wi in 0..3 {
        let mut wr = Rng::new(args.seed.wrapping_add(500 + wi));
        let w = gen::gen_world(&mut wr);
        let wsx = c02::world_sx(&w);
        worlds.push((w, wsx));
    }
    let mut cx = Ctx { worlds, driver: find_driver(), b_batch: Vec::new() };
    out.count(if cx.driver.is_some() { "route_b_driver_found" } else { "route_b_driver_missing" });

    // (x) extension function call styles
    {
        use cedar_policy_core::extensions as ext;
        let exts = [ext::ipaddr::extension(), ext::decimal::extension(), ext::datetime::extension(), ext::partial_evaluation::extension()];
        let mut fs: Vec<String> = exts.iter().flat_map(|e| e.funcs().map(|f| {
            format!("({} {})", match f.style() { ast::CallStyle::FunctionStyle => "fn", ast::CallStyle::MethodStyle => "meth" }, sx::qs(&f.name().to_string()))
        }).collect::<Vec<_>>()).collect();
        // no extension beyond the four enumerated ones may be active
        let n_active = Extensions::all_available().ext_names().count();
        if n_active != exts.len() { fs.push(format!("(unlisted-extensions {n_active})")); }
        fs.sort();
        out.line(format!("(ext-styles {})", fs.join(" ")), "(same)".into(), "extension call-style table".into());
    }

    // (d) unescape: every piece alone, every ordered pair of a good/bad piece with a neighbour, then random
    for p in RAW_PIECES.iter().chain(RAW_BAD.iter()) { unescape_case(p, out); }
    for a in RAW_BAD { for b in ["a", "\\n", "*", "\\*", "\""] { unescape_case(&format!("{b}{a}"), out); unescape_case(&format!("{a}{b}"), out); } }
    let n_unesc = (args.n / 4).max(200);
    for _ in 0..n_unesc { let raw = gen_raw(&mut rng, 8); unescape_case(&raw, out); }

    // fixed forms
    for t in NEG_FORMS.iter().chain(BAD_FORMS.iter()).chain(LONGS.iter()) { expr_case(&mut cx, t, "fixed", out, 2); }
    for neg in NEG_FORMS {
        for tpl in ["#.foo", "#[\"a\"]", "#.isEmpty()", "#.contains(#)", "# - #", "# * #", "-#", "!#", "# < #", "[#]", "{a: #}", "(#).foo", "(#)", "decimal(#)", "#.lessThan(#)", "if # then # else #", "# has a", "# like \"x\"", "# is T", "# in #"] {
            let n = tpl.chars().filter(|c| *c == '#').count();
            expr_case(&mut cx, &fill(tpl, &vec![neg.to_string(); n]), "neg", out, 1);
        }
    }
    for a in IDENT_ATTRS.iter().chain(RESERVED_ATTRS.iter()) {
        for tpl in ["context.#", "context[\"#\"]", "context has #", "context has \"#\"", "{#: 1}", "{\"#\": 1}", "{#: 1}.#", "{\"#\": 1}[\"#\"]", "context has #.#", "context has a.#", "context.#.#", "#", "#::T::\"x\"", "T::#::\"x\"", "principal is #", "principal is N::#", "#(1)", "context.#(1)"] {
            let n = tpl.chars().filter(|c| *c == '#').count();
            expr_case(&mut cx, &fill(tpl, &vec![a.to_string(); n]), "attr", out, 1);
        }
    }
    for a in STR_ATTRS { for tpl in ["context[\"#\"]", "context has \"#\"", "{\"#\": 1}", "T::\"#\"", "\"#\"", "\"a\" like \"#\""] { expr_case(&mut cx, &fill(tpl, &[a.to_string()]), "strattr", out, 1); } }
    for p in PATTERNS { expr_case(&mut cx, &format!("context.s like \"{p}\""), "pattern", out, 2); }
    for e in EIDS { for t in TYPES { expr_case(&mut cx, &format!("{t}::\"{e}\""), "euid", out, 1); } }

    // exhaustive operator x operator grid (parent, child position, child; naked / parenthesised / doubly parenthesised)
    grid(&mut cx, out, args.thorough);

    // random texts: minimal / full / redundant parenthesisation, depth <= 8
    let n_expr = args.n;
    for i in 0..n_expr {
        let mut cr = rng.fork();
        let tg = TG { paren: (i % 3) as u8, ill_pct: 3 };
        let depth = 1 + cr.below(if args.thorough { 8 } else { 6 }) as u32;
        let depth = if i % 50 == 0 { 8 } else { depth };
        let text = tg.gen(&mut cr, 0, depth);
        if text.len() > 6000 { out.count("text_too_long_skipped"); continue; }
        expr_case(&mut cx, &text, "rand", out, 2);
    }
    for _ in 0..(args.n / 4).max(100) { let mut cr = rng.fork(); literal_asts(&mut cx, &mut cr, out); }
    route_b(&mut cx, out);

    // policies / templates / policy sets
    let n_pol = (args.n / 3).max(100);
    let mut recent: Vec<String> = Vec::new();
    for i in 0..n_pol {
        let mut cr = rng.fork();
        let tg = TG { paren: (i % 3) as u8, ill_pct: 1 };
        let text = gen_policy_text(&mut cr, &tg, i % 2 == 1);
        policy_case(&mut cx, &text, &mut cr, out);
        recent.push(text);
        if recent.len() == 5 {
            policyset_case(&mut cx, &recent, out);
            recent.clear();
        }
    }
    for t in [
        "permit(principal, action, resource);",
        "@id(\"\\\"x\\\"\\n\")\n@if(\"\\u{1F600}\") forbid(principal == ?principal, action in [Action::\"a\", Action::\"\\0\"], resource is NS::Doc in ?resource) when { true } unless { false } when { context has if };",
        "permit(principal, action, resource) when { true } when { false };",
        "permit(principal, action, resource) unless { true } unless { false };",
        "permit(principal, action, resource) when { -9223372036854775808 < -(1) } unless { (-1).foo };",
        "permit(principal is principal, action == action::\"action\", resource in resource::\"resource\");",
        "@a permit(principal, action, resource);",
        // scope forms the printer never produces, and the rejects of `extract_scope` / `to_ref_or_refs` / `to_action_constraint`
        "permit(principal == (User::\"a\"), action in (Action::\"a\"), resource in ((Doc::\"d\")),);",
        "permit(principal == ((?principal)), action in [(Action::\"a\"), NS::Action::\"b\",], resource is Doc in (?resource));",
        "permit(principal == ?resource, action, resource);",
        "permit(principal, action, resource == ?principal);",
        "permit(principal: User, action, resource);",
        "permit(principal, action: Action, resource);",
        "permit(principal, action is Action, resource);",
        "permit(principal, action == User::\"a\", resource);",
        "permit(principal, action in [Action::\"a\", User::\"a\"], resource);",
        "permit(principal, action == [Action::\"a\"], resource);",
        "permit(principal, action == ?principal, resource);",
        "permit(principal in [User::\"a\"], action, resource);",
        "permit(principal is User == User::\"a\", action, resource);",
        "permit(principal is User in User::\"a\" in User::\"b\", action, resource);",
        "permit(principal in User::\"a\" is User, action, resource);",
        "permit(principal is User::\"a\", action, resource);",
        "permit(principal is 1, action, resource);",
        "permit(principal < User::\"a\", action, resource);",
        "permit(principal = User::\"a\", action, resource);",
        "permit(principal == User::\"a\".b, action, resource);",
        "permit(principal == if true then User::\"a\" else User::\"b\", action, resource);",
        "permit(principal == \"a\", action, resource);",
        "permit(principal == User, action, resource);",
        "permit(principal, action);",
        "permit();",
        "permit(principal, action, resource, context);",
        "permit(action, principal, resource);",
        "permit(resource, action, principal);",
        "permit(principal, action, resource,,);",
        "allow(principal, action, resource);",
        "permit(principal, action, resource) when { ?principal == principal };",
        "permit(principal == ?principal, action, resource) unless { resource in ?resource };",
        "permit(principal, action, resource) when { };",
        "permit(principal, action, resource) if { true };",
        "permit(principal, action, resource) when { true }",
        "permit(principal, action, resource) when { true };;",
        "permit(principal, action, resource); permit(principal, action, resource);",
        "@id(\"a\") @id(\"b\") permit(principal, action, resource);",
        "@id @id permit(principal, action, resource);",
        "@id(\"\\q\") permit(principal, action, resource);",
        "@id(x) permit(principal, action, resource);",
        "@id() permit(principal, action, resource);",
        "@z(\"1\") @a(\"2\") @m @if(\"3\") forbid(principal, action, resource);",
        "permit(principal, action, resource) when { true } when { true } unless { false };",
        "permit(principal, action, resource) when { 1 } when { true && false } unless { principal has a.b };",
        "permit(principal is __cedar::User, action, resource);",
        "permit(principal is if, action, resource);",
        "permit(principal is A::B::C in A::B::C::\"\\u{1F600}\", action in [], resource);",
    ] { policy_case(&mut cx, t, &mut rng.fork(), out); }
}
