//! C09 schema generator: schemas rendered *independently of the library* in BOTH syntaxes (Cedar text and JSON),
//! built around what the translation between the syntaxes has to get right and `gen_schema.rs` deliberately avoids:
//!  * unqualified references that need RFC-24/70 name resolution (same namespace, empty namespace, primitives);
//!  * entity types named like primitives / extension types (`entity Long;`), common types named like extension
//!    types (`type ipaddr = …`), attempts to name a common type like a primitive (rejected, counted);
//!  * `__cedar::` escapes; common types referencing common types; names declared both in a namespace and globally;
//!  * names declared as a common type AND as an entity type (same namespace / empty namespace);
//!  * identifiers that need quoting in the Cedar syntax (attribute names, action ids, enum ids), keywords used as
//!    identifiers (`type`, `entity`, `Set`, `context`, …);
//!  * annotations (with and without value) on namespaces, declarations and attributes;
//!  * `memberOfTypes` / `memberOf` / `appliesTo` references across namespaces, written qualified or unqualified;
//!  * optional × required × nested records, sets, tags, enumerated types, declarations with several names,
//!    empty namespaces, entity shapes given by a common type (not expressible in Cedar syntax).
//! The JSON rendering picks, per reference, among the forms `{"type":"Entity","name":n}`, `{"type":"EntityOrCommon","name":n}`,
//! `{"type":n}`, `{"type":"Long"}`, `{"type":"Extension","name":n}`; the Cedar rendering writes the name.  The two
//! renderings are NOT claimed to denote the same schema: each is an *input* of the four-way comparison.
use crate::rng::Rng;
use serde_json::{json, Map, Value as J};

pub type Anns = Vec<(String, Option<String>)>;

/// how a written name is rendered in JSON
#[derive(Clone, Copy, Debug, PartialEq, Eq)]
pub enum JKind {
    /// `{"type":"Long"|"String"|"Boolean"}` (written name must be Long/String/Bool)
    Prim,
    /// `{"type":"Extension","name":written}`
    Ext,
    /// `{"type":"Entity","name":written}`
    Entity,
    /// `{"type":written}`
    Common,
    /// `{"type":"EntityOrCommon","name":written}`
    Either,
}

#[derive(Clone, Debug)]
pub enum TTy {
    Name { written: String, jk: JKind },
    Set(Box<TTy>),
    Record(Vec<TAttr>),
}

#[derive(Clone, Debug)]
pub struct TAttr {
    pub name: String,
    pub required: bool,
    pub ty: TTy,
    pub anns: Anns,
}

#[derive(Clone, Debug)]
pub struct TCommon {
    pub name: String,
    pub ty: TTy,
    pub anns: Anns,
}

#[derive(Clone, Debug)]
pub struct TEType {
    /// one declaration may bind several names
    pub names: Vec<String>,
    pub member_of: Vec<String>,
    pub attrs: Vec<TAttr>,
    pub tags: Option<TTy>,
    pub enum_ids: Option<Vec<String>>,
    /// JSON only: shape is a reference to this common type (Cedar rendering inlines `attrs` instead)
    pub shape_common: Option<String>,
    pub anns: Anns,
}

#[derive(Clone, Debug)]
pub struct TApplies {
    pub principals: Vec<String>,
    pub resources: Vec<String>,
    pub context: TTy,
}

#[derive(Clone, Debug)]
pub struct TAction {
    pub names: Vec<String>,
    /// (type as written or none, id)
    pub member_of: Vec<(Option<String>, String)>,
    pub applies: Option<TApplies>,
    pub anns: Anns,
}

#[derive(Clone, Debug)]
pub struct TNs {
    pub name: String,
    pub anns: Anns,
    pub commons: Vec<TCommon>,
    pub etypes: Vec<TEType>,
    pub actions: Vec<TAction>,
}

#[derive(Clone, Debug)]
pub struct TSpec {
    pub namespaces: Vec<TNs>,
}

pub fn qualify(ns: &str, base: &str) -> String {
    if ns.is_empty() { base.to_string() } else { format!("{ns}::{base}") }
}

const NS_POOL: &[&str] = &["NS", "A", "A::B", "type", "X::Action"];
const ENT_POOL: &[&str] = &["User", "Group", "Doc", "T", "U", "Long", "String", "Bool", "ipaddr", "decimal", "Set", "type", "entity", "context", "Task", "enum", "Entity", "Record"];
const COMMON_POOL: &[&str] = &["CT0", "CT1", "T", "U", "Task", "ipaddr", "decimal", "datetime", "duration", "type", "context", "User", "tags", "Long", "Bool", "Extension"];
const ATTR_POOL: &[&str] = &[
    "a", "b", "n", "s", "flag", "ref", "items", "rec", "has space", "if", "in", "true", "Long", "Set", "__cedar", "a-b", "", "a\"b", "\u{e9}", "line\nbreak",
    "\u{1F600}", "context", "principal", "type", "_x1", "9lives", "is", "tab\there", "back\\slash", "'q'", "\u{301}acc", "\0nul",
    // identifiers padded with what the Cedar lexer skips (a printer that asks "does it PARSE as an identifier" prints them bare)
    "name ", " id", "pad\t", "\nlead", "c //x", "/*c*/k",
];
const ACTION_POOL: &[&str] = &["view", "edit", "delete", "list all", "", "a\"b", "Action", "\u{1F600}", "x::y", "in", "if", "type", "read-only", "line\nbreak", "appliesTo"];
const ENUM_ID_POOL: &[&str] = &["red", "green", "x y", "e\"q", "\u{1F600}", "", "a\\b", "\n", "\u{7f}", "\u{301}"];
const ANN_KEYS: &[&str] = &["doc", "x", "in", "type", "entity", "if", "_a1", "Long"];
const ANN_VALS: &[&str] = &["", "some doc", "q\"uote", "multi\nline", "\u{1F600}", "back\\slash"];
const PRIMS: &[&str] = &["Long", "String", "Bool"];
const EXTS: &[&str] = &["decimal", "ipaddr", "datetime", "duration"];

fn gen_anns(r: &mut Rng) -> Anns {
    if !r.chance(22) {
        return vec![];
    }
    let n = 1 + r.below(2);
    let mut v: Anns = Vec::new();
    while v.len() < n {
        let k = (*r.pick(ANN_KEYS)).to_string();
        if v.iter().any(|(k2, _)| k2 == &k) {
            continue;
        }
        let val = if r.chance(30) { None } else { Some((*r.pick(ANN_VALS)).to_string()) };
        v.push((k, val));
    }
    v
}

fn pick_distinct(r: &mut Rng, pool: &[&str], n: usize) -> Vec<String> {
    let mut v: Vec<String> = Vec::new();
    let mut guard = 0;
    while v.len() < n.min(pool.len()) && guard < 100 {
        guard += 1;
        // bias towards the beginning of the pool (the ordinary names)
        let i = if r.chance(55) { r.below(pool.len().min(5)) } else { r.below(pool.len()) };
        let s = pool[i].to_string();
        if !v.contains(&s) {
            v.push(s);
        }
    }
    v
}

/// what the generator knows about declared names
struct Env {
    /// (ns, base)
    entities: Vec<(String, String)>,
    /// (ns, base), in declaration order
    commons: Vec<(String, String)>,
}

struct TyGen<'a> {
    env: &'a Env,
    ns: &'a str,
    /// commons with index < this may be referenced (avoids most definition cycles); usize::MAX outside common defs
    commons_below: usize,
}

impl TyGen<'_> {
    /// how to write a reference to (tns, base) from the current namespace
    fn written(&self, r: &mut Rng, tns: &str, base: &str) -> String {
        let q = qualify(tns, base);
        if tns == self.ns || tns.is_empty() {
            if r.chance(65) { base.to_string() } else { q }
        } else if r.chance(4) {
            // (usually wrong) unqualified reference to something in another namespace
            base.to_string()
        } else {
            q
        }
    }

    fn gen_ref(&self, r: &mut Rng) -> TTy {
        let k = r.below(100);
        if k < 22 {
            let p = *r.pick(PRIMS);
            match r.below(10) {
                0..=4 => TTy::Name { written: p.into(), jk: JKind::Prim },
                5 | 6 => TTy::Name { written: p.into(), jk: JKind::Either },
                7 => TTy::Name { written: p.into(), jk: if p == "Bool" { JKind::Common } else { JKind::Either } },
                _ => TTy::Name { written: format!("__cedar::{p}"), jk: if r.chance(50) { JKind::Either } else { JKind::Common } },
            }
        } else if k < 36 {
            let x = *r.pick(EXTS);
            match r.below(10) {
                0..=3 => TTy::Name { written: x.into(), jk: JKind::Ext },
                4 | 5 => TTy::Name { written: x.into(), jk: JKind::Either },
                6 => TTy::Name { written: x.into(), jk: JKind::Common },
                _ => TTy::Name { written: format!("__cedar::{x}"), jk: if r.chance(50) { JKind::Either } else { JKind::Common } },
            }
        } else if k < 70 || self.env.commons.is_empty() {
            let (tns, base) = r.pick(&self.env.entities).clone();
            let jk = if r.chance(50) { JKind::Entity } else { JKind::Either };
            TTy::Name { written: self.written(r, &tns, &base), jk }
        } else {
            let n = self.env.commons.len().min(self.commons_below);
            if n == 0 {
                return TTy::Name { written: "Long".into(), jk: JKind::Prim };
            }
            let (tns, base) = self.env.commons[r.below(n)].clone();
            let w = self.written(r, &tns, &base);
            // `{"type": w}` is a common-type reference unless w is a JSON schema keyword
            let kw = ["Long", "String", "Boolean", "Set", "Record", "Entity", "EntityOrCommon", "Extension"].contains(&w.as_str());
            let jk = if !kw && r.chance(50) { JKind::Common } else { JKind::Either };
            TTy::Name { written: w, jk }
        }
    }

    fn gen(&self, r: &mut Rng, depth: u32) -> TTy {
        let k = if depth == 0 { r.below(7) } else { r.below(11) };
        match k {
            0..=6 => self.gen_ref(r),
            7 | 8 => TTy::Set(Box::new(self.gen(r, depth - 1))),
            _ => TTy::Record(self.gen_attrs(r, depth - 1, 3)),
        }
    }

    fn gen_attrs(&self, r: &mut Rng, depth: u32, max: usize) -> Vec<TAttr> {
        let n = r.below(max + 1);
        let mut names = pick_distinct(r, ATTR_POOL, n);
        // the JSON side is a BTreeMap; keep the same order in the Cedar text most of the time
        if r.chance(80) {
            names.sort();
        }
        names.into_iter().map(|a| TAttr { name: a, required: r.chance(55), ty: self.gen(r, depth), anns: gen_anns(r) }).collect()
    }
}

pub fn gen_tspec(r: &mut Rng) -> TSpec {
    // namespaces
    let mut ns_names: Vec<String> = match r.below(5) {
        0 => vec!["".into()],
        1 => vec![(*r.pick(NS_POOL)).to_string()],
        2 | 3 => vec!["".into(), (*r.pick(NS_POOL)).to_string()],
        _ => {
            let mut v = pick_distinct(r, NS_POOL, 2);
            if r.chance(50) {
                v.insert(0, "".into());
            }
            v
        }
    };
    ns_names.dedup();
    // declared names
    let mut env = Env { entities: vec![], commons: vec![] };
    let mut per_ns: Vec<(Vec<Vec<String>>, Vec<String>)> = Vec::new();
    let mut global: Vec<String> = Vec::new();
    for ns in &ns_names {
        let ne = if ns_names.len() == 1 { 2 + r.below(3) } else { 1 + r.below(3) };
        let mut ents = pick_distinct(r, ENT_POOL, ne);
        let nc = r.below(3);
        let mut coms = pick_distinct(r, COMMON_POOL, nc);
        // `type Long = …` is always rejected: keep it rare
        coms.retain(|c| !(["Long", "Bool", "Extension"].contains(&c.as_str()) && r.chance(90)));
        // a name declared both as entity and common type in one namespace: keep, but not too often
        coms.retain(|c| !(ents.contains(c) && r.chance(70)));
        if !ns.is_empty() {
            // RFC 70: a qualified declaration must not shadow an empty-namespace declaration; violate rarely
            ents.retain(|e| !(global.contains(e) && r.chance(93)));
            coms.retain(|c| !(global.contains(c) && r.chance(93)));
            if ents.is_empty() {
                ents.push(format!("E{}", per_ns.len()));
            }
        } else {
            global.extend(ents.iter().cloned());
            global.extend(coms.iter().cloned());
        }
        for e in &ents {
            env.entities.push((ns.clone(), e.clone()));
        }
        for c in &coms {
            env.commons.push((ns.clone(), c.clone()));
        }
        // group entity names into declarations (sometimes two names per declaration)
        let mut groups: Vec<Vec<String>> = Vec::new();
        for e in ents {
            match groups.last_mut() {
                Some(g) if g.len() == 1 && r.chance(18) => g.push(e),
                _ => groups.push(vec![e]),
            }
        }
        per_ns.push((groups, coms));
    }
    // action ids per namespace (decided first so that memberOf can point anywhere earlier)
    let mut all_actions: Vec<(String, String)> = Vec::new();
    let mut action_groups: Vec<Vec<Vec<String>>> = Vec::new();
    for ns in &ns_names {
        let na = if r.chance(12) { 0 } else { 1 + r.below(3) };
        let ids = pick_distinct(r, ACTION_POOL, na);
        let mut groups: Vec<Vec<String>> = Vec::new();
        for a in ids {
            match groups.last_mut() {
                Some(g) if g.len() == 1 && r.chance(18) => g.push(a),
                _ => groups.push(vec![a]),
            }
        }
        for g in &groups {
            for a in g {
                all_actions.push((ns.clone(), a.clone()));
            }
        }
        action_groups.push(groups);
    }
    let mut namespaces: Vec<TNs> = Vec::new();
    let mut common_index = 0usize;
    let mut action_index = 0usize;
    for (i, ns) in ns_names.iter().enumerate() {
        let (groups, coms) = &per_ns[i];
        let mut commons = Vec::new();
        for c in coms {
            let tg = TyGen { env: &env, ns, commons_below: if r.chance(97) { common_index } else { usize::MAX } };
            let ty = if r.chance(45) { TTy::Record(tg.gen_attrs(r, 1, 3)) } else { tg.gen(r, 1) };
            commons.push(TCommon { name: c.clone(), ty, anns: gen_anns(r) });
            common_index += 1;
        }
        let tg = TyGen { env: &env, ns, commons_below: usize::MAX };
        let mut etypes = Vec::new();
        for g in groups {
            if r.chance(22) {
                let k = 1 + r.below(3);
                etypes.push(TEType { names: g.clone(), member_of: vec![], attrs: vec![], tags: None, enum_ids: Some(pick_distinct(r, ENUM_ID_POOL, k)), shape_common: None, anns: gen_anns(r) });
                continue;
            }
            let mut member_of = Vec::new();
            for _ in 0..r.below(3) {
                let (tns, base) = r.pick(&env.entities).clone();
                let w = tg.written(r, &tns, &base);
                if !member_of.contains(&w) {
                    member_of.push(w);
                }
            }
            let attrs = tg.gen_attrs(r, 2, 4);
            let tags = if r.chance(35) { Some(tg.gen(r, 1)) } else { None };
            let shape_common = if !env.commons.is_empty() && r.chance(3) {
                let (tns, base) = r.pick(&env.commons).clone();
                Some(tg.written(r, &tns, &base))
            } else {
                None
            };
            etypes.push(TEType { names: g.clone(), member_of, attrs, tags, enum_ids: None, shape_common, anns: gen_anns(r) });
        }
        let mut actions = Vec::new();
        for g in &action_groups[i] {
            let mut member_of: Vec<(Option<String>, String)> = Vec::new();
            for _ in 0..r.below(3) {
                if action_index == 0 {
                    break;
                }
                let (pns, pid) = all_actions[r.below(action_index)].clone();
                let ty = qualify(&pns, "Action");
                let m = if &pns == ns {
                    match r.below(3) {
                        0 => (None, pid),
                        1 => (Some("Action".to_string()), pid),
                        _ => (Some(ty), pid),
                    }
                } else {
                    (Some(ty), pid)
                };
                if !member_of.iter().any(|x| x.1 == m.1) {
                    member_of.push(m);
                }
            }
            let applies = if r.chance(80) {
                let pick_types = |r: &mut Rng| -> Vec<String> {
                    let mut v: Vec<String> = Vec::new();
                    for _ in 0..(1 + r.below(2)) {
                        let (tns, base) = r.pick(&env.entities).clone();
                        let w = tg.written(r, &tns, &base);
                        if !v.contains(&w) {
                            v.push(w);
                        }
                    }
                    v
                };
                // (JSON only) an `appliesTo` with an empty list: the action applies to nothing
                let principals = if r.chance(3) { vec![] } else { pick_types(r) };
                let resources = if r.chance(3) { vec![] } else { pick_types(r) };
                let context = if !env.commons.is_empty() && r.chance(15) {
                    let (tns, base) = r.pick(&env.commons).clone();
                    TTy::Name { written: tg.written(r, &tns, &base), jk: if r.chance(50) { JKind::Common } else { JKind::Either } }
                } else {
                    TTy::Record(tg.gen_attrs(r, 2, 3))
                };
                Some(TApplies { principals, resources, context })
            } else {
                None
            };
            actions.push(TAction { names: g.clone(), member_of, applies, anns: gen_anns(r) });
            action_index += g.len();
        }
        let anns = if ns.is_empty() { vec![] } else { gen_anns(r) };
        namespaces.push(TNs { name: ns.clone(), anns, commons, etypes, actions });
    }
    if r.chance(8) {
        namespaces.push(TNs { name: "Empty".into(), anns: gen_anns(r), commons: vec![], etypes: vec![], actions: vec![] });
    }
    TSpec { namespaces }
}

// ------------------------------------------------------------------------------------------------
// JSON rendering
// ------------------------------------------------------------------------------------------------

fn anns_json(m: &mut Map<String, J>, anns: &Anns) {
    if !anns.is_empty() {
        let mut a = Map::new();
        for (k, v) in anns {
            a.insert(k.clone(), J::String(v.clone().unwrap_or_default()));
        }
        m.insert("annotations".into(), J::Object(a));
    }
}

pub fn ty_json(t: &TTy) -> J {
    match t {
        TTy::Name { written, jk } => match jk {
            JKind::Prim => json!({"type": if written == "Bool" { "Boolean" } else { written.as_str() }}),
            JKind::Ext => json!({"type": "Extension", "name": written}),
            JKind::Entity => json!({"type": "Entity", "name": written}),
            JKind::Common => json!({"type": written}),
            JKind::Either => json!({"type": "EntityOrCommon", "name": written}),
        },
        TTy::Set(e) => json!({"type": "Set", "element": ty_json(e)}),
        TTy::Record(attrs) => json!({"type": "Record", "attributes": attrs_json(attrs)}),
    }
}

fn attrs_json(attrs: &[TAttr]) -> J {
    let mut m = Map::new();
    for a in attrs {
        let mut t = ty_json(&a.ty);
        let o = t.as_object_mut().unwrap();
        if !a.required {
            o.insert("required".into(), J::Bool(false));
        }
        anns_json(o, &a.anns);
        m.insert(a.name.clone(), t);
    }
    J::Object(m)
}

impl TSpec {
    pub fn to_json(&self) -> J {
        let mut top = Map::new();
        for ns in &self.namespaces {
            let mut cts = Map::new();
            for c in &ns.commons {
                let mut t = ty_json(&c.ty);
                anns_json(t.as_object_mut().unwrap(), &c.anns);
                cts.insert(c.name.clone(), t);
            }
            let mut ets = Map::new();
            for e in &ns.etypes {
                let mut m = Map::new();
                match &e.enum_ids {
                    Some(ids) => {
                        m.insert("enum".into(), json!(ids));
                    }
                    None => {
                        if !e.member_of.is_empty() {
                            m.insert("memberOfTypes".into(), json!(e.member_of));
                        }
                        match &e.shape_common {
                            Some(c) => {
                                m.insert("shape".into(), json!({"type": c}));
                            }
                            None => {
                                m.insert("shape".into(), json!({"type": "Record", "attributes": attrs_json(&e.attrs)}));
                            }
                        }
                        if let Some(t) = &e.tags {
                            m.insert("tags".into(), ty_json(t));
                        }
                    }
                }
                anns_json(&mut m, &e.anns);
                for n in &e.names {
                    ets.insert(n.clone(), J::Object(m.clone()));
                }
            }
            let mut acts = Map::new();
            for a in &ns.actions {
                let mut m = Map::new();
                if !a.member_of.is_empty() {
                    let ps: Vec<J> = a.member_of.iter().map(|(t, id)| match t {
                        Some(t) => json!({"id": id, "type": t}),
                        None => json!({"id": id}),
                    }).collect();
                    m.insert("memberOf".into(), J::Array(ps));
                }
                if let Some(ap) = &a.applies {
                    m.insert("appliesTo".into(), json!({"principalTypes": ap.principals, "resourceTypes": ap.resources, "context": ty_json(&ap.context)}));
                }
                anns_json(&mut m, &a.anns);
                for n in &a.names {
                    acts.insert(n.clone(), J::Object(m.clone()));
                }
            }
            let mut nsd = Map::new();
            if !cts.is_empty() {
                nsd.insert("commonTypes".into(), J::Object(cts));
            }
            nsd.insert("entityTypes".into(), J::Object(ets));
            nsd.insert("actions".into(), J::Object(acts));
            anns_json(&mut nsd, &ns.anns);
            top.insert(ns.name.clone(), J::Object(nsd));
        }
        J::Object(top)
    }
}

// ------------------------------------------------------------------------------------------------
// Cedar-syntax rendering (own printer; style choices are random)
// ------------------------------------------------------------------------------------------------

/// string literal in the Cedar schema syntax (Rust-style escapes, as the schema lexer expects)
pub fn strlit(s: &str) -> String {
    format!("{s:?}")
}

fn plain_ident(s: &str) -> bool {
    let mut cs = s.chars();
    match cs.next() {
        Some(c) if c == '_' || c.is_ascii_alphabetic() => {}
        _ => return false,
    }
    cs.all(|c| c == '_' || c.is_ascii_alphanumeric()) && !["true", "false", "if", "then", "else", "in", "is", "like", "has", "__cedar"].contains(&s)
}

/// attribute name / action name: bare identifier when possible (and sometimes quoted anyway)
fn name_text(r: &mut Rng, s: &str) -> String {
    if plain_ident(s) && r.chance(75) { s.to_string() } else { strlit(s) }
}

fn anns_text(anns: &Anns, indent: &str, out: &mut String) {
    for (k, v) in anns {
        match v {
            Some(v) => out.push_str(&format!("{indent}@{k}({})\n", strlit(v))),
            None => out.push_str(&format!("{indent}@{k}\n")),
        }
    }
}

pub struct TextOut {
    pub text: String,
    /// every type expression that was written, as text (for the model's `parse` op)
    pub type_exprs: Vec<String>,
}

fn ty_text(r: &mut Rng, t: &TTy, indent: &str, exprs: &mut Vec<String>) -> String {
    let s = match t {
        TTy::Name { written, .. } => written.clone(),
        TTy::Set(e) => format!("Set<{}>", ty_text(r, e, indent, exprs)),
        TTy::Record(attrs) => rec_text(r, attrs, indent, exprs),
    };
    exprs.push(s.clone());
    s
}

fn rec_text(r: &mut Rng, attrs: &[TAttr], indent: &str, exprs: &mut Vec<String>) -> String {
    if attrs.is_empty() {
        return "{}".into();
    }
    let inner = format!("{indent}  ");
    let mut s = String::from("{\n");
    for (i, a) in attrs.iter().enumerate() {
        anns_text(&a.anns, &inner, &mut s);
        let t = ty_text(r, &a.ty, &inner, exprs);
        let last = i + 1 == attrs.len();
        let comma = if !last || r.chance(40) { "," } else { "" };
        let comment = if r.chance(5) { " // attr" } else { "" };
        s.push_str(&format!("{inner}{}{}: {t}{comma}{comment}\n", name_text(r, &a.name), if a.required { "" } else { "?" }));
    }
    s.push_str(&format!("{indent}}}"));
    s
}

fn list_text(r: &mut Rng, xs: &[String]) -> String {
    if xs.len() == 1 && r.chance(50) { xs[0].clone() } else { format!("[{}]", xs.join(", ")) }
}

impl TSpec {
    pub fn to_cedar(&self, r: &mut Rng) -> TextOut {
        let mut out = String::new();
        let mut exprs = Vec::new();
        // the empty namespace's declarations may come before or after the named namespaces
        let mut order: Vec<&TNs> = self.namespaces.iter().collect();
        if r.chance(30) {
            order.reverse();
        }
        for ns in order {
            let ind = if ns.name.is_empty() { "" } else { "  " };
            if !ns.name.is_empty() {
                anns_text(&ns.anns, "", &mut out);
                out.push_str(&format!("namespace {} {{\n", ns.name));
            }
            // declaration kinds in random order
            let mut kinds = vec![0, 1, 2];
            if r.chance(40) {
                let i = r.below(3);
                kinds.swap(0, i);
            }
            for k in kinds {
                match k {
                    0 => {
                        for c in &ns.commons {
                            anns_text(&c.anns, ind, &mut out);
                            let t = ty_text(r, &c.ty, ind, &mut exprs);
                            out.push_str(&format!("{ind}type {} = {t};\n", c.name));
                        }
                    }
                    1 => {
                        for e in &ns.etypes {
                            anns_text(&e.anns, ind, &mut out);
                            out.push_str(&format!("{ind}entity {}", e.names.join(", ")));
                            if let Some(ids) = &e.enum_ids {
                                out.push_str(&format!(" enum [{}];\n", ids.iter().map(|i| strlit(i)).collect::<Vec<_>>().join(", ")));
                                continue;
                            }
                            if !e.member_of.is_empty() {
                                out.push_str(&format!(" in {}", list_text(r, &e.member_of)));
                            }
                            if !e.attrs.is_empty() || r.chance(30) {
                                let eq = if r.chance(50) { " =" } else { "" };
                                out.push_str(&format!("{eq} {}", rec_text(r, &e.attrs, ind, &mut exprs)));
                            }
                            if let Some(t) = &e.tags {
                                out.push_str(&format!(" tags {}", ty_text(r, t, ind, &mut exprs)));
                            }
                            out.push_str(";\n");
                        }
                    }
                    _ => {
                        for a in &ns.actions {
                            anns_text(&a.anns, ind, &mut out);
                            let names: Vec<String> = a.names.iter().map(|n| name_text(r, n)).collect();
                            out.push_str(&format!("{ind}action {}", names.join(", ")));
                            if !a.member_of.is_empty() {
                                let ps: Vec<String> = a.member_of.iter().map(|(t, id)| match t {
                                    Some(t) => format!("{t}::{}", strlit(id)),
                                    None => name_text(r, id),
                                }).collect();
                                out.push_str(&format!(" in {}", list_text(r, &ps)));
                            }
                            if let Some(ap) = a.applies.as_ref().filter(|ap| !ap.principals.is_empty() && !ap.resources.is_empty()) {
                                let mut parts = vec![
                                    format!("principal: {}", list_text(r, &ap.principals)),
                                    format!("resource: {}", list_text(r, &ap.resources)),
                                ];
                                let ctx = match &ap.context {
                                    TTy::Record(attrs) if attrs.is_empty() && r.chance(60) => None,
                                    TTy::Record(attrs) => Some(rec_text(r, attrs, &format!("{ind}  "), &mut exprs)),
                                    t => Some(ty_text(r, t, ind, &mut exprs)),
                                };
                                if let Some(c) = ctx {
                                    parts.push(format!("context: {c}"));
                                }
                                if r.chance(30) {
                                    let i = r.below(parts.len());
                                    parts.swap(0, i);
                                }
                                let trailing = if r.chance(30) { "," } else { "" };
                                out.push_str(&format!(" appliesTo {{\n{ind}  {}{trailing}\n{ind}}}", parts.join(&format!(",\n{ind}  "))));
                            }
                            if r.chance(5) {
                                out.push_str(" attributes {}");
                            }
                            out.push_str(";\n");
                        }
                    }
                }
                if r.chance(6) {
                    out.push_str(&format!("{ind}// a comment\n"));
                }
            }
            if !ns.name.is_empty() {
                out.push_str("}\n");
            }
        }
        TextOut { text: out, type_exprs: exprs }
    }

    /// declared names: (namespace, commons, entity types incl. `Action` of namespaces with actions)
    pub fn describe(&self) -> String {
        let ne: usize = self.namespaces.iter().map(|n| n.etypes.iter().map(|e| e.names.len()).sum::<usize>()).sum();
        let nc: usize = self.namespaces.iter().map(|n| n.commons.len()).sum();
        let na: usize = self.namespaces.iter().map(|n| n.actions.iter().map(|a| a.names.len()).sum::<usize>()).sum();
        format!("ns={} etypes={ne} commons={nc} actions={na}", self.namespaces.len())
    }
}
