//! C11: schema conformance checks accept exactly conformant data.
//! Per case (= one generated schema world): a conformant store, conformant requests, and single-fault mutations
//! of both, each pushed through EVERY schema-taking entry point:
//!   entities: `EntitySchemaConformanceChecker::validate_entity` (reference verdict + violation class),
//!             core `Entities::{from_entities, add_entities, upsert_entities}`, core `EntityJsonParser::from_json_value`,
//!             public `Entities::{from_entities, from_json_value, add_entities, upsert_entities, add_entities_from_json_value}`,
//!             public `Entity::from_json_value`;
//!   requests: core `Request::new` with `&ValidatorSchema` (reference) and with `&CoreSchema`, public `Request::new`;
//!   contexts: core `validate_context` (reference), public `Context::validate`, public `Context::from_json_value(.., Some((schema, action)))`.
//! Observable per datum: `ok | (violation <class>)`; compared with the model (request line `(conf <schema> entity|request|context <datum>)`).
//! Implementation-only checks (`propfail`): conformant datum rejected, mutated datum accepted, entry points disagreeing.
use crate::gen_schema::{self as gs, DEntity, DRequest, DVal, Fault, Site};
use crate::out::Out;
use crate::rng::Rng;
use crate::sx;
use crate::sx_schema;
use crate::Args;
use cedar_policy_core::ast::{self, RequestSchema};
use cedar_policy_core::entities::conformance::err::EntitySchemaConformanceError as CE;
use cedar_policy_core::entities::conformance::EntitySchemaConformanceChecker;
use cedar_policy_core::entities::{Entities, EntityJsonParser, TCComputation};
use cedar_policy_core::extensions::Extensions;
use cedar_policy_core::validator::{CoreSchema, RequestValidationError as RE, ValidatorSchema};
use serde_json::Value as J;
use std::panic::{catch_unwind, AssertUnwindSafe};
use std::sync::Arc;

fn ent_class(e: &CE) -> &'static str {
    match e {
        CE::UnexpectedEntityAttr(_) => "unexpected-attr",
        CE::UnexpectedEntityTag(_) => "unexpected-tag",
        CE::MissingRequiredEntityAttr(_) => "missing-attr",
        CE::TypeMismatch(_) => "type",
        CE::InvalidAncestorType(_) => "ancestor",
        CE::UnexpectedEntityType(_) => "unexpected-type",
        CE::UndeclaredAction(_) => "undeclared-action",
        CE::ActionDeclarationMismatch(_) => "action-mismatch",
        CE::ExtensionFunctionLookup(_) => "ext-lookup",
        CE::InvalidEnumEntity(_) => "enum",
        #[allow(unreachable_patterns)]
        _ => "other",
    }
}

fn req_class(e: &RE) -> &'static str {
    match e {
        RE::UndeclaredAction(_) => "undeclared-action",
        RE::UndeclaredPrincipalType(_) => "undeclared-principal-type",
        RE::UndeclaredResourceType(_) => "undeclared-resource-type",
        RE::InvalidPrincipalType(_) => "principal-type",
        RE::InvalidResourceType(_) => "resource-type",
        RE::InvalidContext(_) => "context",
        RE::TypeOfContext(_) => "ext-lookup",
        RE::InvalidEnumEntity(_) => "enum",
    }
}

fn verdict(r: Result<(), &'static str>) -> String {
    match r {
        Ok(()) => "ok".into(),
        Err(c) => format!("(violation {c})"),
    }
}

/// run an entry point under catch_unwind; `Some(true)` = accepted, `Some(false)` = rejected, `None` = panicked
fn acc<T, E>(f: impl FnOnce() -> Result<T, E>) -> Option<bool> {
    catch_unwind(AssertUnwindSafe(|| f().is_ok())).ok()
}

struct Pub {
    schema: cedar_policy::Schema,
}

fn entities_json(es: &[DEntity]) -> J {
    J::Array(es.iter().map(|e| e.to_json()).collect())
}

/// all collection entry points on `base` with `target` (None: the whole store `base` as is).
/// returns (name, accepted?) per entry point
fn store_entry_points(schema: &ValidatorSchema, p: &Pub, base: &[DEntity], replaced: Option<usize>, target: Option<&DEntity>) -> Vec<(&'static str, Option<bool>)> {
    let ext = Extensions::all_available();
    let core = CoreSchema::new(schema);
    // full collection with the target in place
    let mut full: Vec<DEntity> = base.to_vec();
    match (replaced, target) {
        (Some(i), Some(t)) => full[i] = t.clone(),
        (None, Some(t)) => full.push(t.clone()),
        _ => {}
    }
    // the collection without the target (for add) and with the original (for upsert)
    let mut without: Vec<DEntity> = base.to_vec();
    if let Some(i) = replaced {
        without.remove(i);
    }
    let build = |es: &[DEntity]| -> Result<Vec<ast::Entity>, String> { es.iter().map(|e| e.to_entity()).collect() };
    let mut res: Vec<(&'static str, Option<bool>)> = Vec::new();
    res.push(("core::from_entities", acc(|| -> Result<_, String> {
        Entities::from_entities(build(&full)?, Some(&core), TCComputation::ComputeNow, ext).map_err(|e| e.to_string())
    })));
    res.push(("pub::from_entities", acc(|| -> Result<_, String> {
        cedar_policy::Entities::from_entities(build(&full)?.into_iter().map(cedar_policy::Entity::from), Some(&p.schema)).map_err(|e| e.to_string())
    })));
    res.push(("core::from_json_value", acc(|| {
        EntityJsonParser::new(Some(&core), ext, TCComputation::ComputeNow).from_json_value(entities_json(&full))
    })));
    res.push(("pub::from_json_value", acc(|| cedar_policy::Entities::from_json_value(entities_json(&full), Some(&p.schema)))));
    if let Some(t) = target {
        res.push(("core::add_entities", acc(|| -> Result<_, String> {
            let s0 = Entities::from_entities(build(&without)?, Some(&core), TCComputation::ComputeNow, ext).map_err(|e| format!("base: {e}"))?;
            s0.add_entities([Arc::new(t.to_entity()?)], Some(&core), TCComputation::ComputeNow, ext).map_err(|e| e.to_string())
        })));
        res.push(("pub::add_entities", acc(|| -> Result<_, String> {
            let s0 = cedar_policy::Entities::from_entities(build(&without)?.into_iter().map(cedar_policy::Entity::from), Some(&p.schema)).map_err(|e| format!("base: {e}"))?;
            s0.add_entities([cedar_policy::Entity::from(t.to_entity()?)], Some(&p.schema)).map_err(|e| e.to_string())
        })));
        res.push(("pub::add_entities_from_json_value", acc(|| -> Result<_, String> {
            let s0 = cedar_policy::Entities::from_entities(build(&without)?.into_iter().map(cedar_policy::Entity::from), Some(&p.schema)).map_err(|e| format!("base: {e}"))?;
            s0.add_entities_from_json_value(J::Array(vec![t.to_json()]), Some(&p.schema)).map_err(|e| e.to_string())
        })));
        res.push(("core::upsert_entities", acc(|| -> Result<_, String> {
            let s0 = Entities::from_entities(build(base)?, Some(&core), TCComputation::ComputeNow, ext).map_err(|e| format!("base: {e}"))?;
            s0.upsert_entities([Arc::new(t.to_entity()?)], Some(&core), TCComputation::ComputeNow, ext).map_err(|e| e.to_string())
        })));
        res.push(("pub::upsert_entities", acc(|| -> Result<_, String> {
            let s0 = cedar_policy::Entities::from_entities(build(base)?.into_iter().map(cedar_policy::Entity::from), Some(&p.schema)).map_err(|e| format!("base: {e}"))?;
            s0.upsert_entities([cedar_policy::Entity::from(t.to_entity()?)], Some(&p.schema)).map_err(|e| e.to_string())
        })));
        // one upsert call naming the target's uid twice: the (conformant) original first and the target last, and the
        // other way round — every element of the batch must be validated, whatever happens to repeated uids
        let first: DEntity = match replaced { Some(i) => base[i].clone(), None => t.clone() };
        for (name_core, name_pub, batch) in [
            ("core::upsert_entities[orig,target]", "pub::upsert_entities[orig,target]", vec![first.clone(), t.clone()]),
            ("core::upsert_entities[target,orig]", "pub::upsert_entities[target,orig]", vec![t.clone(), first.clone()]),
        ] {
            let b1 = batch.clone();
            res.push((name_core, acc(|| -> Result<_, String> {
                let s0 = Entities::from_entities(build(base)?, Some(&core), TCComputation::ComputeNow, ext).map_err(|e| format!("base: {e}"))?;
                let es: Vec<Arc<ast::Entity>> = build(&b1)?.into_iter().map(Arc::new).collect();
                s0.upsert_entities(es, Some(&core), TCComputation::ComputeNow, ext).map_err(|e| e.to_string())
            })));
            res.push((name_pub, acc(|| -> Result<_, String> {
                let s0 = cedar_policy::Entities::from_entities(build(base)?.into_iter().map(cedar_policy::Entity::from), Some(&p.schema)).map_err(|e| format!("base: {e}"))?;
                s0.upsert_entities(build(&batch)?.into_iter().map(cedar_policy::Entity::from), Some(&p.schema)).map_err(|e| e.to_string())
            })));
        }
        res.push(("pub::Entity::from_json_value", acc(|| cedar_policy::Entity::from_json_value(t.to_json(), Some(&p.schema)))));
    }
    res
}

/// reference verdict for one entity: the conformance checker itself
fn ref_entity(schema: &ValidatorSchema, e: &DEntity) -> Result<String, String> {
    let core = CoreSchema::new(schema);
    let ent = e.to_entity()?;
    let r = catch_unwind(AssertUnwindSafe(|| {
        let ch = EntitySchemaConformanceChecker::new(&core, Extensions::all_available());
        ch.validate_entity(&ent).map_err(|e| ent_class(&e))
    }));
    Ok(match r {
        Ok(v) => verdict(v),
        Err(_) => "(panic)".into(),
    })
}

fn summarize(res: &[(&'static str, Option<bool>)]) -> String {
    res.iter().map(|(n, v)| format!("{n}={}", match v { Some(true) => "accept", Some(false) => "reject", None => "PANIC" })).collect::<Vec<_>>().join(" ")
}

/// compare entry points with the expected verdict; reports property failures
fn check_entry_points(out: &mut Out, case: &str, what_datum: &str, expect_accept: bool, res: &[(&'static str, Option<bool>)], detail: &str) {
    for (n, v) in res {
        out.count(&format!("ep:{n}"));
        if v.is_none() {
            out.propfail("entry point panicked", case, &format!("{n} on {what_datum}: {detail}"));
        }
    }
    let distinct: std::collections::BTreeSet<Option<bool>> = res.iter().map(|x| x.1).collect();
    if distinct.len() > 1 {
        out.propfail("entry points disagree on the same datum", case, &format!("{what_datum}: {} :: {detail}", summarize(res)));
    } else if res.iter().any(|x| x.1 == Some(!expect_accept)) {
        let what = if expect_accept { "conformant datum rejected" } else { "single-fault mutation accepted" };
        out.propfail(what, case, &format!("{what_datum}: {} :: {detail}", summarize(res)));
    }
}

fn request_entry_points(schema: &ValidatorSchema, p: &Pub, q: &DRequest) -> (String, Vec<(&'static str, Option<bool>)>) {
    let ext = Extensions::all_available();
    let core = CoreSchema::new(schema);
    let (pu, au, ru) = (gs::mk_uid(&q.principal), gs::mk_uid(&q.action), gs::mk_uid(&q.resource));
    let mk = |s: Option<&ValidatorSchema>| ast::Request::new((pu.clone(), None), (au.clone(), None), (ru.clone(), None), q.to_context(), s, ext);
    let reference = match catch_unwind(AssertUnwindSafe(|| mk(Some(schema)).map(|_| ()).map_err(|e| req_class(&e)))) {
        Ok(v) => verdict(v),
        Err(_) => "(panic)".into(),
    };
    let mut res = Vec::new();
    res.push(("core::Request::new(ValidatorSchema)", acc(|| mk(Some(schema)))));
    res.push(("core::Request::new(CoreSchema)", acc(|| ast::Request::new((pu.clone(), None), (au.clone(), None), (ru.clone(), None), q.to_context(), Some(&core), ext))));
    res.push(("pub::Request::new", acc(|| {
        cedar_policy::Request::new(pu.clone().into(), au.clone().into(), ru.clone().into(), cedar_policy::Context::from(q.to_context()), Some(&p.schema))
    })));
    (reference, res)
}

fn context_entry_points(schema: &ValidatorSchema, p: &Pub, q: &DRequest) -> (String, Vec<(&'static str, Option<bool>)>) {
    let ext = Extensions::all_available();
    let au = gs::mk_uid(&q.action);
    let ctx = q.to_context();
    let reference = match catch_unwind(AssertUnwindSafe(|| schema.validate_context(&ctx, &au, ext).map_err(|e| req_class(&e)))) {
        Ok(v) => verdict(v),
        Err(_) => "(panic)".into(),
    };
    let pau: cedar_policy::EntityUid = au.clone().into();
    let mut res = Vec::new();
    res.push(("core::validate_context", acc(|| schema.validate_context(&ctx, &au, ext))));
    res.push(("pub::Context::validate", acc(|| cedar_policy::Context::from(ctx.clone()).validate(&p.schema, &pau))));
    res.push(("pub::Context::from_json_value", acc(|| cedar_policy::Context::from_json_value(q.context_json(), Some((&p.schema, &pau))))));
    (reference, res)
}

fn request_sx(q: &DRequest) -> String {
    let ctx = q.to_context();
    let v: ast::PartialValue = ctx.into();
    match v {
        ast::PartialValue::Value(v) => sx::request(&gs::mk_uid(&q.principal), &gs::mk_uid(&q.action), &gs::mk_uid(&q.resource), &v),
        _ => "(residual)".into(),
    }
}

fn context_sx(q: &DRequest) -> String {
    let v: ast::PartialValue = q.to_context().into();
    match v {
        ast::PartialValue::Value(v) => format!("(actx {} {})", sx::uid(&gs::mk_uid(&q.action)), sx::value(&v)),
        _ => "(residual)".into(),
    }
}

pub fn run(args: &Args, out: &mut Out) {
    let mut rng = Rng::new(args.seed);
    let data_per_world = 20;
    probes(out);
    for case in 0..args.n {
        let mut r = rng.fork();
        let sub = r.0;
        let (w, rejected) = gs::gen_schema_world(&mut r);
        out.cases += 1;
        out.add("schemas_rejected_by_loader", rejected as u64);
        if w.cedar_text.is_some() { out.count("schema_rendered_in_cedar_syntax") } else { out.count("schema_cedar_rendering_failed") }
        if let Some(t) = &w.cedar_text {
            match ValidatorSchema::from_cedarschema_str(t, Extensions::all_available()) {
                Ok((s2, _)) if s2 == w.schema => out.count("cedar_syntax_reparse_equal"),
                Ok(_) => out.count("cedar_syntax_reparse_DIFFERENT"),
                Err(_) => out.count("cedar_syntax_reparse_FAILED"),
            }
        }
        let p = Pub { schema: cedar_policy::Schema::from(w.schema.clone()) };
        let ssx = sx_schema::schema(&w.schema);
        let cname = format!("case={case} sub={sub} {}", gs::describe(&w.spec));
        out.sample(format!("{cname} schema={}", w.json));
        let store = gs::gen_store(&mut r, &w.spec);
        // --- the conformant store through every collection entry point
        let res = store_entry_points(&w.schema, &p, &store.entities, None, None);
        check_entry_points(out, &cname, "conformant store", true, &res, &entities_json(&store.entities).to_string());
        out.count("conformant_stores");
        let mut emit_entity = |out: &mut Out, e: &DEntity, tag: &str, expect_accept: bool, res: &[(&'static str, Option<bool>)]| {
            match ref_entity(&w.schema, e) {
                Ok(v) => {
                    let meta = format!("{cname} entity {tag} json={}", e.to_json());
                    if (v == "ok") != expect_accept {
                        out.propfail(if expect_accept { "conformant datum rejected" } else { "single-fault mutation accepted" }, &meta, &format!("validate_entity says {v}"));
                    }
                    if let Some((n, _)) = res.iter().find(|x| x.1 != Some(v == "ok")) {
                        out.propfail("entry points disagree on the same datum", &meta, &format!("validate_entity={v} but {n}: {}", summarize(res)));
                    }
                    let line = format!("(conf {ssx} entity {})", sx_schema::entity_sx(&e.to_entity().unwrap()));
                    out.nontrivial(&format!("{tag}|{v}|{}", e.to_json()));
                    out.count(&format!("entity:{tag}:{v}"));
                    out.line(line, v, meta);
                }
                Err(msg) => {
                    // `Entity::new` itself refused (e.g. non-action parent of an action): not a conformance datum
                    out.count(&format!("entity:{tag}:not-constructible"));
                    let _ = msg;
                }
            }
        };
        // --- every entity of the conformant store individually
        for (i, e) in store.entities.iter().enumerate() {
            if i >= 6 { break; }
            let res = vec![("pub::Entity::from_json_value", acc(|| cedar_policy::Entity::from_json_value(e.to_json(), Some(&p.schema))))];
            check_entry_points(out, &cname, "conformant entity", true, &res, &e.to_json().to_string());
            emit_entity(out, e, "conformant", true, &res);
        }
        // --- single-fault mutations of entities
        let mut pool: Vec<(Option<usize>, DEntity)> = store.entities.iter().cloned().enumerate().map(|(i, e)| (Some(i), e)).collect();
        for i in 0..w.spec.actions.len() {
            let a = gs::action_entity(&w.spec, i);
            if !store.entities.iter().any(|e| e.uid == a.uid) {
                pool.push((None, a));
            }
        }
        let mut done = 0;
        let mut attempts = 0;
        while done < data_per_world / 2 && attempts < 200 && !pool.is_empty() {
            attempts += 1;
            let fault = *r.pick(gs::ENTITY_FAULTS);
            let (idx, e) = r.pick(&pool).clone();
            let Some((m, planted)) = gs::mutate_entity(&mut r, &w.spec, &e, fault) else { continue };
            done += 1;
            let tag = format!("{}@{}{}", planted.fault.name(), match planted.site { Site::Attr => "attr", Site::Tag => "tag", Site::Context => "ctx", Site::Uid => "uid", Site::Parent => "parent", Site::Principal => "principal", Site::Resource => "resource", Site::Action => "action" }, if planted.depth > 0 { format!("+{}", planted.depth) } else { String::new() });
            if m.to_entity().is_err() {
                out.count(&format!("entity:{tag}:not-constructible"));
                continue;
            }
            let res = store_entry_points(&w.schema, &p, &store.entities, idx, Some(&m));
            check_entry_points(out, &cname, &format!("mutated entity [{tag}]"), false, &res, &m.to_json().to_string());
            emit_entity(out, &m, &tag, false, &res);
        }
        // --- an action entity given with its direct parents only, next to the (complete) entities of its parents:
        //     `validate_action` compares ancestor sets, so the verdict depends on whether the entry point closes the
        //     hierarchy before or after validating
        if let Some(i) = (0..w.spec.actions.len()).find(|&i| gs::action_entity_direct(&w.spec, i).is_some()) {
            let mut base: Vec<DEntity> = store.entities.iter().filter(|e| w.spec.action(&e.uid.0, &e.uid.1).is_none()).cloned().collect();
            for j in 0..w.spec.actions.len() {
                if j != i {
                    base.push(gs::action_entity(&w.spec, j));
                }
            }
            let t = gs::action_entity_direct(&w.spec, i).unwrap();
            let res = store_entry_points(&w.schema, &p, &base, None, Some(&t));
            check_entry_points(out, &cname, "mutated entity [action-direct-parents@action]", false, &res, &t.to_json().to_string());
            emit_entity(out, &t, "action-direct-parents@action", false, &res);
        }
        // --- requests
        for k in 0..(data_per_world / 2) {
            let q0 = gs::gen_request(&mut r, &w.spec);
            let (q, tag, expect_req, expect_ctx) = if k % 3 == 0 {
                (q0, "conformant".to_string(), true, true)
            } else {
                let mut found = None;
                for _ in 0..20 {
                    let fault = *r.pick(gs::REQUEST_FAULTS);
                    if let Some((m, pl)) = gs::mutate_request(&mut r, &w.spec, &q0, fault) {
                        let site = match pl.site { Site::Context => "ctx", Site::Principal => "principal", Site::Resource => "resource", _ => "action" };
                        let tag = format!("{}@{}{}", pl.fault.name(), site, if pl.depth > 0 { format!("+{}", pl.depth) } else { String::new() });
                        // the (action, context) pair is faulty iff the fault sits in the context or the action is undeclared
                        let ctx_ok = !(pl.site == Site::Context || pl.fault == Fault::UndeclaredAction);
                        found = Some((m, tag, false, ctx_ok));
                        break;
                    }
                }
                match found {
                    Some(x) => x,
                    None => (q0, "conformant".to_string(), true, true),
                }
            };
            let meta = format!("{cname} request {tag} p={:?} a={:?} r={:?} ctx={}", q.principal, q.action, q.resource, q.context_json());
            let (v, res) = request_entry_points(&w.schema, &p, &q);
            check_entry_points(out, &cname, &format!("request [{tag}]"), expect_req, &res, &meta);
            if (v == "ok") != expect_req {
                out.propfail(if expect_req { "conformant datum rejected" } else { "single-fault mutation accepted" }, &meta, &format!("Request::new says {v}"));
            }
            out.nontrivial(&format!("req|{tag}|{v}|{meta}"));
            out.count(&format!("request:{tag}:{v}"));
            out.line(format!("(conf {ssx} request {})", request_sx(&q)), v, meta.clone());
            let (v, res) = context_entry_points(&w.schema, &p, &q);
            check_entry_points(out, &cname, &format!("context of request [{tag}]"), expect_ctx, &res, &meta);
            if (v == "ok") != expect_ctx {
                out.propfail(if expect_ctx { "conformant datum rejected" } else { "single-fault mutation accepted" }, &meta, &format!("validate_context says {v}"));
            }
            out.count(&format!("context:{tag}:{v}"));
            out.line(format!("(conf {ssx} context {})", context_sx(&q)), v, format!("{meta} [context]"));
        }
    }
}

/// fixed regression probes (run once per stream): minimal instances of the discrepancies this check found
fn probes(out: &mut Out) {
    let text = r#"
        entity User;
        entity Color enum ["red"];
        action view appliesTo { principal: User, resource: User, context: { n: Long, c?: Color } };
    "#;
    let (schema, _) = ValidatorSchema::from_cedarschema_str(text, Extensions::all_available()).expect("probe schema");
    let p = Pub { schema: cedar_policy::Schema::from(schema.clone()) };
    let ssx = sx_schema::schema(&schema);
    let u = |t: &str, i: &str| (t.to_string(), i.to_string());
    let mk = |ctx: Vec<(String, DVal)>| DRequest { principal: u("User", "a"), action: u("Action", "view"), resource: u("User", "b"), context: ctx };
    let data = vec![
        ("conformant", true, mk(vec![("c".into(), DVal::Ent("Color".into(), "red".into())), ("n".into(), DVal::Long(1))])),
        ("wrong-type@ctx", false, mk(vec![("n".into(), DVal::Str("str".into()))])),
        ("enum-nested@ctx", false, mk(vec![("c".into(), DVal::Ent("Color".into(), "nope".into())), ("n".into(), DVal::Long(1))])),
        ("missing-required@ctx", false, mk(vec![])),
    ];
    for (tag, expect, q) in data {
        let cname = format!("probe schema={}", text.split_whitespace().collect::<Vec<_>>().join(" "));
        let meta = format!("{cname} request {tag} ctx={}", q.context_json());
        let (v, res) = context_entry_points(&schema, &p, &q);
        check_entry_points(out, &cname, &format!("context of request [{tag}]"), expect, &res, &meta);
        out.count(&format!("probe:context:{tag}:{v}"));
        out.line(format!("(conf {ssx} context {})", context_sx(&q)), v, format!("{meta} [context]"));
        let (v, res) = request_entry_points(&schema, &p, &q);
        check_entry_points(out, &cname, &format!("request [{tag}]"), expect, &res, &meta);
        out.line(format!("(conf {ssx} request {})", request_sx(&q)), v, meta);
    }
}
