//! C07: extension types. Constructor strings (valid / boundary / near-miss) and every operation on
//! pairs of extension values, through the real extension functions.
use crate::gen::{self, name};
use crate::out::Out;
use crate::rng::Rng;
use crate::sx;
use crate::Args;
use cedar_policy_core::ast::{Expr, Value};
use cedar_policy_core::evaluator::{EvaluationError, Evaluator};
use cedar_policy_core::extensions::Extensions;
use std::collections::HashMap;
use std::panic::{catch_unwind, AssertUnwindSafe};

fn call(f: &str, args: &[Value]) -> Result<Result<Value, EvaluationError>, String> {
    catch_unwind(AssertUnwindSafe(|| {
        let func = Extensions::all_available().func(&name(f)).map_err(EvaluationError::from)?;
        match func.call(args)? {
            cedar_policy_core::ast::PartialValue::Value(v) => Ok(v),
            cedar_policy_core::ast::PartialValue::Residual(_) => panic!("extension function returned a residual on values"),
        }
    }))
    .map_err(crate::c02::panic_msg)
}

fn emit(out: &mut Out, f: &str, args: &[Value], tag: &str) -> Option<Value> {
    let mut req = format!("(ext {}", sx::qs(f));
    for a in args {
        req.push(' ');
        req.push_str(&sx::value(a));
    }
    req.push(')');
    match call(f, args) {
        Ok(r) => {
            let obs = sx::result(&r);
            out.count(&format!("{}_{}", f, if r.is_ok() { "ok" } else { "err" }));
            out.nontrivial(&req);
            out.sample(format!("{req} ==> {obs}"));
            out.line(req, obs, tag.to_string());
            r.ok()
        }
        Err(p) => {
            out.propfail("panic in extension function", &req, &p);
            None
        }
    }
}

fn digits(r: &mut Rng, n: usize) -> String {
    (0..n).map(|_| char::from(b'0' + r.below(10) as u8)).collect()
}

fn mutate(r: &mut Rng, s: &str) -> String {
    let mut cs: Vec<char> = s.chars().collect();
    let alphabet = ['0', '1', '9', '.', '-', '+', ':', '/', 'T', 'Z', 'd', 'h', 'm', 's', ' ', 'a', 'f', '٣'];
    match r.below(4) {
        0 if !cs.is_empty() => { let i = r.below(cs.len()); cs.remove(i); }
        1 => { let i = r.below(cs.len() + 1); cs.insert(i, *r.pick(&alphabet)); }
        2 if !cs.is_empty() => { let i = r.below(cs.len()); cs[i] = *r.pick(&alphabet); }
        _ if cs.len() >= 2 => { let i = r.below(cs.len() - 1); cs.swap(i, i + 1); }
        _ => {}
    }
    cs.into_iter().collect()
}

fn gen_decimal(r: &mut Rng) -> String {
    let sign = if r.chance(40) { "-" } else { "" };
    match r.below(6) {
        0 => format!("{sign}92233720368547{}.{}", digits(r, 1), digits(r, 4)),
        1 => format!("{sign}922337203685477.58{}", digits(r, 2)),
        2 => { let a = 1 + r.below(20); let b = 1 + r.below(6); format!("{sign}{}.{}", digits(r, a), digits(r, b)) }
        _ => { let a = 1 + r.below(4); let b = 1 + r.below(5); format!("{sign}{}.{}", digits(r, a), digits(r, b)) }
    }
}

fn gen_v4(r: &mut Rng) -> String {
    let oct = |r: &mut Rng| -> String {
        match r.below(10) {
            0 => format!("0{}", r.below(10)),
            1 => format!("{}", 250 + r.below(10)),
            2 => "0".into(),
            3 => "127".into(),
            4 => "224".into(),
            _ => format!("{}", r.below(256)),
        }
    };
    let n = if r.chance(92) { 4 } else { 3 + r.below(3) };
    (0..n).map(|_| oct(r)).collect::<Vec<_>>().join(".")
}

fn gen_v6(r: &mut Rng) -> String {
    let grp = |r: &mut Rng| -> String {
        match r.below(8) {
            0 => "0".into(),
            1 => "ffff".into(),
            2 => "FF00".into(),
            3 => format!("{:x}", r.below(0x100000)), // may be 5 digits
            4 => format!("{:04x}", r.below(0x10000)),
            _ => format!("{:x}", r.below(0x10000)),
        }
    };
    if r.chance(35) {
        let n = if r.chance(90) { 8 } else { 7 + r.below(3) };
        (0..n).map(|_| grp(r)).collect::<Vec<_>>().join(":")
    } else {
        let total = r.below(9); // groups around "::"
        let h = r.below(total + 1);
        let head = (0..h).map(|_| grp(r)).collect::<Vec<_>>().join(":");
        let tail = (0..(total - h)).map(|_| grp(r)).collect::<Vec<_>>().join(":");
        format!("{head}::{tail}")
    }
}

fn gen_ip(r: &mut Rng) -> String {
    let v6 = r.chance(50);
    let addr = if v6 { gen_v6(r) } else { gen_v4(r) };
    match r.below(10) {
        0..=3 => addr,
        4 => format!("{addr}/0{}", r.below(40)),
        5 => format!("{addr}/{}", if v6 { 120 + r.below(12) } else { 28 + r.below(8) }),
        6 => format!("{addr}/"),
        _ => format!("{addr}/{}", r.below(if v6 { 135 } else { 36 })),
    }
}

fn gen_datetime(r: &mut Rng) -> String {
    let y = match r.below(6) { 0 => 0, 1 => 9999, 2 => 1970, 3 => 1969, 4 => 1900 + r.below(200) as u32, _ => r.below(10000) as u32 };
    let m = match r.below(10) { 0 => 0, 1 => 13, 2 => 2, _ => 1 + r.below(12) as u32 };
    let d = match r.below(10) { 0 => 0, 1 => 31, 2 => 29, 3 => 30, 4 => 32, 5 => 28, _ => 1 + r.below(28) as u32 };
    let mut s = format!("{y:04}-{m:02}-{d:02}");
    if r.chance(25) { return s; }
    let h = match r.below(8) { 0 => 24, 1 => 23, _ => r.below(24) as u32 };
    let mi = match r.below(8) { 0 => 60, 1 => 59, _ => r.below(60) as u32 };
    let se = match r.below(8) { 0 => 60, 1 => 59, _ => r.below(60) as u32 };
    s.push_str(&format!("T{h:02}:{mi:02}:{se:02}"));
    if r.chance(50) { let k = if r.chance(90) { 3 } else { 1 + r.below(4) }; s.push_str(&format!(".{}", digits(r, k))); }
    match r.below(6) {
        0 | 1 => s.push('Z'),
        2 => {}
        _ => {
            let hh = match r.below(6) { 0 => 24, 1 => 23, _ => r.below(24) as u32 };
            let mm = match r.below(6) { 0 => 60, 1 => 59, _ => r.below(60) as u32 };
            s.push_str(&format!("{}{hh:02}{mm:02}", if r.chance(50) { '+' } else { '-' }));
        }
    }
    s
}

fn gen_duration(r: &mut Rng) -> String {
    let mut s = String::new();
    if r.chance(40) { s.push('-'); }
    let units = ["d", "h", "m", "s", "ms"];
    let maxes: [u64; 5] = [106751991167, 2562047788015, 153722867280912, 9223372036854775, 9223372036854775807];
    let mut parts: Vec<String> = Vec::new();
    for (i, u) in units.iter().enumerate() {
        if r.chance(45) {
            let n: u64 = match r.below(8) {
                0 => maxes[i],
                1 => maxes[i] + 1,
                2 => maxes[i] - 1,
                3 => r.next(),
                4 => 0,
                _ => r.below(100) as u64,
            };
            parts.push(format!("{n}{u}"));
        }
    }
    if r.chance(8) && parts.len() >= 2 { let i = r.below(parts.len() - 1); parts.swap(i, i + 1); }
    s.push_str(&parts.join(""));
    s
}

fn val_of(e: Expr) -> Option<Value> {
    let ents = cedar_policy_core::entities::Entities::new();
    let w_req = cedar_policy_core::ast::Request::new(
        (gen::mk_uid("User", "a"), None), (gen::mk_uid("Action", "a"), None), (gen::mk_uid("User", "a"), None),
        cedar_policy_core::ast::Context::empty(), None::<&cedar_policy_core::ast::RequestSchemaAllPass>, Extensions::all_available()).ok()?;
    let r = Evaluator::new(w_req, &ents, Extensions::all_available()).interpret(&e, &HashMap::new()).ok();
    r
}

pub fn run(args: &Args, out: &mut Out) {
    let mut r = Rng::new(args.seed);
    let s = |x: &str| Value::from(x);
    // 1. fixed boundary / near-miss lists
    for (f, oks, bads) in [
        ("decimal", gen::DECIMALS_OK, gen::DECIMALS_BAD),
        ("ip", gen::IPS_OK, gen::IPS_BAD),
        ("datetime", gen::DATETIMES_OK, gen::DATETIMES_BAD),
        ("duration", gen::DURATIONS_OK, gen::DURATIONS_BAD),
    ] {
        for x in oks.iter().chain(bads.iter()) {
            emit(out, f, &[s(x)], "fixed");
        }
    }
    // 2. grammar-based + mutated strings
    let mut pools: HashMap<&str, Vec<Value>> = HashMap::new();
    for i in 0..args.n {
        let f = ["decimal", "ip", "datetime", "duration"][(i % 4) as usize];
        let mut x = match f {
            "decimal" => gen_decimal(&mut r),
            "ip" => gen_ip(&mut r),
            "datetime" => gen_datetime(&mut r),
            _ => gen_duration(&mut r),
        };
        if r.chance(25) { x = mutate(&mut r, &x); }
        out.cases += 1;
        if let Some(v) = emit(out, f, &[s(&x)], "gen") {
            let p = pools.entry(f).or_default();
            if p.len() < 400 { p.push(v); }
        }
    }
    // extremes that only arithmetic reaches
    for ms in ["9223372036854775807ms", "-9223372036854775808ms", "0ms", "86400000ms", "-86400000ms", "-1ms", "86399999ms"] {
        let dur = Expr::call_extension_fn(name("duration"), vec![Expr::val(ms)]);
        if let Some(v) = val_of(dur.clone()) { pools.entry("duration").or_default().push(v); }
        let dt = Expr::call_extension_fn(name("offset"), vec![Expr::call_extension_fn(name("datetime"), vec![Expr::val("1970-01-01")]), dur]);
        if let Some(v) = val_of(dt) { pools.entry("datetime").or_default().push(v); }
    }
    for f in ["decimal", "ip", "datetime", "duration"] {
        let fixed: &[&str] = match f { "decimal" => gen::DECIMALS_OK, "ip" => gen::IPS_OK, "datetime" => gen::DATETIMES_OK, _ => gen::DURATIONS_OK };
        for x in fixed {
            if let Ok(Ok(v)) = call(f, &[s(x)]) { pools.entry(f).or_default().push(v); }
        }
    }
    let others = vec![Value::from(1), Value::from("1.0"), Value::from(true)];
    // 3. operations on pairs
    let nops = args.n;
    for _ in 0..nops {
        out.cases += 1;
        let pickv = |r: &mut Rng, f: &str, pools: &HashMap<&str, Vec<Value>>| -> Value {
            if r.chance(3) { return r.pick(&others).clone(); }
            let f = if r.chance(3) { *r.pick(&["decimal", "ip", "datetime", "duration"]) } else { f };
            r.pick(&pools[f]).clone()
        };
        match r.below(8) {
            0 => {
                let f = *r.pick(&["lessThan", "lessThanOrEqual", "greaterThan", "greaterThanOrEqual"]);
                let a = pickv(&mut r, "decimal", &pools); let b = pickv(&mut r, "decimal", &pools);
                emit(out, f, &[a, b], "op");
            }
            1 => {
                let f = *r.pick(&["isIpv4", "isIpv6", "isLoopback", "isMulticast"]);
                let a = pickv(&mut r, "ip", &pools);
                emit(out, f, &[a], "op");
            }
            2 | 3 => {
                let a = pickv(&mut r, "ip", &pools); let b = pickv(&mut r, "ip", &pools);
                emit(out, "isInRange", &[a, b], "op");
            }
            4 => {
                let a = pickv(&mut r, "datetime", &pools); let b = pickv(&mut r, "duration", &pools);
                emit(out, "offset", &[a, b], "op");
            }
            5 => {
                let a = pickv(&mut r, "datetime", &pools); let b = pickv(&mut r, "datetime", &pools);
                emit(out, "durationSince", &[a, b], "op");
            }
            6 => {
                let f = *r.pick(&["toDate", "toTime"]);
                let a = pickv(&mut r, "datetime", &pools);
                emit(out, f, &[a], "op");
            }
            _ => {
                let f = *r.pick(&["toMilliseconds", "toSeconds", "toMinutes", "toHours", "toDays"]);
                let a = pickv(&mut r, "duration", &pools);
                emit(out, f, &[a], "op");
            }
        }
    }
    // wrong arity / unknown function
    emit(out, "decimal", &[], "arity");
    emit(out, "decimal", &[s("1.0"), s("1.0")], "arity");
    emit(out, "isInRange", &[pools["ip"][0].clone()], "arity");
    emit(out, "nosuchfn", &[s("1.0")], "arity");
    // 4. equality by represented value and </<= overloading, through the evaluator
    let w = {
        let mut wr = Rng::new(7);
        gen::gen_world(&mut wr)
    };
    let wsx = crate::c02::world_sx(&w);
    for _ in 0..(args.n / 4) {
        let f = *r.pick(&["decimal", "ip", "datetime", "duration"]);
        let fixed: &[&str] = match f { "decimal" => gen::DECIMALS_OK, "ip" => gen::IPS_OK, "datetime" => gen::DATETIMES_OK, _ => gen::DURATIONS_OK };
        let a = Expr::call_extension_fn(name(f), vec![Expr::val(*r.pick(fixed))]);
        let b = Expr::call_extension_fn(name(f), vec![Expr::val(*r.pick(fixed))]);
        let e = match r.below(3) { 0 => Expr::is_eq(a, b), 1 => Expr::less(a, b), _ => Expr::lesseq(a, b) };
        crate::c02::one_expr(&w, &wsx, &e, out, "ext-eq");
    }
}
