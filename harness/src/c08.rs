//! C08: template linking = substitution; policy-set edits keep ids consistent.
//! (a) random histories of policy-set operations (ids from a pool of 5, two registers so that `merge` has a
//!     partner) through the real `cedar_policy_core::ast::PolicySet` and the public `cedar_policy::PolicySet`;
//!     after each op: ok / error kind, renaming, sorted listing, authorization on 2 requests — compared with the
//!     model; implementation-only checks of the statement (propfail).
//! (b) linked policy vs. Rust parse of the textually substituted static policy.
//! (c) all histories of length <= 2 (quick) / <= 3 (thorough) over 2 ids.
use crate::c01;
use crate::gen::{self, ExprGen, World};
use crate::out::Out;
use crate::rng::Rng;
use crate::sx;
use crate::Args;
use cedar_policy as api;
use cedar_policy_core::ast::{
    self, ActionConstraint, Effect, EntityReference, EntityUID, PolicyID, PrincipalOrResourceConstraint, SlotId,
};
use cedar_policy_core::authorizer::Authorizer;
use cedar_policy_core::evaluator::Evaluator;
use cedar_policy_core::extensions::Extensions;
use cedar_policy_core::parser;
use std::collections::{BTreeMap, BTreeSet, HashMap};
use std::panic::{catch_unwind, AssertUnwindSafe};
use std::sync::Arc;

pub type Env = (Option<EntityUID>, Option<EntityUID>);

#[derive(Clone, Debug)]
pub enum Op {
    AddStatic { w: usize, id: String, text: String },
    Add { w: usize, id: String, text: String },
    AddLinked { w: usize, tid: String, text: String, lid: String, env: Env },
    AddT { w: usize, id: String, text: String },
    Link { w: usize, tid: String, lid: String, env: Env },
    Unlink { w: usize, id: String },
    RmStatic { w: usize, id: String },
    RmTemplate { w: usize, id: String },
    Merge { w: usize, rename: bool },
}

impl Op {
    fn w(&self) -> usize {
        match self {
            Op::AddStatic { w, .. } | Op::Add { w, .. } | Op::AddLinked { w, .. } | Op::AddT { w, .. } | Op::Link { w, .. }
            | Op::Unlink { w, .. } | Op::RmStatic { w, .. } | Op::RmTemplate { w, .. } | Op::Merge { w, .. } => *w,
        }
    }
}

// ---------- serialisation of templates for the model ----------

fn ref_sx(r: &EntityReference) -> String {
    match r {
        EntityReference::EUID(u) => sx::uid(u),
        EntityReference::Slot(_) => "slot".into(),
    }
}

fn scope_sx(c: &PrincipalOrResourceConstraint) -> String {
    match c {
        PrincipalOrResourceConstraint::Any => "any".into(),
        PrincipalOrResourceConstraint::Eq(r) => format!("(eq {})", ref_sx(r)),
        PrincipalOrResourceConstraint::In(r) => format!("(in {})", ref_sx(r)),
        PrincipalOrResourceConstraint::Is(t) => format!("(is {})", sx::qs(&t.to_string())),
        PrincipalOrResourceConstraint::IsIn(t, r) => format!("(isin {} {})", sx::qs(&t.to_string()), ref_sx(r)),
    }
}

fn action_sx(c: &ActionConstraint) -> Option<String> {
    Some(match c {
        ActionConstraint::Any => "any".into(),
        ActionConstraint::Eq(u) => format!("(eq {})", sx::uid(u)),
        ActionConstraint::In(us) => {
            let mut o = String::from("(in");
            for u in us { o.push(' '); o.push_str(&sx::uid(u)); }
            o.push(')');
            o
        }
        #[allow(unreachable_patterns)]
        _ => return None,
    })
}

fn annos_sx<'a>(it: impl Iterator<Item = (&'a ast::AnyId, &'a ast::Annotation)>) -> String {
    let mut v: Vec<(String, String)> = it.map(|(k, a)| (k.to_string(), a.val.to_string())).collect();
    v.sort();
    let mut o = String::from("(annos");
    for (k, a) in v { o.push_str(&format!(" ({} {})", sx::qs(&k), sx::qs(&a))); }
    o.push(')');
    o
}

fn eff(e: Effect) -> &'static str { if e == Effect::Permit { "permit" } else { "forbid" } }

pub fn body_sx(t: &ast::Template) -> Option<String> {
    let ns = match t.non_scope_constraints() { None => "none".to_string(), Some(e) => sx::expr(e)? };
    Some(format!(
        "(body {} {} {} {} {} {} {})",
        sx::qs(t.id().as_ref()), eff(t.effect()), annos_sx(t.annotations()),
        scope_sx(t.principal_constraint().as_inner()), action_sx(t.action_constraint())?,
        scope_sx(t.resource_constraint().as_inner()), ns
    ))
}

fn slot_name(s: &SlotId) -> &'static str { if *s == SlotId::principal() { "principal" } else { "resource" } }

pub fn template_sx(t: &ast::Template) -> Option<String> {
    let mut o = format!("(tpl {} (slots", body_sx(t)?);
    for s in t.slots() { o.push(' '); o.push_str(slot_name(&s.id)); }
    o.push_str("))");
    Some(o)
}

pub fn env_sx(env: &Env) -> String {
    let mut o = String::from("(env");
    if let Some(u) = &env.0 { o.push_str(&format!(" (principal {})", sx::uid(u))); }
    if let Some(u) = &env.1 { o.push_str(&format!(" (resource {})", sx::uid(u))); }
    o.push(')');
    o
}

fn env_map(env: &Env) -> HashMap<SlotId, EntityUID> {
    let mut m = HashMap::new();
    if let Some(u) = &env.0 { m.insert(SlotId::principal(), u.clone()); }
    if let Some(u) = &env.1 { m.insert(SlotId::resource(), u.clone()); }
    m
}

fn env_of(m: &HashMap<SlotId, EntityUID>) -> Env {
    (m.get(&SlotId::principal()).cloned(), m.get(&SlotId::resource()).cloned())
}

fn pid(s: &str) -> PolicyID { PolicyID::from_string(s) }

fn parse_static(id: &str, text: &str) -> Option<ast::StaticPolicy> { parser::parse_policy(Some(pid(id)), text).ok() }
fn parse_tpl(id: &str, text: &str) -> Option<ast::Template> { parser::parse_policy_or_template(Some(pid(id)), text).ok() }

pub fn op_sx(op: &Op) -> Option<String> {
    Some(match op {
        Op::AddStatic { w, id, text } => {
            let (t, _) = ast::Template::link_static_policy(parse_static(id, text)?);
            format!("(addstatic {w} {})", body_sx(&t)?)
        }
        Op::Add { w, id, text } => {
            let (t, _) = ast::Template::link_static_policy(parse_static(id, text)?);
            format!("(add {w} {})", body_sx(&t)?)
        }
        Op::AddLinked { w, tid, text, lid, env } => format!("(addlinked {w} {} {} {})", template_sx(&parse_tpl(tid, text)?)?, sx::qs(lid), env_sx(env)),
        Op::AddT { w, id, text } => format!("(addt {w} {})", template_sx(&parse_tpl(id, text)?)?),
        Op::Link { w, tid, lid, env } => format!("(link {w} {} {} {})", sx::qs(tid), sx::qs(lid), env_sx(env)),
        Op::Unlink { w, id } => format!("(unlink {w} {})", sx::qs(id)),
        Op::RmStatic { w, id } => format!("(rmstatic {w} {})", sx::qs(id)),
        Op::RmTemplate { w, id } => format!("(rmtemplate {w} {})", sx::qs(id)),
        Op::Merge { w, rename } => format!("(merge {w} {rename})"),
    })
}

fn policy_entry(p: &ast::Policy) -> String {
    format!(
        "(p {} {} {} {} {} {})",
        sx::qs(p.id().as_ref()), if p.is_static() { "static" } else { "link" }, sx::qs(p.template().id().as_ref()),
        eff(p.effect()), annos_sx(p.annotations()), env_sx(&env_of(p.env()))
    )
}

fn template_entry(t: &ast::Template) -> String {
    let mut ss: Vec<&str> = t.slots().map(|s| slot_name(&s.id)).collect();
    ss.sort();
    let mut o = format!("(t {} {} {} (slots", sx::qs(t.id().as_ref()), eff(t.effect()), annos_sx(t.annotations()));
    for s in ss { o.push(' '); o.push_str(s); }
    o.push_str("))");
    o
}

fn listing_sx(mut ents: Vec<String>) -> String {
    ents.sort();
    let mut o = String::from("(listing");
    for e in ents { o.push(' '); o.push_str(&e); }
    o.push(')');
    o
}

fn ren_sx(r: &[(String, String)]) -> String {
    let mut v: Vec<String> = r.iter().map(|(a, b)| format!("({} {})", sx::qs(a), sx::qs(b))).collect();
    v.sort();
    let mut o = String::from("(ren");
    for e in v { o.push(' '); o.push_str(&e); }
    o.push(')');
    o
}

// ---------- the two layers ----------

/// abstract view of a set extracted from its public iterators (used by the implementation-only checks)
#[derive(Clone, Debug, PartialEq, Eq, Default)]
pub struct View {
    /// id -> (is_static, template id, env text)
    pub policies: BTreeMap<String, (bool, String, String)>,
    /// ids from `templates()`
    pub templates: BTreeSet<String>,
    /// template id -> linked ids (from get_linked_policies), for every id of `templates()` (core: all_templates())
    pub l2: BTreeMap<String, Option<BTreeSet<String>>>,
    pub dup_policy_ids: bool,
}

pub trait Layer: Sized + Clone {
    const NAME: &'static str;
    fn new() -> Self;
    /// Err(kind) ; Ok(renaming)
    fn apply(&mut self, other: &Self, op: &Op) -> Result<Vec<(String, String)>, String>;
    fn listing(&self) -> String;
    fn view(&self) -> View;
    fn auth(&self, w: &World, reqs: &[ast::Request]) -> Vec<String>;
    fn same(&self, other: &Self) -> bool;
    /// ids of static policies whose template could be linked / slot names of a template (for generating bindings)
    fn template_slots(&self, tid: &str) -> Option<(bool, bool)>;
}

#[derive(Clone)]
pub struct Core(pub ast::PolicySet);

fn core_resp(resp: &cedar_policy_core::authorizer::Response) -> String { c01::resp_sx(resp, &|s: &str| s.to_string()) }

impl Layer for Core {
    const NAME: &'static str = "core";
    fn new() -> Self { Core(ast::PolicySet::new()) }
    fn apply(&mut self, other: &Self, op: &Op) -> Result<Vec<(String, String)>, String> {
        use ast::{LinkingError as LE, PolicySetPolicyRemovalError as RS, PolicySetTemplateRemovalError as RT, PolicySetUnlinkError as UL};
        let le = |e: LE| match e {
            LE::ArityError { .. } => "arity", LE::NoSuchTemplate { .. } => "noSuchTemplate", LE::PolicyIdConflict { .. } => "idConflict",
        }.to_string();
        match op {
            Op::AddStatic { id, text, .. } => self.0.add_static(parse_static(id, text).expect("static")).map(|_| vec![]).map_err(|_| "occupied".into()),
            Op::Add { id, text, .. } => self.0.add(ast::Policy::from(parse_static(id, text).expect("static"))).map(|_| vec![]).map_err(|_| "occupied".into()),
            Op::AddLinked { tid, text, lid, env, .. } => {
                let t = Arc::new(parse_tpl(tid, text).expect("template"));
                match ast::Template::link(t, pid(lid), env_map(env)) {
                    Err(e) => Err(le(e)),
                    Ok(p) => self.0.add(p).map(|_| vec![]).map_err(|_| "occupied".into()),
                }
            }
            Op::AddT { id, text, .. } => self.0.add_template(parse_tpl(id, text).expect("template")).map(|_| vec![]).map_err(|_| "occupied".into()),
            Op::Link { tid, lid, env, .. } => self.0.link(pid(tid), pid(lid), env_map(env)).map(|_| vec![]).map_err(le),
            Op::Unlink { id, .. } => self.0.unlink(&pid(id)).map(|_| vec![]).map_err(|e| match e {
                UL::UnlinkingError(_) => "unlinkMissing", UL::NotLinkError(_) => "notLink" }.to_string()),
            Op::RmStatic { id, .. } => self.0.remove_static(&pid(id)).map(|_| vec![]).map_err(|e| match e {
                RS::RemovePolicyNoLinkError(_) => "rmsNoLink", RS::RemovePolicyNoTemplateError(_) => "rmsNoTemplate" }.to_string()),
            Op::RmTemplate { id, .. } => self.0.remove_template(&pid(id)).map(|_| vec![]).map_err(|e| match e {
                RT::RemovePolicyNoTemplateError(_) => "rmtNoTemplate", RT::RemoveTemplateWithLinksError(_) => "rmtWithLinks",
                RT::NotTemplateError(_) => "rmtNotTemplate" }.to_string()),
            Op::Merge { rename, .. } => self.0.merge_policyset(&other.0, *rename)
                .map(|r| r.into_iter().map(|(a, b)| (a.as_ref().to_string(), b.as_ref().to_string())).collect())
                .map_err(|_| "occupied".into()),
        }
    }
    fn listing(&self) -> String {
        let mut ents: Vec<String> = self.0.policies().map(policy_entry).collect();
        ents.extend(self.0.templates().map(template_entry));
        for t in self.0.all_templates() {
            ents.push(format!("(at {})", sx::qs(t.id().as_ref())));
            match self.0.get_linked_policies(t.id()) {
                Ok(it) => ents.push(format!("(l2 {} {})", sx::qs(t.id().as_ref()), sx::ids(it.map(|i| i.as_ref().to_string())))),
                Err(_) => ents.push(format!("(l2 {} missing)", sx::qs(t.id().as_ref()))),
            }
        }
        listing_sx(ents)
    }
    fn view(&self) -> View {
        let mut v = View::default();
        for p in self.0.policies() {
            if v.policies.insert(p.id().as_ref().to_string(), (p.is_static(), p.template().id().as_ref().to_string(), env_sx(&env_of(p.env())))).is_some() { v.dup_policy_ids = true; }
        }
        for t in self.0.templates() { v.templates.insert(t.id().as_ref().to_string()); }
        for t in self.0.all_templates() {
            v.l2.insert(t.id().as_ref().to_string(), self.0.get_linked_policies(t.id()).ok().map(|it| it.map(|i| i.as_ref().to_string()).collect()));
        }
        v
    }
    fn auth(&self, w: &World, reqs: &[ast::Request]) -> Vec<String> {
        reqs.iter().map(|r| core_resp(&Authorizer::new().is_authorized(r.clone(), &self.0, &w.entities))).collect()
    }
    fn same(&self, other: &Self) -> bool { self.0 == other.0 }
    fn template_slots(&self, tid: &str) -> Option<(bool, bool)> {
        self.0.get_template(&pid(tid)).map(|t| (t.slots().any(|s| s.id == SlotId::principal()), t.slots().any(|s| s.id == SlotId::resource())))
    }
}

#[derive(Clone)]
pub struct Api(pub api::PolicySet);

fn api_id(s: &str) -> api::PolicyId { api::PolicyId::new(s) }

fn api_env(env: &Env) -> HashMap<api::SlotId, api::EntityUid> {
    let mut m = HashMap::new();
    if let Some(u) = &env.0 { m.insert(api::SlotId::principal(), api::EntityUid::from(u.clone())); }
    if let Some(u) = &env.1 { m.insert(api::SlotId::resource(), api::EntityUid::from(u.clone())); }
    m
}

fn api_err(e: api::PolicySetError) -> String { api_err_ref(&e) }

/// error class of a `PolicySetError` (the driver's `encErrKind` names)
pub fn api_err_ref(e: &api::PolicySetError) -> String {
    use api::PolicySetError as E;
    match e {
        E::AlreadyDefined(_) => "alreadyDefined".into(),
        E::Linking(l) => {
            let s = std::error::Error::source(l).map(|e| e.to_string()).unwrap_or_else(|| format!("{l:?}"));
            if s.contains("failed to find a template") { "noSuchTemplate".into() }
            else if s.contains("conflicts with an existing policy id") { "idConflict".into() }
            else { "arity".into() }
        }
        E::ExpectedStatic(_) => "expectedStatic".into(),
        E::ExpectedTemplate(_) => "expectedTemplate".into(),
        E::PolicyNonexistent(_) => "policyNonexistent".into(),
        E::TemplateNonexistent(_) => "templateNonexistent".into(),
        E::RemoveTemplateWithActiveLinks(_) => "removeTemplateWithActiveLinks".into(),
        E::RemoveTemplateNotTemplate(_) => "removeTemplateNotTemplate".into(),
        E::LinkNonexistent(_) => "linkNonexistent".into(),
        E::UnlinkLinkNotLink(_) => "unlinkLinkNotLink".into(),
        other => format!("other:{other}"),
    }
}

impl Layer for Api {
    const NAME: &'static str = "api";
    fn new() -> Self { Api(api::PolicySet::new()) }
    fn apply(&mut self, other: &Self, op: &Op) -> Result<Vec<(String, String)>, String> {
        match op {
            Op::AddStatic { id, text, .. } | Op::Add { id, text, .. } =>
                self.0.add(api::Policy::parse(Some(api_id(id)), text).expect("static")).map(|_| vec![]).map_err(api_err),
            Op::AddLinked { tid, text, lid, env, .. } => {
                // a template-linked `Policy` object, obtained from a scratch policy set through the public API
                let mut scratch = api::PolicySet::new();
                scratch.add_template(api::Template::parse(Some(api_id(tid)), text).expect("template")).expect("scratch add_template");
                match scratch.link(api_id(tid), api_id(lid), api_env(env)) {
                    Err(e) => Err(api_err(e)),
                    Ok(()) => self.0.add(scratch.policy(&api_id(lid)).expect("scratch policy").clone()).map(|_| vec![]).map_err(api_err),
                }
            }
            Op::AddT { id, text, .. } => self.0.add_template(api::Template::parse(Some(api_id(id)), text).expect("template")).map(|_| vec![]).map_err(api_err),
            Op::Link { tid, lid, env, .. } => self.0.link(api_id(tid), api_id(lid), api_env(env)).map(|_| vec![]).map_err(api_err),
            Op::Unlink { id, .. } => self.0.unlink(api_id(id)).map(|_| vec![]).map_err(api_err),
            Op::RmStatic { id, .. } => self.0.remove_static(api_id(id)).map(|_| vec![]).map_err(api_err),
            Op::RmTemplate { id, .. } => self.0.remove_template(api_id(id)).map(|_| vec![]).map_err(api_err),
            Op::Merge { rename, .. } => self.0.merge(&other.0, *rename)
                .map(|r| r.into_iter().map(|(a, b)| (a.to_string(), b.to_string())).collect())
                .map_err(api_err),
        }
    }
    fn listing(&self) -> String {
        let mut ents: Vec<String> = self.0.policies().map(|p| policy_entry(p.as_ref())).collect();
        for t in self.0.templates() {
            ents.push(template_entry(t.as_ref()));
            match self.0.get_linked_policies(t.id().clone()) {
                Ok(it) => ents.push(format!("(l2 {} {})", sx::qs(&t.id().to_string()), sx::ids(it.map(|i| i.to_string())))),
                Err(_) => ents.push(format!("(l2 {} missing)", sx::qs(&t.id().to_string()))),
            };
        }
        listing_sx(ents)
    }
    fn view(&self) -> View {
        let mut v = View::default();
        for p in self.0.policies() {
            let a: &ast::Policy = p.as_ref();
            // through the public accessors
            let tid = p.template_id().map(|t| t.to_string()).unwrap_or_else(|| p.id().to_string());
            let env = env_of(a.env());
            if v.policies.insert(p.id().to_string(), (p.is_static(), tid, env_sx(&env))).is_some() { v.dup_policy_ids = true; }
        }
        for t in self.0.templates() {
            v.templates.insert(t.id().to_string());
            v.l2.insert(t.id().to_string(), self.0.get_linked_policies(t.id().clone()).ok().map(|it| it.map(|i| i.to_string()).collect()));
        }
        v
    }
    fn auth(&self, w: &World, reqs: &[ast::Request]) -> Vec<String> {
        let ents = api::Entities::from(w.entities.clone());
        reqs.iter().map(|r| {
            let resp = api::Authorizer::new().is_authorized(&api::Request::from(r.clone()), &self.0, &ents);
            let reasons = sx::ids(resp.diagnostics().reason().map(|i| i.to_string()));
            let errs = sx::ids(resp.diagnostics().errors().map(|e| match e {
                api::AuthorizationError::PolicyEvaluationError(e) => e.policy_id().to_string(),
            }));
            format!("(resp {} {} {})", if resp.decision() == api::Decision::Allow { "allow" } else { "deny" }, reasons, errs)
        }).collect()
    }
    fn same(&self, other: &Self) -> bool { self.0 == other.0 }
    fn template_slots(&self, tid: &str) -> Option<(bool, bool)> {
        self.0.template(&api_id(tid)).map(|t| (t.slots().any(|s| *s == api::SlotId::principal()), t.slots().any(|s| *s == api::SlotId::resource())))
    }
}

// ---------- oracle: the abstract specification replayed in the harness ----------

#[derive(Clone, Debug, PartialEq, Eq)]
enum Item {
    Static(String),                // text
    Template(String, bool, bool),  // text, has ?principal, has ?resource
    Link(String, Env, String),     // template id, env, template text
}

#[derive(Clone, Default, Debug)]
struct Oracle {
    items: BTreeMap<String, Item>,
    /// the history left the envelope of the public API (core-only operations succeeded): no predictions any more
    off: bool,
}

pub fn slots_of(text: &str) -> (bool, bool) { (text.contains("?principal"), text.contains("?resource")) }

impl Oracle {
    /// predicted outcome (true = ok) and the state update
    fn apply(&mut self, other: &Oracle, op: &Op, api: bool) -> Option<bool> {
        if self.off { return None; }
        match op {
            Op::AddStatic { id, text, .. } | Op::Add { id, text, .. } => {
                if self.items.contains_key(id) { Some(false) } else { self.items.insert(id.clone(), Item::Static(text.clone())); Some(true) }
            }
            Op::AddLinked { .. } => {
                if api { Some(false) } else { None } // core: outside the envelope; decided after the fact
            }
            Op::AddT { id, text, .. } => {
                let (p, r) = slots_of(text);
                if !p && !r { return None; } // slot-less "template": core only
                if self.items.contains_key(id) { Some(false) } else { self.items.insert(id.clone(), Item::Template(text.clone(), p, r)); Some(true) }
            }
            Op::Link { tid, lid, env, .. } => match self.items.get(tid) {
                Some(Item::Template(text, p, r)) => {
                    if env.0.is_some() != *p || env.1.is_some() != *r { Some(false) }
                    else if self.items.contains_key(lid) { Some(false) }
                    else { let it = Item::Link(tid.clone(), env.clone(), text.clone()); self.items.insert(lid.clone(), it); Some(true) }
                }
                Some(Item::Static(_)) => if api { Some(false) } else { None },
                _ => Some(false),
            },
            Op::Unlink { id, .. } => if matches!(self.items.get(id), Some(Item::Link(..))) { self.items.remove(id); Some(true) } else { Some(false) },
            Op::RmStatic { id, .. } => if matches!(self.items.get(id), Some(Item::Static(_))) { self.items.remove(id); Some(true) } else { Some(false) },
            Op::RmTemplate { id, .. } => {
                if matches!(self.items.get(id), Some(Item::Template(..))) && !self.items.values().any(|i| matches!(i, Item::Link(t, _, _) if t == id)) {
                    self.items.remove(id); Some(true)
                } else { Some(false) }
            }
            Op::Merge { rename, .. } => {
                if other.off { self.off = true; return None; }
                let conflicts: Vec<&String> = other.items.iter().filter(|(k, v)| self.items.get(*k).map_or(false, |mine| mine != *v)).map(|(k, _)| k).collect();
                if !conflicts.is_empty() && !*rename { return Some(false); }
                // the new ids are chosen by the implementation; the update is done in `merge_apply`
                Some(true)
            }
        }
    }
    fn conflicts(&self, other: &Oracle) -> BTreeSet<String> {
        other.items.iter().filter(|(k, v)| self.items.get(*k).map_or(false, |mine| mine != *v)).map(|(k, _)| k.clone()).collect()
    }
    fn merge_apply(&mut self, other: &Oracle, ren: &BTreeMap<String, String>) {
        let r = |s: &String| ren.get(s).cloned().unwrap_or_else(|| s.clone());
        for (k, v) in &other.items {
            let v2 = match v {
                Item::Link(t, e, text) => Item::Link(r(t), e.clone(), text.clone()),
                x => x.clone(),
            };
            self.items.insert(r(k), v2);
        }
    }
    fn view(&self) -> View {
        let mut v = View::default();
        for (k, it) in &self.items {
            match it {
                Item::Static(_) => { v.policies.insert(k.clone(), (true, k.clone(), "(env)".into())); }
                Item::Template(..) => { v.templates.insert(k.clone()); v.l2.entry(k.clone()).or_insert_with(|| Some(BTreeSet::new())); }
                Item::Link(t, e, _) => {
                    v.policies.insert(k.clone(), (false, t.clone(), env_sx(e)));
                    v.l2.entry(t.clone()).or_insert_with(|| Some(BTreeSet::new())).as_mut().unwrap().insert(k.clone());
                }
            }
        }
        v
    }
    /// the static policy set the specification denotes: every link replaced by its textual substitution
    fn substituted(&self) -> Option<ast::PolicySet> {
        let mut ps = ast::PolicySet::new();
        for (k, it) in &self.items {
            match it {
                Item::Static(text) => ps.add_static(parse_static(k, text)?).ok()?,
                Item::Template(..) => {}
                Item::Link(_, env, text) => ps.add_static(parse_static(k, &subst_text(text, env))?).ok()?,
            }
        }
        Some(ps)
    }
}

pub fn subst_text(text: &str, env: &Env) -> String {
    let mut s = text.to_string();
    if let Some(u) = &env.0 { s = s.replace("?principal", &u.to_string()); }
    if let Some(u) = &env.1 { s = s.replace("?resource", &u.to_string()); }
    s
}

// ---------- one history ----------

struct Case<'a> {
    w: &'a World,
    wsx: &'a (String, String),
    reqs: Vec<ast::Request>,
    reqs_sx: String,
}

fn second_request(r: &mut Rng, w: &World) -> (ast::Request, String) {
    let p = if r.chance(50) { gen::gen_uid(r) } else { w.principal.clone() };
    let rs = if r.chance(50) { gen::gen_uid(r) } else { w.resource.clone() };
    let a = w.action.clone();
    let req = ast::Request::new((p.clone(), None), (a.clone(), None), (rs.clone(), None), w.context.clone(),
        None::<&ast::RequestSchemaAllPass>, Extensions::all_available()).expect("request");
    let ctx: ast::Value = match ast::PartialValue::from(w.context.clone()) { ast::PartialValue::Value(v) => v, _ => panic!("ctx") };
    (req, sx::request(&p, &a, &rs, &ctx))
}

fn run_history<L: Layer>(case: &Case, ops: &[Op], pre: &[Op], out: &mut Out, tag: &str) {
    let mut regs = [L::new(), L::new()];
    let mut oracles = [Oracle::default(), Oracle::default()];
    let api = L::NAME == "api";
    let desc = format!("{tag} {} {:?}", L::NAME, pre.iter().chain(ops.iter()).collect::<Vec<_>>());
    let mut steps: Vec<String> = Vec::new();
    let mut sent: Vec<String> = Vec::new();
    let mut any_fail = false;
    let mut any_link = false;
    for (k, op) in pre.iter().chain(ops.iter()).enumerate() {
        let Some(osx) = op_sx(op) else { out.count("outside_protocol"); return };
        sent.push(osx);
        let w = op.w();
        let before = regs[w].clone();
        let before_listing = before.listing();
        let other = regs[1 - w].clone();
        let mut target = regs[w].clone();
        let res = catch_unwind(AssertUnwindSafe(|| { let r = target.apply(&other, op); (target, r) }));
        let (after, r) = match res {
            Ok(x) => x,
            Err(p) => {
                steps.push("(step panic)".into());
                out.count(&format!("{}_panic", L::NAME));
                if !oracles[w].off { out.propfail("panic in a policy-set operation within the public-API envelope", &desc, &format!("op #{k}: {}", crate::c02::panic_msg(p))); }
                else { out.count("core_off_envelope_panic"); out.sample(format!("OFF-ENVELOPE PANIC {desc}")); }
                break;
            }
        };
        regs[w] = after;
        let listing = regs[w].listing();
        let auth = regs[w].auth(case.w, &case.reqs);
        let (kind, ren) = match &r { Ok(ren) => ("ok".to_string(), ren.clone()), Err(k) => (k.clone(), vec![]) };
        steps.push(format!("(step {kind} {} {listing} {})", ren_sx(&ren), auth.join(" ")));
        out.count(&format!("{}_{}_{}", L::NAME, op_name(op), if r.is_ok() { "ok" } else { "err" }));
        if r.is_err() { any_fail = true; out.count(&format!("{}_err_{kind}", L::NAME)); }
        if matches!(op, Op::Link { .. }) && r.is_ok() { any_link = true; }
        // ---- implementation-only checks of the statement ----
        // (1) a failed operation changes nothing
        if r.is_err() {
            if listing != before_listing {
                out.propfail("a failed operation changed the policy set", &desc, &format!("op #{k}: before {before_listing} after {listing}"));
            }
            if !regs[w].same(&before) { out.count(&format!("{}_failed_op_changed_iteration_order", L::NAME)); }
        }
        // oracle
        let ob = oracles[w].clone();
        let other_o0 = oracles[1 - w].clone();
        let pred = oracles[w].apply(&other_o0, op, api);
        match pred {
            None => {
                // outside the public-API envelope (core only): if it succeeded, predictions stop for this register
                if r.is_ok() { oracles[w].off = true; out.count("core_off_envelope_op_succeeded"); }
                else { oracles[w] = ob; }
            }
            Some(okp) => {
                if okp != r.is_ok() {
                    out.propfail("operation outcome differs from the abstract specification", &desc, &format!("op #{k}: spec says {} ; implementation {kind}", if okp { "ok" } else { "fail" }));
                    oracles[w].off = true;
                } else if let (Op::Merge { .. }, Ok(ren)) = (op, &r) {
                    let rm: BTreeMap<String, String> = ren.iter().cloned().collect();
                    let other_o = oracles[1 - w].clone();
                    let conflicts = oracles[w].conflicts(&other_o);
                    let dom: BTreeSet<String> = rm.keys().cloned().collect();
                    if dom != conflicts {
                        out.propfail("merge renamed a different set of ids than the conflicting ones", &desc, &format!("op #{k}: renamed {dom:?} conflicts {conflicts:?}"));
                    }
                    let news: BTreeSet<&String> = rm.values().collect();
                    if news.len() != rm.len() || rm.values().any(|n| oracles[w].items.contains_key(n) || other_o.items.contains_key(n)) {
                        out.propfail("merge chose a new id that is not fresh", &desc, &format!("op #{k}: {rm:?}"));
                    }
                    oracles[w].merge_apply(&other_o, &rm);
                    if !rm.is_empty() { out.count(&format!("{}_merge_with_renaming", L::NAME)); }
                }
            }
        }
        let view = regs[w].view();
        if !oracles[w].off {
            // (2) no id shared, (3) no link without its template, template_to_links = inverse image of links
            let ov = oracles[w].view();
            let mut bad = Vec::new();
            if view.dup_policy_ids { bad.push("duplicate policy id".to_string()); }
            for t in &view.templates { if view.policies.contains_key(t) { bad.push(format!("id {t} is both a template and a policy")); } }
            for (id, (st, tid, _)) in &view.policies {
                if !*st {
                    if !view.templates.contains(tid) { bad.push(format!("link {id} without its template {tid}")); }
                    if !view.l2.get(tid).and_then(|x| x.as_ref()).map_or(false, |s| s.contains(id)) { bad.push(format!("link {id} not listed under template {tid}")); }
                }
            }
            for (tid, s) in &view.l2 {
                match s {
                    None => bad.push(format!("get_linked_policies({tid}) fails")),
                    Some(s) => for l in s {
                        let okl = view.policies.get(l).map_or(false, |(st, t, _)| (t == tid) && (!*st || l == tid));
                        if !okl { bad.push(format!("template {tid} lists {l} which is not its link")); }
                    }
                }
            }
            if !bad.is_empty() { out.propfail("policy-set invariant violated", &desc, &format!("op #{k}: {}", bad.join("; "))); }
            // (4) oracle agrees on the content
            let mut v2 = view.clone();
            if !api { v2.l2.retain(|k, _| v2.templates.contains(k)); } // core lists static bodies too
            if v2 != ov {
                out.propfail("policy set differs from what the successful operations imply", &desc, &format!("op #{k}: implementation {v2:?} ; specification {ov:?}"));
                oracles[w].off = true;
            }
            // (5) authorization considers exactly those policies: same responses as the set of substituted static policies
            if let Some(sub) = oracles[w].substituted() {
                let want: Vec<String> = case.reqs.iter().map(|r| core_resp(&Authorizer::new().is_authorized(r.clone(), &sub, &case.w.entities))).collect();
                if want != auth {
                    out.propfail("authorization differs from the substituted static policies", &desc, &format!("op #{k}: {auth:?} vs {want:?}"));
                }
                out.count("auth_vs_substituted_checked");
            } else { out.count("substituted_unbuildable"); }
        }
    }
    let req = format!("(pset {} (ops {}) (reqs {}) {})", L::NAME, sent.join(" "), case.reqs_sx, case.wsx.1);
    let imp = format!("(hist {})", steps.join(" "));
    if any_fail && any_link { out.nontrivial(&req); }
    out.sample(format!("{desc} ==> {}", imp.chars().take(400).collect::<String>()));
    out.line(req, imp, desc);
    out.count(&format!("{}_histories", L::NAME));
}

fn op_name(op: &Op) -> &'static str {
    match op {
        Op::AddStatic { .. } => "addstatic", Op::Add { .. } => "add", Op::AddLinked { .. } => "addlinked", Op::AddT { .. } => "addt",
        Op::Link { .. } => "link", Op::Unlink { .. } => "unlink", Op::RmStatic { .. } => "rmstatic", Op::RmTemplate { .. } => "rmtemplate",
        Op::Merge { .. } => "merge",
    }
}

const IDS: &[&str] = &["a", "b", "t", "policy0", "policy1"];

pub struct Pool { pub statics: Vec<String>, pub templates: Vec<String> }

pub fn gen_pool(r: &mut Rng, g: &mut ExprGen, w: &World, api: bool) -> Pool {
    let anno = |r: &mut Rng, t: String| -> String { match r.below(4) { 0 => format!("@note(\"x\") {t}"), 1 => format!("@note(\"y\") @k(\"\") {t}"), _ => t } };
    let mut statics = Vec::new();
    while statics.len() < 3 {
        let e = if r.chance(60) { Effect::Permit } else { Effect::Forbid };
        let oc = if r.chance(40) { 3 } else { r.below(3) as u32 };
        let s = c01::gen_policy(r, g, w, "x", e, oc, false);
        let t = anno(r, s.text);
        if parse_static("x", &t).is_some() && !statics.contains(&t) { statics.push(t); }
    }
    let mut templates = Vec::new();
    let mut tries = 0;
    while templates.len() < 4 && tries < 200 {
        tries += 1;
        let e = if r.chance(60) { Effect::Permit } else { Effect::Forbid };
        let oc = if r.chance(40) { 3 } else { r.below(3) as u32 };
        let s = c01::gen_policy(r, g, w, "x", e, oc, true);
        let t = anno(r, s.text);
        let (p, rs) = slots_of(&t);
        // the pool covers ?principal only, ?resource only, both; the 4th may be slot-less (core only)
        let want = match templates.len() { 0 => p && !rs, 1 => !p && rs, 2 => p && rs, _ => !api || p || rs };
        if want && parse_tpl("x", &t).is_some() && !templates.contains(&t) { templates.push(t); }
    }
    if templates.is_empty() { templates.push("permit(principal == ?principal, action, resource);".to_string()); }
    Pool { statics, templates }
}

fn gen_env<L: Layer>(r: &mut Rng, w: &World, reg: &L, tid: &str) -> Env {
    let pu = |r: &mut Rng| if r.chance(50) { w.principal.clone() } else { gen::gen_uid(r) };
    let ru = |r: &mut Rng| if r.chance(50) { w.resource.clone() } else { gen::gen_uid(r) };
    if r.chance(70) {
        if let Some((p, rs)) = reg.template_slots(tid) {
            return (if p { Some(pu(r)) } else { None }, if rs { Some(ru(r)) } else { None });
        }
    }
    (if r.chance(50) { Some(pu(r)) } else { None }, if r.chance(50) { Some(ru(r)) } else { None })
}

/// generates the ops one at a time against a shadow run (so that bindings can match the current template)
fn gen_history<L: Layer>(r: &mut Rng, w: &World, pool: &Pool, n: usize) -> Vec<Op> {
    let api = L::NAME == "api";
    let mut regs = [L::new(), L::new()];
    let mut ops = Vec::new();
    for _ in 0..n {
        let wi = if r.chance(70) { 0 } else { 1 };
        let id = |r: &mut Rng| (*r.pick(IDS)).to_string();
        // ids of the right kind currently in the register (so that removals / links often hit something)
        let view = regs[wi].view();
        let statics: Vec<String> = view.policies.iter().filter(|(_, v)| v.0).map(|(k, _)| k.clone()).collect();
        let links: Vec<String> = view.policies.iter().filter(|(_, v)| !v.0).map(|(k, _)| k.clone()).collect();
        let tpls: Vec<String> = view.templates.iter().cloned().collect();
        let biased = |r: &mut Rng, pool: &Vec<String>| -> String { if !pool.is_empty() && r.chance(75) { r.pick(pool).clone() } else { (*r.pick(IDS)).to_string() } };
        let op = match r.below(100) {
            0..=15 => Op::Add { w: wi, id: id(r), text: r.pick(&pool.statics).clone() },
            16..=19 => Op::AddStatic { w: wi, id: id(r), text: r.pick(&pool.statics).clone() },
            20..=35 => Op::AddT { w: wi, id: id(r), text: r.pick(&pool.templates).clone() },
            36..=62 => { let tid = biased(r, &tpls); let env = gen_env(r, w, &regs[wi], &tid); Op::Link { w: wi, tid, lid: id(r), env } }
            63..=73 => Op::Unlink { w: wi, id: biased(r, &links) },
            74..=81 => Op::RmStatic { w: wi, id: biased(r, &statics) },
            82..=89 => Op::RmTemplate { w: wi, id: biased(r, &tpls) },
            90..=96 => Op::Merge { w: wi, rename: r.chance(60) },
            _ if pool.templates.is_empty() => Op::Add { w: wi, id: id(r), text: r.pick(&pool.statics).clone() },
            _ => {
                let text = r.pick(&pool.templates[..pool.templates.len().min(3)]).clone();
                let (p, rs) = slots_of(&text);
                let env = if r.chance(80) { (if p { Some(w.principal.clone()) } else { None }, if rs { Some(w.resource.clone()) } else { None }) } else { (None, Some(w.resource.clone())) };
                let tid = id(r);
                let mut lid = id(r);
                while lid == tid { lid = id(r); } // a link with its template's id cannot be built through the public API
                Op::AddLinked { w: wi, tid, text, lid, env }
            }
        };
        let _ = api;
        let other = regs[1 - wi].clone();
        let mut t = regs[wi].clone();
        if catch_unwind(AssertUnwindSafe(|| { let _ = t.apply(&other, &op); t })).map(|t| regs[wi] = t).is_err() {
            ops.push(op);
            break;
        }
        ops.push(op);
    }
    ops
}

fn linkeq_case(r: &mut Rng, g: &mut ExprGen, out: &mut Out) {
    let w = gen::gen_world(r);
    let wsx = crate::c02::world_sx(&w);
    let e = if r.chance(60) { Effect::Permit } else { Effect::Forbid };
    let oc = if r.chance(50) { 3 } else { r.below(3) as u32 };
    let mut spec = c01::gen_policy(r, g, &w, "T", e, oc, true);
    let mut tries = 0;
    while slots_of(&spec.text) == (false, false) && tries < 50 { spec = c01::gen_policy(r, g, &w, "T", e, oc, true); tries += 1; }
    let text = if r.chance(30) { format!("@note(\"n\") {}", spec.text) } else { spec.text.clone() };
    let Some(t) = parse_tpl("T", &text) else { out.count("linkeq_unparsable"); return };
    let (hp, hr) = slots_of(&text);
    let pu = if r.chance(50) { w.principal.clone() } else { gen::gen_uid(r) };
    let ru = if r.chance(50) { w.resource.clone() } else { gen::gen_uid(r) };
    let env: Env = if r.chance(80) { (if hp { Some(pu) } else { None }, if hr { Some(ru) } else { None }) }
        else { (if r.chance(50) { Some(pu) } else { None }, if r.chance(50) { Some(ru) } else { None }) };
    let exact = env.0.is_some() == hp && env.1.is_some() == hr;
    let desc = format!("linkeq {text} env {}", env_sx(&env));
    let Some(tsx) = template_sx(&t) else { out.count("outside_protocol"); return };
    let linked = ast::Template::link(Arc::new(t.clone()), pid("L"), env_map(&env));
    // link_ok_iff on the implementation
    if linked.is_ok() != exact {
        out.propfail("link succeeded although not exactly the template's slots are bound (or failed although they are)", &desc, &format!("ok={}", linked.is_ok()));
    }
    let Ok(lp) = linked else {
        out.line(format!("(linkeq {tsx} \"L\" {} {} {} (lit (b true)) {})", env_sx(&env), wsx.0, wsx.1, body_sx(&t).unwrap()), "(linkeq arity)".into(), desc);
        out.count("linkeq_wrong_binding");
        return;
    };
    let stext = subst_text(&text, &env);
    let Some(sp) = parse_static("L", &stext) else { out.propfail("textually substituted policy does not parse", &desc, &stext); return };
    let (st, spol) = ast::Template::link_static_policy(sp);
    // effect and annotations of the link are those of the template
    if lp.effect() != t.effect() || annos_sx(lp.annotations()) != annos_sx(t.annotations()) {
        out.propfail("link's effect/annotations differ from its template's", &desc, "");
    }
    if lp.effect() != spol.effect() || annos_sx(lp.annotations()) != annos_sx(spol.annotations()) {
        out.propfail("link's effect/annotations differ from the substituted policy's", &desc, "");
    }
    // with_filled_slot view of the link = the substituted policy's scope
    if lp.principal_constraint() != *spol.template().principal_constraint() || lp.resource_constraint() != *spol.template().resource_constraint() {
        out.propfail("link's filled scope constraints differ from the substituted policy's", &desc, "");
    }
    let ev = Evaluator::new(w.request(), &w.entities, Extensions::all_available());
    let r1 = catch_unwind(AssertUnwindSafe(|| ev.interpret(&lp.condition(), lp.env())));
    let r2 = catch_unwind(AssertUnwindSafe(|| ev.interpret(&spol.condition(), spol.env())));
    let (Ok(r1), Ok(r2)) = (r1, r2) else { out.propfail("panic evaluating a linked / substituted policy", &desc, ""); return };
    let (s1, s2) = (sx::result(&r1), sx::result(&r2));
    if s1 != s2 { out.propfail("linked policy evaluates differently from the substituted static policy", &desc, &format!("{s1} vs {s2}")); }
    let auth1 = core_resp(&Authorizer::new().is_authorized(w.request(), &ast::PolicySet::singleton(lp.clone()), &w.entities));
    let auth2 = core_resp(&Authorizer::new().is_authorized(w.request(), &ast::PolicySet::singleton(spol.clone()), &w.entities));
    if auth1 != auth2 { out.propfail("linked policy authorizes differently from the substituted static policy", &desc, &format!("{auth1} vs {auth2}")); }
    let (Some(cond), Some(sbody)) = (sx::expr(&lp.condition()), body_sx(&st)) else { out.count("outside_protocol"); return };
    out.line(
        format!("(linkeq {tsx} \"L\" {} {} {} {cond} {sbody})", env_sx(&env), wsx.0, wsx.1),
        format!("(linkeq {s1} {s2} true true {auth1} {auth2})"),
        desc.clone(),
    );
    out.nontrivial(&format!("{text}{}{}", env_sx(&env), wsx.0));
    out.count("linkeq_cases");
    out.count(&format!("linkeq_slots_{}{}", if hp { "p" } else { "" }, if hr { "r" } else { "" }));
    out.count(if r1.is_err() { "linkeq_result_err" } else if s1.contains("true") { "linkeq_result_true" } else { "linkeq_result_false" });
    out.sample(format!("{desc} ==> {s1}"));
}

fn exhaustive(args: &Args, out: &mut Out) {
    let mut wr = Rng::new(args.seed ^ 0xC08);
    let w = gen::gen_world(&mut wr);
    let wsx = crate::c02::world_sx(&w);
    let (r2, r2sx) = second_request(&mut wr, &w);
    let case = Case { w: &w, wsx: &wsx, reqs: vec![w.request(), r2], reqs_sx: format!("{} {}", wsx.0, r2sx) };
    let s0 = "permit(principal, action, resource);".to_string();
    let s1 = format!("forbid(principal == {}, action, resource);", w.principal);
    let t0 = "permit(principal == ?principal, action, resource);".to_string();
    let t1 = "@note(\"x\") forbid(principal, action, resource in ?resource);".to_string();
    let ids = ["a", "b"];
    let mut alphabet: Vec<Op> = Vec::new();
    for id in ids {
        for text in [&s0, &s1] { alphabet.push(Op::Add { w: 0, id: id.into(), text: text.clone() }); }
        for text in [&t0, &t1] { alphabet.push(Op::AddT { w: 0, id: id.into(), text: text.clone() }); }
        for lid in ids {
            alphabet.push(Op::Link { w: 0, tid: id.into(), lid: lid.into(), env: (Some(w.principal.clone()), None) });
            alphabet.push(Op::Link { w: 0, tid: id.into(), lid: lid.into(), env: (None, None) });
        }
        alphabet.push(Op::Unlink { w: 0, id: id.into() });
        alphabet.push(Op::RmStatic { w: 0, id: id.into() });
        alphabet.push(Op::RmTemplate { w: 0, id: id.into() });
    }
    alphabet.push(Op::Merge { w: 0, rename: false });
    alphabet.push(Op::Merge { w: 0, rename: true });
    // register 1 (the merge partner): a static policy "a", a template "b" with a link "policy0"
    let pre = vec![
        Op::Add { w: 1, id: "a".into(), text: s1.clone() },
        Op::AddT { w: 1, id: "b".into(), text: t0.clone() },
        Op::Link { w: 1, tid: "b".into(), lid: "policy0".into(), env: (Some(w.principal.clone()), None) },
    ];
    let maxlen = if args.thorough { 3 } else { 2 };
    let k = alphabet.len();
    let mut count = 0u64;
    for len in 1..=maxlen {
        let total = (k as u64).pow(len as u32);
        for code in 0..total {
            let mut c = code;
            let mut ops = Vec::new();
            for _ in 0..len { ops.push(alphabet[(c % k as u64) as usize].clone()); c /= k as u64; }
            run_history::<Core>(&case, &ops, &pre, out, "exh");
            run_history::<Api>(&case, &ops, &pre, out, "exh");
            count += 1;
            out.cases += 1;
        }
    }
    // directed histories (both layers): the core-only situations the public API layer guards against, and merge corner cases
    let pu = (Some(w.principal.clone()), None);
    let directed: Vec<Vec<Op>> = vec![
        // core: link to the body of a static policy, remove the static policy, unlink the dangling link
        vec![Op::Add { w: 0, id: "a".into(), text: s0.clone() }, Op::Link { w: 0, tid: "a".into(), lid: "b".into(), env: (None, None) },
             Op::RmStatic { w: 0, id: "a".into() }, Op::Unlink { w: 0, id: "b".into() }],
        // failed remove_static on a link id (the link is re-inserted at the back), then merges observing the order
        vec![Op::AddT { w: 0, id: "t".into(), text: t0.clone() }, Op::Link { w: 0, tid: "t".into(), lid: "a".into(), env: pu.clone() },
             Op::Link { w: 0, tid: "t".into(), lid: "policy0".into(), env: pu.clone() }, Op::RmStatic { w: 0, id: "a".into() },
             Op::Merge { w: 1, rename: true }, Op::Merge { w: 0, rename: true }, Op::Merge { w: 0, rename: false }],
        // core: add of a template-linked policy whose id is the id of an existing template
        vec![Op::AddT { w: 0, id: "t".into(), text: t0.clone() }, Op::AddLinked { w: 0, tid: "a".into(), text: t1.clone(), lid: "t".into(), env: (None, Some(w.resource.clone())) },
             Op::Unlink { w: 0, id: "t".into() }, Op::RmTemplate { w: 0, id: "t".into() }, Op::RmTemplate { w: 0, id: "a".into() }],
        // merge: every kind of collision at once, with and without renaming
        vec![Op::Add { w: 0, id: "a".into(), text: s0.clone() }, Op::AddT { w: 0, id: "b".into(), text: t1.clone() },
             Op::AddT { w: 0, id: "policy0".into(), text: t0.clone() }, Op::Link { w: 0, tid: "policy0".into(), lid: "policy1".into(), env: pu.clone() },
             Op::Merge { w: 0, rename: false }, Op::Merge { w: 0, rename: true }, Op::Merge { w: 0, rename: true }, Op::Merge { w: 1, rename: true }],
        // unlink / remove_template / remove_static on every kind of id
        vec![Op::Add { w: 0, id: "a".into(), text: s1.clone() }, Op::AddT { w: 0, id: "t".into(), text: t0.clone() },
             Op::Link { w: 0, tid: "t".into(), lid: "b".into(), env: pu.clone() }, Op::Unlink { w: 0, id: "a".into() }, Op::Unlink { w: 0, id: "t".into() },
             Op::RmTemplate { w: 0, id: "a".into() }, Op::RmTemplate { w: 0, id: "b".into() }, Op::RmTemplate { w: 0, id: "t".into() },
             Op::RmStatic { w: 0, id: "b".into() }, Op::RmStatic { w: 0, id: "t".into() }, Op::Unlink { w: 0, id: "b".into() },
             Op::RmTemplate { w: 0, id: "t".into() }, Op::RmStatic { w: 0, id: "a".into() }],
    ];
    for ops in &directed {
        run_history::<Core>(&case, ops, &pre, out, "directed");
        run_history::<Api>(&case, ops, &pre, out, "directed");
        out.cases += 1;
    }
    // merge with exactly ONE colliding id, for every pair of kinds (static / template / link) of that id in the two
    // sets, both merge modes, followed by operations that expose an inconsistent result
    let no_pre: Vec<Op> = Vec::new();
    let mut single = 0u64;
    for k0 in ["static", "template", "link"] {
        for k1 in ["static", "template", "link"] {
            for rename in [false, true] {
                let mk = |wi: usize, kind: &str, tpl: &str| -> Vec<Op> {
                    match kind {
                        "static" => vec![Op::Add { w: wi, id: "a".into(), text: s0.clone() }],
                        "template" => vec![Op::AddT { w: wi, id: "a".into(), text: t0.clone() }],
                        _ => vec![Op::AddT { w: wi, id: tpl.into(), text: t0.clone() }, Op::Link { w: wi, tid: tpl.into(), lid: "a".into(), env: pu.clone() }],
                    }
                };
                let mut ops = mk(1, k1, "t");
                ops.extend(mk(0, k0, "b"));
                ops.push(Op::Merge { w: 0, rename });
                ops.push(Op::Unlink { w: 0, id: "a".into() });
                ops.push(Op::RmTemplate { w: 0, id: "a".into() });
                ops.push(Op::RmStatic { w: 0, id: "a".into() });
                run_history::<Core>(&case, &ops, &no_pre, out, "merge1");
                run_history::<Api>(&case, &ops, &no_pre, out, "merge1");
                out.cases += 1;
                single += 1;
            }
        }
    }
    out.add("single_collision_merges", single);
    out.add("directed_histories", directed.len() as u64);
    out.add("exhaustive_histories", count);
    out.add("exhaustive_alphabet", k as u64);
    out.add("exhaustive_maxlen", maxlen as u64);
}

pub fn run(args: &Args, out: &mut Out) {
    let mut rng = Rng::new(args.seed);
    let mut g = ExprGen::new(5);
    // (c) exhaustive small scope (thorough: only in the first shard)
    if !args.thorough || args.seed % 1000 == 0 { exhaustive(args, out); }
    // (a) random histories
    for i in 0..args.n {
        let mut cr = rng.fork();
        let w = gen::gen_world(&mut cr);
        let wsx = crate::c02::world_sx(&w);
        let (r2, r2sx) = second_request(&mut cr, &w);
        let case = Case { w: &w, wsx: &wsx, reqs: vec![w.request(), r2], reqs_sx: format!("{} {}", wsx.0, r2sx) };
        let n = 1 + cr.below(12);
        if i % 2 == 0 {
            let pool = gen_pool(&mut cr, &mut g, &w, false);
            let ops = gen_history::<Core>(&mut cr, &w, &pool, n);
            run_history::<Core>(&case, &ops, &[], out, "rand");
        } else {
            let pool = gen_pool(&mut cr, &mut g, &w, true);
            let ops = gen_history::<Api>(&mut cr, &w, &pool, n);
            run_history::<Api>(&case, &ops, &[], out, "rand");
            // the same history through the core layer as well
            run_history::<Core>(&case, &ops, &[], out, "rand-api-ops");
        }
        out.cases += 1;
        // (b) linked vs substituted
        let mut lr = rng.fork();
        linkeq_case(&mut lr, &mut g, out);
        out.cases += 1;
    }
}
