//! C16: level validation guarantees that the level-n slice of the store suffices.
//! One case = one schema world (2/3 chain worlds from gen_schema_chain.rs, 1/3 generic worlds from gen_schema.rs) with a
//! dense conformant store, ~6 schema-directed valid policies (gen_typed.rs) and ~14 *chain policies* (below) of
//! dereference depth 0..5, 5 *const-operand policies* (`body_const`: a non-literal operand of `||` / `&&` / `if` that is typed
//! False / True and dereferences deeper than the rest of the policy), and 10 conformant requests.
//!   K  (correspondence)
//!      * per strict-valid policy (single-policy sets): the verdicts of `Validator::validate_with_level(.., Strict, n)`
//!        for n = 0..4 — accepted, or the classes of level errors (maximum level exceeded with the largest required level,
//!        literal dereference, internal invariant) — against the model's `checkLevel` over the model's typed AST
//!        (request line `(level <schema> levels <cond>)`);
//!      * the level-n slice computed by the harness (`slice_uids`, below: breadth-first over attribute and tag values)
//!        against the model's `Slice.atLevel` (request line `(slice n <request> <entities>)`).
//!   S  (the property on the implementation, `propfail`): for the set S_n of all policies accepted at level n
//!      (n = 0..4; the set itself must be accepted by `validate_with_level(S_n, n)`), every conformant request q and the
//!      conformant store E: `is_authorized(q, S_n, slice_n(E, q))` = `is_authorized(q, S_n, E)` on decision, reasons and
//!      (erroring id, error class); accepted at n ⇒ accepted at n+1 (single policies and sets); a set is accepted iff all
//!      its members are.  Non-vacuity counters: acceptance by level, how often a policy accepted at n+1 is rejected at
//!      n, how often slice ≠ full store, and how often a smaller slice *would* have changed the response
//!      (`slice_two_levels_below_changes_response`; a level-n policy dereferences entities at most n−1 hops away, so the
//!      slice at n−1 hops never changes it: `slice_one_level_below_changes_response` stays 0).
use crate::c01;
use crate::gen_schema::{self as gs, DRequest, STy, SchemaSpec, SchemaWorld};
use crate::gen_schema_chain as gc;
use crate::gen_typed::{self as gt};
use crate::out::Out;
use crate::rng::Rng;
use crate::sx;
use crate::sx_schema;
use crate::Args;
use cedar_policy_core::ast::{self, Entity, EntityUID, Literal, PartialValue, PolicyID, PolicySet, Template, Value, ValueKind};
use cedar_policy_core::authorizer::{AuthorizationError, Authorizer, Decision, Response};
use cedar_policy_core::entities::{Dereference, Entities, TCComputation};
use cedar_policy_core::extensions::Extensions;
use cedar_policy_core::parser;
use cedar_policy_core::validator::{CoreSchema, ValidationError, ValidationMode, Validator};
use std::collections::HashSet;
use std::panic::{catch_unwind, AssertUnwindSafe};

pub const MAX_LEVEL: u32 = 4;

// ------------------------------------------------------------------------------------------------
// chain policies
// ------------------------------------------------------------------------------------------------

const RESERVED: &[&str] = &["if", "then", "else", "true", "false", "in", "like", "has", "is", "__cedar"];

fn is_ident(a: &str) -> bool {
    let mut cs = a.chars();
    match cs.next() {
        Some(c) if c.is_ascii_alphabetic() || c == '_' => {}
        _ => return false,
    }
    cs.all(|c| c.is_ascii_alphanumeric() || c == '_') && !RESERVED.contains(&a)
}

fn dot(r: &mut Rng, e: &str, a: &str) -> String {
    if is_ident(a) && !r.chance(10) { format!("{e}.{a}") } else { format!("{e}[{}]", gt::cedar_str(a)) }
}

fn has(e: &str, a: &str) -> String {
    if is_ident(a) { format!("{e} has {a}") } else { format!("{e} has {}", gt::cedar_str(a)) }
}

/// a typed path expression with the guards (in dependency order) its optional accesses need
#[derive(Clone, Debug)]
struct PE {
    text: String,
    ty: STy,
    guards: Vec<String>,
    /// entity dereferences on the path (the harness' own estimate; only used to steer generation)
    derefs: u32,
}

struct ChainGen<'a> {
    spec: &'a SchemaSpec,
    pt: String,
    rt: String,
    ai: usize,
}

fn merge_guards(into: &mut Vec<String>, from: &[String]) {
    for g in from {
        if !into.contains(g) {
            into.push(g.clone());
        }
    }
}

impl ChainGen<'_> {
    fn roots(&self) -> Vec<PE> {
        let mut v = vec![
            PE { text: "principal".into(), ty: STy::Entity(self.pt.clone()), guards: vec![], derefs: 0 },
            PE { text: "resource".into(), ty: STy::Entity(self.rt.clone()), guards: vec![], derefs: 0 },
        ];
        if let Some(ap) = &self.spec.actions[self.ai].applies {
            v.push(PE { text: "context".into(), ty: gt::norm(&STy::Record(ap.context.clone())), guards: vec![], derefs: 0 });
        }
        v
    }

    /// all one-step accesses from `e`
    fn steps(&self, r: &mut Rng, e: &PE) -> Vec<PE> {
        let mut out = Vec::new();
        match &e.ty {
            STy::Entity(t) => {
                if let Some(et) = self.spec.etype(t) {
                    for a in &et.attrs {
                        let mut guards = e.guards.clone();
                        if !a.required {
                            merge_guards(&mut guards, &[has(&e.text, &a.name)]);
                        }
                        out.push(PE { text: dot(r, &e.text, &a.name), ty: gt::norm(&a.ty), guards, derefs: e.derefs + 1 });
                    }
                    if let Some(tt) = &et.tags {
                        for k in ["k1", "k2"] {
                            let mut guards = e.guards.clone();
                            merge_guards(&mut guards, &[format!("{}.hasTag(\"{k}\")", e.text)]);
                            out.push(PE { text: format!("{}.getTag(\"{k}\")", e.text), ty: gt::norm(tt), guards, derefs: e.derefs + 1 });
                        }
                    }
                }
            }
            STy::Record(attrs) => {
                for a in attrs {
                    let mut guards = e.guards.clone();
                    if !a.required {
                        merge_guards(&mut guards, &[has(&e.text, &a.name)]);
                    }
                    out.push(PE { text: dot(r, &e.text, &a.name), ty: a.ty.clone(), guards, derefs: e.derefs });
                }
            }
            _ => {}
        }
        out
    }

    /// a path of about `d` entity dereferences; `wraps` allows record-literal / `if` wrappers on the way
    fn chain(&self, r: &mut Rng, d: u32, wraps: bool) -> PE {
        let roots = self.roots();
        let mut cur = r.pick(&roots).clone();
        for _ in 0..12 {
            if cur.derefs >= d && r.chance(70) {
                break;
            }
            let st = self.steps(r, &cur);
            let deep: Vec<&PE> = st.iter().filter(|p| matches!(p.ty, STy::Entity(_) | STy::Record(_))).collect();
            let nxt = if !deep.is_empty() && (cur.derefs < d || r.chance(50)) {
                (*r.pick(&deep)).clone()
            } else if !st.is_empty() && cur.derefs >= d {
                r.pick(&st).clone()
            } else {
                break;
            };
            if nxt.derefs > d {
                break;
            }
            cur = nxt;
            if wraps && matches!(cur.ty, STy::Entity(_) | STy::Record(_)) && r.chance(22) {
                cur = self.wrap(r, cur);
            }
        }
        cur
    }

    fn simple_cond(&self, r: &mut Rng, guards: &mut Vec<String>) -> String {
        match r.below(6) {
            0 => "1 < 2".into(),
            1 => "principal == resource".into(),
            2 => {
                let c = self.chain(r, 1, false);
                if c.ty == STy::Bool {
                    merge_guards(guards, &c.guards);
                    c.text
                } else {
                    "2 < 1".into()
                }
            }
            3 => "context has n".into(),
            4 => "true".into(),
            _ => format!("{} > 0", r.below(3)),
        }
    }

    /// `{x: E}.x`, `{x: E, y: OTHER}.x`, `{x: {y: E}}.x.y`, `(if c then E else E')`
    fn wrap(&self, r: &mut Rng, e: PE) -> PE {
        let mut guards = e.guards.clone();
        let text = match r.below(5) {
            0 => format!("{{x: {}}}.x", e.text),
            1 => {
                let o = { let dd = r.below(3) as u32; self.chain(r, dd, false) };
                merge_guards(&mut guards, &o.guards);
                format!("{{x: {}, y: {}}}.x", e.text, o.text)
            }
            2 => format!("{{x: {{y: {}}}}}.x.y", e.text),
            _ => {
                // an alternative of the same type
                let mut alt: Option<PE> = None;
                for _ in 0..6 {
                    let c = { let dd = r.below(3) as u32; self.chain(r, dd, false) };
                    if c.ty == e.ty && c.text != e.text {
                        alt = Some(c);
                        break;
                    }
                }
                let c = self.simple_cond(r, &mut guards);
                match alt {
                    Some(a) => {
                        merge_guards(&mut guards, &a.guards);
                        if r.chance(50) { format!("(if {c} then {} else {})", e.text, a.text) } else { format!("(if {c} then {} else {})", a.text, e.text) }
                    }
                    None => format!("(if {c} then {} else {})", e.text, e.text),
                }
            }
        };
        PE { text, ty: e.ty, guards, derefs: e.derefs }
    }

    fn lit_of(&self, r: &mut Rng, t: &str) -> String {
        gt::uid_text(&gs::gen_uid_of(r, self.spec, t))
    }

    /// a boolean atom finishing the path `e`; its guards are appended to `g`
    fn atom(&self, r: &mut Rng, e: &PE, g: &mut Vec<String>) -> String {
        merge_guards(g, &e.guards);
        let x = &e.text;
        match &e.ty {
            STy::Bool => x.clone(),
            STy::Long => match r.below(3) {
                0 => format!("{x} > 0"),
                1 => format!("{x} == {}", r.below(5)),
                _ => format!("{x} + 1 > {}", r.below(5)),
            },
            STy::Str => if r.chance(50) { format!("{x} like \"*a*\"") } else { format!("{x} == \"hello world\"") },
            STy::Ext(_) => format!("{x} == {x}"),
            STy::Common(_, _) => "true".into(),
            STy::Set(el) => match &**el {
                STy::Entity(t) => match r.below(4) {
                    0 => format!("principal in {x}"),
                    1 if *t == self.pt => format!("{x}.contains(principal)"),
                    2 => {
                        let o = { let dd = r.below(3) as u32; self.chain(r, dd, true) };
                        if matches!(o.ty, STy::Entity(_)) {
                            merge_guards(g, &o.guards);
                            format!("{} in {x}", o.text)
                        } else {
                            format!("{x}.isEmpty()")
                        }
                    }
                    _ => format!("{x}.contains({})", self.lit_of(r, t)),
                },
                _ => format!("{x}.isEmpty()"),
            },
            STy::Record(attrs) => {
                if attrs.is_empty() || r.chance(20) { format!("{x} has zz_undeclared") } else { has(x, &r.pick(attrs).name) }
            }
            STy::Entity(t) => {
                let et = self.spec.etype(t);
                let anc = self.spec.allowed_ancestor_types(t);
                let up = if !anc.is_empty() && r.chance(70) { r.pick(&anc).clone() } else { t.clone() };
                match r.below(12) {
                    0 | 1 => match et {
                        Some(et) if !et.attrs.is_empty() && r.chance(85) => has(x, &r.pick(&et.attrs).name),
                        _ => format!("{x} has zz_undeclared"),
                    },
                    2 => format!("{x}.hasTag(\"k1\")"),
                    3 | 4 => format!("{x} in {}", self.lit_of(r, &up)),
                    5 => {
                        let o = { let dd = r.below(3) as u32; self.chain(r, dd, true) };
                        if matches!(o.ty, STy::Entity(_)) {
                            merge_guards(g, &o.guards);
                            if r.chance(50) { format!("{x} in {}", o.text) } else { format!("{} in {x}", o.text) }
                        } else {
                            format!("{x} in {}", self.lit_of(r, &up))
                        }
                    }
                    6 => format!("{x} == {}", self.lit_of(r, t)),
                    7 => format!("{x} is {t}"),
                    8 => format!("{x} in [{}, {}]", self.lit_of(r, &up), self.lit_of(r, &up)),
                    9 if r.chance(40) => format!("{} in {x}", self.lit_of(r, t)),
                    9 => format!("{x} == principal"),
                    10 => {
                        // `has` with an attribute path
                        let s1 = self.steps(r, e);
                        let c1: Vec<&PE> = s1.iter().filter(|p| matches!(p.ty, STy::Entity(_) | STy::Record(_)) && !p.text.contains('(') && !p.text.contains('[')).collect();
                        if c1.is_empty() {
                            format!("{x} is {t}")
                        } else {
                            let p1 = (*r.pick(&c1)).clone();
                            let s2 = self.steps(r, &p1);
                            let c2: Vec<&PE> = s2.iter().filter(|p| !p.text.contains('(') && !p.text.contains('[')).collect();
                            if c2.is_empty() {
                                format!("{x} is {t}")
                            } else {
                                let p2 = (*r.pick(&c2)).clone();
                                let suffix = &p2.text[x.len() + 1..];
                                let fin = self.atom(r, &PE { guards: vec![], ..p2.clone() }, &mut vec![]);
                                format!("({x} has {suffix} && {fin})")
                            }
                        }
                    }
                    _ => {
                        // finish on a scalar attribute
                        let st = self.steps(r, e);
                        let sc: Vec<&PE> = st.iter().filter(|p| matches!(p.ty, STy::Bool | STy::Long | STy::Str)).collect();
                        if sc.is_empty() {
                            format!("{x} is {t}")
                        } else {
                            let p = (*r.pick(&sc)).clone();
                            self.atom(r, &p, g)
                        }
                    }
                }
            }
        }
    }

    /// one guarded atom of depth about `d`
    fn guarded(&self, r: &mut Rng, d: u32) -> String {
        let e = self.chain(r, d, true);
        let mut g = Vec::new();
        let a = self.atom(r, &e, &mut g);
        if g.is_empty() {
            a
        } else if r.chance(80) {
            format!("({} && {a})", g.join(" && "))
        } else {
            format!("(if {} then {a} else {})", g.join(" && "), r.chance(50))
        }
    }

    /// a test that the typechecker gives the singleton type `False` (`want == false`) or `True` although it is not a
    /// literal, and that performs about `d` entity dereferences: `<chain> has <undeclared attribute>`, `<chain> is
    /// <another type>`, `<chain> in <entity of a type the hierarchy excludes>`, `<atom> && false`, negations of the
    /// `True` forms; `<chain> is <its type>`, `<chain> has <required attribute>`, `<atom> || true`, negations of the
    /// `False` forms.  The operand is still *evaluated* (and so dereferences entities) wherever it stands.
    fn const_test(&self, r: &mut Rng, d: u32, want: bool) -> String {
        let mut e = PE { text: "principal".into(), ty: STy::Entity(self.pt.clone()), guards: vec![], derefs: 0 };
        for _ in 0..10 {
            let wraps = r.chance(30);
            let c = self.chain(r, d.saturating_sub(1), wraps);
            if matches!(c.ty, STy::Entity(_)) && c.derefs + 1 >= d {
                e = c;
                break;
            }
        }
        let STy::Entity(t) = e.ty.clone() else { unreachable!() };
        let x = e.text.clone();
        let et = self.spec.etype(&t);
        let others: Vec<String> = self.spec.etypes.iter().map(|o| o.name.clone()).filter(|n| *n != t).collect();
        let anc = self.spec.allowed_ancestor_types(&t);
        let unrelated: Vec<String> = others.iter().filter(|n| !anc.contains(n)).cloned().collect();
        let required: Vec<String> = et.map(|et| et.attrs.iter().filter(|a| a.required).map(|a| a.name.clone()).collect()).unwrap_or_default();
        let mut g = e.guards.clone();
        let always_false = |r: &mut Rng, g: &mut Vec<String>| -> String {
            match r.below(6) {
                0 | 1 => format!("{x} has zz_undeclared"),
                2 if !others.is_empty() => format!("{x} is {}", r.pick(&others).clone()),
                3 if !unrelated.is_empty() => { let u = r.pick(&unrelated).clone(); format!("{x} in {}", self.lit_of(r, &u)) }
                4 => format!("({} && false)", self.atom(r, &e, g)),
                5 if !required.is_empty() => format!("!({})", has(&x, &r.pick(&required).clone())),
                _ => format!("{x} has zz_undeclared"),
            }
        };
        let always_true = |r: &mut Rng, g: &mut Vec<String>| -> String {
            match r.below(5) {
                0 => format!("{x} is {t}"),
                1 | 2 if !required.is_empty() => has(&x, &r.pick(&required).clone()),
                3 => format!("({} || true)", self.atom(r, &e, g)),
                _ => format!("!({x} has zz_undeclared)"),
            }
        };
        if want {
            let a = always_true(r, &mut g);
            if g.is_empty() { a } else if r.chance(50) { format!("(!({}) || {a})", g.join(" && ")) } else { format!("(if {} then {a} else true)", g.join(" && ")) }
        } else {
            let a = always_false(r, &mut g);
            if g.is_empty() { a } else { format!("({} && {a})", g.join(" && ")) }
        }
    }

    /// conditions in which a constant-typed, non-literal operand of `||` / `&&` / `if` dereferences DEEPER (`d`) than the
    /// rest of the policy: the level of the policy is the level of that operand
    fn body_const(&self, r: &mut Rng, d: u32) -> String {
        let low = |r: &mut Rng| if d <= 1 { 0 } else { r.below(d as usize) as u32 };
        match r.below(9) {
            0 | 1 => { let l = low(r); format!("{} || {}", self.const_test(r, d, false), self.guarded(r, l)) }
            2 => { let l = low(r); format!("{} && {}", self.const_test(r, d, true), self.guarded(r, l)) }
            3 => { let (l1, l2) = (low(r), low(r)); format!("if {} then {} else {}", self.const_test(r, d, false), self.guarded(r, l1), self.guarded(r, l2)) }
            4 => { let (l1, l2) = (low(r), low(r)); format!("if {} then {} else {}", self.const_test(r, d, true), self.guarded(r, l1), self.guarded(r, l2)) }
            5 => { let (l1, l2) = (low(r), low(r)); format!("{} && ({} || {})", self.guarded(r, l1), self.const_test(r, d, false), self.guarded(r, l2)) }
            6 => { let (l1, l2) = (low(r), low(r)); format!("({} || {}) || {}", self.const_test(r, l1.max(1), false), self.const_test(r, d, false), self.guarded(r, l2)) }
            7 => { let l = low(r); format!("!({} || {})", self.const_test(r, d, false), self.guarded(r, l)) }
            _ => { let l = low(r); format!("{} || ({} && {})", self.guarded(r, l), self.const_test(r, d, true), self.const_test(r, l.max(1), true)) }
        }
    }

    fn body(&self, r: &mut Rng, d: u32) -> String {
        let low = |r: &mut Rng| if d == 0 { 0 } else { r.below(d as usize + 1) as u32 };
        match r.below(10) {
            0 => { let l = low(r); format!("{} && {}", self.guarded(r, d), self.guarded(r, l)) }
            1 => { let l = low(r); format!("{} || {}", self.guarded(r, l), self.guarded(r, d)) }
            2 => format!("!({})", self.guarded(r, d)),
            3 => { let (l1, l2) = (low(r), low(r)); format!("if {} then {} else {}", self.guarded(r, l1), self.guarded(r, d), self.guarded(r, l2)) }
            _ => self.guarded(r, d),
        }
    }
}

pub(crate) fn chain_policy(r: &mut Rng, spec: &SchemaSpec, d: u32, const_operands: bool) -> String {
    let cands: Vec<usize> = spec.actions.iter().enumerate().filter(|(_, a)| a.applies.is_some()).map(|(i, _)| i).collect();
    let ai = *r.pick(&cands);
    let ap = spec.actions[ai].applies.as_ref().unwrap();
    let pt = r.pick(&ap.principals).clone();
    let rt = r.pick(&ap.resources).clone();
    let g = ChainGen { spec, pt: pt.clone(), rt: rt.clone(), ai };
    let au = gt::uid_text(&spec.actions[ai].uid());
    let scope_var = |r: &mut Rng, var: &str, ty: &str| -> String {
        let anc = spec.allowed_ancestor_types(ty);
        let up = if !anc.is_empty() && r.chance(70) { r.pick(&anc).clone() } else { ty.to_string() };
        match r.below(10) {
            0 => format!("{var} is {ty} in {}", gt::uid_text(&gs::gen_uid_of(r, spec, &up))),
            1 => format!("{var} == {}", gt::uid_text(&gs::gen_uid_of(r, spec, ty))),
            _ => format!("{var} is {ty}"),
        }
    };
    let ptxt = scope_var(r, "principal", &pt);
    let rtxt = scope_var(r, "resource", &rt);
    let atxt = match r.below(10) {
        0 => format!("action in [{au}]"),
        1 => {
            let anc = spec.action_ancestors(ai);
            if anc.is_empty() { format!("action in {au}") } else { format!("action in {}", gt::uid_text(&spec.actions[*r.pick(&anc)].uid())) }
        }
        _ => format!("action == {au}"),
    };
    let body = if const_operands { g.body_const(r, d) } else { g.body(r, d) };
    let mut text = format!("{}({ptxt}, {atxt}, {rtxt}) when {{ {} }}", if r.chance(75) { "permit" } else { "forbid" }, body);
    if r.chance(12) {
        text.push_str(&format!(" unless {{ {} }}", g.body(r, d.saturating_sub(1))));
    }
    text.push(';');
    text
}

// ------------------------------------------------------------------------------------------------
// level verdicts of the implementation
// ------------------------------------------------------------------------------------------------

/// `ok`, or `(fail [max:K] [lit] [internal] [other])`
fn level_verdict(val: &Validator, ps: &PolicySet, n: u32) -> Result<(bool, String), String> {
    let res = catch_unwind(AssertUnwindSafe(|| val.validate_with_level(ps, ValidationMode::Strict, n))).map_err(crate::c02::panic_msg)?;
    if res.validation_passed() {
        return Ok((true, "ok".into()));
    }
    let (mut max, mut lit, mut internal, mut other) = (None::<u32>, false, false, false);
    for e in res.validation_errors() {
        match e {
            ValidationError::EntityDerefLevelViolation(v) => {
                let m = v.to_string();
                if let Some(i) = m.find("requires level ") {
                    let rest = &m[i + "requires level ".len()..];
                    let end = rest.find(|c: char| !c.is_ascii_digit()).unwrap_or(rest.len());
                    let k: u32 = rest[..end].parse().unwrap_or(9999);
                    max = Some(max.map_or(k, |x| x.max(k)));
                } else if m.contains("entity literals cannot be dereferenced") {
                    lit = true;
                } else {
                    other = true;
                }
            }
            ValidationError::InternalInvariantViolation(_) => internal = true,
            _ => other = true,
        }
    }
    let mut o = String::from("(fail");
    if let Some(k) = max {
        o.push_str(&format!(" max:{k}"));
    }
    if lit {
        o.push_str(" lit");
    }
    if internal {
        o.push_str(" internal");
    }
    if other {
        o.push_str(" other");
    }
    o.push(')');
    Ok((false, o))
}

// ------------------------------------------------------------------------------------------------
// the level-n slice (independent implementation of the property's definition)
// ------------------------------------------------------------------------------------------------

fn value_uids(v: &Value, out: &mut Vec<EntityUID>) {
    match &v.value {
        ValueKind::Lit(Literal::EntityUID(u)) => out.push((**u).clone()),
        ValueKind::Lit(_) => {}
        ValueKind::Set(s) => {
            for x in s.iter() {
                value_uids(x, out);
            }
        }
        ValueKind::Record(m) => {
            for (_, x) in m.iter() {
                value_uids(x, out);
            }
        }
        ValueKind::ExtensionValue(_) => {}
    }
}

/// uids reachable from the request's principal, action, resource and the uids inside the context within ≤ n
/// attribute / tag hops (breadth first; ancestors are not hops)
fn slice_uids(ents: &Entities, p: &EntityUID, a: &EntityUID, r: &EntityUID, ctx: &Value, n: u32) -> HashSet<EntityUID> {
    let mut frontier: Vec<EntityUID> = vec![p.clone(), a.clone(), r.clone()];
    value_uids(ctx, &mut frontier);
    let mut reached: HashSet<EntityUID> = frontier.iter().cloned().collect();
    for _ in 0..n {
        let mut next = Vec::new();
        for u in &frontier {
            if let Dereference::Data(e) = ents.entity(u) {
                let mut found = Vec::new();
                for (_, pv) in e.attrs() {
                    if let PartialValue::Value(v) = pv {
                        value_uids(v, &mut found);
                    }
                }
                for (_, pv) in e.tags() {
                    if let PartialValue::Value(v) = pv {
                        value_uids(v, &mut found);
                    }
                }
                for f in found {
                    if reached.insert(f.clone()) {
                        next.push(f);
                    }
                }
            }
        }
        frontier = next;
    }
    reached
}

/// the sub-store of the entities whose uid is in `keep`, each kept whole (attributes, tags, ancestor set)
fn sub_store(ents: &Entities, keep: &HashSet<EntityUID>) -> Option<Entities> {
    let kept: Vec<Entity> = ents.iter().filter(|e| keep.contains(e.uid())).cloned().collect();
    Entities::from_entities(kept, None::<&cedar_policy_core::entities::NoEntitiesSchema>, TCComputation::AssumeAlreadyComputed, Extensions::all_available()).ok()
}

fn resp_canon(resp: &Response) -> String {
    let mut errs: Vec<String> = resp
        .diagnostics
        .errors
        .iter()
        .map(|e| match e {
            AuthorizationError::PolicyEvaluationError { id, error } => format!("{}:{}", id.as_ref() as &str, sx::err_class(error)),
        })
        .collect();
    errs.sort();
    format!("{} errors=[{}]", c01::resp_sx(resp, &|s| s.to_string()), errs.join(","))
}

// ------------------------------------------------------------------------------------------------
// one world
// ------------------------------------------------------------------------------------------------

struct Pol {
    id: String,
    text: String,
    kind: &'static str,
    /// smallest n in 0..=MAX_LEVEL+1 at which the single policy is accepted (None: not even at MAX_LEVEL+1)
    min_level: Option<u32>,
    /// accepted at level n?
    acc: Vec<bool>,
}

/// add the (static) policy to the set so that it is both validated (`all_templates`) and evaluated (`policies`)
fn add_static(ps: &mut PolicySet, id: &str, text: &str) -> bool {
    match parser::parse_policy(Some(PolicyID::from_string(id)), text) {
        Ok(p) => ps.add_static(p).is_ok(),
        Err(_) => false,
    }
}

fn tyck_tpl(t: &Template) -> Option<String> {
    sx::expr(&t.condition())
}

#[allow(clippy::too_many_arguments)]
fn one_world(out: &mut Out, r: &mut Rng, w: &SchemaWorld, chainy: bool, cname: &str, n_typed: usize, n_chain: usize, n_const: usize, n_requests: usize, n_slice_lines: usize) {
    let ext = Extensions::all_available();
    let ssx = sx_schema::schema(&w.schema);
    let val = Validator::new(w.schema.clone());
    // ---- store
    let store = if chainy || r.chance(50) { gc::gen_dense_store(r, &w.spec, 80) } else { gs::gen_store(r, &w.spec) };
    let store_json = serde_json::Value::Array(store.entities.iter().map(|e| e.to_json()).collect()).to_string();
    let ents: Option<Vec<Entity>> = store.entities.iter().map(|e| e.to_entity().ok()).collect();
    let core = CoreSchema::new(&w.schema);
    let full = match ents.and_then(|es| catch_unwind(AssertUnwindSafe(|| Entities::from_entities(es, Some(&core), TCComputation::ComputeNow, ext))).ok().and_then(|x| x.ok())) {
        Some(e) => e,
        None => {
            out.count("store_rejected_by_rust_validation");
            return;
        }
    };
    let full_sx = sx::entities(&full);
    // ---- policies
    let mut texts: Vec<(String, &'static str)> = Vec::new();
    for t in gt::gen_valid_policies(r, w, n_typed) {
        texts.push((t, "typed"));
    }
    for i in 0..n_chain {
        let d = (i as u32) % (MAX_LEVEL + 2);
        texts.push((chain_policy(r, &w.spec, d, false), "chain"));
    }
    // constant-typed (False / True) non-literal operands of || && if that dereference deeper than the rest
    for i in 0..n_const {
        let d = 1 + (i as u32) % (MAX_LEVEL + 1);
        texts.push((chain_policy(r, &w.spec, d, true), "const-operand"));
    }
    let mut pols: Vec<Pol> = Vec::new();
    for (i, (text, kind)) in texts.into_iter().enumerate() {
        out.count(&format!("policies_generated:{kind}"));
        let id = format!("p{i}");
        let t = match parser::parse_policy_or_template(Some(PolicyID::from_string(&id)), &text) {
            Ok(t) => t,
            Err(e) => {
                out.count(&format!("unparsable:{kind}"));
                out.sample(format!("UNPARSABLE {text} :: {e}"));
                continue;
            }
        };
        let mut ps = PolicySet::new();
        if !add_static(&mut ps, &id, &text) {
            continue;
        }
        let strict = match catch_unwind(AssertUnwindSafe(|| val.validate(&ps, ValidationMode::Strict))) {
            Ok(x) => x,
            Err(p) => {
                out.propfail("panic in Validator::validate", &format!("{cname} policy=`{text}` schema={}", w.json), &crate::c02::panic_msg(p));
                continue;
            }
        };
        if !strict.validation_passed() {
            out.count(&format!("strict_rejected:{kind}"));
            if kind != "typed" {
                out.sample(format!("STRICT-REJECTED {text} :: {}", strict.validation_errors().map(|e| e.to_string()).collect::<Vec<_>>().join(" | ")));
            }
            continue;
        }
        out.count(&format!("strict_accepted:{kind}"));
        // verdicts per level (single-policy set)
        let case = format!("{cname} policy=`{text}` schema={}", w.json);
        let mut verdicts: Vec<String> = Vec::new();
        let mut acc: Vec<bool> = Vec::new();
        let mut failed = false;
        for n in 0..=(MAX_LEVEL + 1) {
            match level_verdict(&val, &ps, n) {
                Ok((a, v)) => {
                    acc.push(a);
                    if n <= MAX_LEVEL {
                        verdicts.push(v);
                    }
                }
                Err(p) => {
                    out.propfail("panic in validate_with_level", &case, &p);
                    failed = true;
                    break;
                }
            }
        }
        if failed {
            continue;
        }
        for n in 0..=MAX_LEVEL as usize {
            out.count(&format!("level{n}:{}", if acc[n] { "accepted" } else { "rejected" }));
            if acc[n] && !acc[n + 1] {
                out.propfail("acceptance not monotone in the level", &case, &format!("accepted at level {n}, rejected at level {}", n + 1));
            }
            if !acc[n] && acc[n + 1] {
                out.count(&format!("needs_exactly_level:{}", n + 1));
                out.count("rejected_at_n_accepted_at_n_plus_1");
            }
        }
        let min_level = acc.iter().position(|a| *a).map(|x| x as u32);
        out.count(&format!("min_level:{kind}:{}", min_level.map_or("never".to_string(), |x| x.to_string())));
        if verdicts.iter().any(|v| v.contains("lit")) {
            out.count("policies_with_literal_deref");
        }
        if verdicts.iter().any(|v| v.contains("internal") || v.contains("other")) {
            out.propfail("level validation reports an internal invariant violation / unexpected error on a strict-valid policy", &case, &verdicts.join(" "));
        }
        if let Some(cond) = tyck_tpl(&t) {
            out.line(format!("(level {ssx} levels {cond})"), format!("(level {})", verdicts.join(" ")), format!("{cname} [{kind}] {text}"));
            out.count("level_lines");
        }
        out.nontrivial(&format!("{}|{}", text, verdicts.join(" ")));
        if kind == "chain" {
            out.sample(format!("[{kind}] min_level={min_level:?} {text}"));
        }
        pols.push(Pol { id, text, kind, min_level, acc });
    }
    // ---- templates (`?principal` / `?resource` in the scope): verdicts only (they are not linked / evaluated here)
    let topts = gt::GenOpts { templates: true, near_miss_pct: 0, ill_typed_pct: 0, ..gt::GenOpts::default() };
    for i in 0..3 {
        let gp = gt::gen_policy(r, w, &topts);
        if !gp.is_template {
            continue;
        }
        let Ok(t) = parser::parse_policy_or_template(Some(PolicyID::from_string(format!("t{i}"))), &gp.text) else { continue };
        let mut ps = PolicySet::new();
        if ps.add_template(t.clone()).is_err() {
            continue;
        }
        let Ok(strict) = catch_unwind(AssertUnwindSafe(|| val.validate(&ps, ValidationMode::Strict))) else { continue };
        if !strict.validation_passed() {
            continue;
        }
        let mut verdicts = Vec::new();
        let mut accs = Vec::new();
        for n in 0..=MAX_LEVEL {
            if let Ok((a, v)) = level_verdict(&val, &ps, n) {
                accs.push(a);
                verdicts.push(v);
            }
        }
        if verdicts.len() != MAX_LEVEL as usize + 1 {
            continue;
        }
        for n in 0..MAX_LEVEL as usize {
            if accs[n] && !accs[n + 1] {
                out.propfail("acceptance not monotone in the level", &format!("{cname} template=`{}` schema={}", gp.text, w.json), &format!("level {n}"));
            }
        }
        let kind = |slot: ast::SlotId, c: &ast::PrincipalOrResourceConstraint| -> &'static str {
            if !t.slots().any(|s| s.id == slot) {
                return "none";
            }
            match c {
                ast::PrincipalOrResourceConstraint::Eq(_) => "eq",
                ast::PrincipalOrResourceConstraint::In(_) | ast::PrincipalOrResourceConstraint::IsIn(_, _) => "in",
                _ => "other",
            }
        };
        let pc = kind(ast::SlotId::principal(), t.principal_constraint().as_inner());
        let rc = kind(ast::SlotId::resource(), t.resource_constraint().as_inner());
        if let Some(cond) = tyck_tpl(&t) {
            out.line(format!("(level {ssx} levels (tpl {pc} {rc}) {cond})"), format!("(level {})", verdicts.join(" ")), format!("{cname} [template] {}", gp.text));
            out.count("level_lines:template");
        }
    }
    if pols.is_empty() {
        return;
    }
    // ---- the sets S_n
    let auth = Authorizer::new();
    let mut sets: Vec<PolicySet> = Vec::new();
    for n in 0..=MAX_LEVEL {
        let mut ps = PolicySet::new();
        for p in pols.iter().filter(|p| p.acc[n as usize]) {
            let _ = add_static(&mut ps, &p.id, &p.text);
        }
        // a set is accepted iff all its members are
        match level_verdict(&val, &ps, n) {
            Ok((true, _)) => {}
            Ok((false, v)) => out.propfail("set of individually accepted policies rejected by validate_with_level", &format!("{cname} level={n} policies={:?} schema={}", pols.iter().filter(|p| p.acc[n as usize]).map(|p| &p.text).collect::<Vec<_>>(), w.json), &v),
            Err(p) => out.propfail("panic in validate_with_level (set)", cname, &p),
        }
        if n < MAX_LEVEL {
            if let Ok((false, v)) = level_verdict(&val, &ps, n + 1) {
                out.propfail("acceptance of a policy set not monotone in the level", &format!("{cname} level={n} schema={}", w.json), &v);
            }
        }
        // all policies (also the rejected ones): must be rejected if some member is
        let mut all = PolicySet::new();
        for p in &pols {
            let _ = add_static(&mut all, &p.id, &p.text);
        }
        if let Ok((a, v)) = level_verdict(&val, &all, n) {
            let expect = pols.iter().all(|p| p.acc[n as usize]);
            if a != expect {
                out.propfail("set verdict differs from the conjunction of its members' verdicts", &format!("{cname} level={n} schema={}", w.json), &v);
            }
        }
        out.add(&format!("set_size_level{n}"), ps.policies().count() as u64);
        sets.push(ps);
    }
    // ---- requests
    let targets: Vec<(usize, String, String)> = {
        let mut v = Vec::new();
        for (i, a) in w.spec.actions.iter().enumerate() {
            if let Some(ap) = &a.applies {
                for p in &ap.principals {
                    for rr in &ap.resources {
                        v.push((i, p.clone(), rr.clone()));
                    }
                }
            }
        }
        v
    };
    for k in 0..n_requests {
        let (ai, pt, rt) = r.pick(&targets).clone();
        let q: DRequest = gt::gen_request_for(r, &w.spec, ai, &pt, &rt);
        let (pu, au, ru) = (gs::mk_uid(&q.principal), gs::mk_uid(&q.action), gs::mk_uid(&q.resource));
        let req = match catch_unwind(AssertUnwindSafe(|| ast::Request::new((pu.clone(), None), (au.clone(), None), (ru.clone(), None), q.to_context(), Some(&w.schema), ext))) {
            Ok(Ok(req)) => req,
            _ => {
                out.count("request_rejected_by_rust_validation");
                continue;
            }
        };
        let ctxv: Value = match PartialValue::from(q.to_context()) {
            PartialValue::Value(v) => v,
            _ => continue,
        };
        let req_sx = sx::request(&pu, &au, &ru, &ctxv);
        out.count("requests");
        let mut prev_size = 0usize;
        for n in 0..=MAX_LEVEL {
            let keep = slice_uids(&full, &pu, &au, &ru, &ctxv, n);
            let Some(slice) = sub_store(&full, &keep) else {
                out.propfail("cannot rebuild the slice as an entity store", cname, &format!("level {n}"));
                continue;
            };
            let (ns, nf) = (slice.iter().count(), full.iter().count());
            out.count(if ns < nf { "slice_smaller_than_store" } else { "slice_equals_store" });
            out.add("slice_entities", ns as u64);
            out.add("store_entities", nf as u64);
            if n > 0 && ns > prev_size {
                out.count("slice_grows_with_level");
            }
            prev_size = ns;
            // model: the slice itself
            if k < n_slice_lines {
                if let (Some(fsx), Some(ssl)) = (&full_sx, sx::entities(&slice)) {
                    out.line(format!("(slice {n} {req_sx} {fsx})"), ssl, format!("{cname} slice level {n} request {k}"));
                    out.count("slice_lines");
                }
            }
            // the statement
            let ps = &sets[n as usize];
            let describe = || format!(
                "{cname} level={n} request: p={} a={} r={} ctx={} policies={:?} slice={:?} store={store_json} schema={}",
                gt::uid_text(&q.principal), gt::uid_text(&q.action), gt::uid_text(&q.resource), q.context_json(),
                pols.iter().filter(|p| p.acc[n as usize]).map(|p| (&p.id, &p.text)).collect::<Vec<_>>(),
                { let mut v: Vec<String> = slice.iter().map(|e| e.uid().to_string()).collect(); v.sort(); v },
                w.json
            );
            let rf = catch_unwind(AssertUnwindSafe(|| auth.is_authorized(req.clone(), ps, &full)));
            let rs = catch_unwind(AssertUnwindSafe(|| auth.is_authorized(req.clone(), ps, &slice)));
            let (rf, rs) = match (rf, rs) {
                (Ok(a), Ok(b)) => (a, b),
                _ => {
                    out.propfail("panic in is_authorized", &describe(), "");
                    continue;
                }
            };
            out.count("authorizations_compared");
            out.count(&format!("decision:{}", if rf.decision == Decision::Allow { "allow" } else { "deny" }));
            if !rf.diagnostics.errors.is_empty() {
                out.count("responses_with_errors");
            }
            let (cf, cs) = (resp_canon(&rf), resp_canon(&rs));
            if cf != cs {
                // which policy differs (for the report)
                let mut culprit = String::new();
                for p in pols.iter().filter(|p| p.acc[n as usize]) {
                    let mut one = PolicySet::new();
                    let _ = add_static(&mut one, &p.id, &p.text);
                    let a = resp_canon(&auth.is_authorized(req.clone(), &one, &full));
                    let b = resp_canon(&auth.is_authorized(req.clone(), &one, &slice));
                    if a != b {
                        culprit = format!("policy {} `{}` (min level {:?}, {}): full {a} slice {b}", p.id, p.text, p.min_level, p.kind);
                        break;
                    }
                }
                out.propfail("authorization over the level-n slice differs from authorization over the full store", &describe(), &format!("full: {cf} slice: {cs} :: {culprit}"));
            }
            out.nontrivial(&format!("{cname}|{k}|{n}|{cf}"));
            // tightness: a policy of level n dereferences entities at most n-1 hops away, so the slice at n-1 must
            // still do (checked as part of the statement: it is a superset argument), while the slice at n-2 hops
            // (for n = 1: the empty store) may change the response — counted, to show the comparison is not vacuous
            if n > 0 {
                let keep_low = if n >= 2 { slice_uids(&full, &pu, &au, &ru, &ctxv, n - 2) } else { HashSet::new() };
                if let Some(low) = sub_store(&full, &keep_low) {
                    if let Ok(rl) = catch_unwind(AssertUnwindSafe(|| auth.is_authorized(req.clone(), ps, &low))) {
                        if resp_canon(&rl) != cf {
                            out.count("slice_two_levels_below_changes_response");
                        }
                    }
                }
                let keep_one = slice_uids(&full, &pu, &au, &ru, &ctxv, n - 1);
                if let Some(one) = sub_store(&full, &keep_one) {
                    if let Ok(rl) = catch_unwind(AssertUnwindSafe(|| auth.is_authorized(req.clone(), ps, &one))) {
                        if resp_canon(&rl) != cf {
                            out.count("slice_one_level_below_changes_response");
                        }
                    }
                }
            }
        }
    }
}

pub fn run(args: &Args, out: &mut Out) {
    let mut rng = Rng::new(args.seed);
    probes(out);
    for case in 0..args.n {
        let mut r = rng.fork();
        let sub = r.0;
        let chainy = case % 3 != 2;
        let w = if chainy { gc::gen_chain_world(&mut r) } else { gs::gen_schema_world(&mut r).0 };
        out.cases += 1;
        out.count(if chainy { "worlds:chain" } else { "worlds:generic" });
        let cname = format!("case={case} sub={sub}");
        one_world(out, &mut r, &w, chainy, &cname, 6, 14, 5, 10, 2);
    }
}

/// fixed probes: the schema and the expected levels of level_validate.rs' own unit tests (plus tag / cycle cases)
fn probes(out: &mut Out) {
    use cedar_policy_core::validator::ValidatorSchema;
    let text = r#"
        entity User in [User] { user: User, bool: Bool, other: String, ip: ipaddr, nested: { user: User } } tags User;
        entity Photo { user: User };
        action view appliesTo { principal: User, resource: Photo, context: { user: User, nested: { user: User } } };
    "#;
    let (schema, _) = ValidatorSchema::from_cedarschema_str(text, Extensions::all_available()).expect("probe schema");
    let ssx = sx_schema::schema(&schema);
    let val = Validator::new(schema.clone());
    // (condition, required level; None = rejected at every level)
    let cases: &[(&str, Option<u32>)] = &[
        ("true", Some(0)),
        ("1 > 0", Some(0)),
        ("User::\"alice\" is User", Some(0)),
        ("context has user", Some(0)),
        ("context.user is User", Some(0)),
        ("context.nested.user is User", Some(0)),
        ("{foo: principal} has foo", Some(0)),
        ("{foo: principal}.foo is User", Some(0)),
        ("principal.bool", Some(1)),
        ("principal.nested.user is User", Some(1)),
        ("principal has user", Some(1)),
        ("principal.hasTag(\"tag\") && principal.getTag(\"tag\") is User", Some(1)),
        ("principal in User::\"other\"", Some(1)),
        ("principal in [User::\"other\"]", Some(1)),
        ("action in Action::\"view\"", Some(1)),
        ("context.user.bool", Some(1)),
        ("context.nested.user.bool", Some(1)),
        ("Action::\"view\" in action", Some(1)),
        ("principal.user.bool", Some(2)),
        ("principal.nested.user.bool", Some(2)),
        ("principal.hasTag(\"tag\") && principal.getTag(\"tag\").bool", Some(2)),
        ("principal.user.hasTag(\"tag\") && principal.user.getTag(\"tag\") is User", Some(2)),
        ("context.user.user.bool", Some(2)),
        ("context.nested.user.nested.user.bool", Some(2)),
        ("principal.user.hasTag(\"t\") && principal.user.getTag(\"t\") in resource.user", Some(3)),
        ("principal.nested.user.nested.user.bool", Some(3)),
        ("principal has user.user.bool && principal.user.user.bool", Some(3)),
        ("principal.hasTag(\"foo\") && principal.getTag(\"foo\").hasTag(\"bar\") && principal.getTag(\"foo\").getTag(\"bar\").bool", Some(3)),
        ("principal.hasTag(principal.user.other) && principal.getTag(principal[\"user\"][\"other\"]) is User", Some(2)),
        ("principal in principal.user.user", Some(2)),
        ("if principal.user.user.bool then principal.bool else resource.user.bool", Some(3)),
        ("(if principal.bool then principal.user else resource.user).bool", Some(2)),
        ("(if principal.bool then principal.user else resource.user.user).bool", Some(3)),
        ("(if principal.user.user.bool then principal.user.user else resource.user.user).bool", Some(3)),
        ("{foo: principal, bar: principal.user.user.user.user}.foo.bool", Some(4)),
        ("{foo: principal, bar: principal.user.user, baz: resource.user.user}.foo.bool", Some(2)),
        ("{foo: principal.user, bar: principal.bool} == {foo: principal.nested.user, bar: false}", Some(1)),
        ("{foo: {bar: principal}}.foo.bar is User", Some(0)),
        ("{foo: {bar: principal}}.foo.bar.bool", Some(1)),
        ("{foo: principal.user}.foo.bool", Some(2)),
        ("{biz: {foo: {bar: principal.user}}.foo}.biz.bar.bool", Some(2)),
        ("{biz: {foo: {bar: principal}.bar.user}.foo}.biz.bool", Some(2)),
        ("{biz: {baz: {bar: {foo: principal.nested.user}.foo.nested.user}}.baz}.biz.bar.nested.user.bool", Some(4)),
        ("User::\"alice\".bool", None),
        ("User::\"alice\" has user", None),
        ("User::\"alice\".hasTag(\"foo\")", None),
        ("User::\"alice\" in User::\"bob\"", None),
        ("(if principal.bool then User::\"alice\" else principal).bool", None),
        ("{foo: User::\"alice\", bar: User::\"bob\"}.foo.bool", None),
        ("[principal.bool].contains(true)", Some(1)),
        ("[context.user.user, principal.user].containsAny([resource.user])", Some(1)),
        ("principal.ip.isInRange(ip(\"192.168.0.0/12\"))", Some(1)),
        ("principal.other like \"*\"", Some(1)),
        ("!(principal.bool)", Some(1)),
        ("principal.user.user.user.user.user.bool", None),
        ("(principal.bool || true) || true", Some(1)),
        ("if true then principal.bool else false", Some(1)),
        ("true || principal.bool", Some(0)),
        ("false && principal.bool", Some(0)),
        ("if false then principal.bool else false", Some(0)),
        ("if true then true else principal.bool", Some(0)),
    ];
    for (cond, expect) in cases {
        let src = format!("permit(principal, action, resource) when {{ {cond} }};");
        let t = parser::parse_policy_or_template(Some(PolicyID::from_string("p0")), &src).expect("probe policy parses");
        let mut ps = PolicySet::new();
        assert!(add_static(&mut ps, "p0", &src));
        let mut verdicts = Vec::new();
        let mut min = None;
        for n in 0..=MAX_LEVEL {
            if let Ok((a, v)) = level_verdict(&val, &ps, n) {
                if a && min.is_none() {
                    min = Some(n);
                }
                verdicts.push(v);
            }
        }
        out.count("probes");
        // the public entry point `cedar_policy::Validator::validate_with_level` (a thin wrapper) must agree
        {
            use std::str::FromStr;
            let pub_schema = cedar_policy::Schema::from_cedarschema_str(text).map(|x| x.0);
            let pub_ps = cedar_policy::PolicySet::from_str(&src);
            if let (Ok(sc), Ok(pp)) = (pub_schema, pub_ps) {
                let v = cedar_policy::Validator::new(sc);
                for n in 0..=MAX_LEVEL {
                    let passed = v.validate_with_level(&pp, cedar_policy::ValidationMode::Strict, n).validation_passed();
                    out.count("public_api_verdicts");
                    if passed != (verdicts[n as usize] == "ok") {
                        out.propfail("public validate_with_level disagrees with the core validator", &format!("probe policy=`{src}` level={n}"), &verdicts[n as usize]);
                    }
                }
            } else {
                out.propfail("probe does not load through the public API", &format!("probe policy=`{src}`"), "");
            }
        }
        if min != *expect {
            out.propfail("probe: required level differs from the documented one", &format!("probe policy=`{src}`"), &format!("expected {expect:?} got {min:?} ({})", verdicts.join(" ")));
        }
        if let Some(c) = tyck_tpl(&t) {
            out.line(format!("(level {ssx} levels {c})"), format!("(level {})", verdicts.join(" ")), format!("probe {src}"));
        }
    }
}
