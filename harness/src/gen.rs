//! Typed generator of worlds (entity stores, requests) and expressions. All randomness from `Rng`.
use crate::rng::Rng;
use cedar_policy_core::ast::{
    Context, Eid, Entity, EntityType, EntityUID, Expr, Name, Pattern, PatternElem, Request,
    RestrictedExpr, Var,
};
use cedar_policy_core::entities::{Entities, NoEntitiesSchema, TCComputation};
use cedar_policy_core::extensions::Extensions;
use smol_str::SmolStr;
use std::collections::{HashMap, HashSet};
use std::str::FromStr;

pub const TYPES: &[&str] = &["User", "Group", "NS::Doc", "Action"];
pub const EIDS: &[&str] = &["a", "b", "c", "d", "e\"q", "\u{1F600}"];

pub fn mk_uid(ty: &str, eid: &str) -> EntityUID {
    EntityUID::from_components(
        EntityType::from(Name::from_str(ty).expect("type name")),
        Eid::new(eid),
        None,
    )
}

pub fn name(s: &str) -> Name {
    Name::from_str(s).expect("name")
}

#[derive(Clone, Copy, Debug, PartialEq, Eq)]
pub enum Ty {
    Bool,
    Long,
    Str,
    Entity,
    SetLong,
    SetEntity,
    SetStr,
    Record,
    Decimal,
    Ip,
    Datetime,
    Duration,
}
pub const ALL_TYS: &[Ty] = &[
    Ty::Bool, Ty::Long, Ty::Str, Ty::Entity, Ty::SetLong, Ty::SetEntity, Ty::SetStr, Ty::Record,
    Ty::Decimal, Ty::Ip, Ty::Datetime, Ty::Duration,
];

/// attribute pool: fixed type per name, so that typed generation can produce mostly-valid accesses
pub const ATTRS: &[(&str, Ty)] = &[
    ("n", Ty::Long), ("m", Ty::Long), ("s", Ty::Str), ("b", Ty::Bool), ("f", Ty::Entity),
    ("ls", Ty::SetLong), ("es", Ty::SetEntity), ("ss", Ty::SetStr), ("r", Ty::Record),
    ("d", Ty::Decimal), ("ip", Ty::Ip), ("t", Ty::Datetime), ("du", Ty::Duration),
    ("if", Ty::Long), ("has space", Ty::Str),
];
pub const TAGS: &[(&str, Ty)] = &[("k1", Ty::Long), ("k2", Ty::Long), ("n", Ty::Long)];

pub const BOUNDARY_LONGS: &[i64] = &[
    i64::MIN, i64::MIN + 1, -1, 0, 1, 2, 3, 7, 1000, i64::MAX - 1, i64::MAX,
    3037000500, -3037000500, 4611686018427387904, -4611686018427387904,
];

pub const STRINGS: &[&str] = &[
    "", "a", "ab", "abc", "aXb", "abab", "*", "a*b", "\\", "\"", "\u{0}", "\u{1F600}x", "é", "hello world",
    "aaa", "abcabc", "xyz",
];

pub const DECIMALS_OK: &[&str] = &[
    "0.0", "1.0", "1.00", "-1.5", "12.3456", "922337203685477.5807", "-922337203685477.5808",
    "0.0001", "-0.0001", "00.10", "-0.0",
];
pub const DECIMALS_BAD: &[&str] = &[
    "1", "1.", ".1", "1.23456", "922337203685477.5808", "-922337203685477.5809", "1e3", "+1.0",
    "1.0 ", " 1.0", "1.-1", "--1.0", "1..0", "99999999999999999999.0", "1.٣", "",
];
pub const IPS_OK: &[&str] = &[
    "127.0.0.1", "127.0.0.1/8", "127.0.0.1/7", "10.0.0.0/8", "10.1.2.3", "10.1.2.3/32", "0.0.0.0/0",
    "255.255.255.255", "224.0.0.1", "224.0.0.1/4", "224.0.0.1/3", "239.255.255.255/32", "::1", "::1/128", "::1/127",
    "::", "::/0", "ff00::1", "ff00::/8", "ff00::/7", "1:2:3:4:5:6:7:8", "1::8", "1:2:3:4:5:6:7::",
    "::2:3:4:5:6:7:8", "0:0:0:0:0:0:0:1", "fe80::1/64", "FE80::ABCD", "10.0.0.1/24", "10.0.1.1/24", "10.0.0.0/16",
    "192.168.0.1/0",
];
pub const IPS_BAD: &[&str] = &[
    "", "1.2.3", "1.2.3.4.5", "01.2.3.4", "256.1.1.1", "1.2.3.4/33", "1.2.3.4/032", "1.2.3.4/", "1.2.3.4/-1",
    "::1/129", "::1/0128", "::ffff:1.2.3.4", "1:2:3:4:5:6:1.2.3.4", "1:2:3:4:5:6:7:8:9", "1:::2", "12345::",
    ":::", "1.2.3.4/3 ", " 1.2.3.4", "1.2.3.4/1/2", "g::1", "::1%eth0", "1.2.3.4/٣", "1:2:3:4:5:6:7", ":1:2:3:4:5:6:7:8",
    "1:2:3:4::5:6:7:8", "0000:0000:0000:0000:0000:0000:0000:0000/128", "1.2.3.0004",
];
pub const DATETIMES_OK: &[&str] = &[
    "1970-01-01", "2024-02-29", "0000-01-01", "9999-12-31", "1969-12-31", "2024-02-29T12:00:00Z",
    "2024-02-29T23:59:59.999Z", "2024-01-01T00:00:00+0130", "2024-01-01T00:00:00-0130", "2024-01-01T00:00:00.001+2359",
    "1969-12-31T23:59:59.999Z", "2000-02-29T00:00:00Z", "1900-03-01", "0000-03-01T00:00:00-2359", "2024-12-31T23:59:59+0000",
];
pub const DATETIMES_BAD: &[&str] = &[
    "", "2023-02-29", "1900-02-29", "2024-13-01", "2024-00-10", "2024-01-32", "2024-01-00", "2024-1-1", "24-01-01",
    "2024-01-01T", "2024-01-01T24:00:00Z", "2024-01-01T00:60:00Z", "2024-01-01T00:00:60Z", "2024-01-01T00:00:00",
    "2024-01-01T00:00:00.1Z", "2024-01-01T00:00:00.0001Z", "2024-01-01T00:00:00+2400", "2024-01-01T00:00:00+0060",
    "2024-01-01T00:00:00+01:30", "2024-01-01 00:00:00Z", "2024-01-01Z", "2024-01-01T00:00:00Zx", "2024-01-01T00:00:00z",
    "2024-04-31", "-2024-01-01",
];
pub const DURATIONS_OK: &[&str] = &[
    "0ms", "1ms", "1s", "1m", "1h", "1d", "1d2h3m4s5ms", "-1d2h3m4s5ms", "-0ms", "1m1ms", "1h1s", "86400000ms",
    "9223372036854775807ms", "-9223372036854775808ms", "106751991167d", "-106751991167d7h12m55s808ms", "001d", "5m5s",
    "106751991167d7h12m55s807ms",
];
pub const DURATIONS_BAD: &[&str] = &[
    "", "-", "1", "1x", "1h1d", "1ms1s", "1s1s", "1.5s", "+1s", "1 s", "ms", "9223372036854775808ms", "-9223372036854775809ms",
    "106751991168d", "18446744073709551616ms", "1d-1h", "1D", "1ms ", "5ms3ms", "106751991167d7h12m55s808ms", "٣s",
];

pub struct World {
    pub entities: Entities,
    pub uids_present: Vec<EntityUID>,
    pub principal: EntityUID,
    pub action: EntityUID,
    pub resource: EntityUID,
    pub context: Context,
}

pub fn gen_uid(r: &mut Rng) -> EntityUID {
    let ty = *r.pick(TYPES);
    let eid = if r.chance(90) { EIDS[r.below(4)] } else { *r.pick(EIDS) };
    mk_uid(ty, eid)
}

pub fn gen_string(r: &mut Rng) -> String {
    if r.chance(80) {
        (*r.pick(STRINGS)).to_string()
    } else {
        let n = r.below(6);
        (0..n).map(|_| *r.pick(&['a', 'b', 'c', '*', '\\', 'é', '\u{1F600}'])).collect()
    }
}

pub fn gen_long(r: &mut Rng) -> i64 {
    if r.chance(40) {
        *r.pick(BOUNDARY_LONGS)
    } else if r.chance(70) {
        r.range(-5, 10)
    } else {
        r.next() as i64
    }
}

fn call(f: &str, args: Vec<RestrictedExpr>) -> RestrictedExpr {
    RestrictedExpr::call_extension_fn(name(f), args)
}

/// a restricted expression (entity attribute / context value) of the given type; always evaluates
pub fn gen_rexpr(r: &mut Rng, ty: Ty, depth: u32) -> RestrictedExpr {
    match ty {
        Ty::Bool => RestrictedExpr::val(r.chance(50)),
        Ty::Long => RestrictedExpr::val(gen_long(r)),
        Ty::Str => RestrictedExpr::val(gen_string(r)),
        Ty::Entity => RestrictedExpr::val(gen_uid(r)),
        Ty::SetLong => {
            let n = r.below(4);
            RestrictedExpr::set((0..n).map(|_| RestrictedExpr::val(r.range(0, 4))).collect::<Vec<_>>())
        }
        Ty::SetStr => {
            let n = r.below(4);
            RestrictedExpr::set((0..n).map(|_| RestrictedExpr::val(gen_string(r))).collect::<Vec<_>>())
        }
        Ty::SetEntity => {
            let n = r.below(4);
            RestrictedExpr::set((0..n).map(|_| RestrictedExpr::val(gen_uid(r))).collect::<Vec<_>>())
        }
        Ty::Record => {
            let mut kvs: Vec<(SmolStr, RestrictedExpr)> = Vec::new();
            if depth > 0 {
                for (k, t) in ATTRS {
                    if r.chance(25) {
                        kvs.push(((*k).into(), gen_rexpr(r, *t, depth - 1)));
                    }
                }
            }
            RestrictedExpr::record(kvs).expect("no dup keys")
        }
        Ty::Decimal => call("decimal", vec![RestrictedExpr::val(*r.pick(DECIMALS_OK))]),
        Ty::Ip => call("ip", vec![RestrictedExpr::val(*r.pick(IPS_OK))]),
        Ty::Datetime => call("datetime", vec![RestrictedExpr::val(*r.pick(DATETIMES_OK))]),
        Ty::Duration => call("duration", vec![RestrictedExpr::val(*r.pick(DURATIONS_OK))]),
    }
}

/// stores built by `gen_world` whose ancestor sets are not the reachability of their parent edges (drained by the streams whose
/// property depends on `in`: c01, c02)
pub static CLOSURE_MISMATCH: std::sync::Mutex<Vec<String>> = std::sync::Mutex::new(Vec::new());

pub fn gen_world(r: &mut Rng) -> World {
    // candidate uids: types x first 4 eids, each present with prob 60 %
    let mut present: Vec<EntityUID> = Vec::new();
    for ty in TYPES {
        for eid in &EIDS[..4] {
            if r.chance(60) {
                present.push(mk_uid(ty, eid));
            }
        }
    }
    if r.chance(30) {
        present.push(mk_uid("User", EIDS[4]));
        present.push(mk_uid("NS::Doc", EIDS[5]));
    }
    // parents: only "earlier" -> "later" in a random order to stay acyclic; may be dangling
    let mut order: Vec<EntityUID> = present.clone();
    for i in (1..order.len()).rev() {
        let j = r.below(i + 1);
        order.swap(i, j);
    }
    let mut ents = Vec::new();
    for (i, u) in order.iter().enumerate() {
        let mut parents = HashSet::new();
        let np = r.below(3);
        for _ in 0..np {
            if i + 1 < order.len() && r.chance(85) {
                let j = i + 1 + r.below(order.len() - i - 1);
                parents.insert(order[j].clone());
            } else if r.chance(50) {
                parents.insert(mk_uid("Group", "zz")); // dangling parent
            }
        }
        let mut attrs: Vec<(SmolStr, RestrictedExpr)> = Vec::new();
        for (k, t) in ATTRS {
            if r.chance(55) {
                attrs.push(((*k).into(), gen_rexpr(r, *t, 2)));
            }
        }
        let mut tags: Vec<(SmolStr, RestrictedExpr)> = Vec::new();
        for (k, t) in TAGS {
            if r.chance(40) {
                tags.push(((*k).into(), gen_rexpr(r, *t, 1)));
            }
        }
        ents.push(
            Entity::new(u.clone(), attrs, HashSet::new(), parents, tags, Extensions::all_available())
                .expect("entity attrs evaluate"),
        );
    }
    // what `in` must mean in this world: reachability over the parent edges written above (dangling parents included)
    let direct: HashMap<EntityUID, HashSet<EntityUID>> = ents.iter().map(|e| (e.uid().clone(), e.parents().cloned().collect())).collect();
    // a third of the worlds are built by a HISTORY (several `add_entities` batches in a shuffled order, so that batches attach
    // above and below entities already present) instead of one `from_entities` call; the choices come from a side generator so
    // that the main random stream is the same either way
    let mut hr = Rng(r.0 ^ 0x5DEECE66D1CE4E5B);
    let entities = if ents.len() >= 2 && hr.chance(35) {
        let mut shuffled = ents;
        for i in (1..shuffled.len()).rev() {
            let j = hr.below(i + 1);
            shuffled.swap(i, j);
        }
        let nb = 2 + hr.below(3);
        let mut store = Entities::new();
        for b in 0..nb {
            let lo = b * shuffled.len() / nb;
            let hi = (b + 1) * shuffled.len() / nb;
            store = store
                .add_entities(shuffled[lo..hi].iter().cloned().map(std::sync::Arc::new), None::<&NoEntitiesSchema>, TCComputation::ComputeNow, Extensions::all_available())
                .expect("acyclic by construction");
        }
        store
    } else {
        Entities::from_entities(ents, None::<&NoEntitiesSchema>, TCComputation::ComputeNow, Extensions::all_available()).expect("acyclic by construction")
    };
    for e in entities.iter() {
        let mut want: HashSet<EntityUID> = HashSet::new();
        let mut todo: Vec<EntityUID> = direct.get(e.uid()).map(|s| s.iter().cloned().collect()).unwrap_or_default();
        while let Some(u) = todo.pop() {
            if want.insert(u.clone()) {
                if let Some(ps) = direct.get(&u) { todo.extend(ps.iter().cloned()); }
            }
        }
        let got: HashSet<EntityUID> = e.ancestors().cloned().collect();
        if got != want {
            let show = |s: &HashSet<EntityUID>| { let mut v: Vec<String> = s.iter().map(|u| u.to_string()).collect(); v.sort(); v.join(", ") };
            if let Ok(mut l) = CLOSURE_MISMATCH.lock() {
                if l.len() < 20 { l.push(format!("{}: ancestors in the store [{}], reachable over parent edges [{}]", e.uid(), show(&got), show(&want))); }
            }
        }
    }
    let pick_uid = |r: &mut Rng, ty: &str| -> EntityUID { mk_uid(ty, EIDS[r.below(4)]) };
    let pt = if r.chance(80) { "User" } else { "Group" };
    let principal = pick_uid(r, pt);
    let action = pick_uid(r, "Action");
    let rt = if r.chance(80) { "NS::Doc" } else { "Group" };
    let resource = pick_uid(r, rt);
    let mut ctx: Vec<(SmolStr, RestrictedExpr)> = Vec::new();
    for (k, t) in ATTRS {
        if r.chance(55) {
            ctx.push(((*k).into(), gen_rexpr(r, *t, 2)));
        }
    }
    let context = Context::from_pairs(ctx, Extensions::all_available()).expect("context");
    World { entities, uids_present: present, principal, action, resource, context }
}

impl World {
    pub fn request(&self) -> Request {
        Request::new(
            (self.principal.clone(), None),
            (self.action.clone(), None),
            (self.resource.clone(), None),
            self.context.clone(),
            None::<&cedar_policy_core::ast::RequestSchemaAllPass>,
            Extensions::all_available(),
        )
        .expect("request")
    }
}

pub fn gen_pattern(r: &mut Rng) -> Pattern {
    let n = r.below(6);
    let elems: Vec<PatternElem> = (0..n)
        .map(|_| {
            if r.chance(35) {
                PatternElem::Wildcard
            } else {
                PatternElem::Char(*r.pick(&['a', 'b', 'c', 'X', '*', '\\', 'é', '\u{1F600}']))
            }
        })
        .collect();
    Pattern::from(elems)
}

pub struct ExprGen {
    pub ill_typed_pct: u32,
    pub op_hist: HashMap<&'static str, u64>,
}

impl ExprGen {
    pub fn new(ill: u32) -> Self {
        ExprGen { ill_typed_pct: ill, op_hist: HashMap::new() }
    }
    fn hit(&mut self, k: &'static str) {
        *self.op_hist.entry(k).or_insert(0) += 1;
    }

    fn entity_leaf(&mut self, r: &mut Rng) -> Expr {
        match r.below(5) {
            0 => Expr::var(Var::Principal),
            1 => Expr::var(Var::Resource),
            2 => Expr::var(Var::Action),
            _ => Expr::val(gen_uid(r)),
        }
    }

    fn attr_of(&mut self, r: &mut Rng, ty: Ty) -> &'static str {
        let cands: Vec<&'static str> = ATTRS.iter().filter(|(_, t)| *t == ty).map(|(k, _)| *k).collect();
        if cands.is_empty() || r.chance(5) { ATTRS[r.below(ATTRS.len())].0 } else { *r.pick(&cands) }
    }

    /// `X.attr` on an entity / context / record-valued expression
    fn access(&mut self, r: &mut Rng, ty: Ty, depth: u32) -> Expr {
        let a = self.attr_of(r, ty);
        let base = match r.below(10) {
            0..=3 => self.gen(r, Ty::Entity, depth.saturating_sub(1)),
            4..=6 => Expr::var(Var::Context),
            7 => self.gen(r, Ty::Record, depth.saturating_sub(1)),
            _ => self.entity_leaf(r),
        };
        self.hit("getAttr");
        let acc = Expr::get_attr(base.clone(), a.into());
        if r.chance(35) {
            // the documented guard idiom
            self.hit("has-guard");
            Expr::ite(Expr::has_attr(base, a.into()), acc, self.leaf(r, ty))
        } else {
            acc
        }
    }

    pub fn leaf(&mut self, r: &mut Rng, ty: Ty) -> Expr {
        match ty {
            Ty::Bool => Expr::val(r.chance(50)),
            Ty::Long => Expr::val(gen_long(r)),
            Ty::Str => Expr::val(gen_string(r)),
            Ty::Entity => self.entity_leaf(r),
            Ty::SetLong | Ty::SetStr | Ty::SetEntity | Ty::Record | Ty::Decimal | Ty::Ip | Ty::Datetime | Ty::Duration => {
                Expr::from(gen_rexpr(r, ty, 1))
            }
        }
    }

    fn ext_ctor(&mut self, r: &mut Rng, f: &'static str, ok: &[&str], bad: &[&str]) -> Expr {
        self.hit(f);
        let s = if r.chance(75) { *r.pick(ok) } else { *r.pick(bad) };
        let arg = if r.chance(97) { Expr::val(s) } else { self.gen(r, Ty::Long, 0) };
        Expr::call_extension_fn(name(f), vec![arg])
    }

    fn method(&mut self, f: &'static str, args: Vec<Expr>) -> Expr {
        self.hit(f);
        Expr::call_extension_fn(name(f), args)
    }

    pub fn gen(&mut self, r: &mut Rng, ty: Ty, depth: u32) -> Expr {
        let ty = if r.chance(self.ill_typed_pct) { *r.pick(ALL_TYS) } else { ty };
        if depth == 0 {
            return if r.chance(30) { self.access(r, ty, 0) } else { self.leaf(r, ty) };
        }
        let d = depth - 1;
        if r.chance(12) {
            self.hit("if");
            let c = self.gen(r, Ty::Bool, d);
            let t = self.gen(r, ty, d);
            let e = self.gen(r, ty, d);
            return Expr::ite(c, t, e);
        }
        if r.chance(15) {
            return self.access(r, ty, depth);
        }
        match ty {
            Ty::Bool => match r.below(24) {
                0 => { self.hit("not"); Expr::not(self.gen(r, Ty::Bool, d)) }
                1 | 2 => { self.hit("and"); Expr::and(self.gen(r, Ty::Bool, d), self.gen(r, Ty::Bool, d)) }
                3 | 4 => { self.hit("or"); Expr::or(self.gen(r, Ty::Bool, d), self.gen(r, Ty::Bool, d)) }
                5 => { self.hit("less"); Expr::less(self.gen(r, Ty::Long, d), self.gen(r, Ty::Long, d)) }
                6 => { self.hit("lesseq"); Expr::lesseq(self.gen(r, Ty::Long, d), self.gen(r, Ty::Long, d)) }
                7 | 8 => {
                    self.hit("eq");
                    let t = *r.pick(ALL_TYS);
                    let t2 = if r.chance(85) { t } else { *r.pick(ALL_TYS) };
                    Expr::is_eq(self.gen(r, t, d), self.gen(r, t2, d))
                }
                9 => { self.hit("in"); Expr::is_in(self.gen(r, Ty::Entity, d), self.gen(r, Ty::Entity, d)) }
                10 => { self.hit("in-set"); Expr::is_in(self.gen(r, Ty::Entity, d), self.gen(r, Ty::SetEntity, d)) }
                11 => {
                    self.hit("contains");
                    let (st, et) = *r.pick(&[(Ty::SetLong, Ty::Long), (Ty::SetStr, Ty::Str), (Ty::SetEntity, Ty::Entity)]);
                    Expr::contains(self.gen(r, st, d), self.gen(r, et, d))
                }
                12 => {
                    self.hit("containsAll");
                    let st = *r.pick(&[Ty::SetLong, Ty::SetStr, Ty::SetEntity]);
                    Expr::contains_all(self.gen(r, st, d), self.gen(r, st, d))
                }
                13 => {
                    self.hit("containsAny");
                    let st = *r.pick(&[Ty::SetLong, Ty::SetStr, Ty::SetEntity]);
                    Expr::contains_any(self.gen(r, st, d), self.gen(r, st, d))
                }
                14 => {
                    self.hit("isEmpty");
                    let st = *r.pick(&[Ty::SetLong, Ty::SetStr, Ty::SetEntity]);
                    Expr::is_empty(self.gen(r, st, d))
                }
                15 => {
                    self.hit("has");
                    let a = ATTRS[r.below(ATTRS.len())].0;
                    let base = match r.below(3) {
                        0 => Expr::var(Var::Context),
                        1 => self.gen(r, Ty::Entity, d),
                        _ => self.gen(r, Ty::Record, d),
                    };
                    Expr::has_attr(base, a.into())
                }
                16 => {
                    self.hit("hasTag");
                    let k = if r.chance(80) { Expr::val(TAGS[r.below(TAGS.len())].0) } else { self.gen(r, Ty::Str, d) };
                    Expr::has_tag(self.gen(r, Ty::Entity, d), k)
                }
                17 => { self.hit("like"); Expr::like(self.gen(r, Ty::Str, d), gen_pattern(r)) }
                18 => {
                    self.hit("is");
                    let t = *r.pick(TYPES);
                    Expr::is_entity_type(self.gen(r, Ty::Entity, d), EntityType::from(name(t)))
                }
                19 => {
                    let f = *r.pick(&["lessThan", "lessThanOrEqual", "greaterThan", "greaterThanOrEqual"]);
                    let a = self.gen(r, Ty::Decimal, d);
                    let b = self.gen(r, Ty::Decimal, d);
                    self.method(f, vec![a, b])
                }
                20 => {
                    let f = *r.pick(&["isIpv4", "isIpv6", "isLoopback", "isMulticast"]);
                    let a = self.gen(r, Ty::Ip, d);
                    self.method(f, vec![a])
                }
                21 => {
                    let a = self.gen(r, Ty::Ip, d);
                    let b = self.gen(r, Ty::Ip, d);
                    self.method("isInRange", vec![a, b])
                }
                22 => {
                    self.hit("less-ext");
                    let t = *r.pick(&[Ty::Datetime, Ty::Duration]);
                    let t2 = if r.chance(90) { t } else { Ty::Long };
                    if r.chance(50) { Expr::less(self.gen(r, t, d), self.gen(r, t2, d)) } else { Expr::lesseq(self.gen(r, t, d), self.gen(r, t2, d)) }
                }
                _ => self.leaf(r, Ty::Bool),
            },
            Ty::Long => match r.below(9) {
                0 | 1 => { self.hit("add"); Expr::add(self.gen(r, Ty::Long, d), self.gen(r, Ty::Long, d)) }
                2 => { self.hit("sub"); Expr::sub(self.gen(r, Ty::Long, d), self.gen(r, Ty::Long, d)) }
                3 => { self.hit("mul"); Expr::mul(self.gen(r, Ty::Long, d), self.gen(r, Ty::Long, d)) }
                4 => { self.hit("neg"); Expr::neg(self.gen(r, Ty::Long, d)) }
                5 => {
                    self.hit("getTag");
                    let k = if r.chance(80) { Expr::val(TAGS[r.below(TAGS.len())].0) } else { self.gen(r, Ty::Str, d) };
                    let base = self.gen(r, Ty::Entity, d);
                    if r.chance(50) {
                        Expr::ite(Expr::has_tag(base.clone(), k.clone()), Expr::get_tag(base, k), self.leaf(r, Ty::Long))
                    } else {
                        Expr::get_tag(base, k)
                    }
                }
                6 => {
                    let f = *r.pick(&["toMilliseconds", "toSeconds", "toMinutes", "toHours", "toDays"]);
                    let a = self.gen(r, Ty::Duration, d);
                    self.method(f, vec![a])
                }
                _ => self.leaf(r, Ty::Long),
            },
            Ty::Str => self.leaf(r, Ty::Str),
            Ty::Entity => self.leaf(r, Ty::Entity),
            Ty::SetLong | Ty::SetStr | Ty::SetEntity => {
                if r.chance(60) {
                    self.hit("set");
                    let et = match ty { Ty::SetLong => Ty::Long, Ty::SetStr => Ty::Str, _ => Ty::Entity };
                    let n = r.below(4);
                    let mut xs = Vec::new();
                    for _ in 0..n {
                        let t = if r.chance(92) { et } else { *r.pick(ALL_TYS) };
                        xs.push(self.gen(r, t, d));
                    }
                    Expr::set(xs)
                } else {
                    self.leaf(r, ty)
                }
            }
            Ty::Record => {
                if r.chance(60) {
                    self.hit("record");
                    let mut kvs: Vec<(SmolStr, Expr)> = Vec::new();
                    for (k, t) in ATTRS {
                        if r.chance(20) {
                            kvs.push(((*k).into(), self.gen(r, *t, d)));
                        }
                    }
                    Expr::record(kvs).expect("no dup keys")
                } else {
                    self.leaf(r, ty)
                }
            }
            Ty::Decimal => self.ext_ctor(r, "decimal", DECIMALS_OK, DECIMALS_BAD),
            Ty::Ip => self.ext_ctor(r, "ip", IPS_OK, IPS_BAD),
            Ty::Datetime => match r.below(4) {
                0 => {
                    let a = self.gen(r, Ty::Datetime, d);
                    let b = self.gen(r, Ty::Duration, d);
                    self.method("offset", vec![a, b])
                }
                1 => { let a = self.gen(r, Ty::Datetime, d); self.method("toDate", vec![a]) }
                _ => self.ext_ctor(r, "datetime", DATETIMES_OK, DATETIMES_BAD),
            },
            Ty::Duration => match r.below(4) {
                0 => {
                    let a = self.gen(r, Ty::Datetime, d);
                    let b = self.gen(r, Ty::Datetime, d);
                    self.method("durationSince", vec![a, b])
                }
                1 => { let a = self.gen(r, Ty::Datetime, d); self.method("toTime", vec![a]) }
                _ => self.ext_ctor(r, "duration", DURATIONS_OK, DURATIONS_BAD),
            },
        }
    }
}
