//! Serialiser of the *resolved* `ValidatorSchema` (what the validator / conformance checker actually consult)
//! to an s-expression for the Lean driver (decoder: `lean/CedarVerif/Driver/CodecSchema.lean`).
//! Schema parsing, namespace resolution, common-type inlining and the transitive closures are NOT re-modelled:
//! the model receives their result.
//!
//! Grammar (everything that came out of a hash map / set is sorted):
//! ```text
//! schema  ::= (schema (etypes etype*) (actions action*))
//! etype   ::= (etype "Name" (attrs attr*) open|closed (tags type | none) (desc "Name"*) (enum "id"* | none))
//! action  ::= (action uid (principals "Name"*) (resources "Name"*) (context type) (desc uid*) (anc uid*) (attrs ("k" value)*))
//! attr    ::= ("name" req|opt type)
//! type    ::= never | (bool any|tt|ff) | long | string | (set any) | (set type) | (record open|closed attr*)
//!           | (entity "Name"+) | anyEntity | (ext "name")
//! uid     ::= (e "Type" "id")
//! ```
//! `desc` of an entity type = the (transitively closed) `descendants` set of `ValidatorEntityType`; the permitted
//! ancestor types of `T` are the types that list `T` among their descendants (as `EntityTypeDescription::new`
//! computes them).  `anc` / `attrs` of an action = the action entity of the schema (`CoreSchema::action`).
//!
//! Also here: data serialisers for conformance requests, `entity_sx` and `request_sx`.
use crate::sx::{qs, uid, value};
use cedar_policy_core::ast::{Entity, EntityUID, PartialValue};
use cedar_policy_core::entities::Schema as _;
use cedar_policy_core::validator::types::{AttributeType, Attributes, BoolType, EntityKind, OpenTag, Type};
use cedar_policy_core::validator::{CoreSchema, ValidatorEntityTypeKind, ValidatorSchema};
use std::fmt::Write;

fn open_tag(o: OpenTag) -> &'static str {
    if o == OpenTag::OpenAttributes { "open" } else { "closed" }
}

fn attr_sx(k: &str, a: &AttributeType) -> String {
    format!("({} {} {})", qs(k), if a.is_required { "req" } else { "opt" }, ty(&a.attr_type))
}

fn attrs_sx(attrs: &Attributes) -> String {
    // `Attributes` is a BTreeMap: already sorted by name
    attrs.iter().map(|(k, a)| attr_sx(k, a)).collect::<Vec<_>>().join(" ")
}

/// validator type -> sexp
pub fn ty(t: &Type) -> String {
    match t {
        Type::Never => "never".into(),
        Type::Bool(BoolType::AnyBool) => "(bool any)".into(),
        Type::Bool(BoolType::True) => "(bool tt)".into(),
        Type::Bool(BoolType::False) => "(bool ff)".into(),
        Type::Long => "long".into(),
        Type::String => "string".into(),
        Type::Set { element_type: None } => "(set any)".into(),
        Type::Set { element_type: Some(e) } => format!("(set {})", ty(e)),
        Type::Record { attrs, open_attributes } => {
            let a = attrs_sx(attrs);
            if a.is_empty() { format!("(record {})", open_tag(*open_attributes)) } else { format!("(record {} {})", open_tag(*open_attributes), a) }
        }
        Type::Entity(EntityKind::AnyEntity) => "anyEntity".into(),
        Type::Entity(EntityKind::Entity(lub)) => match lub.get_single_entity() {
            Some(e) => format!("(entity {})", qs(&e.to_string())),
            None => {
                // the elements of a non-singleton lub are only reachable through Display:
                // `__cedar::internal::Union<A, B>` (never produced by schema construction)
                let s = t.to_string();
                let inner = s.trim_start_matches("__cedar::internal::Union<").trim_end_matches('>');
                let mut names: Vec<String> = inner.split(", ").map(|n| qs(n)).collect();
                names.sort();
                format!("(entity {})", names.join(" "))
            }
        },
        Type::ExtensionType { name } => format!("(ext {})", qs(&name.to_string())),
    }
}

fn uids_sorted<'a>(it: impl Iterator<Item = &'a EntityUID>) -> String {
    let mut v: Vec<String> = it.map(uid).collect();
    v.sort();
    v.join(" ")
}

fn with_head(head: &str, body: String) -> String {
    if body.is_empty() { format!("({head})") } else { format!("({head} {body})") }
}

/// the resolved schema
pub fn schema(s: &ValidatorSchema) -> String {
    let mut ets: Vec<(String, String)> = Vec::new();
    for et in s.entity_types() {
        let name = et.name().to_string();
        let mut desc: Vec<String> = et.descendants.iter().map(|d| qs(&d.to_string())).collect();
        desc.sort();
        let en = match &et.kind {
            ValidatorEntityTypeKind::Enum(choices) => {
                let mut ids: Vec<String> = choices.iter().map(|c| { let c: &str = c.as_ref(); qs(c) }).collect();
                ids.sort();
                with_head("enum", ids.join(" "))
            }
            ValidatorEntityTypeKind::Standard(_) => "(enum none)".to_string(),
        };
        let tags = match et.tag_type() {
            Some(t) => format!("(tags {})", ty(t)),
            None => "(tags none)".into(),
        };
        let o = format!(
            "(etype {} {} {} {} {} {})",
            qs(&name),
            with_head("attrs", attrs_sx(et.attributes())),
            open_tag(et.open_attributes()),
            tags,
            with_head("desc", desc.join(" ")),
            en
        );
        ets.push((name, o));
    }
    ets.sort();
    let core = CoreSchema::new(s);
    let mut acts: Vec<(String, String)> = Vec::new();
    for a in s.action_ids() {
        let u = a.name();
        let mut ps: Vec<String> = a.applies_to_principals().map(|t| qs(&t.to_string())).collect();
        ps.sort();
        let mut rs: Vec<String> = a.applies_to_resources().map(|t| qs(&t.to_string())).collect();
        rs.sort();
        let ent = core.action(u);
        let (anc, attrs) = match &ent {
            Some(e) => {
                let mut kvs: Vec<(String, String)> = Vec::new();
                for (k, v) in e.attrs() {
                    let vs = match v {
                        PartialValue::Value(v) => value(v),
                        PartialValue::Residual(_) => "(residual)".into(),
                    };
                    kvs.push((k.to_string(), format!("({} {})", qs(k), vs)));
                }
                kvs.sort();
                (uids_sorted(e.ancestors()), kvs.into_iter().map(|x| x.1).collect::<Vec<_>>().join(" "))
            }
            None => ("missing-action-entity".to_string(), String::new()),
        };
        let o = format!(
            "(action {} {} {} (context {}) {} {} {})",
            uid(u),
            with_head("principals", ps.join(" ")),
            with_head("resources", rs.join(" ")),
            ty(a.context_type()),
            with_head("desc", uids_sorted(a.descendants())),
            with_head("anc", anc),
            with_head("attrs", attrs)
        );
        acts.push((uid(u), o));
    }
    acts.sort();
    format!(
        "(schema {} {})",
        with_head("etypes", ets.into_iter().map(|x| x.1).collect::<Vec<_>>().join(" ")),
        with_head("actions", acts.into_iter().map(|x| x.1).collect::<Vec<_>>().join(" "))
    )
}

fn pv(p: &PartialValue) -> String {
    match p {
        PartialValue::Value(v) => value(v),
        PartialValue::Residual(_) => "(residual)".into(),
    }
}

/// one entity as a conformance datum: `(ent uid (attrs …) (anc …) (tags …))`, ancestors exactly as the
/// entity object carries them (parents + indirect ancestors), all sorted
pub fn entity_sx(e: &Entity) -> String {
    let mut o = format!("(ent {} (attrs", uid(e.uid()));
    let mut attrs: Vec<_> = e.attrs().collect();
    attrs.sort_by(|a, b| a.0.cmp(b.0));
    for (k, v) in attrs {
        write!(o, " ({} {})", qs(k), pv(v)).unwrap();
    }
    o.push_str(") ");
    o.push_str(&with_head("anc", uids_sorted(e.ancestors())));
    o.push_str(" (tags");
    let mut tags: Vec<_> = e.tags().collect();
    tags.sort_by(|a, b| a.0.cmp(b.0));
    for (k, v) in tags {
        write!(o, " ({} {})", qs(k), pv(v)).unwrap();
    }
    o.push_str("))");
    o
}
