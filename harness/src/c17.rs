//! C17: entity-manifest slicing keeps everything authorization needs.
//! One case = one generated schema world (gen_schema.rs; every third one a chain world of gen_schema_chain.rs) with a conformant store, a strictly valid policy set
//! (gen_typed.rs policies + the manifest-stressing families below + sometimes a linked template) and ~10 conformant
//! requests.
//!   S  (the property on the implementation, `propfail`):
//!        is_authorized(slice_entities(manifest, store, request), request) == is_authorized(store, request)
//!      on decision, reasons and erroring policy ids, for every sampled request; no panic / error in
//!      `compute_entity_manifest` (other than the declared `UnsupportedCedarFeature`) or `slice_entities`.
//!   K  (correspondence):
//!      `(manifest <schema> <reqtype> <typed expr>*)`  per policy and request type: the model's analysis of the typed AST
//!          (as `Typechecker::typecheck_by_request_env` produced it) + `to_typed` pruning, against Rust's manifest of the
//!          singleton policy set (serde/JSON form, canonicalised modulo hash-map order);
//!      `(mslice <schema> <reqtype> <rtrie> <request> <entities>)`: the model's slice against `slice_entities`
//!          (canonical stores);
//!      `(mspec …same…)`: the model's slice satisfies the specification that Thm/C17.lean's soundness theorem assumes
//!          (sub-store + covers the trie), expected reply `(spec ok)`.
//! Counters: slices strictly smaller than the store (entities / attributes / ancestors dropped), manifest failures by
//! reason, unsupported-feature rejections, policies per stress family.
use crate::gen_schema::{self as gs, SchemaSpec, SchemaWorld, STy, Uid};
use crate::gen_typed::{self as gt, cedar_str, uid_text};
use crate::out::Out;
use crate::rng::Rng;
use crate::sx;
use crate::sx_schema;
use crate::Args;
use cedar_policy_core::ast::{self, BinaryOp, EntityUID, Expr, ExprKind, PolicyID, PolicySet, SlotId, UnaryOp, Var};
use cedar_policy_core::authorizer::{Authorizer, Decision, Response};
use cedar_policy_core::entities::{Entities, TCComputation};
use cedar_policy_core::evaluator::Evaluator;
use cedar_policy_core::extensions::Extensions;
use cedar_policy_core::parser;
use cedar_policy_core::validator::entity_manifest::{compute_entity_manifest, EntityManifest, EntityManifestError};
use cedar_policy_core::validator::typecheck::{PolicyCheck, Typechecker};
use cedar_policy_core::validator::types::Type;
use cedar_policy_core::validator::{CoreSchema, ValidationMode, Validator, ValidatorSchema};
use serde_json::Value as J;
use std::collections::{BTreeMap, HashMap};
use std::fmt::Write;
use std::panic::{catch_unwind, AssertUnwindSafe};

type TExpr = Expr<Option<Type>>;

// ------------------------------------------------------------------------------------------------
// serialisers
// ------------------------------------------------------------------------------------------------

fn opt_ty(t: &Option<Type>) -> String {
    match t {
        Some(t) => sx_schema::ty(t),
        None => "untyped".into(),
    }
}

/// typed AST -> sexp.  Like `sx::expr`, except that the nodes whose operand types the analysis reads carry them:
/// `(tbin op ty1 ty2 a b)` for `== in contains containsAll containsAny`, `(tun isEmpty ty a)`.
fn texpr(e: &TExpr) -> Option<String> {
    Some(match e.expr_kind() {
        ExprKind::Lit(l) => format!("(lit {})", sx::lit(l)),
        ExprKind::Var(v) => format!(
            "(var {})",
            match v {
                Var::Principal => "principal",
                Var::Action => "action",
                Var::Resource => "resource",
                Var::Context => "context",
            }
        ),
        ExprKind::Slot(s) => format!("(slot {})", if *s == SlotId::principal() { "principal" } else { "resource" }),
        ExprKind::Unknown(_) => return None,
        ExprKind::If { test_expr, then_expr, else_expr } => format!("(ite {} {} {})", texpr(test_expr)?, texpr(then_expr)?, texpr(else_expr)?),
        ExprKind::And { left, right } => format!("(and {} {})", texpr(left)?, texpr(right)?),
        ExprKind::Or { left, right } => format!("(or {} {})", texpr(left)?, texpr(right)?),
        ExprKind::UnaryApp { op, arg } => match op {
            UnaryOp::Not => format!("(un not {})", texpr(arg)?),
            UnaryOp::Neg => format!("(un neg {})", texpr(arg)?),
            UnaryOp::IsEmpty => format!("(tun isEmpty {} {})", opt_ty(arg.data()), texpr(arg)?),
        },
        ExprKind::BinaryApp { op, arg1, arg2 } => {
            let (name, typed) = match op {
                BinaryOp::Eq => ("eq", true),
                BinaryOp::Less => ("less", false),
                BinaryOp::LessEq => ("lessEq", false),
                BinaryOp::Add => ("add", false),
                BinaryOp::Sub => ("sub", false),
                BinaryOp::Mul => ("mul", false),
                BinaryOp::In => ("in", true),
                BinaryOp::Contains => ("contains", true),
                BinaryOp::ContainsAll => ("containsAll", true),
                BinaryOp::ContainsAny => ("containsAny", true),
                BinaryOp::GetTag => ("getTag", false),
                BinaryOp::HasTag => ("hasTag", false),
            };
            if typed {
                format!("(tbin {name} {} {} {} {})", opt_ty(arg1.data()), opt_ty(arg2.data()), texpr(arg1)?, texpr(arg2)?)
            } else {
                format!("(bin {name} {} {})", texpr(arg1)?, texpr(arg2)?)
            }
        }
        ExprKind::ExtensionFunctionApp { fn_name, args } => {
            let mut o = format!("(call {}", sx::qs(&fn_name.to_string()));
            for a in args.iter() {
                o.push(' ');
                o.push_str(&texpr(a)?);
            }
            o.push(')');
            o
        }
        ExprKind::GetAttr { expr, attr } => format!("(get {} {})", texpr(expr)?, sx::qs(attr)),
        ExprKind::HasAttr { expr, attr } => format!("(has {} {})", texpr(expr)?, sx::qs(attr)),
        ExprKind::Like { expr, pattern } => format!("(like {} {})", texpr(expr)?, sx::pattern_sx(pattern.get_elems())),
        ExprKind::Is { expr, entity_type } => format!("(is {} {})", texpr(expr)?, sx::qs(&entity_type.to_string())),
        ExprKind::Set(xs) => {
            let mut o = String::from("(set");
            for a in xs.iter() {
                o.push(' ');
                o.push_str(&texpr(a)?);
            }
            o.push(')');
            o
        }
        ExprKind::Record(m) => {
            let mut o = String::from("(rec");
            for (k, v) in m.iter() {
                write!(o, " ({} {})", sx::qs(k), texpr(v)?).unwrap();
            }
            o.push(')');
            o
        }
        #[allow(unreachable_patterns)]
        _ => return None,
    })
}

fn json_uid(j: &J) -> Option<String> {
    // serde form of `EntityUID`: {"ty": <EntityType>, "eid": "..."}; the type is a string or a name object
    let eid = j.get("eid")?.as_str()?;
    let ty = match j.get("ty")? {
        J::String(s) => s.clone(),
        other => other.to_string(),
    };
    Some(format!("(e {} {})", sx::qs(&ty), sx::qs(eid)))
}

/// canonical (order-insensitive) sexp of the serde form of an `AccessTrie`
fn trie_sx(j: &J) -> Option<String> {
    let mut kids: Vec<(String, String)> = Vec::new();
    for kv in j.get("children")?.as_array()? {
        let kv = kv.as_array()?;
        let k = kv.first()?.as_str()?;
        kids.push((k.to_string(), format!("({} {})", sx::qs(k), trie_sx(kv.get(1)?)?)));
    }
    kids.sort();
    let anc = if j.get("isAncestor")?.as_bool()? { "anc" } else { "noanc" };
    let mut o = format!("(trie {anc} (children");
    for (_, k) in kids {
        o.push(' ');
        o.push_str(&k);
    }
    o.push_str(") ");
    o.push_str(&rtrie_sx(j.get("ancestorsTrie")?)?);
    o.push(')');
    Some(o)
}

/// canonical sexp of the serde form of a `RootAccessTrie`
fn rtrie_sx(j: &J) -> Option<String> {
    let mut roots: Vec<String> = Vec::new();
    for kv in j.get("trie")?.as_array()? {
        let kv = kv.as_array()?;
        let root = kv.first()?;
        let r = if let Some(v) = root.get("var") {
            format!("(var {})", v.as_str()?)
        } else {
            format!("(lit {})", json_uid(root.get("literal")?)?)
        };
        roots.push(format!("({r} {})", trie_sx(kv.get(1)?)?));
    }
    roots.sort();
    let mut o = String::from("(rtrie");
    for r in roots {
        o.push(' ');
        o.push_str(&r);
    }
    o.push(')');
    Some(o)
}

fn reqtype_sx(p: &str, a: &EntityUID, r: &str) -> String {
    format!("(rt {} {} {})", sx::qs(p), sx::uid(a), sx::qs(r))
}

/// the manifest's tries by canonical request-type key
fn manifest_tries(m: &EntityManifest) -> Option<BTreeMap<String, String>> {
    let j = serde_json::to_value(m).ok()?;
    let mut out = BTreeMap::new();
    for (rt, _) in m.per_action() {
        let _ = rt;
    }
    for kv in j.get("perAction")?.as_array()? {
        let kv = kv.as_array()?;
        let rt = kv.first()?;
        let jname = |x: &J| match x {
            J::String(s) => s.clone(),
            o => o.to_string(),
        };
        let key = format!("(rt {} {} {})", sx::qs(&jname(rt.get("principal")?)), json_uid(rt.get("action")?)?, sx::qs(&jname(rt.get("resource")?)));
        out.insert(key, rtrie_sx(kv.get(1)?)?);
    }
    Some(out)
}

// ------------------------------------------------------------------------------------------------
// manifest-stressing policy families
// ------------------------------------------------------------------------------------------------

fn is_ident(a: &str) -> bool {
    const RESERVED: &[&str] = &["if", "then", "else", "true", "false", "in", "like", "has", "is", "__cedar"];
    let mut cs = a.chars();
    match cs.next() {
        Some(c) if c.is_ascii_alphabetic() || c == '_' => {}
        _ => return false,
    }
    cs.all(|c| c.is_ascii_alphanumeric() || c == '_') && !RESERVED.contains(&a)
}

fn dot(e: &str, a: &str) -> String {
    if is_ident(a) { format!("{e}.{a}") } else { format!("{e}[{}]", cedar_str(a)) }
}

fn has(e: &str, a: &str) -> String {
    if is_ident(a) { format!("{e} has {a}") } else { format!("{e} has {}", cedar_str(a)) }
}

#[derive(Clone, Debug)]
struct Path {
    text: String,
    ty: STy,
    guards: Vec<String>,
    depth: u32,
}

/// attribute steps available on a value of type `ty`
fn steps(spec: &SchemaSpec, ty: &STy) -> Vec<(String, STy, bool)> {
    match ty {
        STy::Entity(t) => spec.etype(t).map(|et| et.attrs.iter().map(|a| (a.name.clone(), gt::norm(&a.ty), a.required)).collect()).unwrap_or_default(),
        STy::Record(attrs) => attrs.iter().map(|a| (a.name.clone(), gt::norm(&a.ty), a.required)).collect(),
        _ => vec![],
    }
}

fn extend(spec: &SchemaSpec, p: &Path) -> Vec<Path> {
    steps(spec, &p.ty)
        .into_iter()
        .map(|(a, ty, req)| {
            let mut guards = p.guards.clone();
            if !req {
                guards.push(has(&p.text, &a));
            }
            Path { text: dot(&p.text, &a), ty, guards, depth: p.depth + 1 }
        })
        .collect()
}

fn all_paths(spec: &SchemaSpec, pt: &str, ai: usize, rt: &str) -> Vec<Path> {
    let mut frontier = vec![
        Path { text: "principal".into(), ty: STy::Entity(pt.to_string()), guards: vec![], depth: 0 },
        Path { text: "resource".into(), ty: STy::Entity(rt.to_string()), guards: vec![], depth: 0 },
    ];
    if let Some(ap) = &spec.actions[ai].applies {
        frontier.push(Path { text: "context".into(), ty: gt::norm(&STy::Record(ap.context.clone())), guards: vec![], depth: 0 });
    }
    let mut out = Vec::new();
    for _ in 0..4 {
        let mut next = Vec::new();
        for p in &frontier {
            next.extend(extend(spec, p));
        }
        out.append(&mut frontier);
        next.truncate(150usize.saturating_sub(out.len()));
        frontier = next;
    }
    out.extend(frontier);
    out
}

struct Stress<'a> {
    spec: &'a SchemaSpec,
    paths: Vec<Path>,
}

fn merge_guards(into: &mut Vec<String>, g: &[String]) {
    for x in g {
        if !into.contains(x) {
            into.push(x.clone());
        }
    }
}

impl<'a> Stress<'a> {
    fn of_ty(&self, ty: &STy) -> Vec<&Path> {
        self.paths.iter().filter(|p| &p.ty == ty).collect()
    }
    fn entity_paths(&self) -> Vec<&Path> {
        self.paths.iter().filter(|p| matches!(p.ty, STy::Entity(_)) && p.text != "context").collect()
    }
    fn pick_where(&self, r: &mut Rng, f: impl Fn(&Path) -> bool) -> Option<Path> {
        let c: Vec<&Path> = self.paths.iter().filter(|p| f(p)).collect();
        if c.is_empty() { None } else { Some((*r.pick(&c)).clone()) }
    }
    fn lit_of(&self, r: &mut Rng, t: &str) -> String {
        uid_text(&gs::gen_uid_of(r, self.spec, t))
    }

    /// a boolean expression observing a value of type `ty` denoted by `e` (guards are appended to `g`)
    fn observe(&self, r: &mut Rng, e: &str, ty: &STy, g: &mut Vec<String>, depth: u32) -> String {
        match ty {
            STy::Bool => e.to_string(),
            STy::Long => format!("{e} > {}", r.range(-2, 5)),
            STy::Str => if r.chance(50) { format!("{e} like \"*a*\"") } else { format!("{e} == \"a\"") },
            STy::Ext(_) => format!("{e} == {e}"),
            STy::Entity(t) => {
                let same: Vec<&Path> = self.of_ty(ty);
                let sets: Vec<&Path> = self.of_ty(&STy::Set(Box::new(ty.clone())));
                match r.below(7) {
                    0 => format!("{e} == {}", self.lit_of(r, t)),
                    1 if !same.is_empty() => {
                        let o = (*r.pick(&same)).clone();
                        merge_guards(g, &o.guards);
                        format!("{e} == {}", o.text)
                    }
                    2 if !sets.is_empty() => {
                        let o = (*r.pick(&sets)).clone();
                        merge_guards(g, &o.guards);
                        if r.chance(50) { format!("{e} in {}", o.text) } else { format!("{}.contains({e})", o.text) }
                    }
                    3 => {
                        // `in` towards any entity path / literal (the validator keeps what the hierarchy allows)
                        let ents = self.entity_paths();
                        if !ents.is_empty() && r.chance(70) {
                            let o = (*r.pick(&ents)).clone();
                            merge_guards(g, &o.guards);
                            format!("{e} in {}", o.text)
                        } else {
                            let anc = self.spec.allowed_ancestor_types(t);
                            let tt = if anc.is_empty() { t.clone() } else { r.pick(&anc).clone() };
                            format!("{e} in {}", self.lit_of(r, &tt))
                        }
                    }
                    _ => {
                        // dereference further
                        let st = steps(self.spec, ty);
                        if st.is_empty() || depth == 0 {
                            format!("{e} == {}", self.lit_of(r, t))
                        } else {
                            let (a, aty, req) = r.pick(&st).clone();
                            if !req {
                                g.push(has(e, &a));
                            }
                            if r.chance(15) {
                                return has(e, &a);
                            }
                            self.observe(r, &dot(e, &a), &aty, g, depth - 1)
                        }
                    }
                }
            }
            STy::Set(el) => {
                let same: Vec<&Path> = self.of_ty(ty);
                match r.below(4) {
                    0 => format!("{e}.isEmpty()"),
                    1 if !same.is_empty() => {
                        let o = (*r.pick(&same)).clone();
                        merge_guards(g, &o.guards);
                        if r.chance(50) { format!("{e}.containsAny({})", o.text) } else { format!("{e}.containsAll({})", o.text) }
                    }
                    2 => {
                        let els: Vec<&Path> = self.of_ty(el);
                        if els.is_empty() {
                            format!("{e} == {e}")
                        } else {
                            let o = (*r.pick(&els)).clone();
                            merge_guards(g, &o.guards);
                            format!("{e}.contains({})", o.text)
                        }
                    }
                    _ => {
                        if let STy::Entity(t) = &**el {
                            let ents: Vec<&Path> = self.entity_paths();
                            if !ents.is_empty() && r.chance(60) {
                                let o = (*r.pick(&ents)).clone();
                                merge_guards(g, &o.guards);
                                format!("{} in {e}", o.text)
                            } else {
                                format!("{e}.contains({})", self.lit_of(r, t))
                            }
                        } else {
                            format!("{e} == {e}")
                        }
                    }
                }
            }
            STy::Record(attrs) => {
                let same: Vec<&Path> = self.of_ty(ty);
                match r.below(4) {
                    0 if !same.is_empty() => {
                        let o = (*r.pick(&same)).clone();
                        merge_guards(g, &o.guards);
                        format!("{e} == {}", o.text)
                    }
                    1 if !attrs.is_empty() => {
                        let a = r.pick(attrs);
                        has(e, &a.name)
                    }
                    _ if !attrs.is_empty() && depth > 0 => {
                        let a = r.pick(attrs).clone();
                        if !a.required {
                            g.push(has(e, &a.name));
                        }
                        self.observe(r, &dot(e, &a.name), &a.ty, g, depth - 1)
                    }
                    _ => format!("{e} == {e}"),
                }
            }
            STy::Common(_, d) => self.observe(r, e, &gt::norm(d), g, depth),
        }
    }

    /// one condition (guards && body) of the named family; `None` if the schema offers nothing for it
    fn family(&self, r: &mut Rng, fam: &str) -> Option<String> {
        let mut g: Vec<String> = Vec::new();
        let body = match fam {
            // principal.a.b.c observed at the end
            "chain" => {
                let p = self.pick_where(r, |p| p.depth >= 2).or_else(|| self.pick_where(r, |p| p.depth >= 1))?;
                merge_guards(&mut g, &p.guards);
                self.observe(r, &p.text, &p.ty, &mut g, 2)
            }
            // has-guards only (including on the last step)
            "has" => {
                let p = self.pick_where(r, |p| !steps(self.spec, &p.ty).is_empty())?;
                merge_guards(&mut g, &p.guards);
                let st = steps(self.spec, &p.ty);
                let (a, _, _) = r.pick(&st).clone();
                if r.chance(20) { has(&p.text, "nosuchattr") } else { has(&p.text, &a) }
            }
            // `x in set-of-entities`, `.contains`
            "in-set" => {
                let p = self.pick_where(r, |p| matches!(&p.ty, STy::Set(e) if matches!(**e, STy::Entity(_))))?;
                merge_guards(&mut g, &p.guards);
                let ents = self.entity_paths();
                let o = (*r.pick(&ents)).clone();
                merge_guards(&mut g, &o.guards);
                match r.below(3) {
                    0 => format!("{} in {}", o.text, p.text),
                    1 => format!("{}.contains({})", p.text, o.text),
                    _ => format!("{} in [{}, {}]", o.text, (*r.pick(&ents)).text.clone(), o.text),
                }
            }
            // entity `in` entity (ancestors)
            "in-entity" => {
                let ents = self.entity_paths();
                let a = (*r.pick(&ents)).clone();
                let b = (*r.pick(&ents)).clone();
                merge_guards(&mut g, &a.guards);
                merge_guards(&mut g, &b.guards);
                if r.chance(60) {
                    format!("{} in {}", a.text, b.text)
                } else if let STy::Entity(t) = &b.ty {
                    let anc = self.spec.allowed_ancestor_types(t);
                    let tt = if anc.is_empty() || r.chance(30) { t.clone() } else { r.pick(&anc).clone() };
                    format!("{} in {}", b.text, self.lit_of(r, &tt))
                } else {
                    return None;
                }
            }
            // == between records (possibly containing entities), literal records wrapping entities
            "rec-eq" => {
                let recs: Vec<&Path> = self.paths.iter().filter(|p| matches!(p.ty, STy::Record(_)) && p.text != "context").collect();
                if !recs.is_empty() && r.chance(60) {
                    let a = (*r.pick(&recs)).clone();
                    let same = self.of_ty(&a.ty);
                    let b = (*r.pick(&same)).clone();
                    merge_guards(&mut g, &a.guards);
                    merge_guards(&mut g, &b.guards);
                    format!("{} == {}", a.text, b.text)
                } else {
                    let ents = self.entity_paths();
                    let a = (*r.pick(&ents)).clone();
                    let same = self.of_ty(&a.ty);
                    let b = (*r.pick(&same)).clone();
                    merge_guards(&mut g, &a.guards);
                    merge_guards(&mut g, &b.guards);
                    format!("{{k: {}, n: 1}} == {{k: {}, n: 1}}", a.text, b.text)
                }
            }
            // a record literal containing an entity, projected and dereferenced
            "rec-proj" => {
                let a = (*r.pick(&self.entity_paths())).clone();
                merge_guards(&mut g, &a.guards);
                let other = self.pick_where(r, |_| true)?;
                merge_guards(&mut g, &other.guards);
                let wrapped = format!("{{k: {}, j: {}}}.k", a.text, other.text);
                self.observe(r, &wrapped, &a.ty, &mut g, 2)
            }
            // `if c then e1 else e2` producing an entity that is then dereferenced
            "if-entity" => {
                let a = (*r.pick(&self.entity_paths())).clone();
                let same = self.of_ty(&a.ty);
                let b = (*r.pick(&same)).clone();
                merge_guards(&mut g, &a.guards);
                merge_guards(&mut g, &b.guards);
                let c = self.pick_where(r, |p| matches!(p.ty, STy::Bool | STy::Long | STy::Str))?;
                merge_guards(&mut g, &c.guards);
                let mut gc = Vec::new();
                let ctext = self.observe(r, &c.text, &c.ty, &mut gc, 0);
                merge_guards(&mut g, &gc);
                let ite = format!("(if {ctext} then {} else {})", a.text, b.text);
                self.observe(r, &ite, &a.ty, &mut g, 2)
            }
            // entity literals as roots
            "literal" => {
                let ets: Vec<&gs::ETypeSpec> = self.spec.etypes.iter().filter(|e| e.enum_ids.is_none()).collect();
                if ets.is_empty() {
                    return None;
                }
                let et = *r.pick(&ets);
                let l = self.lit_of(r, &et.name);
                self.observe(r, &l, &STy::Entity(et.name.clone()), &mut g, 3)
            }
            // set literal of entities
            "set-lit" => {
                let a = (*r.pick(&self.entity_paths())).clone();
                let same = self.of_ty(&a.ty);
                let b = (*r.pick(&same)).clone();
                let c = (*r.pick(&same)).clone();
                merge_guards(&mut g, &a.guards);
                merge_guards(&mut g, &b.guards);
                merge_guards(&mut g, &c.guards);
                if r.chance(50) { format!("[{}, {}].contains({})", a.text, b.text, c.text) } else { format!("{} in [{}, {}]", c.text, a.text, b.text) }
            }
            // several `in` tests on the SAME left entity whose right-hand sides are prefix-related attribute paths
            // (`x in r.a.b || x in r.a`, both orders, `&&`, `if`, the set forms `x in [r.a.b, r.a]`, three-step prefixes):
            // the ancestor requests for the shorter path land on an interior node of the trie of the longer one
            "in-prefix" => {
                let ents = self.entity_paths();
                let ext_of = |p1: &Path, p2: &Path| p2.text.len() > p1.text.len() && p2.text.starts_with(&p1.text) && matches!(p2.text.as_bytes()[p1.text.len()], b'.' | b'[');
                let mut pairs: Vec<(&Path, &Path)> = Vec::new();
                for p1 in &ents {
                    for p2 in &ents {
                        if ext_of(p1, p2) {
                            pairs.push((*p1, *p2));
                        }
                    }
                }
                if pairs.is_empty() {
                    return None;
                }
                let below = |t: &STy, u: &STy| match (t, u) {
                    (STy::Entity(t), STy::Entity(u)) => t == u || self.spec.allowed_ancestor_types(t).contains(u),
                    _ => false,
                };
                // prefer a triple the hierarchy allows (the validator drops the others anyway)
                let good: Vec<(&Path, &Path)> = pairs.iter().filter(|(p1, p2)| ents.iter().any(|a| below(&a.ty, &p1.ty) && below(&a.ty, &p2.ty))).cloned().collect();
                let (p1, p2) = if !good.is_empty() && r.chance(90) { *r.pick(&good) } else { *r.pick(&pairs) };
                let lefts: Vec<&Path> = ents.iter().filter(|a| below(&a.ty, &p1.ty) && below(&a.ty, &p2.ty)).cloned().collect();
                let a = if !lefts.is_empty() && r.chance(90) { (*r.pick(&lefts)).clone() } else { (*r.pick(&ents)).clone() };
                let thirds: Vec<&Path> = ents.iter().filter(|p3| ext_of(p2, p3) && below(&a.ty, &p3.ty)).cloned().collect();
                merge_guards(&mut g, &a.guards);
                merge_guards(&mut g, &p1.guards);
                merge_guards(&mut g, &p2.guards);
                let (x, s, l) = (&a.text, &p1.text, &p2.text);
                if !thirds.is_empty() && r.chance(30) {
                    let p3 = (*r.pick(&thirds)).clone();
                    merge_guards(&mut g, &p3.guards);
                    let l3 = &p3.text;
                    match r.below(4) {
                        0 => format!("({x} in {l3} || {x} in {l} || {x} in {s})"),
                        1 => format!("({x} in {l} || {x} in {l3} || {x} in {s})"),
                        2 => format!("{x} in [{l3}, {l}, {s}]"),
                        _ => format!("({x} in [{l3}, {s}] || {x} in {l})"),
                    }
                } else {
                    match r.below(10) {
                        0 | 1 => format!("({x} in {l} || {x} in {s})"),
                        2 => format!("({x} in {s} || {x} in {l})"),
                        3 | 4 => format!("{x} in [{l}, {s}]"),
                        5 => format!("{x} in [{s}, {l}]"),
                        6 => format!("(!({x} in {l}) && {x} in {s})"),
                        7 => format!("(if {x} in {l} then false else {x} in {s})"),
                        8 => format!("({x} in [{l}] || {x} in [{s}])"),
                        _ => format!("({x} in {l} || {l} == {s} || {x} in {s})"),
                    }
                }
            }
            _ => return None,
        };
        // guards first (in dependency order: they were collected prefix-first)
        let mut parts = g;
        parts.push(body);
        Some(parts.join(" && "))
    }
}

const FAMILIES: &[&str] = &["chain", "has", "in-set", "in-entity", "rec-eq", "rec-proj", "if-entity", "literal", "set-lit", "in-prefix", "in-prefix"];

#[derive(Clone, Debug)]
struct Pol {
    text: String,
    family: String,
    /// slot values of a template link
    link: Option<(Option<Uid>, Option<Uid>)>,
    target: (String, usize, String),
}

fn pick_env(r: &mut Rng, spec: &SchemaSpec) -> Option<(String, usize, String)> {
    let c: Vec<usize> = (0..spec.actions.len()).filter(|&i| spec.actions[i].applies.as_ref().map_or(false, |a| !a.principals.is_empty() && !a.resources.is_empty())).collect();
    if c.is_empty() {
        return None;
    }
    let ai = *r.pick(&c);
    let ap = spec.actions[ai].applies.as_ref().unwrap();
    Some((r.pick(&ap.principals).clone(), ai, r.pick(&ap.resources).clone()))
}

fn action_scope(r: &mut Rng, spec: &SchemaSpec, ai: usize) -> String {
    let au = uid_text(&spec.actions[ai].uid());
    let anc = spec.action_ancestors(ai);
    match r.below(5) {
        0 if !anc.is_empty() => format!("action in {}", uid_text(&spec.actions[*r.pick(&anc)].uid())),
        1 => format!("action in [{au}]"),
        _ => format!("action == {au}"),
    }
}

/// stress policies for a world (strictly valid ones only)
fn stress_policies(r: &mut Rng, w: &SchemaWorld, n: usize, out: &mut Out) -> Vec<Pol> {
    let spec = &w.spec;
    let mut res = Vec::new();
    let Some(env) = pick_env(r, spec) else { return res };
    let mut attempts = 0;
    // several policies share the environment (and so paths); sometimes switch
    let mut env = env;
    while res.len() < n && attempts < 12 * n {
        attempts += 1;
        if r.chance(25) {
            if let Some(e) = pick_env(r, spec) {
                env = e;
            }
        }
        let (pt, ai, rt) = env.clone();
        let st = Stress { spec, paths: all_paths(spec, &pt, ai, &rt) };
        let fam = *r.pick(FAMILIES);
        let Some(cond) = st.family(r, fam) else { continue };
        let effect = if r.chance(80) { "permit" } else { "forbid" };
        let template = r.chance(12);
        let (ps, rs) = if template {
            (if r.chance(50) { format!("principal in ?principal") } else { format!("principal == ?principal") }, if r.chance(50) { format!("resource in ?resource") } else { format!("resource is {rt} in ?resource") })
        } else {
            (format!("principal is {pt}"), format!("resource is {rt}"))
        };
        let pre = if template { format!("principal is {pt} && resource is {rt} && ") } else { String::new() };
        let body_action = if r.chance(15) {
            // action `in` inside the condition as well
            let anc = spec.action_ancestors(ai);
            if anc.is_empty() { String::new() } else { format!("action in {} && ", uid_text(&spec.actions[*r.pick(&anc)].uid())) }
        } else {
            String::new()
        };
        let text = format!("{effect}({ps}, {}, {rs}) when {{ {pre}{body_action}{cond} }};", action_scope(r, spec, ai));
        let accepted = gt::strict_accepts(w, &text);
        out.count(&format!("stress:{fam}:{}", if accepted { "accepted" } else { "rejected" }));
        if !accepted {
            if out.samples.len() < 5 && r.chance(10) {
                out.sample(format!("REJECTED stress [{fam}] {text}"));
            }
            continue;
        }
        let link = if template {
            let pick = |r: &mut Rng, ty: &str| {
                let anc = spec.allowed_ancestor_types(ty);
                let t = if !anc.is_empty() && r.chance(60) { r.pick(&anc).clone() } else { ty.to_string() };
                gs::gen_uid_of(r, spec, &t)
            };
            Some((Some(pick(r, &pt)), Some(pick(r, &rt))))
        } else {
            None
        };
        res.push(Pol { text, family: format!("stress:{fam}{}", if template { ":template" } else { "" }), link, target: env.clone() });
    }
    res
}

// ------------------------------------------------------------------------------------------------
// one world
// ------------------------------------------------------------------------------------------------

fn build_pset(pols: &[Pol]) -> Result<PolicySet, String> {
    let mut ps = PolicySet::new();
    for (i, p) in pols.iter().enumerate() {
        match &p.link {
            None => {
                let pol = parser::parse_policy(Some(PolicyID::from_string(format!("p{i}"))), &p.text).map_err(|e| format!("parse: {e}"))?;
                ps.add_static(pol).map_err(|e| format!("add: {e}"))?;
            }
            Some((lp, lr)) => {
                let t = parser::parse_policy_or_template(Some(PolicyID::from_string(format!("t{i}"))), &p.text).map_err(|e| format!("parse: {e}"))?;
                ps.add_template(t).map_err(|e| format!("add: {e}"))?;
                let mut slots: HashMap<SlotId, EntityUID> = HashMap::new();
                if let Some(u) = lp { slots.insert(SlotId::principal(), gs::mk_uid(u)); }
                if let Some(u) = lr { slots.insert(SlotId::resource(), gs::mk_uid(u)); }
                ps.link(PolicyID::from_string(format!("t{i}")), PolicyID::from_string(format!("p{i}")), slots).map_err(|e| format!("link: {e}"))?;
            }
        }
    }
    Ok(ps)
}

fn manifest_err_name(e: &EntityManifestError) -> &'static str {
    match e {
        EntityManifestError::Validation(_) => "validation",
        EntityManifestError::Entities(_) => "entities",
        EntityManifestError::PartialRequest(_) => "partial-request",
        EntityManifestError::PartialExpression(_) => "partial-expression",
        EntityManifestError::UnsupportedCedarFeature(_) => "unsupported-feature",
    }
}

fn compute(schema: &ValidatorSchema, ps: &PolicySet) -> Result<Result<EntityManifest, EntityManifestError>, String> {
    catch_unwind(AssertUnwindSafe(|| compute_entity_manifest(&Validator::new(schema.clone()), ps))).map_err(crate::c02::panic_msg)
}

fn resp_canon(r: &Response) -> String {
    let d = match r.decision {
        Decision::Allow => "allow",
        Decision::Deny => "deny",
    };
    let reasons = sx::ids(r.diagnostics.reason.iter().map(|i| { let s: &str = i.as_ref(); s.to_string() }));
    let errors = sx::ids(r.diagnostics.errors.iter().map(|e| match e {
        cedar_policy_core::authorizer::AuthorizationError::PolicyEvaluationError { id, .. } => { let s: &str = id.as_ref(); s.to_string() }
    }));
    format!("(resp {d} {reasons} {errors})")
}

fn store_size(es: &Entities) -> (usize, usize, usize) {
    let mut n = (0, 0, 0);
    for e in es.iter() {
        n.0 += 1;
        n.1 += e.attrs().count();
        n.2 += e.ancestors().count();
    }
    n
}

/// typed ASTs (strict mode) of a template grouped by request type key; `None` marks a group with an env that has no
/// usable typed AST (failure / unknown)
fn typed_by_reqtype(schema: &ValidatorSchema, t: &ast::Template) -> Result<BTreeMap<String, Option<Vec<String>>>, String> {
    catch_unwind(AssertUnwindSafe(|| {
        let tc = Typechecker::new(schema, ValidationMode::Strict);
        let mut m: BTreeMap<String, Option<Vec<String>>> = BTreeMap::new();
        for (env, check) in tc.typecheck_by_request_env(t) {
            let Some(rt) = env.to_request_type() else { continue };
            let key = reqtype_sx(&rt.principal.to_string(), &rt.action, &rt.resource.to_string());
            let entry = m.entry(key).or_insert_with(|| Some(vec![]));
            match check {
                PolicyCheck::Success(e) => match (texpr(&e), entry.as_mut()) {
                    (Some(s), Some(v)) => v.push(s),
                    _ => *entry = None,
                },
                PolicyCheck::Irrelevant(_, _) => {}
                PolicyCheck::Fail(_) => *entry = None,
            }
        }
        m
    }))
    .map_err(crate::c02::panic_msg)
}


/// a policy set under test with everything derived from it
struct SetCtx<'a> {
    schema: &'a ValidatorSchema,
    ssx: String,
    cname: String,
    ps: PolicySet,
    pols: Vec<Pol>,
    /// per policy: request-type keys in which every environment is `Irrelevant` (typed False)
    irrelevant: Vec<std::collections::BTreeSet<String>>,
    manifest: EntityManifest,
    tries: Option<BTreeMap<String, String>>,
    full: Entities,
    full_sx: Option<String>,
    full_size: (usize, usize, usize),
    case0: String,
    set_text: String,
    store_json: String,
    /// for sets with template links: the same set with every slot replaced by its link value (static policies),
    /// and its manifest
    inlined: Option<(PolicySet, EntityManifest)>,
}

fn inline_slots(p: &Pol) -> Pol {
    let mut q = p.clone();
    if let Some((lp, lr)) = &p.link {
        if let Some(u) = lp { q.text = q.text.replace("?principal", &uid_text(u)); }
        if let Some(u) = lr { q.text = q.text.replace("?resource", &uid_text(u)); }
        q.link = None;
    }
    q
}

fn outcome(ev: &Evaluator<'_>, p: &ast::Policy) -> &'static str {
    match catch_unwind(AssertUnwindSafe(|| ev.evaluate(p))) {
        Ok(Ok(true)) => "sat",
        Ok(Ok(false)) => "unsat",
        Ok(Err(_)) => "err",
        Err(_) => "panic",
    }
}

/// per-policy manifests: drop what the analysis declares unsupported; diff the supported ones with the model
fn supported_policies(out: &mut Out, r: &mut Rng, schema: &ValidatorSchema, ssx: &str, schema_json: &str, cname: &str, pols_in: Vec<Pol>, want_key: &dyn Fn(&Pol) -> Option<String>) -> Vec<(Pol, std::collections::BTreeSet<String>)> {
    let mut pols = Vec::new();
    for p in pols_in {
        let ps1 = match build_pset(std::slice::from_ref(&p)) {
            Ok(ps) => ps,
            Err(e) => {
                out.count("policy_unbuildable");
                out.sample(format!("UNBUILDABLE {} :: {e}", p.text));
                continue;
            }
        };
        let case = format!("{cname} [{}] policy=`{}` link={:?} schema={schema_json}", p.family, p.text, p.link);
        if p.link.is_some() {
            // the *linked* policy must be strictly valid as well
            let ok = catch_unwind(AssertUnwindSafe(|| Validator::new(schema.clone()).validate(&ps1, ValidationMode::Strict).validation_passed())).unwrap_or(false);
            out.count(&format!("link:{}", if ok { "accepted" } else { "rejected_by_validation" }));
            if !ok {
                continue;
            }
        }
        match compute(schema, &ps1) {
            Err(pm) => {
                out.propfail("panic in compute_entity_manifest", &case, &pm);
                continue;
            }
            Ok(Err(e)) => {
                let name = manifest_err_name(&e);
                out.count(&format!("manifest_error:{name}"));
                out.count(&format!("manifest_error:{name}:{}", p.family.split(':').take(2).collect::<Vec<_>>().join(":")));
                if name != "unsupported-feature" {
                    out.propfail("compute_entity_manifest fails on a strictly valid policy", &case, &format!("{name}: {e}"));
                } else if !(p.text.contains("getTag") || p.text.contains("hasTag")) {
                    out.propfail("UnsupportedCedarFeature for a policy without tags", &case, &format!("{e}"));
                } else {
                    out.count("unsupported:tags");
                }
                continue;
            }
            Ok(Ok(m)) => {
                out.count("manifest_ok");
                out.count(&format!("policies:{}", p.family));
                let mut irrelevant = std::collections::BTreeSet::new();
                // correspondence of the analysis, per request type (at most 3 per policy)
                let t = ps1.all_templates().next().cloned();
                if let (Some(t), Some(tries)) = (t, manifest_tries(&m)) {
                    match typed_by_reqtype(schema, &t) {
                        Ok(groups) => {
                            for (k, g) in &groups {
                                if matches!(g, Some(v) if v.is_empty()) {
                                    irrelevant.insert(k.clone());
                                }
                            }
                            let keys: Vec<&String> = groups.keys().collect();
                            let mut chosen: Vec<&String> = Vec::new();
                            if let Some(want) = want_key(&p) {
                                if let Some(k) = keys.iter().find(|k| ***k == want) {
                                    chosen.push(k);
                                }
                            }
                            // prefer environments in which the policy is relevant (an irrelevant one yields `(rtrie)`)
                            let relevant: Vec<&String> = groups.iter().filter(|(_, g)| !matches!(g, Some(v) if v.is_empty())).map(|(k, _)| k).collect();
                            let mut tries_left = 12;
                            while chosen.len() < 3.min(keys.len()) && tries_left > 0 {
                                tries_left -= 1;
                                let k = if !relevant.is_empty() && r.chance(85) { *r.pick(&relevant) } else { *r.pick(&keys) };
                                if !chosen.contains(&k) {
                                    chosen.push(k);
                                }
                            }
                            for k in chosen {
                                let Some(Some(typed)) = groups.get(k) else { out.count("manifest_line_skipped:no_typed_ast"); continue };
                                let Some(imp) = tries.get(k) else {
                                    out.propfail("manifest has no entry for a request type of the policy", &case, k);
                                    continue;
                                };
                                out.line(format!("(manifest {ssx} {k} {})", typed.join(" ")), imp.clone(), format!("{cname} [{}] manifest of `{}` for {k}", p.family, p.text));
                                out.count("manifest_lines");
                                if typed.is_empty() { out.count("manifest_lines:irrelevant_env"); }
                                if imp != "(rtrie)" { out.nontrivial(&format!("m|{}|{k}|{imp}", p.text)); }
                            }
                        }
                        Err(pm) => out.propfail("panic in the typechecker", &case, &pm),
                    }
                } else {
                    out.count("manifest_json_unreadable");
                }
                pols.push((p, irrelevant));
            }
        }
    }
    pols
}

#[allow(clippy::too_many_arguments)]
fn make_set<'a>(out: &mut Out, schema: &'a ValidatorSchema, ssx: String, schema_json: &str, cname: &str, pols: Vec<(Pol, std::collections::BTreeSet<String>)>, full: Entities, store_json: String) -> Option<SetCtx<'a>> {
    let (pols, irrelevant): (Vec<Pol>, Vec<_>) = pols.into_iter().unzip();
    let ps = match build_pset(&pols) {
        Ok(ps) => ps,
        Err(e) => {
            out.count("policy_set_unbuildable");
            out.sample(format!("SET UNBUILDABLE {e}"));
            return None;
        }
    };
    let set_text = pols.iter().enumerate().map(|(i, p)| format!("p{i}{}: {}", p.link.as_ref().map_or(String::new(), |l| format!(" link={l:?}")), p.text)).collect::<Vec<_>>().join("  ");
    let case0 = format!("{cname} policies=[{set_text}] schema={schema_json}");
    let manifest = match compute(schema, &ps) {
        Err(pm) => {
            out.propfail("panic in compute_entity_manifest", &case0, &pm);
            return None;
        }
        Ok(Err(e)) => {
            out.propfail("compute_entity_manifest fails on a set of individually supported policies", &case0, &format!("{}: {e}", manifest_err_name(&e)));
            return None;
        }
        Ok(Ok(m)) => m,
    };
    out.count("policy_sets");
    out.add("policies_in_sets", pols.len() as u64);
    let tries = manifest_tries(&manifest);
    // serde round trip of the manifest (the public way to persist it)
    if let Ok(js) = serde_json::to_string(&manifest) {
        match catch_unwind(AssertUnwindSafe(|| EntityManifest::from_json_str(&js, schema))) {
            Ok(Ok(m2)) => {
                if m2 != manifest {
                    out.propfail("manifest JSON round trip changes the manifest", &case0, &js);
                }
            }
            Ok(Err(e)) => out.propfail("manifest JSON does not load back", &case0, &format!("{e}")),
            Err(pm) => out.propfail("panic loading the manifest JSON", &case0, &crate::c02::panic_msg(pm)),
        }
    }
    let full_sx = sx::entities(&full);
    let full_size = store_size(&full);
    let inlined = if pols.iter().any(|p| p.link.is_some()) {
        let ip: Vec<Pol> = pols.iter().map(inline_slots).collect();
        match build_pset(&ip) {
            Ok(ps2) => match compute(schema, &ps2) {
                Ok(Ok(m2)) => Some((ps2, m2)),
                _ => None,
            },
            Err(_) => None,
        }
    } else {
        None
    };
    Some(SetCtx { schema, ssx, cname: cname.to_string(), ps, pols, irrelevant, manifest, tries, full, full_sx, full_size, case0, set_text, store_json, inlined })
}

/// the property for one request (and, if `emit_line`, the slicer correspondence line)
fn check_request(out: &mut Out, cx: &SetCtx<'_>, req: &ast::Request, req_text: &str, req_sx: &str, emit_line: bool) {
    let ext = Extensions::all_available();
    let auth = Authorizer::new();
    let describe = || format!("{} request: {req_text} store={}", cx.case0, cx.store_json);
    out.count("requests");
    let sliced = match catch_unwind(AssertUnwindSafe(|| cx.manifest.slice_entities(&cx.full, req))) {
        Ok(Ok(s)) => s,
        Ok(Err(e)) => {
            out.propfail("slice_entities fails on a conformant store and request", &describe(), &format!("{e}"));
            return;
        }
        Err(pm) => {
            out.propfail("panic in slice_entities", &describe(), &crate::c02::panic_msg(pm));
            return;
        }
    };
    let a_full = catch_unwind(AssertUnwindSafe(|| auth.is_authorized(req.clone(), &cx.ps, &cx.full)));
    let a_slice = catch_unwind(AssertUnwindSafe(|| auth.is_authorized(req.clone(), &cx.ps, &sliced)));
    let (a_full, a_slice) = match (a_full, a_slice) {
        (Ok(a), Ok(b)) => (a, b),
        _ => {
            out.propfail("panic in is_authorized", &describe(), "");
            return;
        }
    };
    let (cf, cs) = (resp_canon(&a_full), resp_canon(&a_slice));
    out.count(&format!("decision:{}", if a_full.decision == Decision::Allow { "allow" } else { "deny" }));
    if !a_full.diagnostics.errors.is_empty() { out.count("responses_with_erroring_policies"); }
    if !a_full.diagnostics.reason.is_empty() { out.count("responses_with_reasons"); }
    // per-policy outcomes on both stores: which policies behave differently, and why
    let rt = match req.to_request_type() {
        Some(t) => reqtype_sx(&t.principal.to_string(), &t.action, &t.resource.to_string()),
        None => String::new(),
    };
    let ev_full = Evaluator::new(req.clone(), &cx.full, ext);
    let ev_slice = Evaluator::new(req.clone(), &sliced, ext);
    let mut differing: Vec<String> = Vec::new();
    let mut causes: std::collections::BTreeSet<&'static str> = std::collections::BTreeSet::new();
    for (i, p) in cx.pols.iter().enumerate() {
        let id = PolicyID::from_string(format!("p{i}"));
        let Some(pol) = cx.ps.get(&id) else { continue };
        let (of, os) = (outcome(&ev_full, pol), outcome(&ev_slice, pol));
        out.count(&format!("policy_outcome:{of}"));
        if of != os {
            let cause = if cx.irrelevant[i].contains(&rt) {
                "policy typed False in the request environment"
            } else if p.link.is_some() {
                // is it the slot?  the same policy with the slot values written in place must slice correctly
                let ok = cx.inlined.as_ref().map_or(false, |(ps2, m2)| {
                    match (catch_unwind(AssertUnwindSafe(|| m2.slice_entities(&cx.full, req))), ps2.get(&id)) {
                        (Ok(Ok(s2)), Some(pol2)) => {
                            let ev2 = Evaluator::new(req.clone(), &s2, ext);
                            outcome(&ev2, pol2) == of && outcome(&ev_full, pol2) == of
                        }
                        _ => false,
                    }
                });
                if ok { "template slot analysed as the request variable; the policy with the slot value inlined slices correctly" } else { "UNEXPLAINED (template-linked policy)" }
            } else {
                "UNEXPLAINED"
            };
            causes.insert(cause);
            differing.push(format!("p{i}: full={of} slice={os} ({cause})"));
        }
    }
    if cf != cs {
        let what = if a_full.decision != a_slice.decision {
            "authorization over the slice gives a different DECISION"
        } else if sx::ids(a_full.diagnostics.reason.iter().map(|i| i.to_string())) != sx::ids(a_slice.diagnostics.reason.iter().map(|i| i.to_string())) {
            "authorization over the slice gives different determining policies"
        } else {
            "authorization over the slice gives different erroring policies"
        };
        let cause = if causes.is_empty() { "no policy outcome differs".to_string() } else { causes.iter().cloned().collect::<Vec<_>>().join(" + ") };
        out.propfail(
            &format!("{what} [cause: {cause}]"),
            &describe(),
            &format!("full: {cf} slice: {cs} differing policies: {} sliced store: {}", differing.join("; "), sx::entities(&sliced).unwrap_or_default()),
        );
    } else if !differing.is_empty() {
        // invisible in the response (e.g. a permit's outcome masked by a satisfied forbid)
        out.count("policy_outcome_differs_but_response_equal");
        for c in &causes {
            out.count(&format!("masked_difference:{}", c.split(';').next().unwrap_or("")));
        }
        if causes.iter().any(|c| c.starts_with("UNEXPLAINED")) {
            out.propfail("a policy evaluates differently over the slice (masked in the response) [cause: UNEXPLAINED]", &describe(), &format!("full: {cf} slice: {cs} differing policies: {} sliced store: {}", differing.join("; "), sx::entities(&sliced).unwrap_or_default()));
        }
    }
    // non-vacuity
    let ss = store_size(&sliced);
    let fs = cx.full_size;
    if ss.0 < fs.0 { out.count("slice_drops_entities"); }
    if ss.1 < fs.1 { out.count("slice_drops_attributes"); }
    if ss.2 < fs.2 { out.count("slice_drops_ancestors"); }
    if ss.0 < fs.0 || ss.1 < fs.1 || ss.2 < fs.2 { out.count("slice_strictly_smaller"); } else { out.count("slice_equals_store"); }
    if ss.0 == 0 { out.count("slice_empty"); } else { out.count("slice_nonempty"); }
    if ss.1 > 0 { out.count("slice_keeps_some_attributes"); }
    if ss.2 > 0 { out.count("slice_keeps_some_ancestors"); }
    out.add("entities_full", fs.0 as u64);
    out.add("entities_sliced", ss.0 as u64);
    // correspondence of the slicer
    if emit_line {
        if let (Some(tries), Some(fsx), Some(ssx_)) = (cx.tries.as_ref(), cx.full_sx.as_ref(), sx::entities(&sliced)) {
            let trie = tries.get(&rt).cloned().unwrap_or_else(|| "none".to_string());
            out.line(format!("(mslice {} {rt} {trie} {req_sx} {fsx})", cx.ssx), ssx_.clone(), format!("{} slice for request {req_text} policies=[{}]", cx.cname, cx.set_text));
            out.count("mslice_lines");
            if trie != "none" {
                out.line(format!("(mspec {} {rt} {trie} {req_sx} {fsx})", cx.ssx), "(spec ok)".into(), format!("{} slice specification (SubStore, CoverRoots) for request {req_text} policies=[{}]", cx.cname, cx.set_text));
                out.count("mspec_lines");
            }
            out.nontrivial(&format!("s|{trie}|{ssx_}"));
        }
    }
}

fn request_sx(p: &EntityUID, a: &EntityUID, r: &EntityUID, ctx: ast::Context) -> String {
    let v: ast::Value = match ast::PartialValue::from(ctx) {
        ast::PartialValue::Value(v) => v,
        ast::PartialValue::Residual(_) => ast::Value::empty_record(None),
    };
    sx::request(p, a, r, &v)
}

fn one_world(out: &mut Out, r: &mut Rng, w: &SchemaWorld, cname: &str, n_requests: usize, n_slice_lines: usize, pols_in: Vec<Pol>, store: &gs::Store) {
    let ext = Extensions::all_available();
    let ssx = sx_schema::schema(&w.schema);
    let ents: Result<Vec<ast::Entity>, String> = store.entities.iter().map(|e| e.to_entity()).collect();
    let Ok(ents) = ents else { out.count("store_unbuildable"); return };
    let core = CoreSchema::new(&w.schema);
    let store_json = serde_json::Value::Array(store.entities.iter().map(|e| e.to_json()).collect()).to_string();
    let full = match catch_unwind(AssertUnwindSafe(|| Entities::from_entities(ents, Some(&core), TCComputation::ComputeNow, ext))) {
        Ok(Ok(es)) => es,
        _ => {
            out.count("store_rejected_by_rust_validation");
            return;
        }
    };
    let schema_json = w.json.to_string();
    let spec = &w.spec;
    let want = |p: &Pol| Some(reqtype_sx(&p.target.0, &gs::mk_uid(&spec.actions[p.target.1].uid()), &p.target.2));
    let pols = supported_policies(out, r, &w.schema, &ssx, &schema_json, cname, pols_in, &want);
    if pols.is_empty() {
        out.count("world_without_supported_policy");
        return;
    }
    let Some(cx) = make_set(out, &w.schema, ssx, &schema_json, cname, pols, full, store_json) else { return };
    for k in 0..n_requests {
        let q = if k % 10 < 7 {
            let p = r.pick(&cx.pols);
            gt::gen_request_for(r, &w.spec, p.target.1, &p.target.0, &p.target.2)
        } else {
            gs::gen_request(r, &w.spec)
        };
        let (pu, au, ru) = (gs::mk_uid(&q.principal), gs::mk_uid(&q.action), gs::mk_uid(&q.resource));
        let req = match catch_unwind(AssertUnwindSafe(|| ast::Request::new((pu.clone(), None), (au.clone(), None), (ru.clone(), None), q.to_context(), Some(&w.schema), ext))) {
            Ok(Ok(req)) => req,
            _ => {
                out.count("request_rejected_by_rust_validation");
                continue;
            }
        };
        let req_text = format!("p={} a={} r={} ctx={}", uid_text(&q.principal), uid_text(&q.action), uid_text(&q.resource), q.context_json());
        check_request(out, &cx, &req, &req_text, &request_sx(&pu, &au, &ru, q.to_context()), k < n_slice_lines);
    }
}

pub fn run(args: &Args, out: &mut Out) {
    let mut rng = Rng::new(args.seed);
    probes(out, &mut rng.fork());
    for case in 0..args.n {
        let mut r = rng.fork();
        let sub = r.0;
        // a third of the worlds are the chain worlds of gen_schema_chain.rs (entity-typed attributes forming chains and
        // cycles, dense stores): long attribute paths ending in entities, so that prefix-related paths exist
        let chainy = case % 3 == 2;
        let w = if chainy { crate::gen_schema_chain::gen_chain_world(&mut r) } else { gs::gen_schema_world(&mut r).0 };
        out.cases += 1;
        out.count(if chainy { "worlds:chain" } else { "worlds:generic" });
        let cname = format!("case={case} sub={sub}");
        let store = if chainy { crate::gen_schema_chain::gen_dense_store(&mut r, &w.spec, 80) } else { gs::gen_store(&mut r, &w.spec) };
        // policies: schema-directed valid ones + stress families
        let mut pols: Vec<Pol> = Vec::new();
        let n_typed = r.below(3);
        let opts = gt::GenOpts { templates: false, near_miss_pct: 0, ill_typed_pct: 0, ..gt::GenOpts::default() };
        let mut attempts = 0;
        while pols.len() < n_typed && attempts < 12 {
            attempts += 1;
            let gp = gt::gen_policy(&mut r, &w, &opts);
            if gt::strict_accepts(&w, &gp.text) {
                pols.push(Pol { text: gp.text, family: "gen_typed".into(), link: None, target: gp.target });
            }
        }
        let n_stress = 2 + r.below(4);
        pols.extend(stress_policies(&mut r, &w, n_stress, out));
        if pols.is_empty() {
            out.count("world_without_policies");
            continue;
        }
        one_world(out, &mut r, &w, &cname, 10, 3, pols, &store);
    }
}

// ------------------------------------------------------------------------------------------------
// fixed probes
// ------------------------------------------------------------------------------------------------

const PROBE_SCHEMA: &str = r#"
    entity Group;
    entity User in [Group] { name: String, age?: Long, manager?: User, prefs: { theme?: String, buddy: User }, friends: Set<User>, home: { owner: User, n: Long } };
    entity Doc in [Group] { owner: User, viewers: Set<User>, labels?: Set<String>, meta: { owner: User, n: Long }, parent?: Doc };
    action readOnly;
    action view in [readOnly] appliesTo { principal: User, resource: Doc, context: { actor: User, level: Long, via?: { doc: Doc } } };
    action edit appliesTo { principal: User, resource: Doc, context: { actor: User, level: Long, via?: { doc: Doc } } };
"#;

const PROBE_STORE: &str = r#"[
  {"uid":{"type":"Group","id":"g"},"attrs":{},"parents":[]},
  {"uid":{"type":"Group","id":"h"},"attrs":{},"parents":[]},
  {"uid":{"type":"User","id":"a"},"attrs":{"name":"alice","age":30,"manager":{"__entity":{"type":"User","id":"b"}},"prefs":{"theme":"dark","buddy":{"__entity":{"type":"User","id":"c"}}},"friends":[{"__entity":{"type":"User","id":"b"}}],"home":{"owner":{"__entity":{"type":"User","id":"a"}},"n":1}},"parents":[{"type":"Group","id":"g"}]},
  {"uid":{"type":"User","id":"b"},"attrs":{"name":"bob","prefs":{"buddy":{"__entity":{"type":"User","id":"a"}}},"friends":[],"home":{"owner":{"__entity":{"type":"User","id":"a"}},"n":1}},"parents":[{"type":"Group","id":"h"}]},
  {"uid":{"type":"User","id":"c"},"attrs":{"name":"carol","age":3,"prefs":{"theme":"light","buddy":{"__entity":{"type":"User","id":"zz"}}},"friends":[{"__entity":{"type":"User","id":"a"}},{"__entity":{"type":"User","id":"b"}}],"home":{"owner":{"__entity":{"type":"User","id":"c"}},"n":2}},"parents":[{"type":"Group","id":"g"},{"type":"Group","id":"h"}]},
  {"uid":{"type":"Doc","id":"d"},"attrs":{"owner":{"__entity":{"type":"User","id":"a"}},"viewers":[{"__entity":{"type":"User","id":"b"}},{"__entity":{"type":"User","id":"c"}}],"labels":["x"],"meta":{"owner":{"__entity":{"type":"User","id":"a"}},"n":1},"parent":{"__entity":{"type":"Doc","id":"e"}}},"parents":[{"type":"Group","id":"g"}]},
  {"uid":{"type":"Doc","id":"e"},"attrs":{"owner":{"__entity":{"type":"User","id":"c"}},"viewers":[],"meta":{"owner":{"__entity":{"type":"User","id":"b"}},"n":1}},"parents":[]}
]"#;

/// (name, policies as (text, link of ?principal, link of ?resource))
#[allow(clippy::type_complexity)]
const PROBE_SETS: &[(&str, &[(&str, Option<(&str, &str)>, Option<(&str, &str)>)])] = &[
    ("chain", &[("permit(principal, action, resource) when { principal.prefs.buddy.name == \"carol\" };", None, None)]),
    ("chain-missing-entity", &[("permit(principal, action, resource) when { principal.prefs.buddy.prefs.buddy.name == \"x\" };", None, None)]),
    ("has-guard", &[("permit(principal, action, resource) when { principal has manager && principal.manager has age && principal.manager.age > 1 };", None, None)]),
    ("has-path", &[("permit(principal, action, resource) when { principal has manager.age || resource has parent.parent };", None, None)]),
    ("in-set", &[("permit(principal, action, resource) when { principal in resource.viewers };", None, None)]),
    ("in-set-ancestors", &[("permit(principal, action, resource) when { resource in [principal, resource.owner] || principal in [resource.owner, resource.meta.owner] };", None, None)]),
    ("contains", &[("permit(principal, action, resource) when { resource.viewers.contains(principal) || principal.friends.containsAny(resource.viewers) };", None, None)]),
    ("in-group", &[("permit(principal in Group::\"g\", action, resource in Group::\"g\");", None, None), ("forbid(principal, action, resource) when { principal in Group::\"h\" };", None, None)]),
    ("record-eq", &[("permit(principal, action, resource) when { principal.home == resource.meta };", None, None)]),
    ("record-literal-eq", &[("permit(principal, action, resource) when { {o: principal.prefs.buddy, n: 1} == {o: resource.owner, n: 1} };", None, None)]),
    ("record-projection", &[("permit(principal, action, resource) when { {o: resource.owner, p: principal}.o.name == \"alice\" && {o: resource.owner, p: principal} has o };", None, None)]),
    ("if-entity", &[("permit(principal, action, resource) when { (if principal.name == \"alice\" then principal.prefs.buddy else resource.owner).name like \"c*\" };", None, None)]),
    ("if-entity-in", &[("permit(principal, action, resource) when { (if context.level > 0 then context.actor else principal) in Group::\"g\" };", None, None)]),
    ("literal", &[("permit(principal, action, resource) when { User::\"c\".name like \"c*\" && User::\"b\" in Group::\"h\" && Doc::\"e\".owner == User::\"c\" };", None, None)]),
    ("literal-and-var-same-entity", &[("permit(principal, action, resource) when { User::\"a\".name == \"alice\" && principal.home.n == 1 && resource.owner.home.n == 1 };", None, None)]),
    ("action-in", &[("permit(principal, action in Action::\"readOnly\", resource);", None, None), ("forbid(principal, action, resource) when { action in [Action::\"edit\"] };", None, None)]),
    ("context", &[("permit(principal, action, resource) when { context.actor.name == \"bob\" || (context has via && context.via.doc.owner == principal) };", None, None)]),
    ("shared-paths", &[
        ("permit(principal, action, resource) when { resource.owner.name == \"alice\" };", None, None),
        ("permit(principal, action, resource) when { resource.owner has age && resource.owner.age > 5 };", None, None),
        ("forbid(principal, action, resource) when { resource has parent && resource.parent.owner == principal };", None, None),
        ("forbid(principal, action, resource) when { principal has manager.manager && principal.manager.manager.name == \"x\" };", None, None),
    ]),
    ("is-and-like", &[("permit(principal, action, resource) when { resource.owner is User && principal.name like \"a*\" && resource has labels && resource.labels.isEmpty() };", None, None)]),
    // typed False (ImpossiblePolicy warning, still strictly valid): the manifest requests nothing for the policy
    ("typed-false-negated-has", &[("permit(principal, action, resource) when { !(principal has name) };", None, None)]),
    ("typed-false-error-order", &[("permit(principal, action, resource);", None, None), ("permit(principal, action, resource) when { principal.name like \"a*\" && principal has nosuch };", None, None)]),
    ("typed-false-negated-action-in", &[("permit(principal, action, resource) when { !(action in Action::\"readOnly\") };", None, None)]),
    // template links: the slot is analysed as the variable
    ("template-in-slot", &[("permit(principal, action, resource);", None, None), ("forbid(principal in ?principal, action, resource);", Some(("Group", "g")), None)]),
    ("template-eq-slot", &[("permit(principal == ?principal, action, resource in ?resource);", Some(("User", "a")), Some(("Group", "g")))]),
];

/// second probe world: a folder tree reachable through attributes (`resource.folder`, `resource.folder.parent`, …) in
/// which principals / resources are members of folders: ancestor requests on prefix-related paths
const PREFIX_SCHEMA: &str = r#"
    entity Folder in [Folder] { parent: Folder, n: Long };
    entity User in [Folder] { home: Folder };
    entity Doc in [Folder] { folder: Folder, meta: { folder: Folder } };
    action view appliesTo { principal: User, resource: Doc, context: { at: Folder } };
"#;

const PREFIX_STORE: &str = r#"[
  {"uid":{"type":"Folder","id":"root"},"attrs":{"parent":{"__entity":{"type":"Folder","id":"root"}},"n":0},"parents":[]},
  {"uid":{"type":"Folder","id":"team"},"attrs":{"parent":{"__entity":{"type":"Folder","id":"root"}},"n":1},"parents":[]},
  {"uid":{"type":"Folder","id":"sub"},"attrs":{"parent":{"__entity":{"type":"Folder","id":"team"}},"n":2},"parents":[]},
  {"uid":{"type":"Folder","id":"linked"},"attrs":{"parent":{"__entity":{"type":"Folder","id":"team"}},"n":3},"parents":[{"type":"Folder","id":"team"}]},
  {"uid":{"type":"User","id":"a"},"attrs":{"home":{"__entity":{"type":"Folder","id":"team"}}},"parents":[{"type":"Folder","id":"team"}]},
  {"uid":{"type":"User","id":"b"},"attrs":{"home":{"__entity":{"type":"Folder","id":"sub"}}},"parents":[{"type":"Folder","id":"root"}]},
  {"uid":{"type":"User","id":"c"},"attrs":{"home":{"__entity":{"type":"Folder","id":"root"}}},"parents":[{"type":"Folder","id":"sub"},{"type":"Folder","id":"linked"}]},
  {"uid":{"type":"Doc","id":"d"},"attrs":{"folder":{"__entity":{"type":"Folder","id":"sub"}},"meta":{"folder":{"__entity":{"type":"Folder","id":"team"}}}},"parents":[{"type":"Folder","id":"sub"}]},
  {"uid":{"type":"Doc","id":"e"},"attrs":{"folder":{"__entity":{"type":"Folder","id":"team"}},"meta":{"folder":{"__entity":{"type":"Folder","id":"sub"}}}},"parents":[{"type":"Folder","id":"team"}]},
  {"uid":{"type":"Doc","id":"f"},"attrs":{"folder":{"__entity":{"type":"Folder","id":"linked"}},"meta":{"folder":{"__entity":{"type":"Folder","id":"nofolder"}}}},"parents":[]}
]"#;

const PREFIX_SETS: &[(&str, &[&str])] = &[
    ("in-prefix-long-first", &["permit(principal, action, resource) when { principal in resource.folder.parent || principal in resource.folder };"]),
    ("in-prefix-short-first", &["permit(principal, action, resource) when { principal in resource.folder || principal in resource.folder.parent };"]),
    ("in-prefix-set-long-first", &["permit(principal, action, resource) when { principal in [resource.folder.parent, resource.folder] };"]),
    ("in-prefix-set-short-first", &["permit(principal, action, resource) when { principal in [resource.folder, resource.folder.parent] };"]),
    ("in-prefix-three", &["permit(principal, action, resource) when { principal in resource.folder.parent.parent || principal in resource.folder.parent || principal in resource.folder };"]),
    ("in-prefix-three-middle-last", &["permit(principal, action, resource) when { principal in [resource.folder.parent.parent, resource.folder] || principal in resource.folder.parent };"]),
    ("in-prefix-two-policies", &["permit(principal, action, resource) when { principal in resource.folder.parent.parent };", "permit(principal, action, resource) when { principal in resource.folder.parent };", "forbid(principal, action, resource) when { principal in resource.folder && resource.folder.n == 3 };"]),
    ("in-prefix-attribute-below", &["permit(principal, action, resource) when { resource.folder.parent.n > 0 && principal in resource.folder };", "permit(principal, action, resource) when { principal in resource.folder && resource.folder.parent.parent.n > 5 };"]),
    ("in-prefix-record-step", &["permit(principal, action, resource) when { principal in resource.meta.folder.parent || principal in resource.meta.folder };"]),
    ("in-prefix-resource-left", &["permit(principal, action, resource) when { resource in resource.folder.parent || resource in resource.folder };"]),
    ("in-prefix-principal-path", &["permit(principal, action, resource) when { resource in principal.home.parent || resource in principal.home };"]),
    ("in-prefix-context", &["permit(principal, action, resource) when { principal in context.at.parent.parent || principal in context.at };"]),
    ("in-prefix-negated-if", &["forbid(principal, action, resource) when { if principal in resource.folder.parent then false else principal in resource.folder };", "permit(principal, action, resource);"]),
    ("in-prefix-two-lefts", &["permit(principal, action, resource) when { principal in resource.folder.parent || resource in resource.folder.parent || principal in resource.folder };"]),
];

fn prefix_probes(out: &mut Out, r: &mut Rng) {
    let ext = Extensions::all_available();
    let (schema, _) = ValidatorSchema::from_cedarschema_str(PREFIX_SCHEMA, ext).expect("prefix probe schema");
    let ssx = sx_schema::schema(&schema);
    let core = CoreSchema::new(&schema);
    let store_json: J = serde_json::from_str(PREFIX_STORE).expect("prefix probe store json");
    let parser = cedar_policy_core::entities::EntityJsonParser::new(Some(&core), ext, TCComputation::ComputeNow);
    for (name, set) in PREFIX_SETS {
        let full = parser.from_json_value(store_json.clone()).expect("prefix probe store");
        let pols: Vec<Pol> = set.iter().map(|t| Pol { text: t.to_string(), family: format!("probe:{name}"), link: None, target: ("User".into(), 0, "Doc".into()) }).collect();
        let cname = format!("probe={name}");
        let none = |_: &Pol| None;
        let n_in = pols.len();
        let sup = supported_policies(out, r, &schema, &ssx, PREFIX_SCHEMA, &cname, pols, &none);
        if sup.len() != n_in {
            out.propfail("probe policy not accepted by validation / manifest computation", &cname, "");
            continue;
        }
        let Some(cx) = make_set(out, &schema, ssx.clone(), PREFIX_SCHEMA, &cname, sup, full, PREFIX_STORE.replace('\n', " ")) else { continue };
        for p in ["a", "b", "c", "nobody"] {
            for d in ["d", "e", "f", "nodoc"] {
                for at in ["sub", "linked"] {
                    let (pu, au, ru) = (crate::gen::mk_uid("User", p), crate::gen::mk_uid("Action", "view"), crate::gen::mk_uid("Doc", d));
                    let dq = gs::DRequest { principal: ("User".into(), p.to_string()), action: ("Action".into(), "view".into()), resource: ("Doc".into(), d.to_string()), context: vec![("at".into(), gs::DVal::Ent("Folder".into(), at.into()))] };
                    let context = dq.to_context();
                    let req = ast::Request::new((pu.clone(), None), (au.clone(), None), (ru.clone(), None), context.clone(), Some(&schema), ext).expect("prefix probe request conforms");
                    let req_text = format!("p=User::\"{p}\" a=Action::\"view\" r=Doc::\"{d}\" ctx={}", dq.context_json());
                    check_request(out, &cx, &req, &req_text, &request_sx(&pu, &au, &ru, context), at == "sub");
                    out.count("probe_requests");
                }
            }
        }
    }
}

fn probes(out: &mut Out, r: &mut Rng) {
    prefix_probes(out, r);
    let ext = Extensions::all_available();
    let (schema, _) = ValidatorSchema::from_cedarschema_str(PROBE_SCHEMA, ext).expect("probe schema");
    let ssx = sx_schema::schema(&schema);
    let core = CoreSchema::new(&schema);
    let store_json: J = serde_json::from_str(PROBE_STORE).expect("probe store json");
    let parser = cedar_policy_core::entities::EntityJsonParser::new(Some(&core), ext, TCComputation::ComputeNow);
    for (name, set) in PROBE_SETS {
        let full = parser.from_json_value(store_json.clone()).expect("probe store");
        let pols: Vec<Pol> = set
            .iter()
            .map(|(t, lp, lr)| Pol {
                text: t.to_string(),
                family: format!("probe:{name}"),
                link: if lp.is_some() || lr.is_some() { Some((lp.map(|u| (u.0.to_string(), u.1.to_string())), lr.map(|u| (u.0.to_string(), u.1.to_string())))) } else { None },
                target: ("User".into(), 0, "Doc".into()),
            })
            .collect();
        let cname = format!("probe={name}");
        let none = |_: &Pol| None;
        let n_in = pols.len();
        let sup = supported_policies(out, r, &schema, &ssx, "<probe schema>", &cname, pols, &none);
        if sup.len() != n_in {
            out.propfail("probe policy not accepted by validation / manifest computation", &cname, "");
            continue;
        }
        let Some(cx) = make_set(out, &schema, ssx.clone(), "<probe schema>", &cname, sup, full, "<probe store>".into()) else { continue };
        for p in ["a", "b", "c", "nobody"] {
            for a in ["view", "edit"] {
                for d in ["d", "e", "nodoc"] {
                    let ctxs: Vec<Vec<(String, gs::DVal)>> = vec![
                        vec![("actor".into(), gs::DVal::Ent("User".into(), "b".into())), ("level".into(), gs::DVal::Long(1))],
                        vec![("actor".into(), gs::DVal::Ent("User".into(), "c".into())), ("level".into(), gs::DVal::Long(0)), ("via".into(), gs::DVal::Rec(vec![("doc".into(), gs::DVal::Ent("Doc".into(), "d".into()))]))],
                    ];
                    for (ci, cv) in ctxs.into_iter().enumerate() {
                        let (pu, au, ru) = (crate::gen::mk_uid("User", p), crate::gen::mk_uid("Action", a), crate::gen::mk_uid("Doc", d));
                        let dq = gs::DRequest { principal: ("User".into(), p.to_string()), action: ("Action".into(), a.to_string()), resource: ("Doc".into(), d.to_string()), context: cv };
                        let ctx = dq.context_json();
                        let context = dq.to_context();
                        let req = ast::Request::new((pu.clone(), None), (au.clone(), None), (ru.clone(), None), context.clone(), Some(&schema), ext).expect("probe request conforms");
                        let req_text = format!("p=User::\"{p}\" a=Action::\"{a}\" r=Doc::\"{d}\" ctx={ctx}");
                        check_request(out, &cx, &req, &req_text, &request_sx(&pu, &au, &ru, context), ci == 0 || d == "d");
                        out.count("probe_requests");
                    }
                }
            }
        }
    }
}
