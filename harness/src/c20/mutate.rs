//! Byte / char / token / structure-aware mutations of valid documents.
use super::docs::{self, Fam, Fx};
use crate::gen::ExprGen;
use crate::rng::Rng;

pub const CEDAR_DICT: &[&str] = &[
    "permit", "forbid", "when", "unless", "if", "then", "else", "in", "like", "has", "is", "true", "false", "principal", "action",
    "resource", "context", "?principal", "?resource", "?other", "::", ".", ",", ";", ":", "(", ")", "[", "]", "{", "}", "==", "!=", "=",
    "<", "<=", ">", ">=", "&&", "||", "|", "&", "!", "-", "+", "*", "/", "%", "@", "@id(\"x\")", "\"\"", "\"a\"", "\"\\*\"", "\"*\\**\"",
    "\"\\u{0}\"", "\"\\u{110000}\"", "\"\\u{D800}\"", "\"\\u{}\"", "\"\\u{1234567}\"", "\"\\q\"", "\"\\x7f\"", "\"\\xff\"", "\"\\", "\"", "'", "'a'", "0", "1", "-1",
    "9223372036854775807", "9223372036854775808", "-9223372036854775808", "-9223372036854775809", "18446744073709551616",
    "00", "0x1", "1.5", "1e3", "1_000", "ip", "decimal", "datetime", "duration", "isInRange", "contains", "containsAll", "containsAny",
    "isEmpty", "hasTag", "getTag", "lessThan", "offset", "toDate", "User", "Group", "NS::Doc", "Action", "User::\"a\"", "__cedar",
    "__cedar::Long", "//", "/*", "*/", "\n", "\t", "\r\n", "\u{0}", "é", "\u{1F600}", "\u{2028}", "\u{FEFF}", "\u{202E}", "a\u{0301}",
    "namespace", "entity", "type", "appliesTo", "enum", "tags", "Set", "Long", "String", "Bool", "Boolean", "Entity", "Extension", "Record",
    "ipaddr", "?", "@doc(\"x\")", "Set<Long>", "in [", "enum [\"a\"]",
];

pub const JSON_DICT: &[&str] = &[
    "{", "}", "[", "]", ",", ":", "null", "true", "false", "0", "-0", "1e999", "1E-999", "-1e999", "9223372036854775807", "9223372036854775808",
    "-9223372036854775808", "-9223372036854775809", "18446744073709551615", "18446744073709551616", "1.5", "0.0", "1e2", "\"\"", "\"__entity\"",
    "\"__extn\"", "\"__expr\"", "\"type\"", "\"id\"", "\"fn\"", "\"arg\"", "\"args\"", "\"uid\"", "\"attrs\"", "\"parents\"", "\"tags\"",
    "\"Value\"", "\"Var\"", "\"Slot\"", "\"Unknown\"", "\"==\"", "\"!\"", "\"neg\"", "\"in\"", "\"like\"", "\"if-then-else\"", "\"Set\"",
    "\"Record\"", "\".\"", "\"has\"", "\"is\"", "\"effect\"", "\"principal\"", "\"action\"", "\"resource\"", "\"conditions\"", "\"kind\"",
    "\"body\"", "\"op\"", "\"All\"", "\"entity\"", "\"entities\"", "\"slot\"", "\"entity_type\"", "\"annotations\"", "\"staticPolicies\"", "\"templates\"",
    "\"templateLinks\"", "\"entityTypes\"", "\"actions\"", "\"commonTypes\"", "\"shape\"", "\"memberOfTypes\"", "\"memberOf\"", "\"appliesTo\"",
    "\"principalTypes\"", "\"resourceTypes\"", "\"context\"", "\"attributes\"", "\"required\"", "\"element\"", "\"name\"",
    "\"additionalAttributes\"", "\"EntityOrCommon\"", "\"Extension\"", "\"Long\"", "\"String\"", "\"Boolean\"", "\"enum\"", "\"\\ud800\"",
    "\"\\u0000\"", "\"\\udc00\\ud800\"", "\"?principal\"", "\"?resource\"", "\"left\"", "\"right\"", "\"attr\"", "\"pattern\"", "\"Wildcard\"",
    "\"Literal\"", "\"when\"", "\"unless\"", "\"permit\"", "\"forbid\"", "\"ip\"", "\"decimal\"", "\"10.0.0.1/8\"", "\"1.5\"", "\"User\"", "\"a\"",
    "\"User::\\\"a\\\"\"", "\"policyText\"", "\"schema\"", "\"policies\"", "\"validateRequest\"", "\"validationSettings\"", "\"mode\"",
    "\"templateId\"", "\"newId\"", "\"values\"", "\"lineWidth\"", "\"indentWidth\"", "\"é\"", "\"\u{1F600}\"",
];

const NUMERALS: &[&str] = &[
    "0", "1", "-1", "00", "007", "9223372036854775807", "9223372036854775808", "-9223372036854775808", "-9223372036854775809",
    "18446744073709551615", "18446744073709551616", "340282366920938463463374607431768211456", "1e400", "-1e400", "1e-400", "0.5",
    "1.0", "-0", "-0.0", "0x10", "1_0", "4294967295", "4294967296", "2147483648", "99999999999999999999999999999999999999999999999999999999999999999999999999999999999999999999999999",
];

const BYTES: &[u8] = &[0x00, 0x01, 0x09, 0x0a, 0x0d, 0x20, 0x22, 0x27, 0x2a, 0x5c, 0x7f, 0x80, 0xbf, 0xc0, 0xc2, 0xe2, 0xed, 0xf0, 0xf4, 0xf8, 0xfe, 0xff, b'{', b'}', b'[', b']', b'(', b')', b'/', b'@', b'?', b':', b';', b','];

/// rough lexer shared by all text families: identifiers/numbers, string literals, `//` comments, single bytes
pub fn tokens(b: &[u8]) -> Vec<(usize, usize)> {
    let mut v = Vec::new();
    let mut i = 0;
    while i < b.len() {
        let c = b[i];
        if c.is_ascii_whitespace() {
            i += 1;
        } else if c.is_ascii_alphanumeric() || c == b'_' {
            let s = i;
            while i < b.len() && (b[i].is_ascii_alphanumeric() || b[i] == b'_') { i += 1; }
            v.push((s, i));
        } else if c == b'"' {
            let s = i;
            i += 1;
            while i < b.len() && b[i] != b'"' {
                if b[i] == b'\\' { i += 1; }
                i += 1;
            }
            i = (i + 1).min(b.len());
            v.push((s, i));
        } else if c == b'/' && i + 1 < b.len() && b[i + 1] == b'/' {
            let s = i;
            while i < b.len() && b[i] != b'\n' { i += 1; }
            v.push((s, i));
        } else if c >= 0x80 {
            let s = i;
            i += 1;
            while i < b.len() && (b[i] & 0xc0) == 0x80 { i += 1; }
            v.push((s, i));
        } else {
            v.push((i, i + 1));
            i += 1;
        }
    }
    v
}

fn char_boundary(r: &mut Rng, b: &[u8]) -> usize {
    if b.is_empty() { return 0; }
    let mut p = r.below(b.len() + 1);
    while p < b.len() && (b[p] & 0xc0) == 0x80 { p += 1; }
    p
}

fn dict(fam: Fam) -> &'static [&'static str] {
    if fam.is_json() { JSON_DICT } else { CEDAR_DICT }
}

fn splice(b: &[u8], s: usize, e: usize, with: &[u8]) -> Vec<u8> {
    let mut o = Vec::with_capacity(b.len() + with.len());
    o.extend_from_slice(&b[..s]);
    o.extend_from_slice(with);
    o.extend_from_slice(&b[e..]);
    o
}

fn json_nodes(v: &serde_json::Value) -> usize {
    1 + match v {
        serde_json::Value::Array(a) => a.iter().map(json_nodes).sum(),
        serde_json::Value::Object(o) => o.values().map(json_nodes).sum(),
        _ => 0,
    }
}

fn json_replacement(r: &mut Rng, old: &serde_json::Value) -> serde_json::Value {
    use serde_json::json;
    match r.below(22) {
        0 => json!(null),
        1 => json!(true),
        2 => json!(0),
        3 => json!(9223372036854775807i64),
        4 => json!(9223372036854775808u64),
        5 => json!(-1),
        6 => json!(1.5),
        7 => json!(""),
        8 => json!("x"),
        9 => json!([]),
        10 => json!({}),
        11 => json!([old.clone()]),
        12 => json!({"__entity": old.clone()}),
        13 => json!({"__extn": {"fn": "ip", "arg": old.clone()}}),
        14 => json!({"__extn": {"fn": *r.pick(&["decimal", "datetime", "duration", "nosuch", "offset", "isInRange"]), "args": [old.clone(), old.clone()]}}),
        15 => json!({"__expr": "1 + 1"}),
        16 => json!({"type": "User", "id": old.clone()}),
        17 => json!({"Value": old.clone()}),
        18 => {
            let d = docs::depth(r);
            let mut v = old.clone();
            for _ in 0..d { v = if r.chance(50) { json!([v]) } else { json!({"a": v}) }; }
            v
        }
        19 => json!(*r.pick(&["User::\"a\"", "10.0.0.1/33", "1.23456", "2024-02-30", "1h1d", "\u{0}", "a\u{1F600}", "__cedar::Long", "?principal", "principal"])),
        20 => json!(-9223372036854775808i64),
        _ => json!({"left": old.clone(), "right": old.clone()}),
    }
}

fn json_mutate_at(v: &mut serde_json::Value, target: &mut usize, r: &mut Rng) -> bool {
    if *target == 0 {
        // object-level edits, or replacement
        if let serde_json::Value::Object(o) = v {
            if !o.is_empty() && r.chance(50) {
                let keys: Vec<String> = o.keys().cloned().collect();
                let k = r.pick(&keys).clone();
                match r.below(3) {
                    0 => { o.remove(&k); }
                    1 => {
                        let nk = r.pick(JSON_DICT).trim_matches('"').to_string();
                        if let Some(x) = o.remove(&k) { o.insert(nk, x); }
                    }
                    _ => {
                        let nk = r.pick(JSON_DICT).trim_matches('"').to_string();
                        let x = o.get(&k).cloned().unwrap_or(serde_json::Value::Null);
                        o.insert(nk, x);
                    }
                }
                return true;
            }
        }
        if let serde_json::Value::Array(a) = v {
            if !a.is_empty() && r.chance(40) {
                let i = r.below(a.len());
                if r.chance(50) { a.remove(i); } else { let x = a[i].clone(); a.push(x); }
                return true;
            }
        }
        let nv = json_replacement(r, v);
        *v = nv;
        return true;
    }
    *target -= 1;
    match v {
        serde_json::Value::Array(a) => {
            for x in a.iter_mut() {
                if json_mutate_at(x, target, r) { return true; }
            }
            false
        }
        serde_json::Value::Object(o) => {
            for (_, x) in o.iter_mut() {
                if json_mutate_at(x, target, r) { return true; }
            }
            false
        }
        _ => false,
    }
}

/// one mutation step; returns the new bytes and the operator's name
pub fn mutate_once(r: &mut Rng, g: &mut ExprGen, fx: &Fx, fam: Fam, b: &[u8]) -> (Vec<u8>, &'static str) {
    let toks = tokens(b);
    let n_ops = 19;
    for _ in 0..8 {
        match r.below(n_ops) {
            0 if !b.is_empty() => {
                let i = r.below(b.len());
                let mut o = b.to_vec();
                o[i] ^= 1 << r.below(8);
                return (o, "bit_flip");
            }
            1 if !b.is_empty() => {
                let i = r.below(b.len());
                let mut o = b.to_vec();
                o[i] = if r.chance(60) { *r.pick(BYTES) } else { r.below(256) as u8 };
                return (o, "byte_replace");
            }
            2 => {
                let i = r.below(b.len() + 1);
                let x = if r.chance(60) { *r.pick(BYTES) } else { r.below(256) as u8 };
                return (splice(b, i, i, &[x]), "byte_insert");
            }
            3 if !b.is_empty() => {
                let i = r.below(b.len());
                return (splice(b, i, i + 1, &[]), "byte_delete");
            }
            4 if b.len() > 1 => {
                let s = r.below(b.len());
                let e = (s + 1 + r.below(16usize.min(b.len() - s))).min(b.len());
                return (splice(b, s, e, &[]), "chunk_delete");
            }
            5 if b.len() > 1 => {
                let s = r.below(b.len());
                let e = (s + 1 + r.below(24usize.min(b.len() - s))).min(b.len());
                let k = 1 + r.below(3);
                let mut w = Vec::new();
                for _ in 0..k { w.extend_from_slice(&b[s..e]); }
                return (splice(b, e, e, &w), "chunk_dup");
            }
            6 if !b.is_empty() => {
                let p = if r.chance(70) { char_boundary(r, b) } else { r.below(b.len()) };
                return (b[..p].to_vec(), "truncate");
            }
            7 => {
                let p = char_boundary(r, b);
                let c = *r.pick(&["é", "\u{1F600}", "\u{0}", "\u{2028}", "\u{FEFF}", "\u{202E}", "\u{0301}", "\u{10FFFF}", "\u{FFFD}", "\u{7f}", "\u{85}", "ß", "\u{1F1E6}\u{1F1FA}", "\t", "\r"]);
                return (splice(b, p, p, c.as_bytes()), "char_insert");
            }
            8 if !toks.is_empty() => {
                let i = r.below(toks.len());
                let k = (i + 1 + r.below(3)).min(toks.len());
                return (splice(b, toks[i].0, toks[k - 1].1, &[]), "token_delete");
            }
            9 if !toks.is_empty() => {
                let (s, e) = toks[r.below(toks.len())];
                let mut w = b[s..e].to_vec();
                w.push(b' ');
                return (splice(b, s, s, &w), "token_dup");
            }
            10 if toks.len() > 1 => {
                let i = r.below(toks.len());
                let j = r.below(toks.len());
                let (a, c) = if i <= j { (toks[i], toks[j]) } else { (toks[j], toks[i]) };
                if a.1 <= c.0 {
                    let mut o = Vec::new();
                    o.extend_from_slice(&b[..a.0]);
                    o.extend_from_slice(&b[c.0..c.1]);
                    o.extend_from_slice(&b[a.1..c.0]);
                    o.extend_from_slice(&b[a.0..a.1]);
                    o.extend_from_slice(&b[c.1..]);
                    return (o, "token_swap");
                }
            }
            11 if !toks.is_empty() => {
                let (s, e) = toks[r.below(toks.len())];
                let d = *r.pick(dict(fam));
                return (splice(b, s, e, d.as_bytes()), "token_replace");
            }
            12 => {
                let p = if toks.is_empty() { 0 } else { toks[r.below(toks.len())].0 };
                let d = format!("{} ", r.pick(dict(fam)));
                return (splice(b, p, p, d.as_bytes()), "token_insert");
            }
            13 => {
                // splice in a chunk of another valid document (same or another family)
                let of = if r.chance(70) { fam } else { *r.pick(docs::FAMS) };
                let other = docs::base_doc(r, g, fx, of);
                if !other.is_empty() {
                    let s = r.below(other.len());
                    let e = (s + 1 + r.below(40usize.min(other.len() - s))).min(other.len());
                    let p = if toks.is_empty() { 0 } else { toks[r.below(toks.len())].0 };
                    return (splice(b, p, p, &other[s..e]), "splice_other");
                }
            }
            14 if !toks.is_empty() => {
                // wrap a token range in up to 48 nested openers / closers
                let i = r.below(toks.len());
                let j = (i + r.below(4)).min(toks.len() - 1);
                let d = docs::depth(r);
                let (o, c) = if fam.is_json() {
                    *r.pick(&[("[", "]"), ("{\"a\":", "}"), ("[[", "]]"), ("{\"__entity\":", "}")])
                } else {
                    *r.pick(&[("(", ")"), ("[", "]"), ("{a:", "}"), ("!", ""), ("-", ""), ("Set<", ">"), ("if true then ", " else 1"), ("ip(", ")")])
                };
                let mut w = o.repeat(d).into_bytes();
                w.extend_from_slice(&b[toks[i].0..toks[j].1]);
                if r.chance(80) { w.extend_from_slice(c.repeat(d).as_bytes()); }
                return (splice(b, toks[i].0, toks[j].1, &w), "nest_wrap");
            }
            15 => {
                let nums: Vec<(usize, usize)> = toks.iter().cloned().filter(|(s, e)| b[*s..*e].iter().all(|c| c.is_ascii_digit())).collect();
                if !nums.is_empty() {
                    let (s, e) = nums[r.below(nums.len())];
                    let s = if s > 0 && b[s - 1] == b'-' && r.chance(50) { s - 1 } else { s };
                    return (splice(b, s, e, r.pick(NUMERALS).as_bytes()), "numeral");
                }
            }
            16 => {
                let strs: Vec<(usize, usize)> = toks.iter().cloned().filter(|(s, _)| b[*s] == b'"').collect();
                if !strs.is_empty() {
                    let (s, e) = strs[r.below(strs.len())];
                    let w = if fam.is_json() {
                        *r.pick(&["\"\\ud800\"", "\"\\u0000\"", "\"\\x\"", "\"\\", "\"a\\\"", "\"\u{1F600}\\n\"", "\"\\udbff\\udfff\"", "\"*\"", "\"\\\\*\""])
                    } else {
                        *r.pick(&["\"\\u{110000}\"", "\"\\u{D800}\"", "\"\\u{}\"", "\"\\u{0}\"", "\"\\x80\"", "\"\\x7F\"", "\"\\*\"", "\"\\", "\"a\\\"", "\"\u{1F600}\\n\"", "\"\\u{1F600\"", "\"\\0\"", "\"\\'\"", "\"*\\**\\*\"", "\"\n\""])
                    };
                    return (splice(b, s, e, w.as_bytes()), "string_escape");
                }
            }
            17 if fam.is_json() => {
                if let Ok(mut v) = serde_json::from_slice::<serde_json::Value>(b) {
                    let n = json_nodes(&v);
                    let mut t = r.below(n);
                    json_mutate_at(&mut v, &mut t, r);
                    return (v.to_string().into_bytes(), "json_struct");
                }
            }
            18 if fam.is_json() => {
                // duplicate a key textually (serde_json::Value cannot hold duplicates)
                let keys: Vec<usize> = (0..toks.len()).filter(|&i| b[toks[i].0] == b'"' && i + 2 < toks.len() && b[toks[i + 1].0] == b':').collect();
                if !keys.is_empty() {
                    let i = *r.pick(&keys);
                    let mut w = b[toks[i].0..toks[i].1].to_vec();
                    w.extend_from_slice(b":0,");
                    return (splice(b, toks[i].0, toks[i].0, &w), "json_dup_key");
                }
            }
            _ => {}
        }
    }
    let i = r.below(b.len() + 1);
    (splice(b, i, i, &[*r.pick(BYTES)]), "byte_insert")
}

pub fn random_bytes(r: &mut Rng, fam: Fam) -> Vec<u8> {
    let n = r.below(64);
    let mut o = Vec::with_capacity(n);
    match r.below(3) {
        0 => for _ in 0..n { o.push(r.below(256) as u8); },
        1 => for _ in 0..n { o.push(*r.pick(BYTES)); },
        _ => {
            let d = dict(fam);
            for _ in 0..(1 + n / 4) {
                o.extend_from_slice(r.pick(d).as_bytes());
                if r.chance(70) { o.push(b' '); }
            }
        }
    }
    o
}
