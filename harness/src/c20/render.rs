//! Rendering of every returned error / warning: message, Debug, help, code, url, labelled spans (read
//! back through the diagnostic's own source code), related diagnostics, the `source()` chain, and
//! three full miette report renderers (graphical, narratable, JSON) plus `Report`'s Debug/Display.
use miette::{Diagnostic, GraphicalReportHandler, GraphicalTheme, JSONReportHandler, NarratableReportHandler};
use std::collections::BTreeMap;

#[derive(Default)]
pub struct Tally {
    pub m: BTreeMap<String, u64>,
    /// number of labelled spans seen while rendering errors of this case
    pub labels: u64,
    /// number of downstream pipeline stages run on successfully parsed objects
    pub downstream: u64,
}

impl Tally {
    pub fn c(&mut self, k: &str) {
        *self.m.entry(k.to_string()).or_insert(0) += 1;
    }
    pub fn ep(&mut self, ep: &str, what: &str) {
        *self.m.entry(format!("ep.{ep}.{what}")).or_insert(0) += 1;
    }
    pub fn stage(&mut self, s: &'static str) {
        super::set_stage(s);
        if super::TRACE.load(std::sync::atomic::Ordering::Relaxed) {
            eprintln!("  [{:?}] stage {s}", std::time::SystemTime::now().duration_since(std::time::UNIX_EPOCH).map(|d| d.as_millis() % 1000000).unwrap_or(0));
        }
        self.downstream += 1;
        *self.m.entry(format!("pipeline.{s}")).or_insert(0) += 1;
    }
}

pub fn render_dyn(d: &dyn Diagnostic, t: &mut Tally, depth: u32) {
    let _ = d.to_string();
    let _ = format!("{d:?}");
    if let Some(h) = d.help() {
        let _ = h.to_string();
        t.c("render.help");
    }
    if let Some(c) = d.code() {
        let _ = c.to_string();
    }
    if let Some(u) = d.url() {
        let _ = u.to_string();
    }
    let _ = d.severity();
    let src = d.source_code();
    if let Some(ls) = d.labels() {
        for l in ls {
            t.c("render.label");
            t.labels += 1;
            let _ = l.label().map(|s| s.to_string());
            let _ = (l.offset(), l.len(), l.primary());
            match src {
                Some(sc) => match sc.read_span(l.inner(), 1, 1) {
                    Ok(c) => {
                        let _ = (c.data().len(), c.line(), c.column(), c.line_count());
                        t.c("render.label_span_read");
                    }
                    Err(_) => t.c("render.label_span_unreadable"),
                },
                None => t.c("render.label_without_source"),
            }
        }
    }
    let mut s = std::error::Error::source(d);
    let mut k = 0;
    while let Some(e) = s {
        let _ = e.to_string();
        let _ = format!("{e:?}");
        s = e.source();
        k += 1;
        if k > 32 {
            break;
        }
    }
    if depth < 4 {
        if let Some(rel) = d.related() {
            for r in rel {
                t.c("render.related");
                render_dyn(r, t, depth + 1);
            }
        }
        if let Some(ds) = d.diagnostic_source() {
            render_dyn(ds, t, depth + 1);
        }
    }
    if depth == 0 {
        let mut o = String::new();
        let _ = GraphicalReportHandler::new_themed(GraphicalTheme::unicode_nocolor()).with_width(80).render_report(&mut o, d);
        let _ = GraphicalReportHandler::new_themed(GraphicalTheme::ascii()).with_width(30).with_context_lines(3).render_report(&mut o, d);
        let _ = NarratableReportHandler::new().render_report(&mut o, d);
        let _ = JSONReportHandler::new().render_report(&mut o, d);
        t.c("render.report_handlers");
    }
}

/// an owned diagnostic: everything above + `miette::Report` Debug / Display / alternate
pub fn render<E: Diagnostic + Send + Sync + 'static>(e: E, t: &mut Tally) {
    render_dyn(&e, t, 0);
    let r = miette::Report::new(e);
    let _ = format!("{r:?}");
    let _ = format!("{r}");
    let _ = format!("{r:#}");
    t.c("render.errors");
}

pub fn render_ref<E: Diagnostic + Clone + Send + Sync + 'static>(e: &E, t: &mut Tally) {
    render(e.clone(), t)
}

pub fn render_report(r: &miette::Report, t: &mut Tally) {
    let d: &dyn Diagnostic = r.as_ref();
    render_dyn(d, t, 0);
    let _ = format!("{r:?}");
    let _ = format!("{r}");
    let _ = format!("{r:#}");
    t.c("render.errors");
}

pub fn render_plain<E: std::fmt::Display + std::fmt::Debug>(e: &E, t: &mut Tally) {
    let _ = format!("{e}");
    let _ = format!("{e:?}");
    let _ = format!("{e:#?}");
    t.c("render.errors");
    t.c("render.plain_errors");
}
