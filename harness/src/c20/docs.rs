//! Fixtures, valid base documents per family, deep-nesting documents.
use crate::c01;
use crate::gen::{self, ExprGen, Ty, World};
use crate::rng::Rng;
use cedar_policy as api;
use cedar_policy::proto::traits::Protobuf;
use cedar_policy_core::ast::Effect;
use serde_json::json;
use std::str::FromStr;

#[derive(Clone, Copy, PartialEq, Eq, Debug)]
pub enum Fam {
    Policy,
    Expr,
    Est,
    SchemaCedar,
    SchemaJson,
    Entities,
    Context,
    Ffi,
    Proto,
}
pub const FAMS: &[Fam] = &[Fam::Policy, Fam::Expr, Fam::Est, Fam::SchemaCedar, Fam::SchemaJson, Fam::Entities, Fam::Context, Fam::Ffi, Fam::Proto];

impl Fam {
    pub fn name(self) -> &'static str {
        match self {
            Fam::Policy => "policy",
            Fam::Expr => "expr",
            Fam::Est => "est",
            Fam::SchemaCedar => "schema_cedar",
            Fam::SchemaJson => "schema_json",
            Fam::Entities => "entities",
            Fam::Context => "context",
            Fam::Ffi => "ffi",
            Fam::Proto => "proto",
        }
    }
    pub fn is_json(self) -> bool {
        matches!(self, Fam::Est | Fam::SchemaJson | Fam::Entities | Fam::Context | Fam::Ffi)
    }
}

pub const SCHEMA_1: &str = r#"
type Common = { n: Long, s?: String };
namespace NS {
  entity Doc in [Group] { owner?: User, "has space"?: String, labels?: Set<String>, n?: Long } tags Long;
}
entity User in [Group] = {
  n?: Long, m?: Long, s?: String, b?: Bool, f?: User, ls?: Set<Long>, es?: Set<User>, ss?: Set<String>,
  r?: Common, d?: decimal, ip?: ipaddr, t?: datetime, du?: duration, "if"?: Long, "has space"?: String
} tags Long;
entity Group in [Group] tags Long;
entity Color enum ["red", "green"];
@doc("the two main actions")
action "a", "b" appliesTo {
  principal: [User, Group],
  resource: [NS::Doc, Group],
  context: { n?: Long, m?: Long, s?: String, b?: Bool, f?: User, ls?: Set<Long>, es?: Set<User>, ss?: Set<String>,
             r?: Common, d?: decimal, ip?: ipaddr, t?: datetime, du?: duration, "if"?: Long, "has space"?: String }
};
action "c" in ["a"] appliesTo { principal: User, resource: NS::Doc, context: {} };
action "d";
"#;

pub const SCHEMA_2: &str = r#"
namespace A::B {
  type T = Set<{ x: Long, y?: __cedar::String }>;
  @ann
  entity E in [E, F] = { t: T, c: C, e?: ipaddr } tags Set<String>;
  entity F;
  entity C enum ["x", "y\"z"];
  action read, write in [Action::"all"] appliesTo { principal: [E], resource: [E, F], context: { t?: T } };
  action all;
}
entity Top in [A::B::F];
action top appliesTo { principal: Top, resource: Top };
"#;

pub const ENTITIES_CONFORMANT: &str = r#"[
 {"uid":{"type":"User","id":"a"},"attrs":{"n":3,"s":"x","b":true,"f":{"__entity":{"type":"User","id":"b"}},"ls":[1,2],
   "r":{"n":1},"d":{"__extn":{"fn":"decimal","arg":"1.5"}},"ip":"10.0.0.1/8","t":"2024-01-01","du":"1h","if":0,"has space":"y"},
  "parents":[{"type":"Group","id":"g"}],"tags":{"k1":1}},
 {"uid":{"type":"User","id":"b"},"attrs":{},"parents":[]},
 {"uid":{"type":"Group","id":"g"},"attrs":{},"parents":[]},
 {"uid":{"type":"NS::Doc","id":"d"},"attrs":{"owner":{"type":"User","id":"a"},"labels":["x"]},"parents":[{"type":"Group","id":"g"}],"tags":{}}
]"#;

pub struct WorldFx {
    pub w: World,
    pub req: api::Request,
    pub ents: api::Entities,
    pub ents_json: String,
    pub ctx_json: String,
}

pub struct Fx {
    pub schema: api::Schema,
    pub schema2: api::Schema,
    pub validator: api::Validator,
    pub schema_cedar: Vec<String>,
    pub schema_json: Vec<String>,
    pub worlds: Vec<WorldFx>,
    pub auth: api::Authorizer,
    pub fixed_pset: api::PolicySet,
    pub action_a: api::EntityUid,
}

pub fn fixtures(seed: u64) -> Fx {
    let (schema, _) = api::Schema::from_cedarschema_str(SCHEMA_1).expect("schema 1");
    let (schema2, _) = api::Schema::from_cedarschema_str(SCHEMA_2).expect("schema 2");
    let mut schema_cedar = vec![SCHEMA_1.to_string(), SCHEMA_2.to_string()];
    let mut schema_json = Vec::new();
    for s in [SCHEMA_1, SCHEMA_2] {
        let (f, _) = api::SchemaFragment::from_cedarschema_str(s).expect("fragment");
        schema_json.push(f.to_json_string().expect("schema to json"));
        schema_cedar.push(f.to_cedarschema().expect("schema to cedar"));
    }
    schema_json.push(r#"{"":{"entityTypes":{"U":{"memberOfTypes":["U"],"shape":{"type":"Record","attributes":{"a":{"type":"Long","required":false},"b":{"type":"Set","element":{"type":"Entity","name":"U"}},"c":{"type":"Extension","name":"ipaddr"},"d":{"type":"EntityOrCommon","name":"T"}}},"tags":{"type":"String"}},"E":{"enum":["a","b"]}},"actions":{"view":{"appliesTo":{"principalTypes":["U"],"resourceTypes":["U"],"context":{"type":"Record","attributes":{},"additionalAttributes":false}},"memberOf":[{"id":"all"}]},"all":{}},"commonTypes":{"T":{"type":"Record","attributes":{"x":{"type":"Boolean"}}}}}}"#.to_string());
    let mut worlds = Vec::new();
    for i in 0..4 {
        let mut r = Rng::new(seed.wrapping_mul(31).wrapping_add(7000 + i));
        let w = gen::gen_world(&mut r);
        let req: api::Request = w.request().into();
        let ents: api::Entities = w.entities.clone().into();
        let ents_json = ents.to_json_value().expect("entities to json").to_string();
        let ctx_json = serde_json::to_string(&w.context.to_json_value().expect("ctx json")).unwrap();
        worlds.push(WorldFx { w, req, ents, ents_json, ctx_json });
    }
    let fixed_pset = api::PolicySet::from_str(
        "permit(principal == User::\"a\", action == Action::\"a\", resource) when { principal.n > 0 && context.s like \"a*\" };\n\
         forbid(principal, action, resource is NS::Doc) unless { resource has owner && resource.owner == principal };",
    )
    .expect("fixed policies");
    Fx {
        validator: api::Validator::new(schema.clone()),
        schema,
        schema2,
        schema_cedar,
        schema_json,
        worlds,
        auth: api::Authorizer::new(),
        fixed_pset,
        action_a: api::EntityUid::from_str("Action::\"a\"").unwrap(),
    }
}

pub fn policy_text(r: &mut Rng, g: &mut ExprGen, w: &World) -> String {
    let n = 1 + r.below(3);
    let mut s = String::new();
    for i in 0..n {
        if r.chance(30) {
            s.push_str(*r.pick(&["@id(\"pol\")\n", "@a_b(\"x\\\"y\")\n@c\n", "// comment é\n", "@if(\"kw\") ", "@id(\"\u{1F600}\")\n"]));
        }
        let eff = if r.chance(60) { Effect::Permit } else { Effect::Forbid };
        let oc = if r.chance(70) { 3 } else { r.below(3) as u32 };
        let tpl = r.chance(30);
        let p = c01::gen_policy(r, g, w, &format!("p{i}"), eff, oc, tpl);
        s.push_str(&p.text);
        s.push_str(*r.pick(&["\n", " ", "\n\n", " // trailing\n"]));
    }
    s
}

pub fn expr_text(r: &mut Rng, g: &mut ExprGen) -> String {
    match r.below(10) {
        0 => { let ty = *r.pick(gen::ALL_TYS); gen::gen_rexpr(r, ty, 2).to_string() }
        1 => gen::gen_uid(r).to_string(),
        _ => {
            let ty = if r.chance(50) { Ty::Bool } else { *r.pick(gen::ALL_TYS) };
            let d = 1 + r.below(4) as u32;
            g.gen(r, ty, d).to_string()
        }
    }
}

pub fn est_text(r: &mut Rng, g: &mut ExprGen, w: &World) -> String {
    match r.below(20) {
        0 | 1 | 2 => {
            // a bare EST expression
            let ty = if r.chance(50) { Ty::Bool } else { *r.pick(gen::ALL_TYS) };
            let d = 1 + r.below(3) as u32;
            let e = g.gen(r, ty, d);
            let est: cedar_policy_core::est::Expr = e.into_expr::<cedar_policy_core::est::Builder>();
            return serde_json::to_string(&est).unwrap_or_else(|_| "{}".into());
        }
        3 => {
            let u = gen::gen_uid(r);
            return if r.chance(50) { uid_json(&u).to_string() } else { json!({"__entity": uid_json(&u)}).to_string() };
        }
        _ => {}
    }
    let text = policy_text(r, g, w);
    if r.chance(40) {
        if let Ok(ps) = api::PolicySet::from_str(&text) {
            if let Ok(v) = ps.to_json() {
                return v.to_string();
            }
        }
    }
    let eff = if r.chance(60) { Effect::Permit } else { Effect::Forbid };
    let tpl = r.chance(40);
    let p = c01::gen_policy(r, g, w, "p", eff, 3, tpl);
    match api::Template::parse(None, &p.text).ok().and_then(|t| t.to_json().ok()) {
        Some(v) => v.to_string(),
        None => match api::Policy::parse(None, &p.text).ok().and_then(|t| t.to_json().ok()) {
            Some(v) => v.to_string(),
            None => "{}".to_string(),
        },
    }
}

fn uid_json(u: &cedar_policy_core::ast::EntityUID) -> serde_json::Value {
    let eid: &str = u.eid().as_ref();
    json!({"type": u.entity_type().to_string(), "id": eid})
}

pub fn ffi_text(r: &mut Rng, g: &mut ExprGen, fx: &Fx) -> String {
    let wf = &fx.worlds[r.below(fx.worlds.len())];
    let w = &wf.w;
    let ents: serde_json::Value = serde_json::from_str(&wf.ents_json).unwrap_or(json!([]));
    let ctx: serde_json::Value = serde_json::from_str(&wf.ctx_json).unwrap_or(json!({}));
    let schema = |r: &mut Rng| -> serde_json::Value {
        if r.chance(50) {
            json!(fx.schema_cedar[r.below(fx.schema_cedar.len())])
        } else {
            serde_json::from_str(&fx.schema_json[r.below(fx.schema_json.len())]).unwrap_or(json!({}))
        }
    };
    let statics = |r: &mut Rng, g: &mut ExprGen| -> serde_json::Value {
        let mk = |r: &mut Rng, g: &mut ExprGen| c01::gen_policy(r, g, w, "p", Effect::Permit, 3, false).text;
        match r.below(3) {
            0 => json!(format!("{}\n{}", mk(r, g), mk(r, g))),
            1 => json!([mk(r, g), mk(r, g)]),
            _ => json!({"p0": mk(r, g), "p1": mk(r, g)}),
        }
    };
    let pset = |r: &mut Rng, g: &mut ExprGen| -> serde_json::Value {
        let mut o = json!({"staticPolicies": statics(r, g)});
        if r.chance(50) {
            o["templates"] = json!({"t0": "permit(principal == ?principal, action, resource in ?resource) when { context has n };"});
            o["templateLinks"] = json!([{"templateId": "t0", "newId": "l0", "values": {"?principal": uid_json(&w.principal), "?resource": uid_json(&w.resource)}}]);
        }
        o
    };
    match r.below(8) {
        0 | 1 | 2 => {
            let mut o = json!({"principal": uid_json(&w.principal), "action": uid_json(&w.action), "resource": uid_json(&w.resource),
                "context": ctx, "policies": pset(r, g), "entities": ents});
            if r.chance(40) {
                o["schema"] = schema(r);
                o["validateRequest"] = json!(r.chance(50));
            }
            o.to_string()
        }
        3 | 4 => json!({"validationSettings": {"mode": *r.pick(&["strict", "permissive"])}, "schema": schema(r), "policies": pset(r, g)}).to_string(),
        5 => json!({"policyText": policy_text(r, g, w), "lineWidth": *r.pick(&[80, 0, 1, 40]), "indentWidth": *r.pick(&[2, 0, -1, 8])}).to_string(),
        6 => {
            if r.chance(50) {
                json!({"entities": serde_json::from_str::<serde_json::Value>(ENTITIES_CONFORMANT).unwrap_or(json!([])), "schema": SCHEMA_1}).to_string()
            } else {
                json!({"entities": ents, "schema": schema(r)}).to_string()
            }
        }
        _ => json!({"context": ctx, "schema": schema(r), "action": uid_json(&w.action)}).to_string(),
    }
}

pub fn proto_bytes(r: &mut Rng, g: &mut ExprGen, fx: &Fx) -> Vec<u8> {
    let wf = &fx.worlds[r.below(fx.worlds.len())];
    let res = match r.below(7) {
        0 | 1 => api::PolicySet::from_str(&policy_text(r, g, &wf.w)).ok().and_then(|p| p.encode().ok()),
        2 => wf.ents.encode().ok(),
        3 => if r.chance(50) { fx.schema.encode().ok() } else { fx.schema2.encode().ok() },
        4 => api::Expression::from_str(&expr_text(r, g)).ok().and_then(|e| e.encode().ok()),
        5 => wf.req.encode().ok(),
        _ => wf.ents.iter().next().and_then(|e| e.encode().ok()),
    };
    res.unwrap_or_default()
}

pub fn base_doc(r: &mut Rng, g: &mut ExprGen, fx: &Fx, fam: Fam) -> Vec<u8> {
    let wi = r.below(fx.worlds.len());
    let wf = &fx.worlds[wi];
    match fam {
        Fam::Policy => policy_text(r, g, &wf.w).into_bytes(),
        Fam::Expr => expr_text(r, g).into_bytes(),
        Fam::Est => est_text(r, g, &wf.w).into_bytes(),
        Fam::SchemaCedar => fx.schema_cedar[r.below(fx.schema_cedar.len())].clone().into_bytes(),
        Fam::SchemaJson => fx.schema_json[r.below(fx.schema_json.len())].clone().into_bytes(),
        Fam::Entities => {
            let doc = if r.chance(30) { ENTITIES_CONFORMANT.to_string() } else { wf.ents_json.clone() };
            if r.chance(15) {
                // a single entity object
                let v: serde_json::Value = serde_json::from_str(&doc).unwrap_or(json!([]));
                let one = v.as_array().and_then(|a| if a.is_empty() { None } else { Some(a[r.below(a.len())].clone()) }).unwrap_or(json!({}));
                one.to_string().into_bytes()
            } else {
                doc.into_bytes()
            }
        }
        Fam::Context => wf.ctx_json.clone().into_bytes(),
        Fam::Ffi => ffi_text(r, g, fx).into_bytes(),
        Fam::Proto => proto_bytes(r, g, fx),
    }
}

/// nesting depth biased to the bound
pub fn depth(r: &mut Rng) -> usize {
    match r.below(6) {
        0 => 48,
        1 => 47,
        2 => 32,
        3 => 16,
        _ => 1 + r.below(48),
    }
}

fn rep(s: &str, n: usize) -> String {
    s.repeat(n)
}

/// a Cedar expression nested `d` deep; `balanced == false` leaves the closers out (or cuts them short)
pub fn deep_expr(r: &mut Rng, d: usize, balanced: bool) -> String {
    let leaf = *r.pick(&["1", "true", "principal", "\"s\"", "context", "User::\"a\"", "[]", "{}"]);
    let (open, close): (String, String) = match r.below(14) {
        0 => (rep("(", d), rep(")", d)),
        1 => (rep("!", d), String::new()),
        2 => (rep("-", d), String::new()),
        3 => (rep("[", d), rep("]", d)),
        4 => (rep("{a:", d), rep("}", d)),
        5 => (rep("if true then ", d), rep(" else 1", d)),
        6 => (rep("ip(", d), rep(")", d)),
        7 => (rep("1 + (", d), rep(")", d)),
        8 => (rep("(true && ", d), rep(")", d)),
        9 => (rep("[1, ", d), rep("]", d)),
        10 => (rep("{\"k\": [", d), rep("]}", d)),
        11 => (rep("!-", d), String::new()),
        12 => (rep("(if ", d), rep(" then 1 else 2)", d)),
        _ => (rep("[{a:(", d), rep(")}]", d)),
    };
    let tail = match r.below(6) {
        0 => rep(".a", d),
        1 => rep(".contains(1)", d.min(12)),
        2 => rep("[\"a\"]", d),
        3 => format!(" has {}", vec!["a"; if r.chance(15) { d.max(1) } else { d.clamp(1, 8) }].join(".")),
        4 => rep(" && true", d),
        _ => String::new(),
    };
    if balanced {
        format!("{open}{leaf}{close}{tail}")
    } else {
        let k = r.below(close.len() + 1);
        let cut: String = close.chars().take(k).collect();
        format!("{open}{}{cut}", if r.chance(50) { leaf } else { "" })
    }
}

fn deep_json(r: &mut Rng, d: usize, leaf: &str, balanced: bool) -> String {
    let (open, close): (String, String) = match r.below(5) {
        0 => (rep("[", d), rep("]", d)),
        1 => (rep("{\"a\":", d), rep("}", d)),
        2 => (rep("[{\"a\":", d / 2 + 1), rep("}]", d / 2 + 1)),
        3 => (rep("{\"__extn\":{\"fn\":\"ip\",\"arg\":", d / 2 + 1), rep("}}", d / 2 + 1)),
        _ => (rep("{\"__entity\":", d), rep("}", d)),
    };
    if balanced {
        format!("{open}{leaf}{close}")
    } else {
        let k = r.below(close.len() + 1);
        format!("{open}{leaf}{}", &close[..k])
    }
}

fn deep_est(r: &mut Rng, d: usize) -> String {
    let leaf = *r.pick(&["{\"Value\":1}", "{\"Var\":\"principal\"}", "{\"Value\":{\"__entity\":{\"type\":\"User\",\"id\":\"a\"}}}", "{\"Slot\":\"?principal\"}", "{\"Unknown\":{\"name\":\"x\"}}"]);
    let (open, close): (String, String) = match r.below(9) {
        0 => (rep("{\"!\":{\"arg\":", d), rep("}}", d)),
        1 => (rep("{\"neg\":{\"arg\":", d), rep("}}", d)),
        2 => (rep("{\"Set\":[", d), rep("]}", d)),
        3 => (rep("{\"Record\":{\"a\":", d), rep("}}", d)),
        4 => (rep("{\".\":{\"left\":", d), rep(",\"attr\":\"a\"}}", d)),
        5 => (rep("{\"&&\":{\"left\":{\"Value\":true},\"right\":", d), rep("}}", d)),
        6 => (rep("{\"if-then-else\":{\"if\":{\"Value\":true},\"then\":", d), rep(",\"else\":{\"Value\":0}}}", d)),
        7 => (rep("{\"ip\":[", d), rep("]}", d)),
        _ => (rep("{\"Value\":[", d), rep("]}", d)),
    };
    let body = format!("{open}{leaf}{close}");
    format!("{{\"effect\":\"permit\",\"principal\":{{\"op\":\"All\"}},\"action\":{{\"op\":\"All\"}},\"resource\":{{\"op\":\"All\"}},\"conditions\":[{{\"kind\":\"when\",\"body\":{body}}}]}}")
}

/// a document of the family nested up to 48 deep
pub fn deep_doc(r: &mut Rng, fam: Fam) -> Vec<u8> {
    let d = depth(r);
    let balanced = r.chance(75);
    let s = match fam {
        Fam::Policy => {
            let e = deep_expr(r, d, balanced);
            match r.below(4) {
                0 => format!("permit(principal, action, resource) unless {{ {e} }};"),
                1 => format!("permit(principal in {}, action, resource) when {{ true }};", e),
                2 => format!("@a(\"x\") forbid(principal, action in [{e}], resource) when {{ {e} }};"),
                _ => format!("permit(principal, action, resource) when {{ {e} }};"),
            }
        }
        Fam::Expr => deep_expr(r, d, balanced),
        Fam::Est => {
            if r.chance(70) {
                deep_est(r, d)
            } else {
                deep_json(r, d, "1", balanced)
            }
        }
        Fam::SchemaCedar => match r.below(4) {
            0 => format!("entity E {{ a: {}Long{} }};", rep("Set<", d), rep(">", if balanced { d } else { r.below(d + 1) })),
            1 => format!("entity E = {}Long{};", rep("{a:", d), rep("}", if balanced { d } else { r.below(d + 1) })),
            2 => format!("{} entity E; {}", rep("namespace N {", d), rep("}", d)),
            _ => format!("type T = {}String{}; action a appliesTo {{ principal: [E], resource: [E], context: T }}; entity E;", rep("Set<{x:", d), rep("}>", d)),
        },
        Fam::SchemaJson => {
            let ty = match r.below(3) {
                0 => format!("{}{{\"type\":\"Long\"}}{}", rep("{\"type\":\"Set\",\"element\":", d), rep("}", d)),
                1 => format!("{}{{\"type\":\"Long\"}}{}", rep("{\"type\":\"Record\",\"attributes\":{\"a\":", d), rep("}}", d)),
                _ => deep_json(r, d, "1", balanced),
            };
            format!("{{\"\":{{\"entityTypes\":{{\"E\":{{\"shape\":{{\"type\":\"Record\",\"attributes\":{{\"x\":{ty}}}}}}}}},\"actions\":{{}}}}}}")
        }
        Fam::Entities => {
            let leaf = *r.pick(&["1", "\"x\"", "{\"type\":\"User\",\"id\":\"a\"}"]);
            let v = deep_json(r, d, leaf, balanced);
            match r.below(3) {
                0 => format!("[{{\"uid\":{{\"type\":\"User\",\"id\":\"a\"}},\"attrs\":{{\"x\":{v}}},\"parents\":[]}}]"),
                1 => format!("[{{\"uid\":{{\"type\":\"User\",\"id\":\"a\"}},\"attrs\":{{}},\"parents\":[],\"tags\":{{\"t\":{v}}}}}]"),
                _ => format!("[{{\"uid\":{v},\"attrs\":{{}},\"parents\":[{v}]}}]"),
            }
        }
        Fam::Context => format!("{{\"x\":{}}}", deep_json(r, d, "1", balanced)),
        Fam::Ffi => {
            let e = deep_expr(r, d, balanced);
            let v = deep_json(r, d, "1", balanced);
            json!({"principal": {"type":"User","id":"a"}, "action": {"type":"Action","id":"a"}, "resource": {"type":"NS::Doc","id":"a"},
                   "context": serde_json::from_str::<serde_json::Value>(&format!("{{\"x\":{v}}}")).unwrap_or(json!({})),
                   "policies": {"staticPolicies": format!("permit(principal, action, resource) when {{ {e} }};")}, "entities": []}).to_string()
        }
        Fam::Proto => {
            // nested length-delimited fields: tag (field 1..15, wire type 2) + length, d deep
            let mut inner: Vec<u8> = vec![0x08, 0x01];
            for _ in 0..d {
                let f = (1 + r.below(15)) as u8;
                let mut o = vec![(f << 3) | 2];
                let mut n = inner.len();
                loop {
                    let b = (n & 0x7f) as u8;
                    n >>= 7;
                    if n == 0 { o.push(b); break; } else { o.push(b | 0x80); }
                }
                o.extend_from_slice(&inner);
                inner = o;
            }
            return inner;
        }
    };
    s.into_bytes()
}
