//! Entry points (text / JSON / bytes) and the pipelines run on what parses.
use super::docs::{Fam, Fx, WorldFx, ENTITIES_CONFORMANT};
use super::render::{render, render_plain, render_ref, render_report, Tally};
use cedar_policy as api;
use cedar_policy::proto::traits::Protobuf;
use cedar_policy_core::ast;
use cedar_policy_core::parser;
use std::collections::{HashMap, HashSet};
use std::str::FromStr;

pub type EpFn = fn(&Fx, &[u8], &mut Tally);
pub struct Ep {
    pub name: &'static str,
    pub fam: Fam,
    pub f: EpFn,
}

fn lossy(b: &[u8]) -> std::borrow::Cow<'_, str> {
    String::from_utf8_lossy(b)
}

fn world<'a>(fx: &'a Fx, b: &[u8]) -> &'a WorldFx {
    &fx.worlds[b.len() % fx.worlds.len()]
}

fn uid_of(u: &ast::EntityUID) -> api::EntityUid {
    api::EntityUid::from(u.clone())
}

/* ------------------------------- pipelines ------------------------------- */

fn authorize(fx: &Fx, wf: &WorldFx, ps: &api::PolicySet, ents: &api::Entities, t: &mut Tally) {
    t.stage("authorize");
    let resp = fx.auth.is_authorized(&wf.req, ps, ents);
    let _ = resp.decision();
    for e in resp.diagnostics().errors() {
        render_ref(e, t);
    }
    let _ = resp.diagnostics().reason().count();
    t.stage("authorize_partial");
    let presp = fx.auth.is_authorized_partial(&wf.req, ps, ents);
    let _ = presp.decision();
    let _ = presp.definitely_satisfied().count();
    let _ = presp.definitely_errored().count();
    let _ = presp.may_be_determining().count();
    let _ = presp.must_be_determining().count();
    for p in presp.nontrivial_residuals() {
        let _ = p.to_string();
    }
    let c = presp.concretize();
    for e in c.diagnostics().errors() {
        render_ref(e, t);
    }
}

/// nested conditionals with constant tests make level validation exponential (see `if_true_probe`); the stream
/// keeps that single known behaviour out of the way by skipping level validation beyond 10 conditionals
fn few_conditionals(ps: &api::PolicySet) -> bool {
    let n: usize = ps.policies().map(|p| p.to_string()).chain(ps.templates().map(|p| p.to_string())).map(|s| s.matches("if").count()).sum();
    n <= 10
}

/// diagnostics per result that get the full graphical rendering
const RENDER_CAP: usize = 40;

fn validate(fx: &Fx, ps: &api::PolicySet, t: &mut Tally) {
    for mode in [api::ValidationMode::Strict, api::ValidationMode::Permissive] {
        t.stage("validate");
        let res = fx.validator.validate(ps, mode);
        let _ = res.validation_passed();
        // every diagnostic is printed plainly; the graphical rendering (which copies the whole source line per diagnostic, so
        // its cost is |diagnostics| x |source| and belongs to this harness, not to the entry point) only for the first few
        for (i, e) in res.validation_errors().enumerate() {
            if i < RENDER_CAP { render_ref(e, t); } else { let _ = e.to_string(); t.c("render.validation_errors_plain_only"); }
            t.c("render.validation_errors");
        }
        for (i, w) in res.validation_warnings().enumerate() {
            if i < RENDER_CAP { render_ref(w, t); } else { let _ = w.to_string(); }
            t.c("render.validation_warnings");
        }
        let _ = format!("{res}");
        let _ = format!("{res:?}");
    }
    if few_conditionals(ps) {
        t.stage("validate_level");
        let res = fx.validator.validate_with_level(ps, api::ValidationMode::Strict, 1);
        for (i, e) in res.validation_errors().enumerate() {
            if i < RENDER_CAP { render_ref(e, t); } else { let _ = e.to_string(); }
        }
    } else {
        t.c("level_validation_skipped_many_conditionals");
    }
}

fn policy_pipelines(fx: &Fx, wf: &WorldFx, ps: &api::PolicySet, t: &mut Tally) {
    t.stage("print");
    let text = ps.to_string();
    let _ = format!("{ps:?}");
    for p in ps.policies() {
        let _ = p.to_string();
        let _ = p.to_cedar();
        let _ = p.id().to_string();
        let _ = (p.effect(), p.principal_constraint(), p.action_constraint(), p.resource_constraint());
        for (k, v) in p.annotations() {
            let _ = (k.len(), v.len());
        }
        match p.to_json() {
            Ok(v) => {
                t.stage("to_json");
                match api::Policy::from_json(None, v) {
                    Ok(p2) => { let _ = p2.to_string(); }
                    Err(e) => render(e, t),
                }
            }
            Err(e) => render(e, t),
        }
    }
    for tp in ps.templates() {
        let _ = tp.to_string();
        let _ = tp.to_cedar();
        let _ = tp.slots().count();
        match tp.to_json() {
            Ok(v) => {
                t.stage("to_json");
                match api::Template::from_json(None, v) {
                    Ok(t2) => { let _ = t2.to_string(); }
                    Err(e) => render(e, t),
                }
            }
            Err(e) => render(e, t),
        }
    }
    let _ = ps.to_cedar();
    t.stage("set_to_json");
    match ps.clone().to_json() {
        Ok(v) => match api::PolicySet::from_json_value(v) {
            Ok(ps2) => { let _ = ps2.to_string(); }
            Err(e) => render(e, t),
        },
        Err(e) => render(e, t),
    }
    t.stage("reparse_printed");
    match api::PolicySet::from_str(&text) {
        Ok(_) => {}
        Err(e) => { t.c("printed_text_unparseable"); render(e, t) }
    }
    t.stage("format");
    for cfg in [cedar_policy_formatter::Config::default(), cedar_policy_formatter::Config { line_width: 20, indent_width: 4 }] {
        match cedar_policy_formatter::policies_str_to_pretty(&text, &cfg) {
            Ok(s) => { let _ = s.len(); }
            Err(r) => render_report(&r, t),
        }
    }
    validate(fx, ps, t);
    authorize(fx, wf, ps, &wf.ents, t);
    // link every template: with its slots filled, with nothing, and with both slots given
    let tids: Vec<(api::PolicyId, Vec<api::SlotId>)> = ps.templates().map(|tp| (tp.id().clone(), tp.slots().cloned().collect())).collect();
    if !tids.is_empty() {
        let mut ps2 = ps.clone();
        for (k, (tid, slots)) in tids.iter().enumerate() {
            t.stage("link");
            let mut vals: HashMap<api::SlotId, api::EntityUid> = HashMap::new();
            for s in slots {
                vals.insert(s.clone(), uid_of(if k % 2 == 0 { &wf.w.principal } else { &wf.w.resource }));
            }
            match ps2.link(tid.clone(), api::PolicyId::new(format!("link{k}")), vals.clone()) {
                Ok(()) => t.c("link_ok"),
                Err(e) => render(e, t),
            }
            // same new id again (duplicate), missing values, extra values
            if let Err(e) = ps2.link(tid.clone(), api::PolicyId::new(format!("link{k}")), vals) { render(e, t) }
            if let Err(e) = ps2.link(tid.clone(), api::PolicyId::new(format!("linkx{k}")), HashMap::new()) { render(e, t) }
            let both: HashMap<_, _> = [(api::SlotId::principal(), uid_of(&wf.w.principal)), (api::SlotId::resource(), uid_of(&wf.w.resource))].into_iter().collect();
            if let Err(e) = ps2.link(tid.clone(), api::PolicyId::new(format!("linky{k}")), both) { render(e, t) }
        }
        t.stage("print_linked");
        for p in ps2.policies() {
            let _ = p.to_string();
            let _ = p.to_cedar();
            if let Err(e) = p.to_json() { render(e, t) }
            let _ = p.template_id().map(|i| i.to_string());
            let _ = p.template_links().map(|m| m.len());
        }
        let _ = ps2.to_string();
        let _ = ps2.to_cedar();
        validate(fx, &ps2, t);
        authorize(fx, wf, &ps2, &wf.ents, t);
        proto_policyset(&ps2, t);
        t.stage("unlink_remove");
        for (k, (tid, _)) in tids.iter().enumerate() {
            if let Err(e) = ps2.remove_template(tid.clone()) { render(e, t) }
            if let Err(e) = ps2.unlink(api::PolicyId::new(format!("link{k}"))) { render(e, t) }
            if let Err(e) = ps2.unlink(api::PolicyId::new(format!("link{k}"))) { render(e, t) }
            if let Err(e) = ps2.remove_template(tid.clone()) { render(e, t) }
        }
    }
    proto_policyset(ps, t);
    t.stage("merge");
    let mut m = fx.fixed_pset.clone();
    match m.merge(ps, true) {
        Ok(r) => { let _ = r.len(); }
        Err(e) => render(e, t),
    }
    if let Err(e) = m.merge(ps, false) { render(e, t) }
}

fn proto_policyset(ps: &api::PolicySet, t: &mut Tally) {
    t.stage("proto_encode");
    match ps.encode() {
        Ok(bytes) => match api::PolicySet::decode(&bytes[..]) {
            Ok(p2) => { let _ = p2.to_string(); }
            Err(e) => render_plain(&e, t),
        },
        Err(e) => render_plain(&e, t),
    }
}

fn expr_pipelines(fx: &Fx, wf: &WorldFx, e: &ast::Expr, t: &mut Tally) {
    t.stage("print");
    let text = e.to_string();
    let _ = format!("{e:?}").len();
    t.stage("reparse_printed");
    if let Err(err) = ast::Expr::from_str(&text) { t.c("printed_text_unparseable"); render(err, t) }
    t.stage("evaluate");
    let ev = cedar_policy_core::evaluator::Evaluator::new(wf.w.request(), &wf.w.entities, cedar_policy_core::extensions::Extensions::all_available());
    match ev.interpret(e, &HashMap::new()) {
        Ok(v) => { let _ = v.to_string(); }
        Err(err) => render(err, t),
    }
    match ev.partial_interpret(e, &HashMap::new()) {
        Ok(v) => { let _ = format!("{v:?}").len(); }
        Err(err) => render(err, t),
    }
    t.stage("to_json");
    let est: cedar_policy_core::est::Expr = e.clone().into_expr::<cedar_policy_core::est::Builder>();
    match serde_json::to_value(&est) {
        Ok(v) => match serde_json::from_value::<cedar_policy_core::est::Expr>(v) {
            Ok(est2) => match est2.try_into_ast(&ast::PolicyID::from_string("p")) {
                Ok(e2) => { let _ = e2.to_string(); }
                Err(err) => render(err, t),
            },
            Err(err) => render_plain(&err, t),
        },
        Err(err) => render_plain(&err, t),
    }
    t.stage("policy_route");
    let src = format!("permit(principal, action, resource) when {{ {text} }};");
    match api::PolicySet::from_str(&src) {
        Ok(ps) => {
            validate(fx, &ps, t);
            authorize(fx, wf, &ps, &wf.ents, t);
            t.stage("format");
            if let Err(r) = cedar_policy_formatter::policies_str_to_pretty(&src, &cedar_policy_formatter::Config::default()) { render_report(&r, t) }
        }
        Err(err) => render(err, t),
    }
}

fn entities_pipelines(fx: &Fx, wf: &WorldFx, ents: &api::Entities, t: &mut Tally) {
    t.stage("to_json");
    match ents.to_json_value() {
        Ok(v) => match api::Entities::from_json_value(v, None) {
            Ok(_) => {}
            Err(e) => render(e, t),
        },
        Err(e) => render(e, t),
    }
    t.stage("print");
    for e in ents.iter() {
        let _ = e.to_string();
        let _ = e.uid().to_string();
        if let Err(err) = e.to_json_string() { render(err, t) }
    }
    let _ = ents.to_dot_str();
    t.stage("validate_entities");
    match api::Entities::from_entities(ents.iter().cloned(), Some(&fx.schema)) {
        Ok(_) => t.c("entities_conform"),
        Err(e) => render(e, t),
    }
    authorize(fx, wf, &fx.fixed_pset, ents, t);
    t.stage("proto_encode");
    match ents.encode() {
        Ok(bytes) => match api::Entities::decode(&bytes[..]) {
            Ok(_) => {}
            Err(e) => render_plain(&e, t),
        },
        Err(e) => render_plain(&e, t),
    }
    t.stage("entities_edit");
    match ents.clone().add_entities_from_json_str(ENTITIES_CONFORMANT, None) {
        Ok(e2) => {
            let r = e2.remove_entities(wf.ents.iter().map(|e| e.uid()));
            if let Err(e) = r { render(e, t) }
        }
        Err(e) => render(e, t),
    }
    match ents.clone().upsert_entities(wf.ents.iter().cloned(), None) {
        Ok(_) => {}
        Err(e) => render(e, t),
    }
}

fn context_pipelines(fx: &Fx, wf: &WorldFx, ctx: api::Context, t: &mut Tally) {
    t.stage("to_json");
    if let Err(e) = ctx.to_json_value() { render(e, t) }
    let _ = format!("{ctx:?}").len();
    t.stage("request");
    for schema in [None, Some(&fx.schema)] {
        match api::Request::new(uid_of(&wf.w.principal), fx.action_a.clone(), uid_of(&wf.w.resource), ctx.clone(), schema) {
            Ok(req) => {
                t.stage("authorize");
                let resp = fx.auth.is_authorized(&req, &fx.fixed_pset, &wf.ents);
                for e in resp.diagnostics().errors() { render_ref(e, t) }
                if let Ok(b) = req.encode() {
                    if let Err(e) = api::Request::decode(&b[..]) { render_plain(&e, t) }
                }
            }
            Err(e) => render(e, t),
        }
    }
    t.stage("context_merge");
    match ctx.clone().merge(ctx.clone()) {
        Ok(_) => {}
        Err(e) => render(e, t),
    }
    if let Err(e) = ctx.validate(&fx.schema, &fx.action_a) { render(e, t) }
}

fn schema_pipelines(fx: &Fx, schema: &api::Schema, t: &mut Tally) {
    t.stage("schema_queries");
    let _ = schema.principals().count();
    let _ = schema.resources().count();
    let _ = schema.entity_types().map(|x| x.to_string()).count();
    let _ = schema.actions().map(|x| x.to_string()).count();
    let _ = schema.action_groups().count();
    let _ = schema.request_envs().count();
    let _ = format!("{schema:?}").len();
    match schema.action_entities() {
        Ok(es) => { let _ = es.iter().count(); }
        Err(e) => render(e, t),
    }
    t.stage("validate");
    let v = api::Validator::new(schema.clone());
    let res = v.validate(&fx.fixed_pset, api::ValidationMode::Strict);
    for e in res.validation_errors() { render_ref(e, t) }
    for w in res.validation_warnings() { render_ref(w, t) }
    t.stage("schema_entities");
    match api::Entities::from_json_str(ENTITIES_CONFORMANT, Some(schema)) {
        Ok(_) => {}
        Err(e) => render(e, t),
    }
    match api::Context::from_json_str("{\"n\": 1, \"x\": {\"__entity\": {\"type\": \"User\", \"id\": \"a\"}}}", Some((schema, &fx.action_a))) {
        Ok(_) => {}
        Err(e) => render(e, t),
    }
    t.stage("proto_encode");
    match schema.encode() {
        Ok(bytes) => match api::Schema::decode(&bytes[..]) {
            Ok(_) => {}
            Err(e) => render_plain(&e, t),
        },
        Err(e) => render_plain(&e, t),
    }
}

fn fragment_pipelines(fx: &Fx, f: &api::SchemaFragment, t: &mut Tally) {
    t.stage("schema_to_json");
    match f.to_json_string() {
        Ok(s) => match api::SchemaFragment::from_json_str(&s) {
            Ok(_) => {}
            Err(e) => render(e, t),
        },
        Err(e) => render(e, t),
    }
    t.stage("schema_to_cedar");
    match f.to_cedarschema() {
        Ok(s) => match api::SchemaFragment::from_cedarschema_str(&s) {
            Ok((_, ws)) => for w in ws { render(w, t) },
            Err(e) => { t.c("printed_schema_unparseable"); render(e, t) }
        },
        Err(e) => render(e, t),
    }
    let _ = f.namespaces().count();
    t.stage("schema_from_fragments");
    match api::Schema::from_schema_fragments([f.clone()]) {
        Ok(s) => schema_pipelines(fx, &s, t),
        Err(e) => render(e, t),
    }
    let (other, _) = api::SchemaFragment::from_cedarschema_str(super::docs::SCHEMA_2).expect("schema 2");
    match api::Schema::from_schema_fragments([f.clone(), other]) {
        Ok(_) => {}
        Err(e) => render(e, t),
    }
}

/* ------------------------------- entry points ------------------------------- */

macro_rules! ok { ($t:expr, $n:expr) => { $t.ep($n, "ok") }; }
macro_rules! err { ($t:expr, $n:expr, $e:expr) => {{ $t.ep($n, "err"); render($e, $t); }}; }
macro_rules! errp { ($t:expr, $n:expr, $e:expr) => {{ $t.ep($n, "err"); render_plain(&$e, $t); }}; }

fn ep_core_parse_policyset(fx: &Fx, b: &[u8], t: &mut Tally) {
    let s = lossy(b);
    match parser::parse_policyset(&s) {
        Ok(ps) => {
            ok!(t, "core.parse_policyset");
            t.stage("print");
            let _ = ps.to_string();
            let wf = world(fx, b);
            t.stage("authorize");
            let resp = cedar_policy_core::authorizer::Authorizer::new().is_authorized(wf.w.request(), &ps, &wf.w.entities);
            for e in resp.diagnostics.errors { render(e, t) }
        }
        Err(e) => err!(t, "core.parse_policyset", e),
    }
    match parser::parse_policyset_and_also_return_policy_text(&s) {
        Ok((texts, _)) => { ok!(t, "core.parse_policyset_and_also_return_policy_text"); let _ = texts.len(); }
        Err(e) => err!(t, "core.parse_policyset_and_also_return_policy_text", e),
    }
    match parser::parse_policyset_to_ests_and_pset(&s) {
        Ok((ests, _)) => {
            ok!(t, "core.parse_policyset_to_ests_and_pset");
            t.stage("to_json");
            for (_, est) in ests.iter() { let _ = serde_json::to_string(est); }
        }
        Err(e) => err!(t, "core.parse_policyset_to_ests_and_pset", e),
    }
}

fn ep_core_parse_policy(_fx: &Fx, b: &[u8], t: &mut Tally) {
    let s = lossy(b);
    match parser::parse_policy(Some(ast::PolicyID::from_string("p")), &s) {
        Ok(p) => { ok!(t, "core.parse_policy"); t.stage("print"); let _ = p.to_string(); }
        Err(e) => err!(t, "core.parse_policy", e),
    }
    match parser::parse_policy_or_template(None, &s) {
        Ok(p) => { ok!(t, "core.parse_policy_or_template"); t.stage("print"); let _ = p.to_string(); let _ = p.slots().count(); }
        Err(e) => err!(t, "core.parse_policy_or_template", e),
    }
    match parser::parse_template(None, &s) {
        Ok(p) => { ok!(t, "core.parse_template"); t.stage("print"); let _ = p.to_string(); }
        Err(e) => err!(t, "core.parse_template", e),
    }
    match parser::parse_policy_or_template_to_est(&s) {
        Ok(est) => { ok!(t, "core.parse_policy_or_template_to_est"); t.stage("to_json"); let _ = serde_json::to_string(&est); let _ = est.to_string(); }
        Err(e) => err!(t, "core.parse_policy_or_template_to_est", e),
    }
}

fn ep_api_policyset_from_str(fx: &Fx, b: &[u8], t: &mut Tally) {
    let s = lossy(b);
    match api::PolicySet::from_str(&s) {
        Ok(ps) => { ok!(t, "api.PolicySet::from_str"); policy_pipelines(fx, world(fx, b), &ps, t); }
        Err(e) => err!(t, "api.PolicySet::from_str", e),
    }
}

fn ep_api_policy_parse(fx: &Fx, b: &[u8], t: &mut Tally) {
    let s = lossy(b);
    match api::Policy::parse(Some(api::PolicyId::new("p")), &*s) {
        Ok(p) => {
            ok!(t, "api.Policy::parse");
            match api::PolicySet::from_policies([p]) {
                Ok(ps) => policy_pipelines(fx, world(fx, b), &ps, t),
                Err(e) => render(e, t),
            }
        }
        Err(e) => err!(t, "api.Policy::parse", e),
    }
    match api::Template::parse(Some(api::PolicyId::new("t")), &*s) {
        Ok(tp) => {
            ok!(t, "api.Template::parse");
            let mut ps = api::PolicySet::new();
            match ps.add_template(tp) {
                Ok(()) => policy_pipelines(fx, world(fx, b), &ps, t),
                Err(e) => render(e, t),
            }
        }
        Err(e) => err!(t, "api.Template::parse", e),
    }
    match api::Policy::from_str(&s) { Ok(_) => ok!(t, "api.Policy::from_str"), Err(e) => err!(t, "api.Policy::from_str", e) }
    match api::Template::from_str(&s) { Ok(_) => ok!(t, "api.Template::from_str"), Err(e) => err!(t, "api.Template::from_str", e) }
}

fn ep_formatter(_fx: &Fx, b: &[u8], t: &mut Tally) {
    let s = lossy(b);
    for cfg in [cedar_policy_formatter::Config::default(), cedar_policy_formatter::Config { line_width: 1, indent_width: 0 }] {
        match cedar_policy_formatter::policies_str_to_pretty(&s, &cfg) {
            Ok(o) => {
                ok!(t, "formatter.policies_str_to_pretty");
                t.stage("format_again");
                if let Err(r) = cedar_policy_formatter::policies_str_to_pretty(&o, &cfg) { t.c("formatted_text_unformattable"); render_report(&r, t) }
            }
            Err(r) => { t.ep("formatter.policies_str_to_pretty", "err"); render_report(&r, t) }
        }
    }
}

fn ep_ffi_policy_text(_fx: &Fx, b: &[u8], t: &mut Tally) {
    let s = lossy(b);
    let a = api::ffi::policy_set_text_to_parts(&s);
    let _ = serde_json::to_string(&a).map(|x| x.len());
    t.ep("ffi.policy_set_text_to_parts", "answered");
    let call = serde_json::json!({"staticPolicies": &*s});
    match api::ffi::check_parse_policy_set_json(call) {
        Ok(v) => { t.ep("ffi.check_parse_policy_set_json(text)", "answered"); let _ = v.to_string(); }
        Err(e) => errp!(t, "ffi.check_parse_policy_set_json(text)", e),
    }
    let call = serde_json::json!({"policyText": &*s});
    match api::ffi::format_json(call) {
        Ok(v) => { t.ep("ffi.format_json(text)", "answered"); let _ = v.to_string(); }
        Err(e) => errp!(t, "ffi.format_json(text)", e),
    }
    for (n, p) in [("ffi.policy_to_json(text)", true), ("ffi.template_to_json(text)", false)] {
        let v = serde_json::Value::String(s.to_string());
        if p {
            if let Ok(pol) = serde_json::from_value::<api::ffi::Policy>(v) {
                let a = api::ffi::policy_to_json(pol.clone());
                let _ = serde_json::to_string(&a);
                let a = api::ffi::policy_to_text(pol);
                let _ = serde_json::to_string(&a);
                t.ep(n, "answered");
            }
        } else if let Ok(tp) = serde_json::from_value::<api::ffi::Template>(v) {
            let a = api::ffi::template_to_json(tp.clone());
            let _ = serde_json::to_string(&a);
            let a = api::ffi::template_to_text(tp);
            let _ = serde_json::to_string(&a);
            t.ep(n, "answered");
        }
    }
}

fn ep_expr(fx: &Fx, b: &[u8], t: &mut Tally) {
    let s = lossy(b);
    match ast::Expr::from_str(&s) {
        Ok(e) => { ok!(t, "core.Expr::from_str"); expr_pipelines(fx, world(fx, b), &e, t); }
        Err(e) => err!(t, "core.Expr::from_str", e),
    }
    match api::Expression::from_str(&s) {
        Ok(e) => {
            ok!(t, "api.Expression::from_str");
            let wf = world(fx, b);
            t.stage("evaluate");
            match api::eval_expression(&wf.req, &wf.ents, &e) {
                Ok(v) => { let _ = v.to_string(); }
                Err(err) => render(err, t),
            }
            let _ = e.to_string();
            t.stage("proto_encode");
            match e.encode() {
                Ok(bytes) => if let Err(err) = api::Expression::decode(&bytes[..]) { render_plain(&err, t) },
                Err(err) => render_plain(&err, t),
            }
        }
        Err(e) => err!(t, "api.Expression::from_str", e),
    }
    match api::RestrictedExpression::from_str(&s) {
        Ok(e) => {
            ok!(t, "api.RestrictedExpression::from_str");
            t.stage("print");
            let _ = format!("{e:?}").len();
            t.stage("entity_new");
            let attrs: HashMap<String, api::RestrictedExpression> = [("x".to_string(), e.clone())].into_iter().collect();
            match api::Entity::new(api::EntityUid::from_str("User::\"a\"").unwrap(), attrs, HashSet::new()) {
                Ok(en) => { let _ = en.to_string(); if let Err(err) = en.to_json_string() { render(err, t) } }
                Err(err) => render(err, t),
            }
            match api::Context::from_pairs([("x".to_string(), e)]) {
                Ok(c) => context_pipelines(fx, world(fx, b), c, t),
                Err(err) => render(err, t),
            }
        }
        Err(e) => err!(t, "api.RestrictedExpression::from_str", e),
    }
}

fn ep_names(_fx: &Fx, b: &[u8], t: &mut Tally) {
    let s = lossy(b);
    match api::EntityUid::from_str(&s) { Ok(u) => { ok!(t, "api.EntityUid::from_str"); let _ = u.to_string(); let _ = u.to_json_value(); } Err(e) => err!(t, "api.EntityUid::from_str", e) }
    match api::EntityTypeName::from_str(&s) { Ok(u) => { ok!(t, "api.EntityTypeName::from_str"); let _ = u.to_string(); } Err(e) => err!(t, "api.EntityTypeName::from_str", e) }
    match api::EntityNamespace::from_str(&s) { Ok(u) => { ok!(t, "api.EntityNamespace::from_str"); let _ = u.to_string(); } Err(e) => err!(t, "api.EntityNamespace::from_str", e) }
    match ast::Name::from_str(&s) { Ok(u) => { ok!(t, "core.Name::from_str"); let _ = u.to_string(); } Err(e) => err!(t, "core.Name::from_str", e) }
    match ast::Id::from_str(&s) { Ok(u) => { ok!(t, "core.Id::from_str"); let _ = u.to_string(); } Err(e) => err!(t, "core.Id::from_str", e) }
    match parser::parse_internal_string(&s) { Ok(u) => { ok!(t, "core.parse_internal_string"); let _ = u.len(); } Err(e) => err!(t, "core.parse_internal_string", e) }
}

fn est_policy_set_of(fx: &Fx, b: &[u8], name: &'static str, r: Result<api::PolicySet, api::PolicySetError>, t: &mut Tally) {
    match r {
        Ok(ps) => { t.ep(name, "ok"); policy_pipelines(fx, world(fx, b), &ps, t); }
        Err(e) => { t.ep(name, "err"); render(e, t); }
    }
}

fn ep_est(fx: &Fx, b: &[u8], t: &mut Tally) {
    let s = lossy(b);
    est_policy_set_of(fx, b, "api.PolicySet::from_json_str", api::PolicySet::from_json_str(&*s), t);
    est_policy_set_of(fx, b, "api.PolicySet::from_json_file(bytes)", api::PolicySet::from_json_file(b), t);
    match serde_json::from_slice::<serde_json::Value>(b) {
        Ok(v) => {
            t.ep("serde_json.value", "wellformed_json");
            est_policy_set_of(fx, b, "api.PolicySet::from_json_value", api::PolicySet::from_json_value(v.clone()), t);
            match api::Policy::from_json(Some(api::PolicyId::new("p")), v.clone()) {
                Ok(p) => {
                    ok!(t, "api.Policy::from_json");
                    match api::PolicySet::from_policies([p]) {
                        Ok(ps) => policy_pipelines(fx, world(fx, b), &ps, t),
                        Err(e) => render(e, t),
                    }
                }
                Err(e) => err!(t, "api.Policy::from_json", e),
            }
            match api::Template::from_json(Some(api::PolicyId::new("t")), v.clone()) {
                Ok(tp) => {
                    ok!(t, "api.Template::from_json");
                    let mut ps = api::PolicySet::new();
                    match ps.add_template(tp) {
                        Ok(()) => policy_pipelines(fx, world(fx, b), &ps, t),
                        Err(e) => render(e, t),
                    }
                }
                Err(e) => err!(t, "api.Template::from_json", e),
            }
            match serde_json::from_value::<cedar_policy_core::est::Policy>(v.clone()) {
                Ok(est) => {
                    t.ep("core.est::Policy(serde)", "ok");
                    t.stage("print");
                    let _ = est.to_string();
                    t.stage("est_to_ast");
                    match est.clone().try_into_ast_policy_or_template(Some(ast::PolicyID::from_string("e"))) {
                        Ok(tp) => { let _ = tp.to_string(); }
                        Err(e) => render(e, t),
                    }
                    t.stage("est_link");
                    let vals: HashMap<ast::SlotId, cedar_policy_core::entities::EntityUidJson> = HashMap::new();
                    match est.link(&vals) {
                        Ok(p) => { let _ = p.to_string(); }
                        Err(e) => render(e, t),
                    }
                }
                Err(e) => errp!(t, "core.est::Policy(serde)", e),
            }
            match serde_json::from_value::<cedar_policy_core::est::Expr>(v.clone()) {
                Ok(e) => {
                    t.ep("core.est::Expr(serde)", "ok");
                    t.stage("est_to_ast");
                    match e.try_into_ast(&ast::PolicyID::from_string("p")) {
                        Ok(e2) => expr_pipelines(fx, world(fx, b), &e2, t),
                        Err(err) => render(err, t),
                    }
                }
                Err(e) => errp!(t, "core.est::Expr(serde)", e),
            }
            match api::EntityUid::from_json(v) {
                Ok(u) => { ok!(t, "api.EntityUid::from_json"); let _ = u.to_string(); }
                Err(e) => err!(t, "api.EntityUid::from_json", e),
            }
        }
        Err(e) => errp!(t, "serde_json.value", e),
    }
}

fn ep_schema_cedar(fx: &Fx, b: &[u8], t: &mut Tally) {
    let s = lossy(b);
    match api::Schema::from_cedarschema_str(&s) {
        Ok((sc, ws)) => {
            ok!(t, "api.Schema::from_cedarschema_str");
            for w in ws { render(w, t); t.c("render.schema_warnings"); }
            schema_pipelines(fx, &sc, t);
        }
        Err(e) => err!(t, "api.Schema::from_cedarschema_str", e),
    }
    match api::SchemaFragment::from_cedarschema_str(&s) {
        Ok((f, ws)) => {
            ok!(t, "api.SchemaFragment::from_cedarschema_str");
            for w in ws { render(w, t) }
            fragment_pipelines(fx, &f, t);
        }
        Err(e) => err!(t, "api.SchemaFragment::from_cedarschema_str", e),
    }
    match api::Schema::from_cedarschema_file(b) {
        Ok((_, ws)) => { ok!(t, "api.Schema::from_cedarschema_file(bytes)"); for w in ws { render(w, t) } }
        Err(e) => err!(t, "api.Schema::from_cedarschema_file(bytes)", e),
    }
    match api::Schema::from_str(&s) { Ok(_) => ok!(t, "api.Schema::from_str"), Err(e) => err!(t, "api.Schema::from_str", e) }
    match api::SchemaFragment::from_str(&s) { Ok(_) => ok!(t, "api.SchemaFragment::from_str"), Err(e) => err!(t, "api.SchemaFragment::from_str", e) }
    match api::schema_str_to_json_with_resolved_types(&s) {
        Ok((v, ws)) => { ok!(t, "api.schema_str_to_json_with_resolved_types"); let _ = v.to_string(); for w in ws { render(w, t) } }
        Err(e) => err!(t, "api.schema_str_to_json_with_resolved_types", e),
    }
    let a = api::ffi::schema_to_json_with_resolved_types(&s);
    let _ = serde_json::to_string(&a);
    t.ep("ffi.schema_to_json_with_resolved_types", "answered");
    if let Ok(sc) = serde_json::from_value::<api::ffi::Schema>(serde_json::Value::String(s.to_string())) {
        let a = api::ffi::schema_to_json(sc.clone());
        let _ = serde_json::to_string(&a);
        let a = api::ffi::schema_to_text(sc.clone());
        let _ = serde_json::to_string(&a);
        let a = api::ffi::check_parse_schema(sc);
        let _ = serde_json::to_string(&a);
        t.ep("ffi.schema_to_json/schema_to_text/check_parse_schema(cedar)", "answered");
    }
}

fn ep_schema_json(fx: &Fx, b: &[u8], t: &mut Tally) {
    let s = lossy(b);
    match api::Schema::from_json_str(&s) {
        Ok(sc) => { ok!(t, "api.Schema::from_json_str"); schema_pipelines(fx, &sc, t); }
        Err(e) => err!(t, "api.Schema::from_json_str", e),
    }
    match api::SchemaFragment::from_json_str(&s) {
        Ok(f) => { ok!(t, "api.SchemaFragment::from_json_str"); fragment_pipelines(fx, &f, t); }
        Err(e) => err!(t, "api.SchemaFragment::from_json_str", e),
    }
    match api::Schema::from_json_file(b) {
        Ok(_) => ok!(t, "api.Schema::from_json_file(bytes)"),
        Err(e) => err!(t, "api.Schema::from_json_file(bytes)", e),
    }
    if let Ok(v) = serde_json::from_slice::<serde_json::Value>(b) {
        match api::Schema::from_json_value(v.clone()) {
            Ok(_) => ok!(t, "api.Schema::from_json_value"),
            Err(e) => err!(t, "api.Schema::from_json_value", e),
        }
        if let Ok(sc) = serde_json::from_value::<api::ffi::Schema>(v) {
            let a = api::ffi::schema_to_json(sc.clone());
            let _ = serde_json::to_string(&a);
            let a = api::ffi::schema_to_text(sc.clone());
            let _ = serde_json::to_string(&a);
            let a = api::ffi::check_parse_schema(sc);
            let _ = serde_json::to_string(&a);
            t.ep("ffi.schema_to_json/schema_to_text/check_parse_schema(json)", "answered");
        }
    }
}

fn ep_entities(fx: &Fx, b: &[u8], t: &mut Tally) {
    let s = lossy(b);
    let wf = world(fx, b);
    match api::Entities::from_json_str(&*s, None) {
        Ok(es) => { ok!(t, "api.Entities::from_json_str(no schema)"); entities_pipelines(fx, wf, &es, t); }
        Err(e) => err!(t, "api.Entities::from_json_str(no schema)", e),
    }
    match api::Entities::from_json_str(&*s, Some(&fx.schema)) {
        Ok(es) => { ok!(t, "api.Entities::from_json_str(schema)"); entities_pipelines(fx, wf, &es, t); }
        Err(e) => err!(t, "api.Entities::from_json_str(schema)", e),
    }
    match api::Entities::from_json_file(b, Some(&fx.schema2)) {
        Ok(_) => ok!(t, "api.Entities::from_json_file(bytes, schema2)"),
        Err(e) => err!(t, "api.Entities::from_json_file(bytes, schema2)", e),
    }
    match api::Entities::from_json_file(b, None) {
        Ok(_) => ok!(t, "api.Entities::from_json_file(bytes)"),
        Err(e) => err!(t, "api.Entities::from_json_file(bytes)", e),
    }
    match api::Entity::from_json_str(&*s, None) {
        Ok(e) => { ok!(t, "api.Entity::from_json_str"); let _ = e.to_string(); if let Err(err) = e.to_json_value() { render(err, t) } }
        Err(e) => err!(t, "api.Entity::from_json_str", e),
    }
    match api::Entity::from_json_str(&*s, Some(&fx.schema)) {
        Ok(_) => ok!(t, "api.Entity::from_json_str(schema)"),
        Err(e) => err!(t, "api.Entity::from_json_str(schema)", e),
    }
    match wf.ents.clone().add_entities_from_json_str(&s, None) {
        Ok(_) => ok!(t, "api.Entities::add_entities_from_json_str"),
        Err(e) => err!(t, "api.Entities::add_entities_from_json_str", e),
    }
    if let Ok(v) = serde_json::from_slice::<serde_json::Value>(b) {
        let call = serde_json::json!({"entities": v, "schema": super::docs::SCHEMA_1});
        match api::ffi::check_parse_entities_json(call) {
            Ok(v) => { t.ep("ffi.check_parse_entities_json(doc)", "answered"); let _ = v.to_string(); }
            Err(e) => errp!(t, "ffi.check_parse_entities_json(doc)", e),
        }
    }
}

fn ep_context(fx: &Fx, b: &[u8], t: &mut Tally) {
    let s = lossy(b);
    let wf = world(fx, b);
    match api::Context::from_json_str(&s, None) {
        Ok(c) => { ok!(t, "api.Context::from_json_str(no schema)"); context_pipelines(fx, wf, c, t); }
        Err(e) => err!(t, "api.Context::from_json_str(no schema)", e),
    }
    match api::Context::from_json_str(&s, Some((&fx.schema, &fx.action_a))) {
        Ok(c) => { ok!(t, "api.Context::from_json_str(schema)"); context_pipelines(fx, wf, c, t); }
        Err(e) => err!(t, "api.Context::from_json_str(schema)", e),
    }
    match api::Context::from_json_file(b, None) {
        Ok(_) => ok!(t, "api.Context::from_json_file(bytes)"),
        Err(e) => err!(t, "api.Context::from_json_file(bytes)", e),
    }
    match cedar_policy_core::ast::Context::from_json_str(&s) {
        Ok(_) => ok!(t, "core.Context::from_json_str"),
        Err(e) => err!(t, "core.Context::from_json_str", e),
    }
    if let Ok(v) = serde_json::from_slice::<serde_json::Value>(b) {
        let call = serde_json::json!({"context": v, "schema": super::docs::SCHEMA_1, "action": {"type": "Action", "id": "a"}});
        match api::ffi::check_parse_context_json(call) {
            Ok(v) => { t.ep("ffi.check_parse_context_json(doc)", "answered"); let _ = v.to_string(); }
            Err(e) => errp!(t, "ffi.check_parse_context_json(doc)", e),
        }
    }
}

fn ep_ffi(_fx: &Fx, b: &[u8], t: &mut Tally) {
    let s = lossy(b);
    macro_rules! call {
        ($n:expr, $f:path) => {
            match $f(&s) {
                Ok(o) => { t.ep($n, "answered"); if o.contains("\"failure\"") { t.ep($n, "answer_failure"); } else { t.ep($n, "ok"); } }
                Err(e) => errp!(t, $n, e),
            }
        };
    }
    call!("ffi.is_authorized_json_str", api::ffi::is_authorized_json_str);
    call!("ffi.is_authorized_partial_json_str", api::ffi::is_authorized_partial_json_str);
    call!("ffi.validate_json_str", api::ffi::validate_json_str);
    // the formatter materialises `indentWidth` spaces per nesting level (see `indent_probe`): keep absurd widths out of the stream
    let huge_width = serde_json::from_slice::<serde_json::Value>(b).ok().map_or(false, |v| {
        ["indentWidth", "lineWidth"].iter().any(|k| v.get(*k).and_then(|x| x.as_f64()).map_or(false, |x| x.abs() > 100000.0))
    });
    if huge_width { t.c("ffi_format_skipped_huge_width"); } else { call!("ffi.format_json_str", api::ffi::format_json_str); }
    call!("ffi.check_parse_policy_set_json_str", api::ffi::check_parse_policy_set_json_str);
    call!("ffi.check_parse_schema_json_str", api::ffi::check_parse_schema_json_str);
    call!("ffi.check_parse_entities_json_str", api::ffi::check_parse_entities_json_str);
    call!("ffi.check_parse_context_json_str", api::ffi::check_parse_context_json_str);
    if let Ok(v) = serde_json::from_slice::<serde_json::Value>(b) {
        match api::ffi::check_parse_scope_variables_json(v.clone()) {
            Ok(o) => { t.ep("ffi.check_parse_scope_variables_json", "answered"); let _ = o.to_string(); }
            Err(e) => errp!(t, "ffi.check_parse_scope_variables_json", e),
        }
        // the `policies` member alone through the stateful pre-parse cache
        if let Some(p) = v.get("policies") {
            if let Ok(ps) = serde_json::from_value::<api::ffi::PolicySet>(p.clone()) {
                let a = api::ffi::preparse_policy_set("c20".to_string(), ps);
                let _ = serde_json::to_string(&a);
                t.ep("ffi.preparse_policy_set", "answered");
            }
        }
        if let Some(p) = v.get("schema") {
            if let Ok(sc) = serde_json::from_value::<api::ffi::Schema>(p.clone()) {
                let a = api::ffi::preparse_schema("c20".to_string(), sc);
                let _ = serde_json::to_string(&a);
                t.ep("ffi.preparse_schema", "answered");
            }
        }
    }
}

fn ep_proto(fx: &Fx, b: &[u8], t: &mut Tally) {
    let wf = world(fx, b);
    macro_rules! dec {
        ($n:expr, $ty:ty, $on_ok:expr) => {
            match <$ty>::decode(b) {
                Ok(x) => { t.ep(concat!("proto.", $n, "::decode"), "ok"); let f: &dyn Fn(&$ty, &mut Tally) = &$on_ok; f(&x, t); }
                Err(e) => errp!(t, concat!("proto.", $n, "::decode"), e),
            }
            match <$ty>::decode_unchecked(b) {
                Ok(x) => {
                    t.ep(concat!("proto.", $n, "::decode_unchecked"), "ok");
                    t.stage("proto_encode");
                    match x.encode() { Ok(v) => { let _ = v.len(); } Err(e) => render_plain(&e, t) }
                }
                Err(e) => errp!(t, concat!("proto.", $n, "::decode_unchecked"), e),
            }
        };
    }
    dec!("PolicySet", api::PolicySet, |ps: &api::PolicySet, t: &mut Tally| policy_pipelines(fx, wf, ps, t));
    dec!("Entities", api::Entities, |es: &api::Entities, t: &mut Tally| entities_pipelines(fx, wf, es, t));
    dec!("Entity", api::Entity, |e: &api::Entity, t: &mut Tally| { t.stage("print"); let _ = e.to_string(); if let Err(err) = e.to_json_string() { render(err, t) } });
    dec!("Schema", api::Schema, |s: &api::Schema, t: &mut Tally| schema_pipelines(fx, s, t));
    dec!("Template", api::Template, |tp: &api::Template, t: &mut Tally| {
        let mut ps = api::PolicySet::new();
        match ps.add_template(tp.clone()) { Ok(()) => policy_pipelines(fx, wf, &ps, t), Err(e) => render(e, t) }
    });
    dec!("Expression", api::Expression, |e: &api::Expression, t: &mut Tally| {
        t.stage("evaluate");
        let _ = e.to_string();
        match api::eval_expression(&wf.req, &wf.ents, e) { Ok(v) => { let _ = v.to_string(); } Err(err) => render(err, t) }
    });
    dec!("Request", api::Request, |r: &api::Request, t: &mut Tally| {
        t.stage("authorize");
        let _ = format!("{r:?}").len();
        let resp = fx.auth.is_authorized(r, &fx.fixed_pset, &wf.ents);
        for e in resp.diagnostics().errors() { render_ref(e, t) }
    });
    dec!("EntityTypeName", api::EntityTypeName, |n: &api::EntityTypeName, _t: &mut Tally| { let _ = n.to_string(); });
    dec!("EntityNamespace", api::EntityNamespace, |n: &api::EntityNamespace, _t: &mut Tally| { let _ = n.to_string(); });
}

pub const EPS: &[Ep] = &[
    Ep { name: "core.parse_policyset*", fam: Fam::Policy, f: ep_core_parse_policyset },
    Ep { name: "core.parse_policy*", fam: Fam::Policy, f: ep_core_parse_policy },
    Ep { name: "api.PolicySet::from_str", fam: Fam::Policy, f: ep_api_policyset_from_str },
    Ep { name: "api.Policy/Template::parse", fam: Fam::Policy, f: ep_api_policy_parse },
    Ep { name: "formatter.policies_str_to_pretty", fam: Fam::Policy, f: ep_formatter },
    Ep { name: "ffi(policy text)", fam: Fam::Policy, f: ep_ffi_policy_text },
    Ep { name: "expressions", fam: Fam::Expr, f: ep_expr },
    Ep { name: "names/uids/strings", fam: Fam::Expr, f: ep_names },
    Ep { name: "JSON policies (EST)", fam: Fam::Est, f: ep_est },
    Ep { name: "schema (Cedar syntax)", fam: Fam::SchemaCedar, f: ep_schema_cedar },
    Ep { name: "schema (JSON syntax)", fam: Fam::SchemaJson, f: ep_schema_json },
    Ep { name: "entities", fam: Fam::Entities, f: ep_entities },
    Ep { name: "context", fam: Fam::Context, f: ep_context },
    Ep { name: "ffi json calls", fam: Fam::Ffi, f: ep_ffi },
    Ep { name: "protobuf bytes", fam: Fam::Proto, f: ep_proto },
];
