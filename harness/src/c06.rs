//! C06: structured formats are lossless. For generated policies / templates / policy sets with links:
//!  (a) text -> Policy/Template -> to_json -> from_json                 equal to the original
//!  (b) text -> CST -> EST   vs   AST -> EST                            both convert back to equal policies
//!  (c) to_pst / from_pst (lossless-text route and AST route)
//!  (d) protobuf encode / decode (templates, policy sets with links)
//!  (e) equal authorization responses original vs round-tripped, 3 random worlds
//!  (f) a JSON policy accepted by from_json evaluates like the Cedar text it prints as
//! plus hand-built EST JSON (every operator key, odd-but-accepted shapes, rejected shapes; own / wrong / swapped slots in
//! every scope-constraint form); every accepted JSON template is also LINKED (distinct slot values) and the link compared
//! with its own to_json -> from_json round trip and with the same link of the template's printed Cedar text.
//! Model lines: `(est to <json>)` = Rust's from_json, `(est of <expr>)` = Rust's to_json (as JSON values,
//! object keys sorted), `(estpol to <json>)` = Rust's policy-level from_json.
use crate::c01::gen_scope;
use crate::c02::panic_msg;
use crate::gen::{self, ExprGen, Ty, World};
use crate::out::Out;
use crate::rng::Rng;
use crate::sx;
use crate::Args;
use cedar_policy::proto::traits::Protobuf;
use cedar_policy_core::ast::{self, Effect, EntityUID, PolicyID};
use cedar_policy_core::authorizer::{Authorizer, Decision};
use cedar_policy_core::est;
use cedar_policy_core::evaluator::Evaluator;
use cedar_policy_core::extensions::Extensions;
use cedar_policy_core::parser;
use serde_json::{json, Value as J};
use std::collections::{BTreeMap, HashMap};
use std::panic::{catch_unwind, AssertUnwindSafe};

// ---------------------------------------------------------------- JSON -> sexp

pub fn json_sx(j: &J) -> String {
    match j {
        J::Null => "(null)".into(),
        J::Bool(b) => format!("(b {b})"),
        J::Number(n) => {
            if let Some(i) = n.as_i64() { format!("(n {i})") }
            else if let Some(u) = n.as_u64() { format!("(n {u})") }
            else { format!("(f {})", sx::qs(&n.to_string())) }
        }
        J::String(s) => format!("(s {})", sx::qs(s)),
        J::Array(xs) => {
            let mut o = String::from("(arr");
            for x in xs { o.push(' '); o.push_str(&json_sx(x)); }
            o.push(')');
            o
        }
        J::Object(m) => {
            let mut kvs: Vec<(&String, &J)> = m.iter().collect();
            kvs.sort_by(|a, b| a.0.cmp(b.0));
            let mut o = String::from("(obj");
            for (k, v) in kvs { o.push_str(&format!(" ({} {})", sx::qs(k), json_sx(v))); }
            o.push(')');
            o
        }
    }
}

// ---------------------------------------------------------------- text generators

const ANN_KEYS: &[&str] = &["id", "reason", "a", "if", "permit", "in", "long_key_1", "_x"];
const ANN_VALS: &[&str] = &["", "x", "he said \"hi\"", "back\\slash", "line\nbreak", "nul\u{0}", "\u{1F600} smile", "tab\there", "'single'", "*", "é"];
const IDENT_ATTRS: &[&str] = &["n", "m", "s", "b", "f", "ls", "es", "ss", "r", "d", "ip", "t", "du"];

fn cedar_str(s: &str) -> String {
    let mut o = String::from("\"");
    for c in s.chars() {
        match c {
            '"' => o.push_str("\\\""),
            '\\' => o.push_str("\\\\"),
            '\n' => o.push_str("\\n"),
            '\t' => o.push_str("\\t"),
            '\u{0}' => o.push_str("\\0"),
            c => o.push(c),
        }
    }
    o.push('"');
    o
}

fn entity_text(r: &mut Rng) -> String {
    match r.below(4) {
        0 => "principal".into(),
        1 => "resource".into(),
        2 => "action".into(),
        _ => gen::gen_uid(r).to_string(),
    }
}

/// one boolean condition as Cedar text, using surface syntax the AST printer never produces
fn gen_cond_text(r: &mut Rng, g: &mut ExprGen, out: &mut Out) -> String {
    let d = r.below(3) as u32;
    let k = if r.chance(2) { 20 } else { r.below(20) };
    let tag = match k { 20 => "wrong_arity", 0..=8 => "ast_printed", 9 => "noteq", 10 => "greater", 11 => "greatereq", 12 | 13 => "has_chain", 14 | 15 => "is_in", 16 => "and_or_chain", 17 => "has_string", 18 => "neg_method", _ => "record_index" };
    out.count(&format!("cond_{tag}"));
    match k {
        0..=8 => { let dd = 1 + r.below(4) as u32; g.gen(r, Ty::Bool, dd).to_string() }
        9 => {
            let t = *r.pick(gen::ALL_TYS);
            format!("({}) != ({})", g.gen(r, t, d), g.gen(r, t, d))
        }
        10 => format!("({}) > ({})", g.gen(r, Ty::Long, d), g.gen(r, Ty::Long, d)),
        11 => format!("({}) >= ({})", g.gen(r, Ty::Long, d), g.gen(r, Ty::Long, d)),
        12 | 13 => {
            let base = if r.chance(60) { "context".to_string() } else { entity_text(r) };
            let n = 1 + r.below(4);
            let path: Vec<&str> = (0..n).map(|i| if i + 1 < n && r.chance(70) { "r" } else { *r.pick(IDENT_ATTRS) }).collect();
            let neg = if r.chance(20) { "!" } else { "" };
            format!("{neg}({base} has {})", path.join("."))
        }
        14 | 15 => {
            let e = if r.chance(70) { entity_text(r) } else { format!("({})", g.gen(r, Ty::Entity, d)) };
            let t = *r.pick(gen::TYPES);
            if r.chance(70) {
                let rhs = if r.chance(60) { entity_text(r) } else { format!("[{}, {}]", gen::gen_uid(r), gen::gen_uid(r)) };
                format!("{e} is {t} in {rhs}")
            } else {
                format!("{e} is {t}")
            }
        }
        16 => {
            let a = g.gen(r, Ty::Bool, d).to_string();
            let b = g.gen(r, Ty::Bool, d).to_string();
            let c = g.gen(r, Ty::Bool, d).to_string();
            match r.below(4) {
                0 => format!("({a}) && ({b}) && ({c})"),
                1 => format!("({a}) || ({b}) || ({c})"),
                2 => format!("({a}) || ({b}) && ({c})"),
                _ => format!("!!({a}) && !({b})"),
            }
        }
        20 => (*r.pick(&["ip(\"1.1.1.1\").isIpv4(1, 2)", "decimal(\"1.0\", 2) == decimal(\"1.0\")", "context.ip.isInRange()", "duration(\"1h\").toHours(1) > 0"])).to_string(),
        17 => format!("context has \"has space\" || {} has \"\"", entity_text(r)),
        18 => format!("-({}) < - 3 && {}.isEmpty() == false", g.gen(r, Ty::Long, d), g.gen(r, Ty::SetLong, d)),
        _ => format!("{{\"a b\": {}, c: 2}}[\"a b\"] == context[\"has space\"]", g.gen(r, Ty::Str, 0)),
    }
}

#[derive(Clone)]
pub struct Spec {
    pub id: String,
    pub text: String,
    pub annotations: Vec<(String, Option<String>)>,
    /// Some = template, with the slot values of its link
    pub link: Option<(Option<EntityUID>, Option<EntityUID>)>,
}

fn gen_spec(r: &mut Rng, g: &mut ExprGen, w: &World, id: &str, out: &mut Out) -> Spec {
    let want_template = r.chance(35);
    let (scope, up, ur) = gen_scope(r, w, want_template);
    let mut text = String::new();
    let mut annotations = Vec::new();
    let na = if r.chance(50) { 0 } else { 1 + r.below(3) };
    let mut keys: Vec<&str> = ANN_KEYS.to_vec();
    for _ in 0..na {
        let k = keys.remove(r.below(keys.len()));
        if r.chance(20) {
            text.push_str(&format!("@{k}\n"));
            annotations.push((k.to_string(), None));
        } else {
            let v = *r.pick(ANN_VALS);
            text.push_str(&format!("@{k}({})\n", cedar_str(v)));
            annotations.push((k.to_string(), Some(v.to_string())));
        }
    }
    text.push_str(if r.chance(60) { "permit" } else { "forbid" });
    text.push_str(&scope);
    let nc = match r.below(10) { 0 => 0, 1..=5 => 1, 6..=8 => 2, _ => 3 };
    out.count(&format!("clauses_{nc}"));
    for _ in 0..nc {
        let c = gen_cond_text(r, g, out);
        text.push_str(&format!(" {} {{ {c} }}", if r.chance(65) { "when" } else { "unless" }));
    }
    text.push(';');
    let link = if up || ur {
        Some((
            if up { Some(if r.chance(50) { w.principal.clone() } else { gen::gen_uid(r) }) } else { None },
            if ur { Some(if r.chance(50) { w.resource.clone() } else { gen::gen_uid(r) }) } else { None },
        ))
    } else { None };
    Spec { id: id.to_string(), text, annotations, link }
}

// ---------------------------------------------------------------- structural comparison

fn ann_map(t: &ast::Template) -> BTreeMap<String, String> {
    t.annotations().map(|(k, v)| (k.to_string(), v.val.to_string())).collect()
}

/// `None` = equal in every component the property names
pub fn diff_template(a: &ast::Template, b: &ast::Template) -> Option<String> {
    if a.id() != b.id() { return Some(format!("id {:?} vs {:?}", a.id(), b.id())); }
    if a.effect() != b.effect() { return Some("effect".into()); }
    if ann_map(a) != ann_map(b) { return Some(format!("annotations {:?} vs {:?}", ann_map(a), ann_map(b))); }
    if a.principal_constraint() != b.principal_constraint() { return Some(format!("principal constraint {} vs {}", a.principal_constraint(), b.principal_constraint())); }
    if a.action_constraint() != b.action_constraint() { return Some(format!("action constraint {} vs {}", a.action_constraint(), b.action_constraint())); }
    if a.resource_constraint() != b.resource_constraint() { return Some(format!("resource constraint {} vs {}", a.resource_constraint(), b.resource_constraint())); }
    match (a.non_scope_constraints(), b.non_scope_constraints()) {
        (None, None) => {}
        (Some(x), Some(y)) => if !x.eq_shape(y) { return Some(format!("condition {x} vs {y}")); },
        (x, y) => return Some(format!("condition presence {:?} vs {:?}", x.map(|e| e.to_string()), y.map(|e| e.to_string()))),
    }
    let sa: Vec<String> = a.slots().map(|s| s.id.to_string()).collect();
    let sb: Vec<String> = b.slots().map(|s| s.id.to_string()).collect();
    if sa != sb { return Some(format!("slots {sa:?} vs {sb:?}")); }
    if a != b { return Some("PartialEq says different although all components agree".into()); }
    None
}

fn env_vec(p: &ast::Policy) -> Vec<(String, String)> {
    let mut v: Vec<(String, String)> = p.env().iter().map(|(k, u)| (k.to_string(), u.to_string())).collect();
    v.sort();
    v
}

pub fn diff_policy(a: &ast::Policy, b: &ast::Policy) -> Option<String> {
    if a.id() != b.id() { return Some(format!("policy id {:?} vs {:?}", a.id(), b.id())); }
    if env_vec(a) != env_vec(b) { return Some(format!("link bindings {:?} vs {:?}", env_vec(a), env_vec(b))); }
    diff_template(a.template(), b.template())
}

/// policy sets: same policy ids, same templates, same links
pub fn diff_pset(a: &ast::PolicySet, b: &ast::PolicySet) -> Option<String> {
    let ta: BTreeMap<String, &ast::Template> = a.templates().map(|t| (t.id().as_ref().to_string(), t)).collect();
    let tb: BTreeMap<String, &ast::Template> = b.templates().map(|t| (t.id().as_ref().to_string(), t)).collect();
    if ta.keys().collect::<Vec<_>>() != tb.keys().collect::<Vec<_>>() { return Some(format!("template ids {:?} vs {:?}", ta.keys(), tb.keys())); }
    for (k, t) in &ta { if let Some(d) = diff_template(t, tb[k]) { return Some(format!("template {k}: {d}")); } }
    let pa: BTreeMap<String, &ast::Policy> = a.policies().map(|p| (p.id().as_ref().to_string(), p)).collect();
    let pb: BTreeMap<String, &ast::Policy> = b.policies().map(|p| (p.id().as_ref().to_string(), p)).collect();
    if pa.keys().collect::<Vec<_>>() != pb.keys().collect::<Vec<_>>() { return Some(format!("policy ids {:?} vs {:?}", pa.keys(), pb.keys())); }
    for (k, p) in &pa { if let Some(d) = diff_policy(p, pb[k]) { return Some(format!("policy {k}: {d}")); } }
    None
}

// ---------------------------------------------------------------- evaluation / authorization observables

fn resp_of(w: &World, ps: &ast::PolicySet) -> Result<String, String> {
    let r = catch_unwind(AssertUnwindSafe(|| Authorizer::new().is_authorized(w.request(), ps, &w.entities))).map_err(panic_msg)?;
    let errs = sx::ids(r.diagnostics.errors.iter().map(|e| match e {
        cedar_policy_core::authorizer::AuthorizationError::PolicyEvaluationError { id, .. } => id.as_ref().to_string(),
    }));
    Ok(format!("(resp {} {} {})", if r.decision == Decision::Allow { "allow" } else { "deny" }, sx::ids(r.diagnostics.reason.iter().map(|i| i.as_ref().to_string())), errs))
}

fn eval_of(w: &World, p: &ast::Policy) -> Result<String, String> {
    catch_unwind(AssertUnwindSafe(|| {
        let ev = Evaluator::new(w.request(), &w.entities, Extensions::all_available());
        match ev.evaluate(p) { Ok(b) => format!("(ok {b})"), Err(e) => format!("(err {})", sx::err_class(&e)) }
    })).map_err(panic_msg)
}

fn guard<T>(out: &mut Out, what: &str, case: &str, f: impl FnOnce() -> T) -> Option<T> {
    match catch_unwind(AssertUnwindSafe(f)) {
        Ok(x) => Some(x),
        Err(p) => { out.propfail(&format!("panic in {what}"), case, &panic_msg(p)); None }
    }
}

// ---------------------------------------------------------------- model lines

fn ast_reply(e: &ast::Expr) -> Option<String> { Some(format!("(ok {})", sx::expr(e)?)) }

/// `(est to json)` : Rust parses the JSON expression; `(est of e)` : Rust's JSON for e
fn model_lines_for_expr(e: &ast::Expr, out: &mut Out, tag: &str) {
    let Some(esx) = sx::expr(e) else { out.count("outside_protocol"); return };
    let est: est::Expr = e.clone().into_expr::<est::Builder>();
    let Ok(j) = serde_json::to_value(&est) else { out.count("est_serialize_fail"); return };
    let jsx = json_sx(&j);
    let back = serde_json::from_value::<est::Expr>(j.clone()).map_err(|e| e.to_string()).and_then(|x| x.try_into_ast(&PolicyID::from_string("p")).map_err(|e| e.to_string()));
    let reply = match &back { Ok(e2) => ast_reply(e2).unwrap_or("(outside-protocol)".into()), Err(_) => "(err)".into() };
    out.line(format!("(est to {jsx})"), reply, format!("{tag} to: {e}"));
    out.line(format!("(est of {esx})"), jsx.clone(), format!("{tag} of: {e}"));
    if e.subexpressions().count() >= 4 { out.nontrivial(&jsx); }
    out.count("model_expr_pairs");
}

fn uid_sx_opt(r: &ast::EntityReference) -> String {
    match r { ast::EntityReference::EUID(u) => sx::uid(u), ast::EntityReference::Slot(_) => "(slot)".into() }
}

fn porc_sx(c: &ast::PrincipalOrResourceConstraint) -> String {
    use ast::PrincipalOrResourceConstraint as C;
    match c {
        C::Any => "(any)".into(),
        C::Eq(r) => format!("(eq {})", uid_sx_opt(r)),
        C::In(r) => format!("(in {})", uid_sx_opt(r)),
        C::Is(t) => format!("(is {})", sx::qs(&t.to_string())),
        C::IsIn(t, r) => format!("(isin {} {})", sx::qs(&t.to_string()), uid_sx_opt(r)),
    }
}

fn action_sx(c: &ast::ActionConstraint) -> String {
    match c {
        ast::ActionConstraint::Any => "(any)".into(),
        ast::ActionConstraint::Eq(u) => format!("(eq {})", sx::uid(u)),
        ast::ActionConstraint::In(us) => format!("(in{})", us.iter().map(|u| format!(" {}", sx::uid(u))).collect::<String>()),
        #[allow(unreachable_patterns)]
        _ => "(error)".into(),
    }
}

pub fn template_sx(t: &ast::Template) -> Option<String> {
    let anns: String = ann_map(t).iter().map(|(k, v)| format!(" ({} {})", sx::qs(k), sx::qs(v))).collect();
    let cond = match t.non_scope_constraints() { None => "(none)".to_string(), Some(e) => format!("(some {})", sx::expr(e)?) };
    Some(format!("(ok (tpl {} {} {} {} (ann{}) {}))",
        if t.effect() == Effect::Permit { "permit" } else { "forbid" },
        porc_sx(t.principal_constraint().as_inner()), action_sx(t.action_constraint()), porc_sx(t.resource_constraint().as_inner()), anns, cond))
}

fn model_line_for_policy_json(j: &J, out: &mut Out, tag: &str) -> Option<ast::Template> {
    let r = catch_unwind(AssertUnwindSafe(|| {
        serde_json::from_value::<est::Policy>(j.clone()).map_err(|e| e.to_string())
            .and_then(|p| p.try_into_ast_policy_or_template(Some(PolicyID::from_string("p"))).map_err(|e| e.to_string()))
    }));
    let r = match r { Ok(r) => r, Err(p) => { out.propfail("panic in from_json", &j.to_string(), &panic_msg(p)); return None } };
    let reply = match &r { Ok(t) => template_sx(t).unwrap_or("(outside-protocol)".into()), Err(_) => "(err)".into() };
    out.line(format!("(estpol to {})", json_sx(j)), reply, format!("{tag} {j}"));
    out.count(if r.is_ok() { "model_policy_json_accepted" } else { "model_policy_json_rejected" });
    r.ok()
}

// ---------------------------------------------------------------- per-policy checks

struct Built {
    spec: Spec,
    /// the template (static policies are templates without slots)
    tpl: ast::Template,
}

fn check_one(r: &mut Rng, worlds: &[World], s: &Spec, out: &mut Out) -> Option<Built> {
    let case = format!("{}: {}", s.id, s.text);
    let id = PolicyID::from_string(&s.id);
    // core: text -> (EST via CST, AST)
    let (est_cst, tpl) = match parser::parse_policy_or_template_to_est_and_ast(Some(id.clone()), &s.text) {
        Ok(x) => x,
        Err(e) => { out.count("unparseable"); out.count(&format!("unparseable: {}", e.to_string().chars().take(50).collect::<String>())); return None; }
    };
    out.count(if s.link.is_some() { "templates" } else { "static_policies" });
    out.cases += 1;
    // annotation values survive parsing as written
    for (k, v) in &s.annotations {
        let got = ann_map(&tpl).get(k).cloned();
        if got != Some(v.clone().unwrap_or_default()) { out.propfail("annotation value changed by parsing", &case, &format!("{k}: {got:?} vs {v:?}")); }
    }
    // (b) CST->EST vs AST->EST, through JSON text, back to AST
    let est_ast = est::Policy::from(tpl.clone());
    let j_cst = serde_json::to_value(&est_cst).ok()?;
    let j_ast = serde_json::to_value(&est_ast).ok()?;
    if j_cst == j_ast { out.count("b_json_identical"); } else { out.count("b_json_differs_harmlessly"); }
    for (which, j) in [("CST->EST", &j_cst), ("AST->EST", &j_ast)] {
        let txt = serde_json::to_string(j).unwrap();
        let back = guard(out, "EST from_json", &case, || {
            serde_json::from_str::<est::Policy>(&txt).map_err(|e| e.to_string())
                .and_then(|p| p.try_into_ast_policy_or_template(Some(id.clone())).map_err(|e| e.to_string()))
        })?;
        match back {
            Ok(t2) => {
                out.count("b_roundtrips");
                if let Some(d) = diff_template(&tpl, &t2) { out.propfail(&format!("(b) {which} -> JSON -> AST differs from the parsed policy"), &case, &d); }
            }
            Err(e) => out.propfail(&format!("(b) {which} JSON is rejected by from_json"), &case, &format!("{e} ; json {txt}")),
        }
    }
    // model lines: every clause body, the folded condition, and the policy JSON
    if let Some(c) = tpl.non_scope_constraints() { model_lines_for_expr(c, out, "cond"); }
    model_line_for_policy_json(&j_cst, out, "text-json");
    if j_cst != j_ast { model_line_for_policy_json(&j_ast, out, "ast-json"); }
    // public API objects
    let pid = cedar_policy::PolicyId::new(&s.id);
    if s.link.is_none() {
        let p = match cedar_policy::Policy::parse(Some(pid.clone()), &s.text) { Ok(p) => p, Err(e) => { out.propfail("core parses but Policy::parse fails", &case, &e.to_string()); return None } };
        let p_ast: &ast::Policy = p.as_ref();
        let p_from_ast = cedar_policy::Policy::from(p_ast.clone());
        // (a) JSON
        for (route, q) in [("text", &p), ("ast", &p_from_ast)] {
            match guard(out, "Policy::to_json", &case, || q.to_json())? {
                Ok(j) => match guard(out, "Policy::from_json", &case, || cedar_policy::Policy::from_json(Some(pid.clone()), j.clone()))? {
                    Ok(p2) => {
                        out.count("a_policy_json_roundtrips");
                        if let Some(d) = diff_policy(p_ast, p2.as_ref()) { out.propfail(&format!("(a) Policy JSON round trip ({route} route) differs"), &case, &d); }
                        if *q != p2 { out.propfail(&format!("(a) Policy JSON round trip ({route} route): PartialEq differs"), &case, ""); }
                        // (f) accepted JSON evaluates like the text it prints as
                        check_prints_as(worlds, &p2, &case, out);
                        // (e) responses
                        check_responses(worlds, &[p_ast.clone()], &[p2.as_ref().clone()], &case, "json", out);
                    }
                    Err(e) => out.propfail(&format!("(a) to_json output rejected by from_json ({route} route)"), &case, &format!("{e} ; {j}")),
                },
                Err(e) => out.propfail("(a) to_json failed", &case, &e.to_string()),
            }
            // (c) PST
            match guard(out, "Policy::to_pst", &case, || q.to_pst())? {
                Ok(pst) => match guard(out, "Policy::from_pst", &case, || cedar_policy::Policy::from_pst(pst.clone()))? {
                    Ok(p2) => {
                        out.count("c_policy_pst_roundtrips");
                        if let Some(d) = diff_policy(p_ast, p2.as_ref()) { out.propfail(&format!("(c) Policy PST round trip ({route} route) differs"), &case, &d); }
                        check_responses(worlds, &[p_ast.clone()], &[p2.as_ref().clone()], &case, "pst", out);
                        // PST -> JSON -> policy
                        if let Ok(j) = p2.to_json() {
                            match cedar_policy::Policy::from_json(Some(pid.clone()), j) {
                                Ok(p3) => if let Some(d) = diff_policy(p_ast, p3.as_ref()) { out.propfail("(c) PST -> JSON -> Policy differs", &case, &d); },
                                Err(e) => out.propfail("(c) JSON of a PST policy rejected", &case, &e.to_string()),
                            }
                        }
                    }
                    Err(e) => out.propfail(&format!("(c) from_pst rejects to_pst output ({route} route)"), &case, &e.to_string()),
                },
                Err(e) => out.propfail(&format!("(c) to_pst failed ({route} route)"), &case, &e.to_string()),
            }
        }
    } else {
        let t = match cedar_policy::Template::parse(Some(pid.clone()), &s.text) { Ok(t) => t, Err(e) => { out.propfail("core parses but Template::parse fails", &case, &e.to_string()); return None } };
        let t_ast: &ast::Template = t.as_ref();
        let t_from_ast = cedar_policy::Template::from(t_ast.clone());
        for (route, q) in [("text", &t), ("ast", &t_from_ast)] {
            match guard(out, "Template::to_json", &case, || q.to_json())? {
                Ok(j) => match guard(out, "Template::from_json", &case, || cedar_policy::Template::from_json(Some(pid.clone()), j.clone()))? {
                    Ok(t2) => {
                        out.count("a_template_json_roundtrips");
                        if let Some(d) = diff_template(t_ast, t2.as_ref()) { out.propfail(&format!("(a) Template JSON round trip ({route} route) differs"), &case, &d); }
                        if *q != t2 { out.propfail(&format!("(a) Template JSON round trip ({route} route): PartialEq differs"), &case, ""); }
                        // (f) printed form of the accepted JSON template parses to the same template
                        let printed = t2.to_cedar();
                        match cedar_policy::Template::parse(Some(pid.clone()), &printed) {
                            Ok(t3) => if let Some(d) = diff_template(t2.as_ref(), t3.as_ref()) { out.propfail("(f) JSON template differs from the text it prints as", &case, &format!("{d} ; printed {printed}")); },
                            Err(e) => out.propfail("(f) printed JSON template does not parse", &case, &format!("{e} ; printed {printed}")),
                        }
                    }
                    Err(e) => out.propfail(&format!("(a) Template to_json output rejected by from_json ({route} route)"), &case, &format!("{e} ; {j}")),
                },
                Err(e) => out.propfail("(a) Template to_json failed", &case, &e.to_string()),
            }
            match guard(out, "Template::to_pst", &case, || q.to_pst())? {
                Ok(pst) => match guard(out, "Template::from_pst", &case, || cedar_policy::Template::from_pst(pst.clone()))? {
                    Ok(t2) => {
                        out.count("c_template_pst_roundtrips");
                        if let Some(d) = diff_template(t_ast, t2.as_ref()) { out.propfail(&format!("(c) Template PST round trip ({route} route) differs"), &case, &d); }
                    }
                    Err(e) => out.propfail(&format!("(c) Template from_pst rejects to_pst output ({route} route)"), &case, &e.to_string()),
                },
                Err(e) => out.propfail(&format!("(c) Template to_pst failed ({route} route)"), &case, &e.to_string()),
            }
        }
        // (d) protobuf: template
        match guard(out, "Template::encode", &case, || t.encode())? {
            Ok(buf) => match guard(out, "Template::decode", &case, || cedar_policy::Template::decode(&buf[..]))? {
                Ok(t2) => {
                    out.count("d_template_proto_roundtrips");
                    // protobuf templates do not carry the id: compare modulo id
                    let t2 = t2.new_id(pid.clone());
                    if let Some(d) = diff_template(t_ast, t2.as_ref()) { out.propfail("(d) Template protobuf round trip differs", &case, &d); }
                }
                Err(e) => out.propfail("(d) Template decode rejects encode output", &case, &e.to_string()),
            },
            Err(e) => { out.count("d_encode_refused"); let _ = e; }
        }
    }
    // expression-level protobuf
    if let Some(c) = tpl.non_scope_constraints() {
        if c.slots().next().is_none() {
            let text = c.to_string();
            if let Ok(e) = <cedar_policy::Expression as std::str::FromStr>::from_str(&text) {
                if let Some(Ok(buf)) = guard(out, "Expression::encode", &case, || e.encode()) {
                    match guard(out, "Expression::decode", &case, || cedar_policy::Expression::decode(&buf[..]))? {
                        Ok(e2) => {
                            out.count("d_expr_proto_roundtrips");
                            let (a, b): (&ast::Expr, &ast::Expr) = (e.as_ref(), e2.as_ref());
                            if !a.eq_shape(b) { out.propfail("(d) Expression protobuf round trip differs", &case, &format!("{a} vs {b}")); }
                        }
                        Err(e) => out.propfail("(d) Expression decode rejects encode output", &case, &e.to_string()),
                    }
                }
            }
        }
    }
    let _ = r;
    Some(Built { spec: s.clone(), tpl })
}

/// (f): `p` came from JSON; its printed Cedar text must parse to a policy that evaluates identically
fn check_prints_as(worlds: &[World], p: &cedar_policy::Policy, case: &str, out: &mut Out) {
    for (how, printed) in [("to_cedar", p.to_cedar()), ("Display", Some(p.to_string()))] {
        let Some(printed) = printed else { continue };
        match cedar_policy::Policy::parse(Some(p.id().clone()), &printed) {
            Ok(p3) => {
                out.count("f_printed_parses");
                if let Some(d) = diff_policy(p.as_ref(), p3.as_ref()) {
                    // the printed text parses to a structurally different policy: that is not yet a violation (the property
                    // speaks of evaluation), so search for a request on which the two evaluate differently — boundary-heavy worlds
                    out.count("f_printed_differs_structurally");
                    let mut sr = crate::rng::Rng::new(0xF00D ^ (printed.len() as u64));
                    let mut found = false;
                    for _ in 0..400 {
                        let w = crate::gen::gen_world(&mut sr);
                        let (a, b) = (eval_of(&w, p.as_ref()), eval_of(&w, p3.as_ref()));
                        out.count("f_directed_evaluations");
                        if a != b {
                            out.propfail(&format!("(f) JSON policy evaluates differently from the text it prints as ({how}, directed search after structural difference)"), case, &format!("{d} ; json: {a:?} ; printed `{printed}`: {b:?}"));
                            found = true;
                            break;
                        }
                    }
                    if !found { out.count("f_structural_difference_no_semantic_difference_found"); }
                }
                for w in worlds {
                    let (a, b) = (eval_of(w, p.as_ref()), eval_of(w, p3.as_ref()));
                    out.count("f_evaluations");
                    if a != b { out.propfail(&format!("(f) JSON policy evaluates differently from the text it prints as ({how})"), case, &format!("json: {a:?} ; printed `{printed}`: {b:?}")); }
                }
            }
            Err(e) => out.propfail(&format!("(f) the Cedar text a JSON policy prints as does not parse ({how})"), case, &format!("{e} ; printed {printed}")),
        }
    }
}

fn pset_of(ps: &[ast::Policy]) -> Option<ast::PolicySet> {
    let mut s = ast::PolicySet::new();
    for p in ps { s.add(p.clone()).ok()?; }
    Some(s)
}

fn check_responses(worlds: &[World], a: &[ast::Policy], b: &[ast::Policy], case: &str, fmt: &str, out: &mut Out) {
    let (Some(sa), Some(sb)) = (pset_of(a), pset_of(b)) else { return };
    check_responses_ps(worlds, &sa, &sb, case, fmt, out);
}

fn check_responses_ps(worlds: &[World], sa: &ast::PolicySet, sb: &ast::PolicySet, case: &str, fmt: &str, out: &mut Out) {
    for w in worlds {
        let (ra, rb) = (resp_of(w, sa), resp_of(w, sb));
        out.count("e_response_comparisons");
        if let Ok(x) = &ra { if x.contains("allow") { out.count("e_allow"); } }
        if ra != rb { out.propfail(&format!("(e) authorization response differs after {fmt} round trip"), case, &format!("{ra:?} vs {rb:?}")); }
    }
}

// ---------------------------------------------------------------- whole policy sets

fn check_set(worlds: &[World], built: &[Built], out: &mut Out) {
    if built.is_empty() { return; }
    let case = built.iter().map(|b| format!("{}{}: {}", b.spec.id, if b.spec.link.is_some() { "[template+link]" } else { "" }, b.spec.text)).collect::<Vec<_>>().join(" || ");
    let mut ps = cedar_policy::PolicySet::new();
    let mut nlinks = 0;
    for b in built {
        let pid = cedar_policy::PolicyId::new(&b.spec.id);
        match &b.spec.link {
            None => {
                let Ok(p) = cedar_policy::Policy::parse(Some(pid), &b.spec.text) else { return };
                if ps.add(p).is_err() { return; }
            }
            Some((lp, lr)) => {
                let Ok(t) = cedar_policy::Template::parse(Some(pid.clone()), &b.spec.text) else { return };
                if ps.add_template(t).is_err() { return; }
                let n = 1 + (b.spec.id.len() % 2);
                for i in 0..n {
                    let mut vals: HashMap<cedar_policy::SlotId, cedar_policy::EntityUid> = HashMap::new();
                    if let Some(u) = lp { vals.insert(cedar_policy::SlotId::principal(), u.clone().into()); }
                    if let Some(u) = lr { vals.insert(cedar_policy::SlotId::resource(), (if i == 0 { u.clone() } else { gen::mk_uid("Group", "b") }).into()); }
                    let lid = cedar_policy::PolicyId::new(format!("{}-link{}", b.spec.id, i));
                    match ps.link(pid.clone(), lid, vals) { Ok(()) => nlinks += 1, Err(e) => { out.propfail("linking a parsed template fails", &case, &e.to_string()); return; } }
                }
            }
        }
    }
    out.count("policy_sets");
    out.add("policy_set_links", nlinks);
    if nlinks > 0 { out.nontrivial(&case); }
    let orig: &ast::PolicySet = ps.as_ref();
    // (a) JSON
    match guard(out, "PolicySet::to_json", &case, || ps.clone().to_json()) {
        Some(Ok(j)) => match guard(out, "PolicySet::from_json_value", &case, || cedar_policy::PolicySet::from_json_value(j.clone())) {
            Some(Ok(ps2)) => {
                out.count("a_set_json_roundtrips");
                if let Some(d) = diff_pset(orig, ps2.as_ref()) { out.propfail("(a) PolicySet JSON round trip differs", &case, &d); }
                // `PolicySet: PartialEq` compares insertion-ordered maps; the property speaks of the members
                if ps != ps2 { out.count("set_partialeq_differs_json(order-sensitive)"); }
                check_responses_ps(worlds, orig, ps2.as_ref(), &case, "policy-set json", out);
                // second generation: JSON of the JSON-built set
                if let Ok(j2) = ps2.clone().to_json() {
                    match cedar_policy::PolicySet::from_json_value(j2) {
                        Ok(ps3) => if let Some(d) = diff_pset(orig, ps3.as_ref()) { out.propfail("(a) PolicySet JSON second round trip differs", &case, &d); },
                        Err(e) => out.propfail("(a) JSON of a JSON-built PolicySet rejected", &case, &e.to_string()),
                    }
                }
            }
            Some(Err(e)) => out.propfail("(a) PolicySet::to_json output rejected by from_json_value", &case, &format!("{e} ; {j}")),
            None => {}
        },
        Some(Err(e)) => out.propfail("(a) PolicySet::to_json failed", &case, &e.to_string()),
        None => {}
    }
    // (c) PST
    match guard(out, "PolicySet::to_pst", &case, || ps.to_pst()) {
        Some(Ok(pst)) => match guard(out, "PolicySet::from_pst", &case, || cedar_policy::PolicySet::from_pst(pst.clone())) {
            Some(Ok(ps2)) => {
                out.count("c_set_pst_roundtrips");
                if let Some(d) = diff_pset(orig, ps2.as_ref()) { out.propfail("(c) PolicySet PST round trip differs", &case, &d); }
                check_responses_ps(worlds, orig, ps2.as_ref(), &case, "policy-set pst", out);
            }
            Some(Err(e)) => out.propfail("(c) PolicySet::from_pst rejects to_pst output", &case, &e.to_string()),
            None => {}
        },
        Some(Err(e)) => out.propfail("(c) PolicySet::to_pst failed", &case, &e.to_string()),
        None => {}
    }
    // (d) protobuf
    match guard(out, "PolicySet::encode", &case, || ps.encode()) {
        Some(Ok(buf)) => {
            for (how, dec) in [("decode", guard(out, "PolicySet::decode", &case, || cedar_policy::PolicySet::decode(&buf[..]))), ("decode_unchecked", guard(out, "PolicySet::decode_unchecked", &case, || cedar_policy::PolicySet::decode_unchecked(&buf[..])))] {
                match dec {
                    Some(Ok(ps2)) => {
                        out.count("d_set_proto_roundtrips");
                        if let Some(d) = diff_pset(orig, ps2.as_ref()) { out.propfail(&format!("(d) PolicySet protobuf round trip ({how}) differs"), &case, &d); }
                        if ps != ps2 { out.count("set_partialeq_differs_proto(order-sensitive)"); }
                        check_responses_ps(worlds, orig, ps2.as_ref(), &case, "policy-set protobuf", out);
                        // protobuf -> JSON -> set
                        if how == "decode" {
                            match ps2.clone().to_json().map_err(|e| e.to_string()).and_then(|j| cedar_policy::PolicySet::from_json_value(j).map_err(|e| e.to_string())) {
                                Ok(ps3) => if let Some(d) = diff_pset(orig, ps3.as_ref()) { out.propfail("(d) protobuf -> JSON -> PolicySet differs", &case, &d); },
                                Err(e) => out.propfail("(d) JSON of a protobuf-decoded PolicySet fails", &case, &e),
                            }
                        }
                    }
                    Some(Err(e)) => out.propfail(&format!("(d) PolicySet {how} rejects encode output"), &case, &e.to_string()),
                    None => {}
                }
            }
        }
        Some(Err(_)) => out.count("d_encode_refused"),
        None => {}
    }
    out.sample(case);
}

// ---------------------------------------------------------------- hand-built EST JSON

fn j_uid(r: &mut Rng) -> J {
    let u = gen::gen_uid(r);
    let eid: &str = u.eid().as_ref();
    json!({"type": u.entity_type().to_string(), "id": eid})
}

fn gen_value_json(r: &mut Rng, d: u32) -> J {
    match r.below(if d == 0 { 5 } else { 9 }) {
        0 => json!(r.chance(50)),
        1 => json!(gen::gen_long(r)),
        2 => json!(gen::gen_string(r)),
        3 => json!({"__entity": j_uid(r)}),
        4 => match r.below(6) {
            4 | 5 => {
                // any extension function, in the multi-argument form, with 0..3 arguments (method-style functions
                // without a receiver included)
                let f = *r.pick(&["decimal", "ip", "datetime", "duration", "isIpv4", "isIpv6", "isLoopback", "isMulticast", "isInRange", "lessThan",
                    "lessThanOrEqual", "greaterThan", "greaterThanOrEqual", "offset", "durationSince", "toDate", "toTime", "toMilliseconds", "toSeconds",
                    "toMinutes", "toHours", "toDays", "nosuchfn"]);
                let n = r.below(4);
                let args: Vec<J> = (0..n).map(|_| match r.below(3) { 0 => json!({"__extn": {"fn": "ip", "arg": "10.0.0.1"}}), 1 => json!({"__extn": {"fn": "duration", "arg": "1h"}}), _ => gen_value_json(r, 0) }).collect();
                json!({"__extn": {"fn": f, "args": args}})
            }
            0 => json!({"__extn": {"fn": "decimal", "arg": *r.pick(gen::DECIMALS_OK)}}),
            1 => json!({"__extn": {"fn": "ip", "arg": *r.pick(gen::IPS_OK)}}),
            2 => json!({"__extn": {"fn": "offset", "args": [{"__extn": {"fn": "datetime", "arg": "2024-01-01"}}, {"__extn": {"fn": "duration", "arg": "1h"}}]}}),
            _ => json!({"__extn": {"fn": *r.pick(&["nosuchfn", "decimal", "A::b"]), "arg": gen_value_json(r, 0)}}),
        },
        5 => J::Array((0..r.below(3)).map(|_| gen_value_json(r, d - 1)).collect()),
        6 => {
            let mut m = serde_json::Map::new();
            for _ in 0..r.below(3) { m.insert((*r.pick(&["a", "n", "has space", "", "__entity", "__extn", "type"])).to_string(), gen_value_json(r, d - 1)); }
            J::Object(m)
        }
        7 => match r.below(6) {
            // odd shapes around the escapes
            0 => json!({"__entity": {"type": "User"}}),
            1 => json!({"__entity": {"type": "User", "id": "a", "extra": 1}}),
            2 => json!({"__entity": {"type": *r.pick(&["User ", "if", "A::", "", "a::b::C", "NS::if", "_x9", "9x"]), "id": "a"}}),
            3 => json!({"__extn": {"fn": "decimal"}}),
            4 => json!({"__expr": "1 + 1"}),
            _ => json!({"__entity": j_uid(r), "other": 1}),
        },
        _ => match r.below(4) { 0 => J::Null, 1 => json!(9223372036854775808u64), 2 => json!(-9223372036854775807i64 - 1), _ => json!(i64::MAX) },
    }
}

const BIN_KEYS: &[&str] = &["==", "!=", "in", "<", "<=", ">", ">=", "&&", "||", "+", "-", "*", "contains", "containsAll", "containsAny", "getTag", "hasTag"];
const EXT_FNS: &[(&str, usize)] = &[("decimal", 1), ("ip", 1), ("datetime", 1), ("duration", 1), ("lessThan", 2), ("lessThanOrEqual", 2), ("greaterThan", 2), ("greaterThanOrEqual", 2),
    ("isIpv4", 1), ("isIpv6", 1), ("isLoopback", 1), ("isMulticast", 1), ("isInRange", 2), ("offset", 2), ("durationSince", 2), ("toDate", 1), ("toTime", 1),
    ("toMilliseconds", 1), ("toSeconds", 1), ("toMinutes", 1), ("toHours", 1), ("toDays", 1)];

fn gen_est_json(r: &mut Rng, d: u32, out: &mut Out, bad_pct: u32) -> J {
    if d == 0 || r.chance(15) {
        return match r.below(8) {
            0 | 1 => { out.count("jk_Value"); json!({"Value": gen_value_json(r, 2)}) }
            2 => { out.count("jk_Var"); json!({"Var": *r.pick(&["principal", "action", "resource", "context"])}) }
            3 => if r.chance(85) { out.count("jk_Var"); json!({"Var": *r.pick(&["principal", "action", "resource", "context"])}) }
                 else { out.count("jk_odd_unit_variant"); J::Object([("Var".to_string(), J::Object([((*r.pick(&["principal", "context", "nosuch"])).to_string(), J::Null)].into_iter().collect()))].into_iter().collect()) },
            4 => { out.count("jk_Value"); json!({"Value": gen::gen_long(r)}) }
            5 => { out.count("jk_Value"); json!({"Value": {"__entity": j_uid(r)}}) }
            6 if r.chance(bad_pct) => { out.count("jk_Slot"); json!({"Slot": *r.pick(&["?principal", "?resource", "principal"])}) }
            _ => { out.count("jk_Value"); json!({"Value": r.chance(50)}) }
        };
    }
    let d1 = d - 1;
    if r.chance(bad_pct) {
        out.count("jk_malformed");
        return match r.below(9) {
            0 => json!({}),
            1 => json!({"==": {"left": gen_est_json(r, d1, out, 0)}}),
            2 => json!({"==": {"left": gen_est_json(r, d1, out, 0), "right": gen_est_json(r, d1, out, 0), "extra": 1}}),
            3 => json!({"nosuchop": [gen_est_json(r, d1, out, 0)]}),
            4 => json!({"!": {"arg": gen_est_json(r, d1, out, 0)}, "neg": {"arg": gen_est_json(r, d1, out, 0)}}),
            5 => json!({"has": {"left": gen_est_json(r, d1, out, 0), "attr": []}}),
            6 => json!({"is": {"left": gen_est_json(r, d1, out, 0), "entity_type": *r.pick(&["User ", "if", "A::", "", "1"])}}),
            7 => json!({"Var": "nosuch"}),
            _ => json!([1, 2]),
        };
    }
    match r.below(24) {
        0 => { out.count("jk_!"); json!({"!": {"arg": gen_est_json(r, d1, out, bad_pct)}}) }
        1 => { out.count("jk_neg"); json!({"neg": {"arg": gen_est_json(r, d1, out, bad_pct)}}) }
        2 => { out.count("jk_isEmpty"); json!({"isEmpty": {"arg": gen_est_json(r, d1, out, bad_pct)}}) }
        3..=9 => {
            let k = *r.pick(BIN_KEYS);
            out.count(&format!("jk_{k}"));
            json!({k: {"left": gen_est_json(r, d1, out, bad_pct), "right": gen_est_json(r, d1, out, bad_pct)}})
        }
        10 => { out.count("jk_."); json!({".": {"left": gen_est_json(r, d1, out, bad_pct), "attr": *r.pick(&["n", "r", "has space", "", "if"])}}) }
        11 => {
            out.count("jk_has");
            if r.chance(85) { json!({"has": {"left": gen_est_json(r, d1, out, bad_pct), "attr": *r.pick(&["n", "r", "has space", ""])}}) }
            else { out.count("jk_odd_has_extra_member"); json!({"has": {"left": gen_est_json(r, d1, out, bad_pct), "attr": *r.pick(&["n", "r"]), "extra": 1}}) }
        }
        12 => {
            out.count("jk_has_extended");
            let n = 1 + r.below(4);
            let attrs: Vec<&str> = (0..n).map(|_| *r.pick(&["r", "n", "has space", "a"])).collect();
            json!({"has": {"left": gen_est_json(r, d1, out, bad_pct), "attr": attrs}})
        }
        13 | 14 => {
            out.count("jk_like");
            let n = r.below(5);
            let pat: Vec<J> = (0..n).map(|_| if r.chance(35) { json!("Wildcard") } else if r.chance(8) { json!({"Wildcard": null}) } else { json!({"Literal": *r.pick(&["a", "ab", "", "*", "\\", "\u{1F600}x", "a*b"])}) }).collect();
            json!({"like": {"left": gen_est_json(r, d1, out, bad_pct), "pattern": pat}})
        }
        15 | 16 => {
            out.count("jk_is");
            let t = if r.chance(90) { *r.pick(gen::TYPES) } else { *r.pick(&["A::B::C", "_x", "principal", "like", "NS::in"]) };
            if r.chance(50) { json!({"is": {"left": gen_est_json(r, d1, out, bad_pct), "entity_type": t}}) }
            else { out.count("jk_is_in"); json!({"is": {"left": gen_est_json(r, d1, out, bad_pct), "entity_type": t, "in": gen_est_json(r, d1, out, bad_pct)}}) }
        }
        17 => { out.count("jk_if-then-else"); json!({"if-then-else": {"if": gen_est_json(r, d1, out, bad_pct), "then": gen_est_json(r, d1, out, bad_pct), "else": gen_est_json(r, d1, out, bad_pct)}}) }
        18 => { out.count("jk_Set"); J::Object([("Set".to_string(), J::Array((0..r.below(4)).map(|_| gen_est_json(r, d1, out, bad_pct)).collect()))].into_iter().collect()) }
        19 => {
            out.count("jk_Record");
            let mut m = serde_json::Map::new();
            for _ in 0..r.below(4) { m.insert((*r.pick(&["a", "n", "has space", "", "z", "B", "__entity"])).to_string(), gen_est_json(r, d1, out, bad_pct)); }
            json!({"Record": J::Object(m)})
        }
        _ => {
            let (f, n) = *r.pick(EXT_FNS);
            out.count("jk_extcall");
            let n = if r.chance(8) { r.below(4) } else { n };
            let args: Vec<J> = (0..n).map(|i| if i == 0 && n == 1 && r.chance(60) { json!({"Value": match f { "decimal" => *r.pick(gen::DECIMALS_OK), "ip" => *r.pick(gen::IPS_OK), "datetime" => *r.pick(gen::DATETIMES_OK), "duration" => *r.pick(gen::DURATIONS_OK), _ => "x" }}) } else { gen_est_json(r, d1, out, bad_pct) }).collect();
            J::Object([(f.to_string(), J::Array(args))].into_iter().collect())
        }
    }
}

/// `slot_pct`: how often the right-hand side is a slot; `wrong_pct`: how often that slot is the OTHER variable's slot
/// (`"resource": {"op":"in","slot":"?principal"}` — must be rejected, or else behave like some Cedar text)
fn gen_scope_json(r: &mut Rng, slot: &str, allow_is: bool, bad_pct: u32, slot_pct: u32, wrong_pct: u32) -> J {
    let other = if slot == "principal" { "resource" } else { "principal" };
    let ent_or_slot = |r: &mut Rng| -> (String, J) {
        if r.chance(slot_pct) { let name = if r.chance(wrong_pct) { other } else { slot }; ("slot".to_string(), json!(format!("?{name}"))) }
        else if r.chance(5) { let mut u = j_uid(r); u["extra"] = json!(1); ("entity".to_string(), u) }
        else if r.chance(15) { ("entity".to_string(), json!({"__entity": j_uid(r)})) }
        else { ("entity".to_string(), j_uid(r)) }
    };
    if r.chance(bad_pct) {
        return match r.below(5) {
            0 => json!({"op": "=="}),
            1 => json!({"op": "nosuch"}),
            2 => json!({"op": "==", "slot": "?nosuch"}),
            3 => json!({"op": "All", "entity": j_uid(r)}),
            _ => json!({"op": "==", "entity": {"type": "User ", "id": "a"}}),
        };
    }
    match r.below(if allow_is { 6 } else { 4 }) {
        0 => if r.chance(90) { json!({"op": "All"}) } else { json!({"op": "All", "entity": j_uid(r), "x": 1}) },
        1 => json!({"op": "all"}),
        2 => { let (k, v) = ent_or_slot(r); J::Object([("op".to_string(), json!("==")), (k, v)].into_iter().collect()) }
        3 => { let (k, v) = ent_or_slot(r); J::Object([("op".to_string(), json!("in")), (k, v)].into_iter().collect()) }
        4 => json!({"op": "is", "entity_type": *r.pick(gen::TYPES)}),
        _ => { let (k, v) = ent_or_slot(r); json!({"op": "is", "entity_type": *r.pick(gen::TYPES), "in": J::Object([(k, v)].into_iter().collect())}) }
    }
}

fn gen_action_json(r: &mut Rng, bad_pct: u32) -> J {
    let act = |r: &mut Rng| { let ty = if r.chance(10) { "NS::Action" } else { "Action" }; json!({"type": ty, "id": gen::EIDS[r.below(4)]}) };
    if r.chance(bad_pct) {
        return match r.below(4) {
            0 => json!({"op": "==", "slot": "?principal"}),
            1 => json!({"op": "==", "entity": {"type": "User", "id": "a"}}),
            2 => json!({"op": "is", "entity_type": "Action"}),
            _ => json!({"op": "in", "entities": [{"type": "Action", "id": "a"}, {"type": "Group", "id": "a"}]}),
        };
    }
    match r.below(5) {
        0 => json!({"op": "All"}),
        1 => json!({"op": "==", "entity": act(r)}),
        2 => json!({"op": "in", "entity": act(r)}),
        3 => json!({"op": "in", "entities": (0..r.below(3)).map(|_| act(r)).collect::<Vec<_>>()}),
        _ => json!({"op": "in", "entities": [{"__entity": act(r)}]}),
    }
}

fn gen_policy_json(r: &mut Rng, out: &mut Out) -> J {
    let bad = if r.chance(25) { 6 } else { 0 };
    let mut m = serde_json::Map::new();
    m.insert("effect".into(), if r.chance(3) { json!({"permit": null}) } else { json!(if r.chance(bad) { "allow" } else if r.chance(60) { "permit" } else { "forbid" }) });
    // template mode: slots in most scope constraints, sometimes the other variable's slot, sometimes both swapped
    let tmode = r.chance(30);
    let (slot_pct, wrong_pct) = if tmode { (75, 20) } else { (25, 3) };
    let swapped = tmode && r.chance(12);
    m.insert("principal".into(), gen_scope_json(r, if swapped { "resource" } else { "principal" }, true, bad, slot_pct, wrong_pct));
    m.insert("action".into(), gen_action_json(r, bad));
    let rslot = if r.chance(bad) || swapped { "principal" } else { "resource" };
    m.insert("resource".into(), gen_scope_json(r, rslot, true, bad, slot_pct, wrong_pct));
    let nc = r.below(4);
    let conds: Vec<J> = (0..nc).map(|_| {
        let d = 1 + r.below(3) as u32;
        json!({"kind": if r.chance(bad) { "if" } else if r.chance(65) { "when" } else { "unless" }, "body": gen_est_json(r, d, out, bad)})
    }).collect();
    if !r.chance(bad) { m.insert("conditions".into(), J::Array(conds)); }
    if r.chance(40) {
        let mut a = serde_json::Map::new();
        for _ in 0..1 + r.below(3) {
            let k = if r.chance(bad) { "bad key" } else { *r.pick(ANN_KEYS) };
            a.insert(k.to_string(), if r.chance(20) { J::Null } else { json!(*r.pick(ANN_VALS)) });
        }
        m.insert("annotations".into(), J::Object(a));
    }
    if r.chance(bad) { m.insert("extra".into(), json!(1)); }
    J::Object(m)
}

fn check_json_policy(worlds: &[World], j: &J, idx: u64, out: &mut Out) {
    let case = j.to_string();
    out.cases += 1;
    let Some(tpl) = model_line_for_policy_json(j, out, "hand-json") else { return };
    if let Some(c) = tpl.non_scope_constraints() { if c.slots().next().is_none() { model_lines_for_expr(c, out, "hand-cond"); } }
    out.nontrivial(&case);
    let pid = cedar_policy::PolicyId::new(format!("j{idx}"));
    if tpl.slots().count() == 0 {
        let p = match guard(out, "Policy::from_json", &case, || cedar_policy::Policy::from_json(Some(pid.clone()), j.clone())) {
            Some(Ok(p)) => p,
            Some(Err(e)) => { out.propfail("core accepts a JSON policy that Policy::from_json rejects", &case, &e.to_string()); return }
            None => return,
        };
        out.count("hand_json_static_accepted");
        out.sample(format!("{case}  ==>  {}", p.to_cedar().unwrap_or_default()));
        check_prints_as(worlds, &p, &case, out);
        // JSON round trip of the accepted JSON policy
        match p.to_json().map_err(|e| e.to_string()).and_then(|j2| cedar_policy::Policy::from_json(Some(pid.clone()), j2).map_err(|e| e.to_string())) {
            Ok(p2) => {
                if let Some(d) = diff_policy(p.as_ref(), p2.as_ref()) { out.propfail("(a) JSON policy -> to_json -> from_json differs", &case, &d); }
                check_responses(worlds, &[p.as_ref().clone()], &[p2.as_ref().clone()], &case, "json (hand-built)", out);
            }
            Err(e) => out.propfail("(a) to_json of an accepted JSON policy is rejected", &case, &e),
        }
        // PST of the accepted JSON policy
        match p.to_pst() {
            Ok(pst) => match cedar_policy::Policy::from_pst(pst) {
                Ok(p2) => { out.count("c_hand_pst_roundtrips"); if let Some(d) = diff_policy(p.as_ref(), p2.as_ref()) { out.propfail("(c) JSON policy -> PST -> Policy differs", &case, &d); } }
                Err(e) => out.propfail("(c) from_pst rejects the PST of an accepted JSON policy", &case, &e.to_string()),
            },
            Err(e) => { out.count("c_hand_to_pst_refused"); out.propfail("(c) to_pst failed (hand-built JSON policy)", &case, &e.to_string()); }
        }
        // protobuf of a set holding it
        let mut ps = cedar_policy::PolicySet::new();
        if ps.add(p.clone()).is_ok() {
            if let Ok(buf) = ps.encode() {
                match cedar_policy::PolicySet::decode(&buf[..]) {
                    Ok(ps2) => { out.count("d_hand_proto_roundtrips"); if let Some(d) = diff_pset(ps.as_ref(), ps2.as_ref()) { out.propfail("(d) JSON policy -> protobuf -> PolicySet differs", &case, &d); } }
                    Err(e) => out.propfail("(d) decode rejects the protobuf of an accepted JSON policy", &case, &e.to_string()),
                }
            } else { out.count("d_encode_refused"); }
        }
    } else {
        let t = match guard(out, "Template::from_json", &case, || cedar_policy::Template::from_json(Some(pid.clone()), j.clone())) {
            Some(Ok(t)) => t,
            Some(Err(e)) => { out.propfail("core accepts a JSON template that Template::from_json rejects", &case, &e.to_string()); return }
            None => return,
        };
        out.count("hand_json_template_accepted");
        let printed = t.to_cedar();
        match cedar_policy::Template::parse(Some(pid.clone()), &printed) {
            Ok(t3) => if let Some(d) = diff_template(t.as_ref(), t3.as_ref()) { out.count("f_printed_differs_structurally"); let _ = d; },
            Err(e) => out.propfail("(f) the Cedar text a JSON template prints as does not parse", &case, &format!("{e} ; printed {printed}")),
        }
        let mut reparsed: Option<cedar_policy::Template> = cedar_policy::Template::parse(Some(pid.clone()), &printed).ok();
        match t.to_json().map_err(|e| e.to_string()).and_then(|j2| cedar_policy::Template::from_json(Some(pid.clone()), j2).map_err(|e| e.to_string())) {
            Ok(t2) => if let Some(d) = diff_template(t.as_ref(), t2.as_ref()) { out.propfail("(a) JSON template -> to_json -> from_json differs", &case, &d); },
            Err(e) => out.propfail("(a) to_json of an accepted JSON template is rejected", &case, &e),
        }
        check_json_template_links(worlds, &t, reparsed.take().as_ref(), &pid, &case, out);
    }
}

/// an accepted JSON template, LINKED: for every world and several pairs of distinct slot values (the request's own
/// principal / resource, the two swapped, an ancestor of each) the linked policy must evaluate and authorize like
///   * `Policy::from_json(linked.to_json())` (the JSON form of the link binds the same values to the same places), and
///   * the same link of the template parsed from the Cedar text the JSON template prints as.
fn check_json_template_links(worlds: &[World], t: &cedar_policy::Template, printed: Option<&cedar_policy::Template>, pid: &cedar_policy::PolicyId, case: &str, out: &mut Out) {
    use cedar_policy::{PolicyId, PolicySet, SlotId};
    use cedar_policy_core::entities::Dereference;
    let lid = PolicyId::new(format!("{pid}-link"));
    let slots_of = |t: &cedar_policy::Template| -> (bool, bool) { (t.slots().any(|s| *s == SlotId::principal()), t.slots().any(|s| *s == SlotId::resource())) };
    let (has_p, has_r) = slots_of(t);
    let link = |t: &cedar_policy::Template, vp: &ast::EntityUID, vr: &ast::EntityUID| -> Result<(PolicySet, cedar_policy::Policy), String> {
        let (hp, hr) = slots_of(t);
        let mut vals: HashMap<SlotId, cedar_policy::EntityUid> = HashMap::new();
        if hp { vals.insert(SlotId::principal(), vp.clone().into()); }
        if hr { vals.insert(SlotId::resource(), vr.clone().into()); }
        let mut ps = PolicySet::new();
        ps.add_template(t.clone()).map_err(|e| format!("add_template: {e}"))?;
        ps.link(pid.clone(), lid.clone(), vals).map_err(|e| format!("link: {e}"))?;
        let p = ps.policy(&lid).cloned().ok_or_else(|| "linked policy not in the set".to_string())?;
        Ok((ps, p))
    };
    for (wi, w) in worlds.iter().enumerate() {
        let anc = |u: &ast::EntityUID, dflt: &str| -> ast::EntityUID {
            match w.entities.entity(u) { Dereference::Data(e) => { let mut a: Vec<&ast::EntityUID> = e.ancestors().collect(); a.sort(); a.first().map(|x| (*x).clone()).unwrap_or_else(|| gen::mk_uid("Group", dflt)) } _ => gen::mk_uid("Group", dflt) }
        };
        let choices = [(w.principal.clone(), w.resource.clone()), (w.resource.clone(), w.principal.clone()), (anc(&w.principal, "a"), anc(&w.resource, "b")), (w.principal.clone(), anc(&w.resource, "b"))];
        for (vp, vr) in choices.iter() {
            if vp == vr { continue; }
            let lcase = format!("{case} LINK ?principal={vp} ?resource={vr} world={wi} request=({}, {}, {})", w.principal, w.action, w.resource);
            let Some(linked) = guard(out, "PolicySet::link of an accepted JSON template", &lcase, || link(t, vp, vr)) else { continue };
            let (ps, linked) = match linked { Ok(x) => x, Err(e) => { out.count("tl_link_refused"); out.sample(format!("link refused: {e} :: {case}")); continue } };
            out.count("tl_links");
            let a = eval_of(w, linked.as_ref());
            let ra = resp_of(w, ps.as_ref());
            if let Ok(x) = &a { out.count(&format!("tl_linked_eval:{}", x.split(')').next().unwrap_or(""))); }
            // (1) the link's own JSON form
            match guard(out, "to_json of a template-linked policy", &lcase, || linked.to_json()) {
                None => {}
                Some(Err(e)) => out.propfail("(a) to_json fails for a policy linked from an accepted JSON template", &lcase, &e.to_string()),
                Some(Ok(j2)) => match guard(out, "Policy::from_json", &lcase, || cedar_policy::Policy::from_json(Some(lid.clone()), j2.clone())) {
                    None => {}
                    Some(Err(e)) => out.propfail("(a) from_json rejects the to_json of a policy linked from an accepted JSON template", &lcase, &format!("{e} ; json {j2}")),
                    Some(Ok(back)) => {
                        out.count("tl_json_roundtrips");
                        let b = eval_of(w, back.as_ref());
                        let mut ps2 = PolicySet::new();
                        let rb = if ps2.add(back.clone()).is_ok() { resp_of(w, ps2.as_ref()) } else { Err("cannot add".into()) };
                        if a != b || ra != rb {
                            out.propfail("(e) a policy linked from an accepted JSON template evaluates differently after its own to_json -> from_json round trip", &lcase, &format!("linked: {a:?} {ra:?} ; round-tripped: {b:?} {rb:?} ; linked policy `{linked}` ; its json {j2} ; round-tripped policy `{back}`"));
                        }
                    }
                },
            }
            // (2) the link of the Cedar text the template prints as
            if let Some(t3) = printed {
                if slots_of(t3) != (has_p, has_r) {
                    out.propfail("(f) the Cedar text a JSON template prints as has different slots", &lcase, &format!("printed `{t3}`"));
                    continue;
                }
                match guard(out, "PolicySet::link of the printed template", &lcase, || link(t3, vp, vr)) {
                    Some(Ok((ps3, linked3))) => {
                        out.count("tl_printed_links");
                        let c = eval_of(w, linked3.as_ref());
                        let rc = resp_of(w, ps3.as_ref());
                        if a != c || ra != rc {
                            out.propfail("(f) a policy linked from an accepted JSON template evaluates differently from the same link of the Cedar text the template prints as", &lcase, &format!("linked: {a:?} {ra:?} ; printed+linked: {c:?} {rc:?} ; printed `{t3}`"));
                        }
                    }
                    Some(Err(e)) => out.propfail("(f) the Cedar text a JSON template prints as cannot be linked with the same slot values", &lcase, &e),
                    None => {}
                }
            }
        }
    }
}

/// hand-built JSON templates: every scope-constraint form that takes a slot (`==`, `in`, `is … in`) on principal and
/// on resource, with the variable's own slot and with the OTHER variable's slot (wrong-slot, and both swapped)
fn slot_scope_grid() -> Vec<J> {
    let scope = |var: &str, form: usize, slot: &str| -> J {
        let ty = if var == "principal" { "User" } else { "NS::Doc" };
        match form {
            0 => json!({"op": "==", "slot": slot}),
            1 => json!({"op": "in", "slot": slot}),
            2 => json!({"op": "is", "entity_type": ty, "in": {"slot": slot}}),
            _ => json!({"op": "All"}),
        }
    };
    let mut v = Vec::new();
    for pf in 0..4usize {
        for ps in ["?principal", "?resource"] {
            for rf in 0..4usize {
                for rs in ["?resource", "?principal"] {
                    if (pf == 3 && ps == "?resource") || (rf == 3 && rs == "?principal") || (pf == 3 && rf == 3) { continue; }
                    for effect in ["permit", "forbid"] {
                        if effect == "forbid" && !(ps == "?resource" || rs == "?principal") { continue; }
                        v.push(json!({"effect": effect, "principal": scope("principal", pf, ps), "action": {"op": "All"}, "resource": scope("resource", rf, rs), "conditions": []}));
                    }
                }
            }
        }
    }
    v
}

// ---------------------------------------------------------------- fixed seeds: one expression per operator key

fn fixed_exprs() -> Vec<&'static str> {
    vec![
        "true", "-5", "\"s\\n\\\"\"", "User::\"a\"", "NS::Doc::\"e\\\"q\"", "principal", "action", "resource", "context",
        "!true", "-(1)", "-(-9223372036854775808)", "1 == 2", "1 != 2", "principal in resource", "1 < 2", "1 <= 2", "1 > 2", "1 >= 2",
        "true && false", "true || false", "1 + 2", "1 - 2", "1 * 2", "[1].contains(1)", "[1].containsAll([1])", "[1].containsAny([1])", "[1].isEmpty()",
        "principal.getTag(\"k1\")", "principal.hasTag(\"k1\")", "context.n", "context[\"has space\"]", "context has n", "context has \"has space\"",
        "context has r.r.n", "\"abc\" like \"a*\\*c\"", "principal is User", "principal is NS::Doc in Group::\"a\"", "principal is User in [Group::\"a\"]",
        "if true then 1 else 2", "[]", "[1, \"a\", User::\"a\"]", "{}", "{a: 1, \"b c\": {d: [2]}}",
        "decimal(\"1.0\")", "ip(\"10.0.0.1\").isInRange(ip(\"10.0.0.0/8\"))", "datetime(\"2024-01-01\").offset(duration(\"1h\"))",
        "decimal(\"1.0\").lessThan(decimal(\"2.0\"))", "duration(\"1d\").toHours()", "datetime(\"2024-01-01\").durationSince(datetime(\"2023-01-01\")).toDays()",
    ]
}

/// `--replay FILE`: each line is a policy text (one line) or a JSON policy; all checks are run on it
fn replay(path: &str, seed: u64, out: &mut Out) {
    let mut r = Rng::new(seed);
    let worlds: Vec<World> = (0..3).map(|_| gen::gen_world(&mut r)).collect();
    let text = std::fs::read_to_string(path).expect("replay file");
    for (i, line) in text.lines().enumerate() {
        let line = line.trim();
        if line.is_empty() { continue; }
        if line.starts_with('{') {
            match serde_json::from_str::<J>(line) { Ok(j) => { if let Err(pn) = catch_unwind(AssertUnwindSafe(|| check_json_policy(&worlds, &j, i as u64, out))) { out.propfail("panic while printing / converting / evaluating an accepted JSON policy", &j.to_string(), &panic_msg(pn)); } } Err(e) => eprintln!("line {i}: bad json {e}") }
        } else {
            let link = if line.contains("?principal") || line.contains("?resource") { Some((Some(gen::mk_uid("User", "a")), Some(gen::mk_uid("NS::Doc", "a")))) } else { None };
            let link = link.map(|(p, q)| (if line.contains("?principal") { p } else { None }, if line.contains("?resource") { q } else { None }));
            let s = Spec { id: format!("r{i}"), text: line.to_string(), annotations: vec![], link };
            match check_one(&mut r, &worlds, &s, out) { Some(b) => check_set(&worlds, &[b], out), None => eprintln!("line {i}: not checked (unparseable?)") }
        }
    }
    for l in &out.propfail { eprintln!("PROPFAIL {l}"); }
    eprintln!("stats {:?}", out.stats);
}

pub fn run(args: &Args, out: &mut Out) {
    if let Some(f) = &args.replay { replay(f, args.seed, out); return; }
    let mut rng = Rng::new(args.seed);
    let mut g = ExprGen::new(5);
    // fixed: one expression per operator key (model lines only)
    for t in fixed_exprs() {
        match <ast::Expr as std::str::FromStr>::from_str(t) {
            Ok(e) => model_lines_for_expr(&e, out, "fixed"),
            Err(e) => out.propfail("fixed expression does not parse", t, &e.to_string()),
        }
    }
    // operator-nesting grid: every binary operator as the left / right child of every binary operator, leaves reading
    // long / bool context attributes, each as a whole policy through every format check (incl. (f): printed text)
    {
        let mut gr = Rng::new(args.seed ^ 0x9e1d);
        let worlds: Vec<World> = (0..3).map(|_| gen::gen_world(&mut gr)).collect();
        let arith = ["+", "-", "*"];
        let boolean = ["&&", "||"];
        let l = ["context.n", "context.m", "context[\"if\"]", "3", "9223372036854775807"];
        let b = ["context.b", "(context.n < 2)", "true", "(context has zz)"];
        let mut k = 0;
        for o1 in arith { for o2 in arith {
            for (x, y, z) in [(l[0], l[1], l[2]), (l[3], l[4], l[0]), (l[1], l[1], l[4])] {
                for text in [format!("({x} {o1} ({y} {o2} {z})) == 0"), format!("(({x} {o1} {y}) {o2} {z}) == 0"), format!("-({x} {o1} {y}) {o2} {z} < 1")] {
                    let sp = Spec { id: format!("g{k}"), text: format!("permit(principal, action, resource) when {{ {text} }};"), annotations: vec![], link: None };
                    if let Some(bt) = check_one(&mut gr, &worlds, &sp, out) { check_set(&worlds, &[bt], out); }
                    k += 1; out.count("nesting_grid");
                }
            }
        } }
        for o1 in boolean { for o2 in boolean {
            for text in [format!("{} {o1} ({} {o2} {})", b[0], b[1], b[3]), format!("({} {o1} {}) {o2} {}", b[0], b[1], b[3]), format!("!({} {o1} {}) {o2} {}", b[2], b[0], b[1]),
                         format!("if {} {o1} {} then {} {o2} {} else {}", b[0], b[1], b[3], b[0], b[1])] {
                let sp = Spec { id: format!("g{k}"), text: format!("forbid(principal, action, resource) unless {{ {text} }};"), annotations: vec![], link: None };
                if let Some(bt) = check_one(&mut gr, &worlds, &sp, out) { check_set(&worlds, &[bt], out); }
                k += 1; out.count("nesting_grid");
            }
        } }
    }
    // slot grid: hand-built JSON templates with own / wrong / swapped slots in every scope-constraint form
    {
        let mut gr = Rng::new(args.seed ^ 0x5107);
        let worlds: Vec<World> = (0..3).map(|_| gen::gen_world(&mut gr)).collect();
        for (k, j) in slot_scope_grid().iter().enumerate() {
            check_json_policy(&worlds, j, 900_000 + k as u64, out);
            out.count("slot_scope_grid");
        }
    }
    // generated policies / templates / sets
    let mut i = 0u64;
    while i < args.n {
        let mut cr = rng.fork();
        let worlds: Vec<World> = (0..3).map(|_| gen::gen_world(&mut cr)).collect();
        let np = 1 + cr.below(4);
        let mut built = Vec::new();
        for k in 0..np {
            let id = if cr.chance(90) { format!("p{k}") } else { format!("id \"{k}\"\\ \u{1F600}") };
            let s = gen_spec(&mut cr, &mut g, &worlds[0], &id, out);
            if let Some(b) = check_one(&mut cr, &worlds, &s, out) {
                if built.is_empty() { out.sample(format!("{}: {}", s.id, s.text)); }
                built.push(b);
            }
            i += 1;
        }
        check_set(&worlds, &built, out);
        // hand-built JSON policies, same worlds
        for _ in 0..2 {
            let j = gen_policy_json(&mut cr, out);
            if let Err(pn) = catch_unwind(AssertUnwindSafe(|| check_json_policy(&worlds, &j, i, out))) { out.propfail("panic while printing / converting / evaluating an accepted JSON policy", &j.to_string(), &panic_msg(pn)); }
            i += 1;
        }
    }
    for (k, v) in g.op_hist.iter() { out.add(&format!("op_{k}"), *v); }
}
