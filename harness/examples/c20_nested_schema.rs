//! timing probe: a Cedar-syntax schema whose `tags` type is a record nested `depth` deep (thorough tier of C20, `nest_wrap`)
use std::time::Instant;
fn main() {
    let depth: usize = std::env::args().nth(1).and_then(|x| x.parse().ok()).unwrap_or(10);
    let mut t = String::from("Long");
    for _ in 0..depth { t = format!("{{a:{t}}}"); }
    let src = format!("entity Group in [Group] tags Long;\nentity User in [Group] = {{ n?: Long }} tags {t};\naction view appliesTo {{ principal: User, resource: User }};");
    let t0 = Instant::now();
    let r = cedar_policy::SchemaFragment::from_cedarschema_str(&src);
    println!("depth {depth}: fragment parse {:?} ok={}", t0.elapsed(), r.is_ok());
    if let Ok((f, _)) = r {
        let t0 = Instant::now();
        let j = f.to_json_string().map(|s| s.len());
        println!("  to_json {:?} {:?}", t0.elapsed(), j.ok());
        let t0 = Instant::now();
        let c = f.to_cedarschema().map(|s| s.len());
        println!("  to_cedarschema {:?} {:?}", t0.elapsed(), c.ok());
    }
    let t0 = Instant::now();
    let r = cedar_policy::Schema::from_cedarschema_str(&src);
    println!("  Schema::from_cedarschema_str {:?} ok={}", t0.elapsed(), r.is_ok());
    if let Ok((schema, _)) = r {
        let t0 = Instant::now();
        let n = format!("{schema:?}").len();
        println!("  schema Debug {:?} len {n}", t0.elapsed());
        for ents in ["[{\"uid\":{\"type\":\"User\",\"id\":\"a\"},\"attrs\":{},\"parents\":[],\"tags\":{\"k\":1}}]", "[{\"uid\":{\"type\":\"User\",\"id\":\"a\"},\"attrs\":{},\"parents\":[]}]"] {
            let t0 = Instant::now();
            let r = cedar_policy::Entities::from_json_str(ents, Some(&schema));
            println!("  Entities::from_json_str {:?} ok={}", t0.elapsed(), r.is_ok());
            if let Err(e) = r {
                let t0 = Instant::now();
                let n = e.to_string().len();
                println!("    error to_string {:?} len {n}", t0.elapsed());
                let t0 = Instant::now();
                let n = format!("{:?}", miette::Report::new(e)).len();
                println!("    error fancy {:?} len {n}", t0.elapsed());
            }
        }
    }
}
