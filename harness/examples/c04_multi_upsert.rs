//! C04 witness of the defect fixed in /repo's `upsert_entities` (kept as a regression probe): before the fix a batch
//! naming one uid twice left a stale indirect ancestor; the repaired code dedupes the batch first.
//! x -> w -> u, w -> v -> y ; batch [u<y, u<, w<] : afterwards x -> w and w has no parents; before the fix x kept
//! ancestor y, with the fix x's ancestors are {w}.
use cedar_policy_core::ast::{Entity, EntityType, EntityUID, Eid, Name, PartialValue};
use cedar_policy_core::entities::{Entities, NoEntitiesSchema, TCComputation};
use cedar_policy_core::extensions::Extensions;
use smol_str::SmolStr;
use std::collections::HashSet;
use std::str::FromStr;
use std::sync::Arc;

fn mk(s: &str) -> EntityUID {
    EntityUID::from_components(EntityType::from(Name::from_str("T").unwrap()), Eid::new(s), None)
}
fn ent(u: &str, ps: &[&str]) -> Entity {
    Entity::new_with_attr_partial_value(
        mk(u),
        Vec::<(SmolStr, PartialValue)>::new(),
        HashSet::new(),
        ps.iter().map(|p| mk(p)).collect::<HashSet<_>>(),
        Vec::<(SmolStr, PartialValue)>::new(),
    )
}
fn show(s: &Entities) {
    let mut rows: Vec<String> = s.iter().map(|e| {
        let mut p: Vec<String> = e.parents().map(|u| u.to_string()).collect(); p.sort();
        let mut a: Vec<String> = e.ancestors().map(|u| u.to_string()).collect(); a.sort();
        format!("{} parents {:?} ancestors {:?}", e.uid(), p, a)
    }).collect();
    rows.sort();
    for r in rows { println!("  {r}"); }
}
fn main() {
    let ext = Extensions::all_available();
    let base = vec![ent("x", &["w"]), ent("w", &["u", "v"]), ent("u", &[]), ent("v", &["y"]), ent("y", &[])];
    let s0 = Entities::from_entities(base, None::<&NoEntitiesSchema>, TCComputation::ComputeNow, ext).expect("from");
    println!("base:"); show(&s0);
    let batch = vec![ent("u", &["y"]), ent("u", &[]), ent("w", &[])];
    let s1 = s0.clone().upsert_entities(batch.into_iter().map(Arc::new), None::<&NoEntitiesSchema>, TCComputation::ComputeNow, ext).expect("upsert");
    println!("after upsert [u<y, u<, w<] in one batch:"); show(&s1);
    let mut s2 = s0;
    for e in [ent("u", &["y"]), ent("u", &[]), ent("w", &[])] {
        s2 = s2.upsert_entities(vec![Arc::new(e)], None::<&NoEntitiesSchema>, TCComputation::ComputeNow, ext).expect("upsert1");
    }
    println!("after the same three upserts as three calls:"); show(&s2);
}
