//! timing probe: nested `if` receiver of a long `has a.a.…` chain (found by the thorough tier of C20)
use cedar_policy_core::ast::Expr;
use std::str::FromStr;
use std::time::Instant;
fn main() {
    let args: Vec<String> = std::env::args().collect();
    let depth: usize = args.get(1).and_then(|x| x.parse().ok()).unwrap_or(20);
    let chain: usize = args.get(2).and_then(|x| x.parse().ok()).unwrap_or(20);
    let mut e = String::from("[]");
    for _ in 0..depth { e = format!("(if {e} then 1 else 2)"); }
    let s = format!("{e} has {}", vec!["a"; chain].join("."));
    let t = Instant::now();
    let r = Expr::from_str(&s);
    println!("depth {depth} chain {chain}: core parse {:?} ok={}", t.elapsed(), r.is_ok());
    if let Ok(x) = r {
        let t = Instant::now();
        let txt = x.to_string();
        println!("  display {:?} len {}", t.elapsed(), txt.len());
        let t = Instant::now();
        let c = x.clone();
        println!("  clone {:?}", t.elapsed());
        drop(c);
        let t = Instant::now();
        let est: cedar_policy_core::est::Expr = x.clone().into_expr::<cedar_policy_core::est::Builder>();
        println!("  est {:?}", t.elapsed());
        let t = Instant::now();
        let j = serde_json::to_string(&est).map(|s| s.len());
        println!("  est json {:?} {:?}", t.elapsed(), j);
    }
    if let Ok(x) = Expr::from_str(&s) {
        let t = Instant::now();
        let n = format!("{x:?}").len();
        println!("  debug {:?} len {n}", t.elapsed());
        let text = x.to_string();
        let src = format!("permit(principal, action, resource) when {{ {text} }};");
        let t = Instant::now();
        let ps = cedar_policy::PolicySet::from_str(&src);
        println!("  policyset parse {:?} ok={}", t.elapsed(), ps.is_ok());
        if let Ok(ps) = ps {
            let (schema, _) = cedar_policy::Schema::from_cedarschema_str("entity User; action view appliesTo { principal: User, resource: User };").unwrap();
            let v = cedar_policy::Validator::new(schema);
            let t = Instant::now();
            let r = v.validate(&ps, cedar_policy::ValidationMode::Strict);
            println!("  validate strict {:?} passed={}", t.elapsed(), r.validation_passed());
            let t = Instant::now();
            let mut n = 0; let mut tot = 0usize;
            for e in r.validation_errors() { n += 1; tot += format!("{e:?}").len(); }
            println!("  {n} errors, Debug {:?} total len {tot}", t.elapsed());
            let t = Instant::now();
            let mut tot = 0usize;
            for e in r.validation_errors() { tot += format!("{:?}", miette::Report::new(e.clone())).len(); }
            println!("  miette fancy {:?} total len {tot}", t.elapsed());
            let t = Instant::now();
            let n = format!("{r:?}").len();
            println!("  result Debug {:?} len {n}", t.elapsed());
            let t = Instant::now();
            let r = v.validate(&ps, cedar_policy::ValidationMode::Permissive);
            println!("  validate permissive {:?} passed={}", t.elapsed(), r.validation_passed());
            let t = Instant::now();
            let r = v.validate_with_level(&ps, cedar_policy::ValidationMode::Strict, 3);
            println!("  validate level {:?} passed={}", t.elapsed(), r.validation_passed());
        }
        let t = Instant::now();
        let r = cedar_policy_formatter::policies_str_to_pretty(&src, &cedar_policy_formatter::Config::default());
        println!("  format {:?} ok={}", t.elapsed(), r.is_ok());
    }
    if let Ok(x) = Expr::from_str(&s) {
        use cedar_policy_core::ast::*;
        let ext = cedar_policy_core::extensions::Extensions::all_available();
        let u = EntityUID::with_eid_and_type("User", "a").unwrap();
        let q = Request::new((u.clone(), None), (EntityUID::with_eid_and_type("Action", "view").unwrap(), None), (u.clone(), None), Context::empty(), None::<&cedar_policy_core::validator::CoreSchema<'_>>, ext).unwrap();
        let es = cedar_policy_core::entities::Entities::new();
        let ev = cedar_policy_core::evaluator::Evaluator::new(q, &es, ext);
        let t = Instant::now();
        let r = ev.interpret(&x, &std::collections::HashMap::new());
        println!("  interpret {:?} ok={}", t.elapsed(), r.is_ok());
        if let Err(e) = &r { let t = Instant::now(); let n = format!("{:?}", miette::Report::new(e.clone())).len(); println!("  render error {:?} len {n}", t.elapsed()); }
        let t = Instant::now();
        let r = ev.partial_interpret(&x, &std::collections::HashMap::new());
        println!("  partial_interpret {:?} ok={}", t.elapsed(), r.is_ok());
    }
    let t = Instant::now();
    let r = cedar_policy::Expression::from_str(&s);
    println!("  api parse {:?} ok={}", t.elapsed(), r.is_ok());
}
