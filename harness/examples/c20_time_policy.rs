//! timing probe for one policy text (file argument, or a generated `ip(ip(..(User::"a")..)) has a.a..a` of the given depth):
//! which public entry point spends the time?  (used to triage "case took more than 30 s of CPU time" reports of C20)
use std::str::FromStr;
use std::time::Instant;
fn timed<T>(name: &str, f: impl FnOnce() -> T) -> T {
    let t = Instant::now();
    let r = f();
    println!("  {name:<28} {:?}", t.elapsed());
    r
}
fn main() {
    let a: Vec<String> = std::env::args().collect();
    let src = if let Ok(n) = a[1].parse::<usize>() {
        let mut e = String::from("User::\"a\"");
        for _ in 0..n { e = format!("ip({e})"); }
        format!("permit(principal, action, resource) unless {{ {e} has {} }};", vec!["a"; n].join("."))
    } else { std::fs::read_to_string(&a[1]).unwrap() };
    println!("source {} bytes", src.len());
    let Ok(ps) = timed("PolicySet::from_str", || cedar_policy::PolicySet::from_str(&src)) else { println!("  does not parse"); return };
    let text = timed("to_string", || ps.to_string());
    println!("  printed {} bytes", text.len());
    timed("Debug", || format!("{ps:?}").len());
    for p in ps.policies() {
        timed("policy to_cedar", || p.to_cedar().map(|s| s.len()));
        let j = timed("policy to_json", || p.to_json());
        if let Ok(v) = j {
            println!("  json {} bytes", v.to_string().len());
            let p2 = timed("Policy::from_json", || cedar_policy::Policy::from_json(None, v));
            if let Ok(p2) = p2 { timed("from_json'd to_string", || p2.to_string().len()); }
        }
    }
    timed("set to_json", || ps.clone().to_json().map(|v| v.to_string().len()));
    timed("reparse printed", || cedar_policy::PolicySet::from_str(&text).is_ok());
    timed("format default", || cedar_policy_formatter::policies_str_to_pretty(&text, &cedar_policy_formatter::Config::default()).map(|s| s.len()).map_err(|_| ()));
    timed("format width 20", || cedar_policy_formatter::policies_str_to_pretty(&text, &cedar_policy_formatter::Config { line_width: 20, indent_width: 4 }).map(|s| s.len()).map_err(|_| ()));
    let (schema, _) = cedar_policy::Schema::from_cedarschema_str("entity User; action view appliesTo { principal: User, resource: User };").unwrap();
    let v = cedar_policy::Validator::new(schema);
    for mode in [cedar_policy::ValidationMode::Strict, cedar_policy::ValidationMode::Permissive] {
        let r = timed("validate", || v.validate(&ps, mode));
        println!("  {} errors", r.validation_errors().count());
        timed("errors to_string", || r.validation_errors().map(|e| e.to_string().len()).sum::<usize>());
        timed("result Display", || format!("{r}").len());
        timed("result Debug", || format!("{r:?}").len());
    }
    timed("proto encode/decode", || { use cedar_policy::proto::traits::Protobuf; match ps.encode() { Ok(b) => cedar_policy::PolicySet::decode(&b[..]).is_ok(), Err(_) => false } });
}
