/-
S-expression reader/printer for the line protocol (DESIGN.md Appendix B).
Import-free. One request per line; strings are ASCII-only with `\\`, `\"`, `\u{HEX}` escapes.
-/
namespace CedarVerif

inductive Sexp where
  | atom (s : String)
  | str (s : String)
  | list (xs : List Sexp)
deriving Repr, Inhabited

namespace Sexp

def hexDigit (n : Nat) : Char :=
  if n < 10 then Char.ofNat (48 + n) else Char.ofNat (87 + n)

def toHexAux : Nat → Nat → List Char → List Char
  | 0, _, acc => acc
  | fuel + 1, n, acc =>
    let acc := hexDigit (n % 16) :: acc
    if n / 16 = 0 then acc else toHexAux fuel (n / 16) acc

def toHex (n : Nat) : List Char := toHexAux 8 n []

def escapeChar (c : Char) : List Char :=
  if c = '"' then ['\\', '"']
  else if c = '\\' then ['\\', '\\']
  else if 32 ≤ c.toNat ∧ c.toNat < 127 then [c]
  else ['\\', 'u', '{'] ++ toHex c.toNat ++ ['}']

def escapeString (s : String) : String :=
  String.ofList (s.toList.flatMap escapeChar)

mutual
partial def toString : Sexp → String
  | .atom s => s
  | .str s => "\"" ++ escapeString s ++ "\""
  | .list xs => "(" ++ " ".intercalate (listToStrings xs) ++ ")"
partial def listToStrings : List Sexp → List String
  | [] => []
  | x :: xs => toString x :: listToStrings xs
end

instance : ToString Sexp := ⟨Sexp.toString⟩

def hexVal (c : Char) : Option Nat :=
  if '0' ≤ c ∧ c ≤ '9' then some (c.toNat - 48)
  else if 'a' ≤ c ∧ c ≤ 'f' then some (c.toNat - 87)
  else if 'A' ≤ c ∧ c ≤ 'F' then some (c.toNat - 55)
  else none

/-- parse the body of a string literal after the opening quote -/
partial def parseStr : List Char → List Char → Option (String × List Char)
  | '"' :: rest, acc => some (String.ofList acc.reverse, rest)
  | '\\' :: '"' :: rest, acc => parseStr rest ('"' :: acc)
  | '\\' :: '\\' :: rest, acc => parseStr rest ('\\' :: acc)
  | '\\' :: 'u' :: '{' :: rest, acc =>
    let rec go (cs : List Char) (n : Nat) : Option (Nat × List Char) :=
      match cs with
      | '}' :: r => some (n, r)
      | c :: r => match hexVal c with
        | some d => go r (n * 16 + d)
        | none => none
      | [] => none
    match go rest 0 with
    | some (n, r) => parseStr r (Char.ofNat n :: acc)
    | none => none
  | '\\' :: _, _ => none
  | c :: rest, acc => parseStr rest (c :: acc)
  | [], _ => none

def isAtomChar (c : Char) : Bool :=
  !(c = ' ' || c = '(' || c = ')' || c = '"' || c = '\n' || c = '\t' || c = '\r')

partial def parseAtom : List Char → List Char → (String × List Char)
  | c :: rest, acc => if isAtomChar c then parseAtom rest (c :: acc) else (String.ofList acc.reverse, c :: rest)
  | [], acc => (String.ofList acc.reverse, [])

mutual
partial def parseOne : List Char → Option (Sexp × List Char)
  | ' ' :: rest => parseOne rest
  | '\t' :: rest => parseOne rest
  | '\n' :: rest => parseOne rest
  | '\r' :: rest => parseOne rest
  | '(' :: rest => parseList rest []
  | ')' :: _ => none
  | '"' :: rest => match parseStr rest [] with
    | some (s, r) => some (.str s, r)
    | none => none
  | [] => none
  | cs => let (a, r) := parseAtom cs []; some (.atom a, r)
partial def parseList : List Char → List Sexp → Option (Sexp × List Char)
  | ' ' :: rest, acc => parseList rest acc
  | '\t' :: rest, acc => parseList rest acc
  | '\n' :: rest, acc => parseList rest acc
  | '\r' :: rest, acc => parseList rest acc
  | ')' :: rest, acc => some (.list acc.reverse, rest)
  | [], _ => none
  | cs, acc => match parseOne cs with
    | some (x, r) => parseList r (x :: acc)
    | none => none
end

def parse (line : String) : Option Sexp :=
  match parseOne line.toList with
  | some (x, rest) => if rest.all (fun c => c = ' ' || c = '\n' || c = '\r' || c = '\t') then some x else none
  | none => none

end Sexp
end CedarVerif
