import CedarVerif.Lemmas.Fmt
/-
C12 — the formatter is total, preserves meaning and comments, and is idempotent on comment-free text.

What is proved here (about the model `Cedar/Fmt.lean`):

  * `render_tokens`          layout only inserts whitespace: for EVERY flat/break decision procedure
                             (`bestWith_tokens`), in particular for Wadler's `fits w` (`render w`), the atoms
                             (tokens and comments) of the layout are the atoms of the document, in order.
  * `render_comment_safe`    if in the document every comment is followed by a `hardline` before the next token
                             (`docSafe`), then in every layout no token is swallowed by a `//` comment.
  * `toDocFixed_comments`    `toDocFixed` is the mirror of doc.rs AS IT IS NOW (since the repair `fix: formatter keeps
                             comments attached to a dropped trailing comma`, /repo commit e8fc4bb): for the modelled
                             CST core the document carries the source tokens and comments in source order, only the
                             trailing `,` tokens themselves are dropped (`toDocFixed_tokens`), so all comments
                             survive in every layout, unconditionally.
  * `toDoc_tokens_partial`   `toDoc` is the mirror of doc.rs BEFORE that repair (kept as the record of the defect
                             this check found): trailing commas (`Comma<E>`) were dropped *together with their
                             comments*; `toDoc_comments_partial`: all comments survive iff no trailing comma carries
                             one (`lost_comment_example` exhibits the loss).  `toDoc_safe`: the documents are
                             comment-safe.
  * `policy_tokens`          POLICY LEVEL (model §4: `Annotation`, `VariableDef` with `is`/`==`/`in`, `Cond` with braces and
                             the hoisted leading comments of the body, `Policy` with both scope layouts and the scope's
                             trailing comma, mirror of doc.rs as it is now): for every chooser (`policy_tokens_any`), every
                             line width and indent, the layout of `policyToDoc p` consists of exactly the source tokens
                             and comments of `p` in source order minus the `,` tokens in trailing position
                             (`policyAtomsW false true`); `policy_tokens_dropped`: that sequence is a subsequence of the
                             source with the same comments.
  * `policy_comments`        every comment attached to any token of the policy CST — including both comments of a dropped
                             trailing comma — is in every layout, in source order.  `policy_safe`: no token of a policy
                             layout is swallowed by a comment.
  * `policies_tokens`        the lift to policy sets as fmt.rs builds them (`renderPolicies`: every policy laid out on its
    `policies_comments`      own, joined by blank lines, final newline, end-of-file comments), for every chooser
    `policies_safe`          (`policies_tokens_any`); `policiesToDoc_tokens` for the one-document variant.
  * `pipeline_correct`       abstract pipeline: atom-preserving (up to a parse-invariant, comment-preserving,
                             idempotent token normalisation) ∧ output on comment-free text a function of
                             (normalised tokens, config)  ⇒  same parse ∧ comments preserved ∧ idempotent on
                             comment-free input ∧ re-formatting preserves parse and comments.

What is NOT proved about the real code (hypotheses of `pipeline_correct` for the real formatter; they are
covered only by the differential / property run of `./check C12`, harness/src/c12.rs):

  (U1) the `pretty` crate's `render` is an instance of `bestWith ch` for some `ch` (it only inserts spaces and
       newlines between `text`s, and `hardline` is a newline in every mode); the model's `fits` is written after
       `fitting` of pretty 0.12.5 (the head group flat, groups of the rest keep break mode) but WHERE lines break is
       not diffed against the real formatter — the theorems hold for every chooser and do not depend on it;
  (U2) string level: printing the layout and re-lexing it gives back the atoms (two adjacent atoms re-lex to
       themselves, e.g. `principal` `.` `n`); evaluated by the harness on every output (`token_sequence_same`);
  (U3) the span lookups of utils.rs (`get_comment_at_start`, `get_comment_after_end`, `get_comment_at_end`,
       `get_comment_in_range`) find exactly the token the CST node stands on — the model's CST carries *resolved*
       tokens; the lexer / comment-attachment mirror itself IS checked (`fmt-tokens` op, every generated text);
  (U4) `remove_empty_lines` (string level: deletes blank lines outside strings and comments) and `soundness_check`;
       the policy level of doc.rs (`Policy`, `VariableDef`, `Cond`, `Annotation`), the joining of policies and the
       end-of-file comments ARE modelled (§4) and covered by the `policy_…`/`policies_…` theorems, with resolved
       tokens (U3) — there is no differential op for policy-level documents: the harness would have to rebuild the
       resolved-token CST from cedar's CST, and the layout itself also depends on (U1);
  (U5) the parser depends on the token sequence only, and re-rendering of literals (`007` ↦ `7`) and dropping
       trailing commas do not change the parse.
-/
namespace Cedar.C12
open Cedar.Fmt

/-! ### layout only inserts whitespace -/

/-- for every decision procedure `ch`, the layout carries exactly the atoms of the worklist -/
theorem bestWith_tokens (ch : Nat → List Cmd → Bool) (col : Nat) (cs : List Cmd) :
    itemsAtoms (bestWith ch col cs) = cmdsAtoms cs := by
  fun_induction bestWith ch col cs <;> simp_all [itemsAtoms, cmdsAtoms, docAtoms]

/-- `tokensOf (render w d) = docTokens d`, for every width and every document -/
theorem render_tokens (w : Nat) (d : Doc) : itemsAtoms (render w d) = docAtoms d := by
  simp [render, bestWith_tokens, cmdsAtoms]

/-- non-vacuity: a group that does not fit is broken, one that fits is flat; same atoms both ways -/
example :
    let d := Doc.group (.text (.tok "a".toList) ++ (.line ++ (.text (.com "// c".toList) ++ (.hardline ++ .text (.tok "b".toList)))))
    itemsToString (render 80 d) = "a\n// c\nb" ∧ itemsAtoms (render 1 d) = docAtoms d ∧ docAtoms d ≠ [] := by
  decide +kernel

example :
    let d := Doc.group (.text (.tok "a".toList) ++ (.line ++ .text (.tok "b".toList)))
    itemsToString (render 80 d) = "a b" ∧ itemsToString (render 2 (.nest 4 d)) = "a\n    b" := by
  decide +kernel

/-! ### comment safety -/

/-- if every comment of the document is followed by a hardline before the next token, then in the layout of
    every width a lexer sees exactly the atoms of the document -/
theorem render_comment_safe (w : Nat) (d : Doc) (q : Bool) (h : docSafe false d = some q) :
    itemsVisible false (render w d) = some (docAtoms d) := by
  have := bestWith_safe (fits w) 0 [(0, false, d)] false q (by simp [cmdsSafe, h])
  simpa [render, cmdsAtoms] using this

/-- non-vacuity, and the hazard: a comment followed by a soft `line` swallows the next token when the group is flat -/
example :
    let bad := Doc.group (.text (.com "// c".toList) ++ (.line ++ .text (.tok "b".toList)))
    docSafe false bad = none ∧ itemsVisible false (render 80 bad) = none := by
  decide +kernel

/-! ### wrapped tokens -/

/-! ### the CST core: tokens and comments of `toDoc` -/

/-- The document built by (the mirror of) doc.rs for the CST core carries the tokens and comments of the source
    in source order, except that trailing commas are dropped *with their comments*.
    "partial": only the CST core is modelled, with resolved tokens (U3, U4 of the header). -/
theorem toDoc_tokens_partial (iw : Nat) (c : Cst) : docAtoms (toDoc iw c) = cstAtomsW false false c :=
  toDocW_atoms false iw c

/-- … and with the proposed repair only the `,` tokens themselves are dropped -/
theorem toDocFixed_tokens (iw : Nat) (c : Cst) : docAtoms (toDocFixed iw c) = cstAtomsW false true c :=
  toDocW_atoms true iw c

/-- end to end for the core: every layout of `toDoc c` shows exactly those atoms -/
theorem render_toDoc_tokens_partial (w iw : Nat) (c : Cst) : itemsAtoms (render w (toDoc iw c)) = cstAtomsW false false c := by
  rw [render_tokens, toDoc_tokens_partial]

/-! ### comments: what is lost, and that nothing else is -/

/-- doc.rs as it is, on the core: all comments of the source appear in every layout, in source order,
    PROVIDED no trailing comma carries a comment -/
theorem toDoc_comments_partial (w iw : Nat) (c : Cst) (h : noCommentedTrailingComma c = true) :
    commentsOf (itemsAtoms (render w (toDoc iw c))) = commentsOf (cstAtoms c) := by
  rw [render_tokens, toDoc_tokens_partial, cst_noCTC c h, cst_comments_kept]; rfl

/-- doc.rs with the proposed repair, on the core: all comments of the source appear in every layout, in source
    order — unconditionally -/
theorem toDocFixed_comments (w iw : Nat) (c : Cst) :
    commentsOf (itemsAtoms (render w (toDocFixed iw c))) = commentsOf (cstAtoms c) := by
  rw [render_tokens, toDocFixed_tokens, cst_comments_kept]; rfl

def wt (kind text : String) (leading : List String := []) (trailing : String := "") : WTok :=
  ⟨kind, text.toList, leading.map String.toList, trailing.toList⟩

/-- `{ a : 1 , // c⏎ }` — the record literal of the preliminary finding -/
def lostExample : Cst :=
  .brack (wt "LBrace" "{")
    (.last (.recInit (.leaf (wt "Identifier" "a")) (wt "Colon" ":") (.leaf (wt "Number" "1"))) (some (wt "Comma" "," [] "// c")))
    (wt "RBrace" "}")

/-- the confirmed defect, in the model: the comment on the trailing comma is in the source, is not in the layout
    produced by doc.rs' rule, and is in the layout produced with the repair; the hypothesis of
    `toDoc_comments_partial` fails for this input, so that theorem is not vacuous -/
theorem lost_comment_example :
    commentsOf (cstAtoms lostExample) = [Atom.com "// c".toList]
    ∧ commentsOf (itemsAtoms (render 80 (toDoc 2 lostExample))) = []
    ∧ commentsOf (itemsAtoms (render 80 (toDocFixed 2 lostExample))) = [Atom.com "// c".toList]
    ∧ noCommentedTrailingComma lostExample = false := by
  decide +kernel

/-- non-vacuity of `toDoc_comments_partial`: a CST with comments at several positions and an uncommented trailing comma -/
example :
    let c : Cst := .chain .and
      (.rel (.member (.leaf (wt "Principal" "principal" ["// l1", "// l2"])) (.field (wt "Dot" "." [] "// d") (wt "Identifier" "n") .nil))
            (wt "Lt" "<") (.leaf (wt "Number" "1" [] "// one")))
      (.cons (wt "And" "&&" [] "// and")
        (.brack (wt "LBracket" "[") (.cons (.leaf (wt "Number" "1")) (wt "Comma" "," [] "// k") (.last (.leaf (wt "Number" "2")) (some (wt "Comma" ",")))) (wt "RBracket" "]" ["// r"]))
        .nil)
    noCommentedTrailingComma c = true
    ∧ (commentsOf (cstAtoms c)).length = 7
    ∧ commentsOf (itemsAtoms (render 1 (toDoc 2 c))) = commentsOf (cstAtoms c)
    ∧ itemsVisible false (render 80 (toDoc 2 c)) = some (docAtoms (toDoc 2 c)) := by
  decide +kernel

/-! ### the documents of `toDoc` are comment-safe -/

/-- every layout of `toDoc c` is read back by a lexer as exactly the kept atoms: no token is swallowed by a comment -/
theorem toDoc_safe (w iw : Nat) (c : Cst) :
    itemsVisible false (render w (toDoc iw c)) = some (cstAtomsW false false c) := by
  unfold toDoc
  rw [render_comment_safe w _ false (toDocW_safe false iw c), toDocW_atoms]

/-! ### the abstract pipeline -/

/-- an abstract formatter: texts, a lexer giving tokens and comments (in order), a parser that sees tokens only,
    the token normalisation performed by the formatter (dropping trailing commas, re-rendering literals) -/
structure Pipeline (Text Tok Com Cfg Ast : Type) where
  tokens : Text → List Tok
  comments : Text → List Com
  parse : List Tok → Option Ast
  norm : List Tok → List Tok
  fmt : Cfg → Text → Text

/-- the hypotheses: atom-preserving, and the output on comment-free input is a function of (tokens, config) -/
structure Pipeline.Hyps {Text Tok Com Cfg Ast : Type} (P : Pipeline Text Tok Com Cfg Ast) : Prop where
  /-- token-preserving up to the normalisation (for the core: `render_tokens` + `toDoc_tokens_partial`) -/
  tokensPreserved : ∀ c x, P.tokens (P.fmt c x) = P.norm (P.tokens x)
  /-- comment-preserving (for the core: `toDocFixed_comments`; fails for commented trailing commas today) -/
  commentsPreserved : ∀ c x, P.comments (P.fmt c x) = P.comments x
  normParse : ∀ ts, P.parse (P.norm ts) = P.parse ts
  normIdem : ∀ ts, P.norm (P.norm ts) = P.norm ts
  /-- the output is a function of (tokens, comments + their attachment, config); on comment-free text there
      is no attachment, so it is a function of the normalised tokens and the config -/
  functionOfTokens : ∀ c x y, P.comments x = [] → P.comments y = [] → P.norm (P.tokens x) = P.norm (P.tokens y) → P.fmt c x = P.fmt c y

/-- C12 for an abstract pipeline (the part of the property that is about *results*; totality is a property of
    `fmt` being a function here and is checked on the implementation by the harness) -/
def FullStatement {Text Tok Com Cfg Ast : Type} (P : Pipeline Text Tok Com Cfg Ast) : Prop :=
  (∀ c x, P.parse (P.tokens (P.fmt c x)) = P.parse (P.tokens x))
  ∧ (∀ c x, P.comments (P.fmt c x) = P.comments x)
  ∧ (∀ c x, P.comments x = [] → P.fmt c (P.fmt c x) = P.fmt c x)
  ∧ (∀ c c' x, P.parse (P.tokens (P.fmt c' (P.fmt c x))) = P.parse (P.tokens x) ∧ P.comments (P.fmt c' (P.fmt c x)) = P.comments x)

theorem pipeline_correct {Text Tok Com Cfg Ast : Type} (P : Pipeline Text Tok Com Cfg Ast) (h : P.Hyps) : FullStatement P := by
  refine ⟨?_, h.commentsPreserved, ?_, ?_⟩
  · intro c x; rw [h.tokensPreserved, h.normParse]
  · intro c x hx
    apply h.functionOfTokens c (P.fmt c x) x
    · rw [h.commentsPreserved, hx]
    · exact hx
    · rw [h.tokensPreserved, h.normIdem]
  · intro c c' x
    constructor
    · rw [h.tokensPreserved, h.normParse, h.tokensPreserved, h.normParse]
    · rw [h.commentsPreserved, h.commentsPreserved]

/-- a document for a bare atom sequence: tokens separated by soft lines, comments followed by hard lines -/
def docOfAtoms : List Atom → Doc
  | [] => .nil
  | .tok t :: r => .text (.tok t) ++ (.line ++ docOfAtoms r)
  | .com c :: r => .text (.com c) ++ (.hardline ++ docOfAtoms r)

theorem docAtoms_docOfAtoms (as : List Atom) : docAtoms (docOfAtoms as) = as := by
  induction as with
  | nil => simp [docOfAtoms, docAtoms]
  | cons a r ih => cases a <;> simp [docOfAtoms, docAtoms, ih]

/-- non-vacuity of `pipeline_correct`: texts = layouts, lexer = `itemsAtoms`, the formatter re-renders the atoms
    at the configured width with the model's renderer; the hypotheses hold by `render_tokens` -/
def toyPipeline : Pipeline (List Item) Atom Atom Nat (List Atom) where
  tokens x := tokensOf (itemsAtoms x)
  comments x := commentsOf (itemsAtoms x)
  parse ts := some ts
  norm ts := ts
  fmt w x := render w (.group (docOfAtoms (itemsAtoms x)))

theorem toyPipeline_hyps : toyPipeline.Hyps where
  tokensPreserved := by intro c x; simp [toyPipeline, render_tokens, docAtoms, docAtoms_docOfAtoms]
  commentsPreserved := by intro c x; simp [toyPipeline, render_tokens, docAtoms, docAtoms_docOfAtoms]
  normParse := by intro ts; rfl
  normIdem := by intro ts; rfl
  functionOfTokens := by
    intro c x y hx hy hxy
    simp only [toyPipeline] at hx hy hxy ⊢
    have key : ∀ as : List Atom, commentsOf as = [] → tokensOf as = as := by
      intro as h
      simp only [commentsOf, List.filter_eq_nil_iff] at h
      simp only [tokensOf, List.filter_eq_self]
      intro a ha; simp [h a ha]
    rw [key _ hx, key _ hy] at hxy
    rw [hxy]

example : FullStatement toyPipeline := pipeline_correct _ toyPipeline_hyps

example :
    let x : List Item := [.atom (.tok "a".toList), .sp, .sp, .nl 3, .atom (.tok "b".toList)]
    itemsToString (toyPipeline.fmt 80 x) = "a b " ∧ toyPipeline.fmt 80 (toyPipeline.fmt 80 x) = toyPipeline.fmt 80 x := by
  decide +kernel

/-! ### the policy level: annotations, scope, conditions (doc.rs `Annotation`, `VariableDef`, `Cond`, `Policy`) -/

/-- `policy_tokens`, general form: for EVERY flat/break decision procedure and every start column, the layout of
    the document doc.rs builds for a policy consists of exactly the source tokens and comments of the policy, in
    source order, except that the `,` TOKENS in trailing position (the scope's `Comma<VariableDef>` and every
    `Comma<E>` inside the expressions) are not printed (`policyAtomsW false true`: their comments are printed). -/
theorem policy_tokens_any (ch : Nat → List Cmd → Bool) (col iw : Nat) (p : PolicyCst) :
    itemsAtoms (bestWith ch col [(0, false, policyToDoc iw p)]) = policyAtomsW false true p := by
  rw [bestWith_tokens]; simp [cmdsAtoms, policyToDoc_atoms]

/-- … in particular for Wadler's `fits w`, at every line width `w` and indent width `iw` -/
theorem policy_tokens (w iw : Nat) (p : PolicyCst) :
    itemsAtoms (render w (policyToDoc iw p)) = policyAtomsW false true p :=
  policy_tokens_any (fits w) 0 iw p

/-- "modulo the dropped trailing commas", precisely: what is printed is a subsequence of the source in which no
    comment is missing — so the only atoms that can be missing are tokens, and by definition of
    `policyAtomsW false true` they are the trailing `,`s -/
theorem policy_tokens_dropped (w iw : Nat) (p : PolicyCst) :
    (itemsAtoms (render w (policyToDoc iw p))).Sublist (policyAtoms p)
    ∧ commentsOf (itemsAtoms (render w (policyToDoc iw p))) = commentsOf (policyAtoms p) := by
  rw [policy_tokens]; exact ⟨policy_sublist p, policy_comments_kept p⟩

/-- `policy_comments`: every comment attached to any token of the policy CST (annotations, effect, scope
    punctuation including the dropped trailing comma, `is`/`==`/`in`, `when`/`unless`, braces, the body, `;`)
    appears in the layout, in source order, and nothing else does — for every width and indent -/
theorem policy_comments (w iw : Nat) (p : PolicyCst) :
    commentsOf (itemsAtoms (render w (policyToDoc iw p))) = commentsOf (policyAtoms p) :=
  (policy_tokens_dropped w iw p).2

/-- every layout of a policy is read back by a lexer as exactly the kept atoms: no token is swallowed by a `//`
    comment (every comment is followed by a hardline in the document) -/
theorem policy_safe (w iw : Nat) (p : PolicyCst) :
    itemsVisible false (render w (policyToDoc iw p)) = some (policyAtomsW false true p) := by
  rw [render_comment_safe w _ false (policyToDoc_safe iw p), policyToDoc_atoms]

/-! ### policy sets: `policies_str_to_pretty` at the layout level -/

/-- the lift to policy sets, for every chooser: the layouts of the policies joined by blank lines, followed by
    the end-of-file comments, carry the atoms of all policies in order, then the end-of-file comments -/
theorem policies_tokens_any (ch : Nat → List Cmd → Bool) (iw : Nat) (ps : List PolicyCst) (eof : List (List Char)) :
    itemsAtoms (renderPoliciesWith ch iw ps eof) = policySetAtomsW false true ps eof := by
  simp only [renderPoliciesWith, policySetAtomsW, itemsAtoms_append, itemsAtoms, itemsAtoms_eofItems,
    itemsAtoms_joinPolicies, policiesAtomsW_flatten, List.map_map]
  congr 2
  apply List.map_congr_left
  intro p _
  exact policy_tokens_any ch 0 iw p

theorem policies_tokens (w iw : Nat) (ps : List PolicyCst) (eof : List (List Char)) :
    itemsAtoms (renderPolicies w iw ps eof) = policySetAtomsW false true ps eof :=
  policies_tokens_any (fits w) iw ps eof

/-- all comments of a policy set — those of every policy and the end-of-file comments — survive, in order -/
theorem policies_comments (w iw : Nat) (ps : List PolicyCst) (eof : List (List Char)) :
    commentsOf (itemsAtoms (renderPolicies w iw ps eof)) = commentsOf (policySetAtomsW true true ps eof) := by
  rw [policies_tokens]
  simp [policySetAtomsW, commentsOf_append, policies_comments_kept]

/-- the layout of a policy set is comment-safe -/
theorem policies_safe (w iw : Nat) (ps : List PolicyCst) (eof : List (List Char)) :
    itemsVisible false (renderPolicies w iw ps eof) = some (policySetAtomsW false true ps eof) := by
  have h1 := itemsVisible_joinPolicies (fun p => bestWith (fits w) 0 [(0, false, policyToDoc iw p)])
    (policyAtomsW false true) (fun p => policy_safe w iw p) ps
  have := itemsVisible_append_nl _ _ 0 _ _ false h1 (itemsVisible_eofItems eof)
  simpa [renderPolicies, renderPoliciesWith, policySetAtomsW, policiesAtomsW_flatten] using this

/-- the single-document variant of a policy set carries the same atoms -/
theorem policiesToDoc_tokens (w iw : Nat) (ps : List PolicyCst) :
    itemsAtoms (render w (policiesToDoc iw ps)) = policiesAtomsW false true ps := by
  rw [render_tokens, docAtoms_policiesToDoc]

/-! non-vacuity at the policy level -/

def entRef (ty id : String) : Cst :=
  .chain .path (.leaf (wt "Identifier" ty)) (.cons (wt "DoubleColon" "::") (.leaf (wt "Str" id)) .nil)

/-- ```
    // about
    @id("p1") // anno
    // effect
    permit ( // open
      principal == User::"alice", action in [Action::"view", // inner
      ], // c2
      resource is Photo in Album::"a"
      // before the dropped comma
      , // after the dropped comma
    ) when // why
    { // body⏎ resource.owner == principal }; // end
    ``` -/
def policyExample : PolicyCst where
  annots := [⟨wt "At" "@" ["// about"], wt "Identifier" "id",
    some (wt "LParen" "(", wt "Str" "\"p1\"", wt "RParen" ")" [] "// anno")⟩]
  effect := wt "Permit" "permit" ["// effect"]
  lp := wt "LParen" "(" [] "// open"
  principal := ⟨wt "Principal" "principal", none, some (wt "Equal" "==", entRef "User" "\"alice\"")⟩
  comma1 := wt "Comma" ","
  action := ⟨wt "Action" "action", none, some (wt "In" "in",
    .brack (wt "LBracket" "[") (.last (entRef "Action" "\"view\"") (some (wt "Comma" "," [] "// inner"))) (wt "RBracket" "]"))⟩
  comma2 := wt "Comma" "," [] "// c2"
  resource := ⟨wt "Resource" "resource", some (wt "Is" "is", .leaf (wt "Identifier" "Photo")),
    some (wt "In" "in", entRef "Album" "\"a\"")⟩
  trailingComma := some (wt "Comma" "," ["// before the dropped comma"] "// after the dropped comma")
  rp := wt "RParen" ")"
  conds := [⟨wt "When" "when" [] "// why", wt "LBrace" "{",
    some (.rel (.member (.leaf (wt "Resource" "resource" ["// body"])) (.field (wt "Dot" ".") (wt "Identifier" "owner") .nil))
      (wt "Equal" "==") (.leaf (wt "Principal" "principal"))),
    wt "RBrace" "}"⟩]
  semi := wt "SemiColon" ";" [] "// end"

/-- `permit(principal, action, resource, // tc⏎ );` — the bare scope with a commented trailing comma -/
def bareExample : PolicyCst where
  annots := []
  effect := wt "Permit" "permit"
  lp := wt "LParen" "("
  principal := ⟨wt "Principal" "principal", none, none⟩
  comma1 := wt "Comma" ","
  action := ⟨wt "Action" "action", none, none⟩
  comma2 := wt "Comma" ","
  resource := ⟨wt "Resource" "resource", none, none⟩
  trailingComma := some (wt "Comma" "," [] "// tc")
  rp := wt "RParen" ")"
  conds := []
  semi := wt "SemiColon" ";"

/-- a policy with an annotation, all three scope constraints, a `when` clause, and comments on both sides of the
    dropped trailing comma of the scope (and on a dropped trailing comma inside `[ … ]`): 11 comments, all in
    the layout at widths 80 and 20, two `,` tokens (and nothing else) missing; the layout is comment-safe -/
example :
    (commentsOf (policyAtoms policyExample)).length = 11
    ∧ commentsOf (policyAtoms policyExample) =
        ["// about", "// anno", "// effect", "// open", "// inner", "// c2", "// before the dropped comma",
          "// after the dropped comma", "// why", "// body", "// end"].map (fun s => Atom.com s.toList)
    ∧ commentsOf (itemsAtoms (render 80 (policyToDoc 2 policyExample))) = commentsOf (policyAtoms policyExample)
    ∧ commentsOf (itemsAtoms (render 20 (policyToDoc 4 policyExample))) = commentsOf (policyAtoms policyExample)
    ∧ (tokensOf (policyAtoms policyExample)).length = (tokensOf (itemsAtoms (render 20 (policyToDoc 4 policyExample)))).length + 2
    ∧ itemsVisible false (render 20 (policyToDoc 4 policyExample)) = some (policyAtomsW false true policyExample) := by
  decide +kernel

/-- the layouts themselves (before `remove_empty_lines`, which deletes the blank lines) -/
example :
    itemsToString (render 80 (policyToDoc 2 policyExample)) =
      "\n// about\n@id(\"p1\") // anno\n\n// effect\npermit\n( // open\n\n  principal == User::\"alice\",\n  action in\n    [Action::\"view\" // inner\n      ], // c2\n  resource is Photo in Album::\"a\"\n  // before the dropped comma\n   // after the dropped comma\n  \n)\nwhen // why\n{\n  \n  // body\n  resource.owner == principal\n}; // end\n"
    ∧ itemsToString (renderPolicies 80 2 [bareExample, bareExample] ["// eof".toList]) =
      "permit (principal, action, resource // tc\n  );\n\npermit (principal, action, resource // tc\n  );\n// eof\n" := by
  decide +kernel

end Cedar.C12
