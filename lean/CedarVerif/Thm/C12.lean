import CedarVerif.Lemmas.Fmt
/-
C12 — the formatter is total, preserves meaning and comments, and is idempotent on comment-free text.

What is proved here (about the model `Cedar/Fmt.lean`):

  * `render_tokens`          layout only inserts whitespace: for EVERY flat/break decision procedure
                             (`bestWith_tokens`), in particular for Wadler's `fits w` (`render w`), the atoms
                             (tokens and comments) of the layout are the atoms of the document, in order.
  * `render_comment_safe`    if in the document every comment is followed by a `hardline` before the next token
                             (`docSafe`), then in every layout no token is swallowed by a `//` comment.
  * `toDocFixed_comments`    `toDocFixed` is the mirror of doc.rs AS IT IS NOW (since the repair `fix: formatter keeps
                             comments attached to a dropped trailing comma`, /repo commit e8fc4bb): for the modelled
                             CST core the document carries the source tokens and comments in source order, only the
                             trailing `,` tokens themselves are dropped (`toDocFixed_tokens`), so all comments
                             survive in every layout, unconditionally.
  * `toDoc_tokens_partial`   `toDoc` is the mirror of doc.rs BEFORE that repair (kept as the record of the defect
                             this check found): trailing commas (`Comma<E>`) were dropped *together with their
                             comments*; `toDoc_comments_partial`: all comments survive iff no trailing comma carries
                             one (`lost_comment_example` exhibits the loss).  `toDoc_safe`: the documents are
                             comment-safe.
  * `pipeline_correct`       abstract pipeline: atom-preserving (up to a parse-invariant, comment-preserving,
                             idempotent token normalisation) ∧ output on comment-free text a function of
                             (normalised tokens, config)  ⇒  same parse ∧ comments preserved ∧ idempotent on
                             comment-free input ∧ re-formatting preserves parse and comments.

What is NOT proved about the real code (hypotheses of `pipeline_correct` for the real formatter; they are
covered only by the differential / property run of `./check C12`, harness/src/c12.rs):

  (U1) the `pretty` crate's `render` is an instance of `bestWith ch` for some `ch` (it only inserts spaces and
       newlines between `text`s, and `hardline` is a newline in every mode);
  (U2) string level: printing the layout and re-lexing it gives back the atoms (two adjacent atoms re-lex to
       themselves, e.g. `principal` `.` `n`); evaluated by the harness on every output (`token_sequence_same`);
  (U3) the span lookups of utils.rs (`get_comment_at_start`, `get_comment_after_end`, `get_comment_at_end`,
       `get_comment_in_range`) find exactly the token the CST node stands on — the model's CST carries *resolved*
       tokens; the lexer / comment-attachment mirror itself IS checked (`fmt-tokens` op, every generated text);
  (U4) the parts of doc.rs outside the core: `Policy` (annotations, effect, scope incl. its trailing comma,
       conditions), `VariableDef`, `Cond`, `Annotation`; `remove_empty_lines`; joining policies; end-of-file
       comments; `soundness_check`;
  (U5) the parser depends on the token sequence only, and re-rendering of literals (`007` ↦ `7`) and dropping
       trailing commas do not change the parse.
-/
namespace Cedar.C12
open Cedar.Fmt

/-! ### layout only inserts whitespace -/

/-- for every decision procedure `ch`, the layout carries exactly the atoms of the worklist -/
theorem bestWith_tokens (ch : Nat → List Cmd → Bool) (col : Nat) (cs : List Cmd) :
    itemsAtoms (bestWith ch col cs) = cmdsAtoms cs := by
  fun_induction bestWith ch col cs <;> simp_all [itemsAtoms, cmdsAtoms, docAtoms]

/-- `tokensOf (render w d) = docTokens d`, for every width and every document -/
theorem render_tokens (w : Nat) (d : Doc) : itemsAtoms (render w d) = docAtoms d := by
  simp [render, bestWith_tokens, cmdsAtoms]

/-- non-vacuity: a group that does not fit is broken, one that fits is flat; same atoms both ways -/
example :
    let d := Doc.group (.text (.tok "a".toList) ++ (.line ++ (.text (.com "// c".toList) ++ (.hardline ++ .text (.tok "b".toList)))))
    itemsToString (render 80 d) = "a\n// c\nb" ∧ itemsAtoms (render 1 d) = docAtoms d ∧ docAtoms d ≠ [] := by
  decide +kernel

example :
    let d := Doc.group (.text (.tok "a".toList) ++ (.line ++ .text (.tok "b".toList)))
    itemsToString (render 80 d) = "a b" ∧ itemsToString (render 2 (.nest 4 d)) = "a\n    b" := by
  decide +kernel

/-! ### comment safety -/

/-- if every comment of the document is followed by a hardline before the next token, then in the layout of
    every width a lexer sees exactly the atoms of the document -/
theorem render_comment_safe (w : Nat) (d : Doc) (q : Bool) (h : docSafe false d = some q) :
    itemsVisible false (render w d) = some (docAtoms d) := by
  have := bestWith_safe (fits w) 0 [(0, false, d)] false q (by simp [cmdsSafe, h])
  simpa [render, cmdsAtoms] using this

/-- non-vacuity, and the hazard: a comment followed by a soft `line` swallows the next token when the group is flat -/
example :
    let bad := Doc.group (.text (.com "// c".toList) ++ (.line ++ .text (.tok "b".toList)))
    docSafe false bad = none ∧ itemsVisible false (render 80 bad) = none := by
  decide +kernel

/-! ### wrapped tokens -/

/-! ### the CST core: tokens and comments of `toDoc` -/

/-- The document built by (the mirror of) doc.rs for the CST core carries the tokens and comments of the source
    in source order, except that trailing commas are dropped *with their comments*.
    "partial": only the CST core is modelled, with resolved tokens (U3, U4 of the header). -/
theorem toDoc_tokens_partial (iw : Nat) (c : Cst) : docAtoms (toDoc iw c) = cstAtomsW false false c :=
  toDocW_atoms false iw c

/-- … and with the proposed repair only the `,` tokens themselves are dropped -/
theorem toDocFixed_tokens (iw : Nat) (c : Cst) : docAtoms (toDocFixed iw c) = cstAtomsW false true c :=
  toDocW_atoms true iw c

/-- end to end for the core: every layout of `toDoc c` shows exactly those atoms -/
theorem render_toDoc_tokens_partial (w iw : Nat) (c : Cst) : itemsAtoms (render w (toDoc iw c)) = cstAtomsW false false c := by
  rw [render_tokens, toDoc_tokens_partial]

/-! ### comments: what is lost, and that nothing else is -/

/-- doc.rs as it is, on the core: all comments of the source appear in every layout, in source order,
    PROVIDED no trailing comma carries a comment -/
theorem toDoc_comments_partial (w iw : Nat) (c : Cst) (h : noCommentedTrailingComma c = true) :
    commentsOf (itemsAtoms (render w (toDoc iw c))) = commentsOf (cstAtoms c) := by
  rw [render_tokens, toDoc_tokens_partial, cst_noCTC c h, cst_comments_kept]; rfl

/-- doc.rs with the proposed repair, on the core: all comments of the source appear in every layout, in source
    order — unconditionally -/
theorem toDocFixed_comments (w iw : Nat) (c : Cst) :
    commentsOf (itemsAtoms (render w (toDocFixed iw c))) = commentsOf (cstAtoms c) := by
  rw [render_tokens, toDocFixed_tokens, cst_comments_kept]; rfl

def wt (kind text : String) (leading : List String := []) (trailing : String := "") : WTok :=
  ⟨kind, text.toList, leading.map String.toList, trailing.toList⟩

/-- `{ a : 1 , // c⏎ }` — the record literal of the preliminary finding -/
def lostExample : Cst :=
  .brack (wt "LBrace" "{")
    (.last (.recInit (.leaf (wt "Identifier" "a")) (wt "Colon" ":") (.leaf (wt "Number" "1"))) (some (wt "Comma" "," [] "// c")))
    (wt "RBrace" "}")

/-- the confirmed defect, in the model: the comment on the trailing comma is in the source, is not in the layout
    produced by doc.rs' rule, and is in the layout produced with the repair; the hypothesis of
    `toDoc_comments_partial` fails for this input, so that theorem is not vacuous -/
theorem lost_comment_example :
    commentsOf (cstAtoms lostExample) = [Atom.com "// c".toList]
    ∧ commentsOf (itemsAtoms (render 80 (toDoc 2 lostExample))) = []
    ∧ commentsOf (itemsAtoms (render 80 (toDocFixed 2 lostExample))) = [Atom.com "// c".toList]
    ∧ noCommentedTrailingComma lostExample = false := by
  decide +kernel

/-- non-vacuity of `toDoc_comments_partial`: a CST with comments at several positions and an uncommented trailing comma -/
example :
    let c : Cst := .chain .and
      (.rel (.member (.leaf (wt "Principal" "principal" ["// l1", "// l2"])) (.field (wt "Dot" "." [] "// d") (wt "Identifier" "n") .nil))
            (wt "Lt" "<") (.leaf (wt "Number" "1" [] "// one")))
      (.cons (wt "And" "&&" [] "// and")
        (.brack (wt "LBracket" "[") (.cons (.leaf (wt "Number" "1")) (wt "Comma" "," [] "// k") (.last (.leaf (wt "Number" "2")) (some (wt "Comma" ",")))) (wt "RBracket" "]" ["// r"]))
        .nil)
    noCommentedTrailingComma c = true
    ∧ (commentsOf (cstAtoms c)).length = 7
    ∧ commentsOf (itemsAtoms (render 1 (toDoc 2 c))) = commentsOf (cstAtoms c)
    ∧ itemsVisible false (render 80 (toDoc 2 c)) = some (docAtoms (toDoc 2 c)) := by
  decide +kernel

/-! ### the documents of `toDoc` are comment-safe -/

/-- every layout of `toDoc c` is read back by a lexer as exactly the kept atoms: no token is swallowed by a comment -/
theorem toDoc_safe (w iw : Nat) (c : Cst) :
    itemsVisible false (render w (toDoc iw c)) = some (cstAtomsW false false c) := by
  unfold toDoc
  rw [render_comment_safe w _ false (toDocW_safe false iw c), toDocW_atoms]

/-! ### the abstract pipeline -/

/-- an abstract formatter: texts, a lexer giving tokens and comments (in order), a parser that sees tokens only,
    the token normalisation performed by the formatter (dropping trailing commas, re-rendering literals) -/
structure Pipeline (Text Tok Com Cfg Ast : Type) where
  tokens : Text → List Tok
  comments : Text → List Com
  parse : List Tok → Option Ast
  norm : List Tok → List Tok
  fmt : Cfg → Text → Text

/-- the hypotheses: atom-preserving, and the output on comment-free input is a function of (tokens, config) -/
structure Pipeline.Hyps {Text Tok Com Cfg Ast : Type} (P : Pipeline Text Tok Com Cfg Ast) : Prop where
  /-- token-preserving up to the normalisation (for the core: `render_tokens` + `toDoc_tokens_partial`) -/
  tokensPreserved : ∀ c x, P.tokens (P.fmt c x) = P.norm (P.tokens x)
  /-- comment-preserving (for the core: `toDocFixed_comments`; fails for commented trailing commas today) -/
  commentsPreserved : ∀ c x, P.comments (P.fmt c x) = P.comments x
  normParse : ∀ ts, P.parse (P.norm ts) = P.parse ts
  normIdem : ∀ ts, P.norm (P.norm ts) = P.norm ts
  /-- the output is a function of (tokens, comments + their attachment, config); on comment-free text there
      is no attachment, so it is a function of the normalised tokens and the config -/
  functionOfTokens : ∀ c x y, P.comments x = [] → P.comments y = [] → P.norm (P.tokens x) = P.norm (P.tokens y) → P.fmt c x = P.fmt c y

/-- C12 for an abstract pipeline (the part of the property that is about *results*; totality is a property of
    `fmt` being a function here and is checked on the implementation by the harness) -/
def FullStatement {Text Tok Com Cfg Ast : Type} (P : Pipeline Text Tok Com Cfg Ast) : Prop :=
  (∀ c x, P.parse (P.tokens (P.fmt c x)) = P.parse (P.tokens x))
  ∧ (∀ c x, P.comments (P.fmt c x) = P.comments x)
  ∧ (∀ c x, P.comments x = [] → P.fmt c (P.fmt c x) = P.fmt c x)
  ∧ (∀ c c' x, P.parse (P.tokens (P.fmt c' (P.fmt c x))) = P.parse (P.tokens x) ∧ P.comments (P.fmt c' (P.fmt c x)) = P.comments x)

theorem pipeline_correct {Text Tok Com Cfg Ast : Type} (P : Pipeline Text Tok Com Cfg Ast) (h : P.Hyps) : FullStatement P := by
  refine ⟨?_, h.commentsPreserved, ?_, ?_⟩
  · intro c x; rw [h.tokensPreserved, h.normParse]
  · intro c x hx
    apply h.functionOfTokens c (P.fmt c x) x
    · rw [h.commentsPreserved, hx]
    · exact hx
    · rw [h.tokensPreserved, h.normIdem]
  · intro c c' x
    constructor
    · rw [h.tokensPreserved, h.normParse, h.tokensPreserved, h.normParse]
    · rw [h.commentsPreserved, h.commentsPreserved]

/-- a document for a bare atom sequence: tokens separated by soft lines, comments followed by hard lines -/
def docOfAtoms : List Atom → Doc
  | [] => .nil
  | .tok t :: r => .text (.tok t) ++ (.line ++ docOfAtoms r)
  | .com c :: r => .text (.com c) ++ (.hardline ++ docOfAtoms r)

theorem docAtoms_docOfAtoms (as : List Atom) : docAtoms (docOfAtoms as) = as := by
  induction as with
  | nil => simp [docOfAtoms, docAtoms]
  | cons a r ih => cases a <;> simp [docOfAtoms, docAtoms, ih]

/-- non-vacuity of `pipeline_correct`: texts = layouts, lexer = `itemsAtoms`, the formatter re-renders the atoms
    at the configured width with the model's renderer; the hypotheses hold by `render_tokens` -/
def toyPipeline : Pipeline (List Item) Atom Atom Nat (List Atom) where
  tokens x := tokensOf (itemsAtoms x)
  comments x := commentsOf (itemsAtoms x)
  parse ts := some ts
  norm ts := ts
  fmt w x := render w (.group (docOfAtoms (itemsAtoms x)))

theorem toyPipeline_hyps : toyPipeline.Hyps where
  tokensPreserved := by intro c x; simp [toyPipeline, render_tokens, docAtoms, docAtoms_docOfAtoms]
  commentsPreserved := by intro c x; simp [toyPipeline, render_tokens, docAtoms, docAtoms_docOfAtoms]
  normParse := by intro ts; rfl
  normIdem := by intro ts; rfl
  functionOfTokens := by
    intro c x y hx hy hxy
    simp only [toyPipeline] at hx hy hxy ⊢
    have key : ∀ as : List Atom, commentsOf as = [] → tokensOf as = as := by
      intro as h
      simp only [commentsOf, List.filter_eq_nil_iff] at h
      simp only [tokensOf, List.filter_eq_self]
      intro a ha; simp [h a ha]
    rw [key _ hx, key _ hy] at hxy
    rw [hxy]

example : FullStatement toyPipeline := pipeline_correct _ toyPipeline_hyps

example :
    let x : List Item := [.atom (.tok "a".toList), .sp, .sp, .nl 3, .atom (.tok "b".toList)]
    itemsToString (toyPipeline.fmt 80 x) = "a b " ∧ toyPipeline.fmt 80 (toyPipeline.fmt 80 x) = toyPipeline.fmt 80 x := by
  decide +kernel

end Cedar.C12
