import CedarVerif.Lemmas.PartialTable2
import CedarVerif.Lemmas.PartialSound6
import CedarVerif.Lemmas.PartialReauth
import CedarVerif.Lemmas.PartialFull
import CedarVerif.Lemmas.PartialBridge
import CedarVerif.Lemmas.PartialSubst5
import CedarVerif.Lemmas.PartialStore5
import CedarVerif.Lemmas.PartialStore6
import CedarVerif.Lemmas.PartialStore7
import CedarVerif.Lemmas.PartialStore8
import CedarVerif.Cedar.ExprBeq
/-
C13 — partial evaluation with unknowns is sound.  Property theorems only (helpers: Lemmas/Partial*.lean).
Model: Cedar/Partial.lean (`pinterp`, `PartialResponse`, `reauthorize`).
What is proved:
  * `table_sound` (full);
  * `pinterp_sound_partial` on `Frag` (reauthorize form; side condition `CallDRT` now discharged for EVERY extension
    function by `callDRT_every`; hypotheses `DRT`/`StoreDRT` follow from `Value.Canon` by `drt_of_canon`);
  * `pinterp_sound_subst` on `Frag2 σ` — the `evaluate ∘ substUnk` form of the statement, with unknown nodes in the
    expression, `.`/`has` directly on record constructors (projection arm of `get_attr`), every extension function;
    `pinterp_sound_partial2`: the reauthorize form on `Frag2 σ`;
  * `reauthorize_eq_fresh` (given policy-level agreement), `reauthorize_eq_fresh_frag` (on `Frag`),
    `reauthorize_eq_fresh_frag2` (on `Frag2 σ`, policies without unknown nodes in their text);
  * `pinterp_sound_store` / `pinterp_sound_store_reauth`: the two forms on `Frag2 σ` for a **partial store** `pes` completed by
    `es` under σ (`PS.StoreCompletes`: known attributes / tags equal, residual attribute / tag values — a direct `Unknown` or
    unknowns nested in a restricted expression — in the fragment and evaluating, substituted, to the concrete value;
    entities missing from a concrete-mode store absent; entities missing from a `.partial()` store bound to themselves
    through the uid-named unknown) and a **residual context** (`PS.CtxCompletes` in `PS.Concretizes2`).  The substitution form
    holds for direct and nested unknowns alike; the `reauthorize` form holds in ONE round when the second pass reads the
    substituted store `es`;
  * `pinterp_sound_store_reauth_direct`: … and in one round on the *unsubstituted* store exactly when every residual
    attribute is a direct `Unknown` and no tag is residual (`PS.DirectUnk`);
  * `second_round_needed`, `direct_unknown_one_round` (kernel-checked): on the *unsubstituted* store one round leaves a
    nested unknown (and a direct unknown *tag*) undiscovered, a second round resolves it; a direct unknown *attribute* is
    resolved in one round (`get_attr` passes exactly direct `Unknown`s through the mapper);
  * `missing_unbound_counterexample`: "absent from the completed store" does not replace the binding of the uid-named unknown;
  * `partial_definite_sound`, `partial_authorization_sound`: the property's statement for policy SETS — static and
    template-linked policies (any slot environments; no residual keeps a slot: `residualPoliciesPanic = false`) of the
    fragment, partial stores, residual contexts: a definite partial decision is the concrete decision, must ⊆ determining ⊆
    may, and `reauthorize σ` on the substituted store gives, in one round, decision and determining policies of the fresh
    concrete authorization — `table_sound` and `reauthorize_eq_fresh` with their soundness hypotheses discharged;
  * `pinterpSoundFull_needs_cover`: the kept full statement is false for a substitution that leaves a typed unknown
    undefined (typed-unknown short circuits) — it has to be read with σ defining every unknown.
`Frag` and `Frag2 σ` are formally incomparable only because `Frag2.record` asks for pairwise distinct keys (what the parser
and `Expr::record` guarantee; without it `get_attr`'s projection — first binding — and record evaluation — last binding —
differ in the model).
  * `pinterp_sound_store_on` / `pinterp_sound_store_reauth_on` / `partial_definite_sound_on` /
    `partial_authorization_sound_on`: the same four statements for **`.partial()` stores, relativised**: `PS.StoreCompletesOn U`
    asks the uid-named unknown of a missing entity to be bound only for uids of the finite list `U = PS.mentioned …` /
    `PS.mentionedPolicies …` (literal uids of the policies, known request entries, context, mapper values, slot environments,
    attribute / tag values of the partial store).  Closed-world invariant `PS.pinterp_in` (Lemmas/PartialStoreU.lean): every
    value and residual of the first pass mentions only uids of `U`, threaded through `PS.pinterp_sound3_on` /
    `PS.papplyBinary_sound3_on`; the unrelativised theorems are the instance `U` = everything.  Non-vacuity: an `example`
    with a `.partial()` store lacking the dereferenced `resource.owner` entity, where `PS.StoreCompletes` is FALSE and
    `PS.StoreCompletesOn` holds.
  * `partial_authorization_sound_direct` (+ `reauthorize_eq_fresh_on`): the one-round statement on the **unsubstituted** store
    lifted to policy sets — under `PS.DirectUnk pes` and the hypotheses of `partial_authorization_sound` (without `StoreCanon`),
    `reauthorize σ pes`, on the store the caller still holds, gives in one round decision and determining policies of the fresh
    concrete authorization.  `PolicyAgreesOn pes2` / `reauthorize_core_on pes2` generalise `PolicyAgrees` / `reauthorize_core`
    over the second-pass store (old names = instances at `.ofConcrete es`);
  * `concretize_request_sound`: `concretize_request σ = ok (concrete req)` (the model's do-block) implies `PS.Concretizes2 σ es
    preq req` — side condition: a residual context lies in the fragment (`PS.CtxFrag`); `partial_authorization_sound_req` /
    `partial_authorization_sound_direct_req`: the authorizer-level theorems with `concretize_request = ok` as the ONLY request
    hypothesis;
  * `unknown_call_counterexample` (kernel-checked): for policies calling `unknown("x")` the soundness statement is false in both
    forms (the call becomes an unknown node in the first pass, is an error concretely, and is not touched by
    `Expr::substitute`), so `fn ≠ "unknown"` in `Frag2.call` cannot be dropped; `UnknownCallSoundFull` (kept, not proved): the
    statement relative to the desugaring `PS.desugarUnk`; `unknown_call_sound_partial`: proved for the call itself.
Still missing w.r.t. `PinterpSoundFull`:
  * `U` over-approximates the dereferenced uids (a mentioned uid that is never dereferenced must still be present or bound);
  * `StoreCompletes` is stated through `evaluate ∘ substUnk` of a residual attribute, not through `RestrictedEvaluator`
    (`rinterp`); for the request this link is now proved (`concretize_request_sound`), for attribute values of the store it is
    not (the Rust API takes the substituted store as an input, there is no `Entities::substitute` to mirror);
  * `UnknownCallSoundFull`: the congruence "first pass of `e` = first pass of `desugarUnk e` up to desugaring of residuals"
    through all arms of `partial_interpret`; calls `unknown(e)` with a computed name have no static desugaring at all.
-/
namespace Cedar.C13
open Cedar

/-- **table_sound** (full, combinatorial).  For every completion `out` of the policies to final outcomes that is
consistent with what partial evaluation established (satisfied / false / errored stay so, residuals arbitrary):
a definite partial decision is the concrete decision; `must ⊆ determining ⊆ may`; the definite buckets keep
their outcome.  Holds for arbitrary policy lists, partial requests, stores and mappers. -/
theorem table_sound (m : Mapper) (req : PRequest) (es : PEntities) (ps : List Policy) (out : Policy → Outcome)
    (hc : ∀ p, p ∈ ps → Consistent (partialEvaluate m req es p) (out p)) :
    let pr := isAuthorizedCore m req es ps
    (∀ d, pr.decision = some d → concreteDecision ps out = d) ∧
    (∀ id, id ∈ pr.mustBeDetermining → id ∈ determining ps out) ∧
    (∀ id, id ∈ determining ps out → id ∈ pr.mayBeDetermining) ∧
    (∀ id, id ∈ pr.definitelySatisfied → ∃ p, p ∈ ps ∧ p.id = id ∧ out p = .sat) ∧
    (∀ id, id ∈ pr.definitelyErrored → ∃ p, p ∈ ps ∧ p.id = id ∧ out p = .err) ∧
    (∀ id, id ∈ pr.definitelyFalse → ∃ p, p ∈ ps ∧ p.id = id ∧ out p = .unsat) := by
  intro pr
  obtain ⟨h1, h2, h3⟩ := table_sound_core m req es ps out hc
  obtain ⟨h4, h5, h6⟩ := definite_sound_core m req es ps out hc
  exact ⟨h1, h2, h3, h4, h5, h6⟩

/-- non-vacuity of `table_sound`: unknown principal; a satisfied permit, a residual permit, an errored forbid.
    The partial decision is `allow`, must = {p1}, may = {p1, p2}. -/
example :
    let req : PRequest := ⟨.unknown (some "U"), .known ⟨"A", "x"⟩, .known ⟨"R", "r"⟩, some (.value [])⟩
    let es : PEntities := ⟨[], false⟩
    let p1 : Policy := ⟨"p1", .permit, .lit (.bool true), []⟩
    let p2 : Policy := ⟨"p2", .permit, .binaryApp .eq (.var .principal) (.lit (.entityUID ⟨"U", "a"⟩)), []⟩
    let p3 : Policy := ⟨"p3", .forbid, .getAttr (.var .context) "nosuch", []⟩
    let pr := isAuthorizedCore [] req es [p1, p2, p3]
    pr.decision = some .allow ∧ pr.mustBeDetermining = ["p1"] ∧ pr.mayBeDetermining = ["p1", "p2"] ∧
    pr.definitelyErrored = ["p3"] := by
  decide +kernel


/-- **Full statement of `pinterp_sound`** (DESIGN.md §6 C13), kept visible; NOT proved in full.
For every substitution σ respecting the type annotations, every concretisation of the request and every
completion of the store: substituting σ into what partial interpretation returned evaluates like the substituted
original expression (equal values modulo `Value.beq`, or both errors), and a definite error of partial
interpretation means the concrete evaluation errors.  All expression forms, residual contexts, unknown attribute
values and `.partial()` stores are included. -/
def PinterpSoundFull : Prop :=
  ∀ (σ : Mapper) (preq : PRequest) (pes : PEntities) (req : Request) (es : Entities) (env : SlotEnv) (e : Expr) (n : Nat),
    ConcretizesFull σ preq req → StoreCompletes σ pes es →
    RespectsTypes σ (e.unknowns ++ preq.unknowns ++ pes.unknowns) →
    match pinterp [] preq pes env n e with
    | .val v => ResultAgree (evaluate req es env (v.toExpr.substUnk σ)) (evaluate req es env (e.substUnk σ))
    | .res r => ResultAgree (evaluate req es env (r.substUnk σ)) (evaluate req es env (e.substUnk σ))
    | .err _ => ∃ c, evaluate req es env (e.substUnk σ) = .error c
    | .fuel => True
    | .panic => True

/-- **the full statement needs a covering substitution** (observation about the *statement*, not about the code):
`PinterpSoundFull` as written only asks σ to respect the annotations of the unknowns it defines.  The typed-unknown short
circuits (`unknown(x: A) == B::"b"` is `false`, `… is A` is `true`) answer for every later value of the declared type,
whereas evaluating the substituted expression with `x` still unknown is an error; so for σ = ∅ the statement fails.
`pinterp_sound_subst` therefore requires σ to define every unknown node (`UnkOK` in `Frag2.unknown`) — the same
reading as "for every substitution *of the unknowns*" in DESIGN.md. -/
theorem pinterpSoundFull_needs_cover : ¬ PinterpSoundFull := by
  intro h
  let preq : PRequest := ⟨.known ⟨"U", "a"⟩, .known ⟨"A", "x"⟩, .known ⟨"R", "r"⟩, some (.value [])⟩
  let req : Request := ⟨⟨"U", "a"⟩, ⟨"A", "x"⟩, ⟨"R", "r"⟩, []⟩
  let e : Expr := .binaryApp .eq (.unknown "x" (some (.entity "A"))) (.lit (.entityUID ⟨"B", "b"⟩))
  have hC : ConcretizesFull [] preq req := ⟨rfl, rfl, rfl, rfl⟩
  have hS : StoreCompletes [] ⟨[], false⟩ [] := by intro u; rfl
  have hR : RespectsTypes [] (e.unknowns ++ preq.unknowns ++ (⟨[], false⟩ : PEntities).unknowns) := by
    intro n t v _ hl; simp [lookupKV] at hl
  have := h [] preq ⟨[], false⟩ req [] [] e 3 hC hS hR
  have hx : pinterp [] preq ⟨[], false⟩ [] 3 e = .val (.prim (.bool false)) := rfl
  rw [hx] at this
  rcases this with ⟨v, w, _, h2, _⟩ | ⟨c, c', h1, _⟩
  · simp [e, Expr.substUnk, lookupKV, evaluate] at h2
  · simp [Value.toExpr, Expr.substUnk, evaluate] at h1

/-- **pinterp_sound_partial**: `PinterpSoundFull` restricted to the fragment `Frag` (literals, `principal`/
`action`/`resource`/`context` incl. unknown — typed or untyped — principal/action/resource and a missing
context, slots, `&&`, `||`, `if`, every unary operator, all twelve binary operators — the nine store-free ones incl.
the typed-unknown `==` short circuits, and `in` / `getTag` / `hasTag` on the complete store —, `.`/`has` on records
and entities (not applied directly to a record constructor or an `if` with such a branch: `NR`), `like`, `is` incl.
its typed-unknown short circuit, set and record constructors and extension-function calls with the `split` semantics:
all components values ⇒ a value (canonical set / key-sorted record, which round-trips), otherwise a residual set /
record / call with the values converted back to expressions; calls for functions satisfying `CallDRT` — proved for the comparison, predicate and conversion
functions in `callDRT_decimalCmp`, `callDRT_unaryPrim`, `callDRT_isInRange`; for the constructors it is the print/parse
round trip of the canonical rendering), a concrete store, and context/attribute/tag values that survive `Value.toExpr`
(`DRT`; trivial for primitives).  The residual is evaluated the way `reauthorize` does it (same interpreter, mapper σ, concretised
request); `Sem` = equal values, or both errors (error classes may differ).  Proved by induction on the
fragment, for every first-pass mapper, partial request and fuel.
Missing w.r.t. the full statement: `.`/`has` applied directly to a record constructor (the residual is a record
literal, which `get_attr` projects into and re-interprets), `CallDRT` for the extension constructors, unknowns in the
policy text, residual contexts, unknown attribute values, `.partial()` stores, and the `subst`-form. -/
theorem pinterp_sound_partial (σ : Mapper) (req : Request) (es : Entities) (env : SlotEnv)
    (hctx : (Value.record req.context).DRT) (hstore : StoreDRT es) {e : Expr} (hf : Frag e)
    (m0 : Mapper) (preq : PRequest) (n : Nat) (hC : Concretizes σ preq req) :
    match pinterp m0 preq (.ofConcrete es) env n e with
    | .val v => evaluate req es env e = .ok v
    | .err _ => ∃ c, evaluate req es env e = .error c
    | .res r => ∀ n', Sem (pinterp σ (.ofConcrete req) (.ofConcrete es) env n' r) (evaluate req es env e)
    | .fuel => True
    | .panic => True := by
  have h := pinterp_sound_frag σ req es env hctx hstore hf m0 preq n hC
  cases hx : pinterp m0 preq (.ofConcrete es) env n e with
  | val v => rw [hx] at h; exact h.1
  | err c => rw [hx] at h; exact h
  | res r => rw [hx] at h; exact h.2.2
  | fuel => trivial
  | panic => trivial

/-- non-vacuity of `pinterp_sound_partial`: `principal == U::"a" && !(context has x)` with a typed unknown
    principal leaves a residual; the hypotheses are satisfiable and the conclusion is about that residual. -/
example :
    let σ : Mapper := [("principal", .prim (.entityUID ⟨"U", "a"⟩))]
    let req : Request := ⟨⟨"U", "a"⟩, ⟨"A", "x"⟩, ⟨"R", "r"⟩, []⟩
    let preq : PRequest := ⟨.unknown (some "U"), .known ⟨"A", "x"⟩, .known ⟨"R", "r"⟩, some (.value [])⟩
    let e : Expr := .and (.binaryApp .eq (.var .principal) (.lit (.entityUID ⟨"U", "a"⟩)))
                         (.unaryApp .not (.hasAttr (.var .context) "x"))
    (∃ r, pinterp [] preq (.ofConcrete []) [] 10 e = .res r) ∧
    ∀ n', Sem (pinterp σ (.ofConcrete req) (.ofConcrete []) [] n'
        (.and (.binaryApp .eq (.unknown "principal" (some (.entity "U"))) (.lit (.entityUID ⟨"U", "a"⟩))) (.lit (.bool true))))
      (evaluate req [] [] e) := by
  intro σ req preq e
  have hf : Frag e := .and (.binaryApp .eq (.var _) (.lit _)) (.unaryApp .not (.hasAttr "x" trivial (.var _)))
  have hC : Concretizes σ preq req := ⟨⟨rfl, rfl⟩, rfl, rfl, rfl⟩
  have hctx : (Value.record req.context).DRT := ⟨RT_emptyRecord, trivial⟩
  have hst : StoreDRT [] := by intro u d h; cases h
  have h := pinterp_sound_partial σ req [] [] hctx hst hf [] preq 10 hC
  exact ⟨⟨_, rfl⟩, h⟩

/-- non-vacuity for the constructors and the store-dependent operators: `[principal, User::"b"].contains(resource.owner)
    && context.d.lessThan(context.lim) && principal in Group::"g"` with an unknown principal is in the fragment and leaves
    a residual containing a residual set and a residual `in`. -/
example :
    let e : Expr := .and (.binaryApp .contains (.set [.var .principal, .lit (.entityUID ⟨"User", "b"⟩)]) (.getAttr (.var .resource) "owner"))
                     (.and (.call "lessThan" [.getAttr (.var .context) "d", .getAttr (.var .context) "lim"])
                           (.binaryApp .mem (.var .principal) (.lit (.entityUID ⟨"Group", "g"⟩))))
    let preq : PRequest := ⟨.unknown (some "User"), .known ⟨"A", "x"⟩, .known ⟨"R", "r"⟩,
      some (.value [("d", .ext (.decimal 10000)), ("lim", .ext (.decimal 20000))])⟩
    Frag e ∧ ∃ r, pinterp [] preq (.ofConcrete [(⟨"R", "r"⟩, ⟨[("owner", .prim (.entityUID ⟨"User", "b"⟩))], [], []⟩)]) [] 10 e = .res r := by
  intro e preq
  refine ⟨?_, _, rfl⟩
  refine .and (.binaryApp .contains (.set ?_) (.getAttr "owner" trivial (.var _)))
    (.and (.call "lessThan" (by decide) (callDRT_decimalCmp _ (Or.inl rfl)) ?_) (.binaryApp .mem (.var _) (.lit _)))
  · intro x hx
    simp only [List.mem_cons, List.not_mem_nil, or_false] at hx
    rcases hx with rfl | rfl
    · exact .var _
    · exact .lit _
  · intro x hx
    simp only [List.mem_cons, List.not_mem_nil, or_false] at hx
    rcases hx with rfl | rfl
    · exact .getAttr "d" trivial (.var _)
    · exact .getAttr "lim" trivial (.var _)

/-- … and for record constructors: `{a: principal, b: 1} == context.r` with an unknown principal leaves the residual
    `{a: unknown(principal), b: 1} == {a: User::"u", b: 1}` (the record value converted back by `Value.toExpr`). -/
example :
    let e : Expr := .binaryApp .eq (.record [("a", .var .principal), ("b", .lit (.int 1))]) (.getAttr (.var .context) "r")
    let preq : PRequest := ⟨.unknown (some "User"), .known ⟨"A", "x"⟩, .known ⟨"R", "r"⟩,
      some (.value [("r", .record [("a", .prim (.entityUID ⟨"User", "u"⟩)), ("b", .prim (.int 1))])])⟩
    Frag e ∧ pinterp [] preq (.ofConcrete []) [] 10 e =
      .res (.binaryApp .eq (.record [("a", .unknown "principal" (some (.entity "User"))), ("b", .lit (.int 1))])
                           (.record [("a", .lit (.entityUID ⟨"User", "u"⟩)), ("b", .lit (.int 1))])) := by
  intro e preq
  refine ⟨.binaryApp .eq (.record ?_) (.getAttr "r" trivial (.var _)), rfl⟩
  intro kv hkv
  simp only [List.mem_cons, List.not_mem_nil, or_false] at hkv
  rcases hkv with rfl | rfl
  · exact .var _
  · exact .lit _

/-- **reauthorize_eq_fresh** (given soundness of the residuals at policy level).  If the substitution concretises
the partial request to `req'`, no residual kept a template slot (otherwise `reauthorize` panics — the recorded
finding), and every policy's residual policy — re-evaluated with the mapper σ on the concretised request and
store, exactly as `reauthorize` does — is satisfied iff the policy is satisfied concretely (`PolicyAgrees`, the
policy-level consequence of `pinterp_sound`), then `reauthorize` succeeds and yields the decision and the
determining policies of the fresh concrete authorization `isAuthorized req' es' ps`. -/
theorem reauthorize_eq_fresh (σ : Mapper) (preq : PRequest) (pes : PEntities) (ps : List Policy)
    (req' : Request) (es' : Entities)
    (hreq : (isAuthorizedCore [] preq pes ps).concretizeRequest σ = .ok (.ofConcrete req'))
    (hslot : (isAuthorizedCore [] preq pes ps).residualPoliciesPanic = false)
    (hsound : ∀ p, p ∈ ps → PolicyAgrees σ preq pes req' es' p) :
    ∃ pr2, (isAuthorizedCore [] preq pes ps).reauthorize σ (.ofConcrete es') = .ok pr2 ∧
      pr2.decision = some (isAuthorized req' es' ps).decision ∧
      pr2.concretize.decision = (isAuthorized req' es' ps).decision ∧
      (∀ id, id ∈ pr2.concretize.reasons ↔ id ∈ (isAuthorized req' es' ps).reasons) :=
  reauthorize_core σ preq pes ps req' es' hreq hslot hsound

/-- non-vacuity of `reauthorize_eq_fresh`: unknown typed principal, one residual permit, one unsatisfied forbid
    guarded by the context; all hypotheses hold for the substitution principal ↦ U::"a". -/
example :
    let σ : Mapper := [("principal", .prim (.entityUID ⟨"U", "a"⟩))]
    let req' : Request := ⟨⟨"U", "a"⟩, ⟨"A", "x"⟩, ⟨"R", "r"⟩, []⟩
    let preq : PRequest := ⟨.unknown (some "U"), .known ⟨"A", "x"⟩, .known ⟨"R", "r"⟩, some (.value [])⟩
    let p1 : Policy := ⟨"p1", .permit, .unaryApp .not (.hasAttr (.var .principal) "blocked"), []⟩
    let p2 : Policy := ⟨"p2", .forbid, .hasAttr (.var .context) "x", []⟩
    (isAuthorizedCore [] preq ⟨[], false⟩ [p1, p2]).concretizeRequest σ = .ok (.ofConcrete req') ∧
    (isAuthorizedCore [] preq ⟨[], false⟩ [p1, p2]).residualPoliciesPanic = false ∧
    PolicyAgrees σ preq ⟨[], false⟩ req' [] p1 ∧ PolicyAgrees σ preq ⟨[], false⟩ req' [] p2 ∧
    (isAuthorizedCore [] preq ⟨[], false⟩ [p1, p2]).decision = none ∧
    (isAuthorized req' [] [p1, p2]).decision = .allow := by
  intro σ req' preq p1 p2
  refine ⟨rfl, rfl, ⟨_, rfl, ?_⟩, ⟨_, rfl, ?_⟩, rfl, ?_⟩
  · show p1.outcome req' [] = .sat
    rfl
  · show p2.outcome req' [] ≠ .sat
    decide
  · rfl


/-- **reauthorize_eq_fresh_frag**: the two results composed, without a soundness hypothesis.  For static policies
whose conditions lie in the fragment of `pinterp_sound_partial`, a concrete store and a substitution σ that
concretises the partial request: `reauthorize σ` returns the decision and determining policies of the fresh
concrete authorization.  (`hfuel*`: neither pass exhausts the model's recursion budget — an outcome the driver
reports explicitly and that never occurred; `hslot`: see the recorded finding.) -/
theorem reauthorize_eq_fresh_frag (σ : Mapper) (req : Request) (es : Entities) (preq : PRequest) (ps : List Policy)
    (hctx : (Value.record req.context).DRT) (hstore : StoreDRT es) (hC : Concretizes σ preq req)
    (hfrag : ∀ p, p ∈ ps → p.env = [] ∧ Frag p.condition)
    (hreq : (isAuthorizedCore [] preq (.ofConcrete es) ps).concretizeRequest σ = .ok (.ofConcrete req))
    (hslot : (isAuthorizedCore [] preq (.ofConcrete es) ps).residualPoliciesPanic = false)
    (hfuel1 : ∀ p, p ∈ ps → partialEvaluate [] preq (.ofConcrete es) p ≠ .stuck)
    (hfuel2 : ∀ p, p ∈ ps → ∀ q, residualPolicy (partialEvaluate [] preq (.ofConcrete es) p) p = some q →
      partialEvaluate σ (.ofConcrete req) (.ofConcrete es) q ≠ .stuck) :
    ∃ pr2, (isAuthorizedCore [] preq (.ofConcrete es) ps).reauthorize σ (.ofConcrete es) = .ok pr2 ∧
      pr2.decision = some (isAuthorized req es ps).decision ∧
      pr2.concretize.decision = (isAuthorized req es ps).decision ∧
      (∀ id, id ∈ pr2.concretize.reasons ↔ id ∈ (isAuthorized req es ps).reasons) :=
  reauthorize_core σ preq (.ofConcrete es) ps req es hreq hslot
    (fun p hp => policyAgrees_of_frag σ req es hctx hstore preq hC p (hfrag p hp).1 (hfrag p hp).2 (hfuel2 p hp) (hfuel1 p hp))

/-! ### the larger fragment `Frag2 σ` and the substitution form -/

/-- **callDRT_every**: the side condition `CallDRT` of `Frag.call` holds for *every* extension function — constructors
(`decimal`, `ip`, `datetime`, `duration`), `offset`, `durationSince`, `toDate`, `toTime` included: what they return lies in
the value range of the Rust types (i64 payloads, u32/u128 addresses with prefix ≤ 32/128 — proved from the parsers and
the checked arithmetic), and on that range the canonical constructor call `Ext.toExpr` parses back to the value (decimal,
duration, datetime, IPv4: the renderings coincide with the JSON canonical renderings of C10 and `extRoundTrip_*`'s
parse lemmas are reused; IPv6: the model renders the eight groups uncompressed, so IPv4-mapped addresses round-trip too). -/
theorem callDRT_every (fn : String) : CallDRT fn := callDRT_all fn

/-- values as Rust holds them (`Value.Canon`: canonical sets, key-sorted records, extension payloads in range) satisfy
the round-trip hypotheses `DRT` / `StoreDRT` of `pinterp_sound_partial`. -/
theorem drt_of_canon (v : Value) (h : v.Canon) : v.DRT := DRT_of_canon v h

example : CallDRT "ip" ∧ (Value.ext (.ipaddr true 0xffff01020304 128)).DRT ∧ (Value.ext (.decimal (-15000))).DRT :=
  ⟨callDRT_every _, drt_of_canon _ (show _ ∧ _ from ⟨by decide, by decide⟩), drt_of_canon _ (show inI64 (-15000) = true by decide)⟩

/-- **pinterp_sound_subst** — `PinterpSoundFull` (the `evaluate ∘ substUnk` form) on the fragment `Frag2 σ`, a concrete
store and a value-or-missing context.  `Frag2 σ`: every expression form — literals, variables, slots, **unknown nodes**
(σ must define them, with a canonical value of the annotated type), `&&`, `||`, `if`, all unary and binary operators,
`.`/`has` on anything (**including record constructors**: `get_attr`'s projection arm, which re-interprets a component of
the residual record, and the non-projectable arm), `like`, `is`, sets, records with pairwise distinct keys, **every
extension function** except the `unknown` function itself.  Hypotheses: the first-pass mapper is part of σ (`MapLE`; `[]`
in `is_authorized_core`), σ concretises the request, context / attribute / tag values are values as Rust holds them
(`Value.Canon`).  Conclusion: a value is the value of the substituted expression (and converting it back evaluates to
it); an error means the substituted expression errors; a residual, substituted, evaluates like the substituted
expression (equal values — strict equality, stronger than `Value.beq` — or both errors).
Proved by induction on the recursion budget (the re-interpreted record component is not a subterm). -/
theorem pinterp_sound_subst (σ : Mapper) (req : Request) (es : Entities) (env : SlotEnv)
    (hctx : (Value.record req.context).Canon) (hstore : PS.StoreCanon es) {e : Expr} (hf : PS.Frag2 σ e)
    (m0 : Mapper) (preq : PRequest) (n : Nat) (hm : PS.MapLE m0 σ) (hC : Concretizes σ preq req) :
    match pinterp m0 preq (.ofConcrete es) env n e with
    | .val v => evaluate req es env (v.toExpr.substUnk σ) = .ok v ∧ evaluate req es env (e.substUnk σ) = .ok v
    | .err _ => ∃ c, evaluate req es env (e.substUnk σ) = .error c
    | .res r => PS.Agree (evaluate req es env (r.substUnk σ)) (evaluate req es env (e.substUnk σ))
    | .fuel => True
    | .panic => True := by
  have h := PS.pinterp_sound2 σ req es env hctx hstore m0 preq hm hC n e hf
  cases hx : pinterp m0 preq (.ofConcrete es) env n e with
  | val v => rw [hx] at h; exact ⟨PS.Y_toExpr σ req es env h.2, h.1⟩
  | err c => rw [hx] at h; exact h
  | res r => rw [hx] at h; exact h.1
  | fuel => trivial
  | panic => trivial

/-- **pinterp_sound_partial2** — the `reauthorize` form on `Frag2 σ`: the residual, re-interpreted the way `reauthorize`
does it (same interpreter, mapper σ, concretised request and store), agrees with the concrete evaluation of the
substituted expression.  Obtained from `pinterp_sound_subst` and the bridge "with a mapper that defines every unknown,
partial interpretation on a concrete request and store leaves no residual and computes `evaluate ∘ substUnk σ`". -/
theorem pinterp_sound_partial2 (σ : Mapper) (req : Request) (es : Entities) (env : SlotEnv)
    (hctx : (Value.record req.context).Canon) (hstore : PS.StoreCanon es) {e : Expr} (hf : PS.Frag2 σ e)
    (m0 : Mapper) (preq : PRequest) (n : Nat) (hm : PS.MapLE m0 σ) (hC : Concretizes σ preq req) :
    match pinterp m0 preq (.ofConcrete es) env n e with
    | .val v => evaluate req es env (e.substUnk σ) = .ok v
    | .err _ => ∃ c, evaluate req es env (e.substUnk σ) = .error c
    | .res r => ∀ n', Sem (pinterp σ (.ofConcrete req) (.ofConcrete es) env n' r) (evaluate req es env (e.substUnk σ))
    | .fuel => True
    | .panic => True := by
  have h := PS.pinterp_sound2 σ req es env hctx hstore m0 preq hm hC n e hf
  cases hx : pinterp m0 preq (.ofConcrete es) env n e with
  | val v => rw [hx] at h; exact h.1
  | err c => rw [hx] at h; exact h
  | res r => rw [hx] at h; exact fun n' => PS.sem_of_agree (PS.bridge σ req es env hctx hstore h.2.2 n') h.1
  | fuel => trivial
  | panic => trivial

/-- non-vacuity (a): `!({a: principal, b: 1}.a in Group::"g")` with a typed unknown principal — the record constructor
    leaves a projectable residual record, `get_attr` projects into it and re-interprets the component; the residual is
    `!(unknown(principal) in Group::"g")`. -/
example :
    let σ : Mapper := [("principal", .prim (.entityUID ⟨"User", "u"⟩))]
    let req : Request := ⟨⟨"User", "u"⟩, ⟨"A", "x"⟩, ⟨"R", "r"⟩, []⟩
    let preq : PRequest := ⟨.unknown (some "User"), .known ⟨"A", "x"⟩, .known ⟨"R", "r"⟩, some (.value [])⟩
    let e : Expr := .unaryApp .not (.binaryApp .mem (.getAttr (.record [("a", .var .principal), ("b", .lit (.int 1))]) "a")
                      (.lit (.entityUID ⟨"Group", "g"⟩)))
    let r : Expr := .unaryApp .not (.binaryApp .mem (.unknown "principal" (some (.entity "User"))) (.lit (.entityUID ⟨"Group", "g"⟩)))
    pinterp [] preq (.ofConcrete []) [] 10 e = .res r ∧
    PS.Agree (evaluate req [] [] (r.substUnk σ)) (evaluate req [] [] (e.substUnk σ)) ∧
    (⟨"q", .permit, e.substUnk σ, []⟩ : Policy).outcome req [] = .sat := by
  intro σ req preq e r
  have hf : PS.Frag2 σ e := by
    refine .unaryApp .not (.binaryApp .mem (.getAttr "a" (.record (by decide) ?_)) (.lit _))
    intro kv hkv
    simp only [List.mem_cons, List.not_mem_nil, or_false] at hkv
    rcases hkv with rfl | rfl
    · exact .var _
    · exact .lit _
  have hC : Concretizes σ preq req := ⟨⟨rfl, rfl⟩, rfl, rfl, rfl⟩
  have hctx : (Value.record req.context).Canon := ⟨trivial, trivial⟩
  have hst : PS.StoreCanon [] := by intro u d h; cases h
  have hx : pinterp [] preq (.ofConcrete []) [] 10 e = .res r := rfl
  have h := pinterp_sound_subst σ req [] [] hctx hst hf [] preq 10 (PS.MapLE.nil σ) hC
  rw [hx] at h
  exact ⟨hx, h, by decide +kernel⟩

/-- non-vacuity (b), (c): an unknown node in the expression and a constructor call — `unknown(x: long) < 5 &&
    context.lim.lessThan(decimal("1.5"))` with a missing context; σ maps `x` and `context`. -/
example :
    let σ : Mapper := [("x", .prim (.int 3)), ("context", .record [("lim", .ext (.decimal 10000))])]
    let req : Request := ⟨⟨"User", "u"⟩, ⟨"A", "x"⟩, ⟨"R", "r"⟩, [("lim", .ext (.decimal 10000))]⟩
    let preq : PRequest := ⟨.known ⟨"User", "u"⟩, .known ⟨"A", "x"⟩, .known ⟨"R", "r"⟩, none⟩
    let e : Expr := .and (.binaryApp .less (.unknown "x" (some .long)) (.lit (.int 5)))
                      (.call "lessThan" [.getAttr (.var .context) "lim", .call "decimal" [.lit (.string "1.5")]])
    PS.Frag2 σ e ∧ Concretizes σ preq req ∧ (∃ r, pinterp [] preq (.ofConcrete []) [] 10 e = .res r) ∧
    (⟨"q", .permit, e.substUnk σ, []⟩ : Policy).outcome req [] = .sat := by
  intro σ req preq e
  refine ⟨?_, ⟨rfl, rfl, rfl, rfl⟩, ⟨_, rfl⟩, by decide +kernel⟩
  refine .and (.binaryApp .less (.unknown "x" _ ⟨_, rfl, trivial, ?_⟩) (.lit _)) (.call "lessThan" (by decide) ?_)
  · intro t ht; cases ht; rfl
  · intro x hx
    simp only [List.mem_cons, List.not_mem_nil, or_false] at hx
    rcases hx with rfl | rfl
    · exact .getAttr "lim" (.var _)
    · refine .call "decimal" (by decide) ?_
      intro y hy
      simp only [List.mem_cons, List.not_mem_nil, or_false] at hy
      subst hy; exact .lit _

/-- **reauthorize_eq_fresh_frag2**: `reauthorize_eq_fresh` without a soundness hypothesis on the larger fragment: static
policies without unknown nodes in their text (what the parser produces; `unknown("x")` *calls* are excluded from `Frag2`)
whose conditions lie in `Frag2 σ`, a concrete store and a request with canonical values, σ concretising the partial
request: `reauthorize σ` returns the decision and determining policies of the fresh concrete authorization. -/
theorem reauthorize_eq_fresh_frag2 (σ : Mapper) (req : Request) (es : Entities) (preq : PRequest) (ps : List Policy)
    (hctx : (Value.record req.context).Canon) (hstore : PS.StoreCanon es) (hC : Concretizes σ preq req)
    (hfrag : ∀ p, p ∈ ps → p.env = [] ∧ PS.Frag2 σ p.condition ∧ p.condition.unknowns = [])
    (hreq : (isAuthorizedCore [] preq (.ofConcrete es) ps).concretizeRequest σ = .ok (.ofConcrete req))
    (hslot : (isAuthorizedCore [] preq (.ofConcrete es) ps).residualPoliciesPanic = false)
    (hfuel1 : ∀ p, p ∈ ps → partialEvaluate [] preq (.ofConcrete es) p ≠ .stuck)
    (hfuel2 : ∀ p, p ∈ ps → ∀ q, residualPolicy (partialEvaluate [] preq (.ofConcrete es) p) p = some q →
      partialEvaluate σ (.ofConcrete req) (.ofConcrete es) q ≠ .stuck) :
    ∃ pr2, (isAuthorizedCore [] preq (.ofConcrete es) ps).reauthorize σ (.ofConcrete es) = .ok pr2 ∧
      pr2.decision = some (isAuthorized req es ps).decision ∧
      pr2.concretize.decision = (isAuthorized req es ps).decision ∧
      (∀ id, id ∈ pr2.concretize.reasons ↔ id ∈ (isAuthorized req es ps).reasons) :=
  reauthorize_core σ preq (.ofConcrete es) ps req es hreq hslot
    (fun p hp => PS.policyAgrees_of_frag2 σ req es hctx hstore preq hC p (hfrag p hp).1 (hfrag p hp).2.1
      (PS.substUnk_of_noUnk σ _ (hfrag p hp).2.2) (hfuel2 p hp) (hfuel1 p hp))

/-- non-vacuity of `reauthorize_eq_fresh_frag2`: a permit whose condition projects out of a record constructor holding
    the unknown principal; all hypotheses hold and the residual re-evaluates. -/
example :
    let σ : Mapper := [("principal", .prim (.entityUID ⟨"User", "u"⟩))]
    let req : Request := ⟨⟨"User", "u"⟩, ⟨"A", "x"⟩, ⟨"R", "r"⟩, []⟩
    let preq : PRequest := ⟨.unknown (some "User"), .known ⟨"A", "x"⟩, .known ⟨"R", "r"⟩, some (.value [])⟩
    let p1 : Policy := ⟨"p1", .permit, .unaryApp .not (.binaryApp .mem (.getAttr (.record [("a", .var .principal), ("b", .lit (.int 1))]) "a")
                      (.lit (.entityUID ⟨"Group", "g"⟩))), []⟩
    (isAuthorizedCore [] preq (.ofConcrete []) [p1]).decision = none ∧
    ∃ pr2, (isAuthorizedCore [] preq (.ofConcrete []) [p1]).reauthorize σ (.ofConcrete []) = .ok pr2 ∧
      pr2.decision = some (isAuthorized req [] [p1]).decision ∧ (isAuthorized req [] [p1]).decision = .allow := by
  intro σ req preq p1
  have hf : PS.Frag2 σ p1.condition := by
    refine .unaryApp .not (.binaryApp .mem (.getAttr "a" (.record (by decide) ?_)) (.lit _))
    intro kv hkv
    simp only [List.mem_cons, List.not_mem_nil, or_false] at hkv
    rcases hkv with rfl | rfl
    · exact .var _
    · exact .lit _
  have hC : Concretizes σ preq req := ⟨⟨rfl, rfl⟩, rfl, rfl, rfl⟩
  have hctx : (Value.record req.context).Canon := ⟨trivial, trivial⟩
  have hst : PS.StoreCanon [] := by intro u d h; cases h
  obtain ⟨pr2, h1, h2, _, _⟩ := reauthorize_eq_fresh_frag2 σ req [] preq [p1] hctx hst hC
    (by intro p hp; simp only [List.mem_cons, List.not_mem_nil, or_false] at hp; subst hp; exact ⟨rfl, hf, rfl⟩)
    rfl rfl
    (by intro p hp; simp only [List.mem_cons, List.not_mem_nil, or_false] at hp; subst hp
        have h0 : partialEvaluate [] preq (.ofConcrete []) p1 = .residual (.unaryApp .not (.binaryApp .mem (.unknown "principal" (some (.entity "User"))) (.lit (.entityUID ⟨"Group", "g"⟩)))) := rfl
        rw [h0]; intro h; cases h)
    (by intro p hp q hq; simp only [List.mem_cons, List.not_mem_nil, or_false] at hp; subst hp
        have h0 : residualPolicy (partialEvaluate [] preq (.ofConcrete []) p1) p1 = some ⟨"p1", .permit, residualCondition (.unaryApp .not (.binaryApp .mem (.unknown "principal" (some (.entity "User"))) (.lit (.entityUID ⟨"Group", "g"⟩)))), []⟩ := rfl
        rw [h0] at hq; cases hq
        have h1 : partialEvaluate σ (.ofConcrete req) (.ofConcrete []) ⟨"p1", .permit, residualCondition (.unaryApp .not (.binaryApp .mem (.unknown "principal" (some (.entity "User"))) (.lit (.entityUID ⟨"Group", "g"⟩)))), []⟩ = .sat := rfl
        rw [h1]; intro h; cases h)
  exact ⟨rfl, pr2, h1, h2, by decide +kernel⟩


/-! ### partial stores, residual contexts, unknown attribute / tag values, template-linked policies -/

/-- **pinterp_sound_store** — `pinterp_sound_subst` for a *partial* store `pes` and a possibly *residual* context.
`PS.StoreCompletes σ pes es`: the concrete store `es` completes `pes` under σ (known attributes / tags equal; a residual
attribute or tag value — a direct `Unknown` or a restricted expression with unknowns nested in it — lies in `Frag2 σ` and its
substitution evaluates to the concrete value; ancestors equal; an entity missing from a concrete-mode store is absent;
an entity missing from a `.partial()` store is bound by σ to itself through the unknown named by its uid, `PS.Bound`).
`PS.Concretizes2`: as `Concretizes`, and a residual context (`Context::Residual`) lies in the fragment and its substitution
evaluates to the concrete context (`PS.CtxCompletes`).
The conclusion is that of `pinterp_sound_subst`, for the first pass on `pes` (any mapper `m0 ⊆ σ`).  It holds for direct
`Unknown` attributes (passed through the mapper by `get_attr`) and for unknowns nested inside attribute / tag values alike:
the *substitution form* does not depend on when an unknown is discovered.
Caveat for `.partial()` stores: a finite σ binds finitely many uid-named unknowns, so for `partialMode = true` the
hypothesis `StoreCompletes` (which asks `Bound` for *every* missing uid) is only satisfiable over a finite uid universe; the
version relativised to the entities actually dereferenced (a closed-world invariant on all values) is not proved.  What
is proved for a missing entity is exactly: *if* its uid-named unknown is bound to itself, the residuals `unknown(uid).a`,
`unknown(uid) has a`, `unknown(uid) in …`, `….getTag/hasTag` agree with the concrete store
(`missing_unbound_counterexample`: without the binding they do not). -/
theorem pinterp_sound_store (σ : Mapper) (req : Request) (es : Entities) (env : SlotEnv)
    (hctx : (Value.record req.context).Canon) {e : Expr} (hf : PS.Frag2 σ e)
    (m0 : Mapper) (preq : PRequest) (pes : PEntities) (n : Nat) (hm : PS.MapLE m0 σ)
    (hS : PS.StoreCompletes σ pes es) (hC : PS.Concretizes2 σ es preq req) :
    match pinterp m0 preq pes env n e with
    | .val v => evaluate req es env (v.toExpr.substUnk σ) = .ok v ∧ evaluate req es env (e.substUnk σ) = .ok v
    | .err _ => ∃ c, evaluate req es env (e.substUnk σ) = .error c
    | .res r => PS.Agree (evaluate req es env (r.substUnk σ)) (evaluate req es env (e.substUnk σ))
    | .fuel => True
    | .panic => True := by
  have h := PS.pinterp_sound3 σ req es env hctx m0 preq pes hS hm hC n e hf
  cases hx : pinterp m0 preq pes env n e with
  | val v => rw [hx] at h; exact ⟨PS.Y_toExpr σ req es env h.2, h.1⟩
  | err c => rw [hx] at h; exact h
  | res r => rw [hx] at h; exact h.1
  | fuel => trivial
  | panic => trivial

/-- **pinterp_sound_store_reauth** — the `reauthorize` form for partial stores: the residual of the first pass on `pes`,
re-interpreted with the mapper σ on the concretised request **and the substituted store `es`** (what the documentation of
`reauthorize` asks for: "entities … with the unknowns substituted"), agrees with the concrete evaluation; in particular
no residual is left after this one round.  The hypothesis "second pass on the substituted store" is needed:
`second_round_needed`. -/
theorem pinterp_sound_store_reauth (σ : Mapper) (req : Request) (es : Entities) (env : SlotEnv)
    (hctx : (Value.record req.context).Canon) (hstore : PS.StoreCanon es) {e : Expr} (hf : PS.Frag2 σ e)
    (m0 : Mapper) (preq : PRequest) (pes : PEntities) (n : Nat) (hm : PS.MapLE m0 σ)
    (hS : PS.StoreCompletes σ pes es) (hC : PS.Concretizes2 σ es preq req) :
    match pinterp m0 preq pes env n e with
    | .val v => evaluate req es env (e.substUnk σ) = .ok v
    | .err _ => ∃ c, evaluate req es env (e.substUnk σ) = .error c
    | .res r => ∀ n', Sem (pinterp σ (.ofConcrete req) (.ofConcrete es) env n' r) (evaluate req es env (e.substUnk σ))
    | .fuel => True
    | .panic => True := by
  have h := PS.pinterp_sound3 σ req es env hctx m0 preq pes hS hm hC n e hf
  cases hx : pinterp m0 preq pes env n e with
  | val v => rw [hx] at h; exact h.1
  | err c => rw [hx] at h; exact h
  | res r => rw [hx] at h; exact fun n' => PS.sem_of_agree (PS.bridge σ req es env hctx hstore h.2.2 n') h.1
  | fuel => trivial
  | panic => trivial

/-- non-vacuity of `pinterp_sound_store`: a residual context `{lim: unknown("l")}`, an entity with a *direct* unknown
    attribute (`level`) and an attribute with a *nested* unknown (`info = {x: unknown("u")}`), an unknown principal;
    `principal.info == {x: 1} && resource.level < context.lim`.  All hypotheses hold; the first pass leaves a residual. -/
example :
    let σ : Mapper := [("principal", .prim (.entityUID ⟨"User", "a"⟩)), ("u", .prim (.int 1)), ("l", .prim (.int 7))]
    let req : Request := ⟨⟨"User", "a"⟩, ⟨"A", "x"⟩, ⟨"User", "a"⟩, [("lim", .prim (.int 7))]⟩
    let preq : PRequest := ⟨.unknown (some "User"), .known ⟨"A", "x"⟩, .known ⟨"User", "a"⟩,
      some (.residual [("lim", .unknown "l" (some .long))])⟩
    let pes : PEntities := ⟨[(⟨"User", "a"⟩, ⟨[("info", .residual (.record [("x", .unknown "u" none)])),
      ("level", .residual (.unknown "u" (some .long)))], [], []⟩)], false⟩
    let es : Entities := [(⟨"User", "a"⟩, ⟨[("info", .record [("x", .prim (.int 1))]), ("level", .prim (.int 1))], [], []⟩)]
    let e : Expr := .and (.binaryApp .eq (.getAttr (.var .principal) "info") (.record [("x", .lit (.int 1))]))
                         (.binaryApp .less (.getAttr (.var .resource) "level") (.getAttr (.var .context) "lim"))
    PS.Frag2 σ e ∧ PS.StoreCompletes σ pes es ∧ PS.Concretizes2 σ es preq req ∧
    (∃ r, pinterp [] preq pes [] 10 e = .res r) ∧ (⟨"q", .permit, e.substUnk σ, []⟩ : Policy).outcome req es = .sat := by
  intro σ req preq pes es e
  have hu : PS.UnkOK σ "u" none := ⟨_, rfl, trivial, by intro t ht; cases ht⟩
  have hul : PS.UnkOK σ "u" (some .long) := ⟨_, rfl, trivial, by intro t ht; cases ht; rfl⟩
  have hl : PS.UnkOK σ "l" (some .long) := ⟨_, rfl, trivial, by intro t ht; cases ht; rfl⟩
  have hrec1 : PS.Frag2 σ (.record [("x", .unknown "u" none)]) := by
    refine .record (by decide) ?_
    intro kv hkv; simp only [List.mem_cons, List.not_mem_nil, or_false] at hkv; subst hkv; exact .unknown _ _ hu
  have hrecL : PS.Frag2 σ (.record [("lim", .unknown "l" (some .long))]) := by
    refine .record (by decide) ?_
    intro kv hkv; simp only [List.mem_cons, List.not_mem_nil, or_false] at hkv; subst hkv; exact .unknown _ _ hl
  have hcan : (Value.record [("x", .prim (.int 1))]).Canon := ⟨⟨(by intro k' h; cases h), trivial⟩, trivial, trivial⟩
  refine ⟨?_, ?_, ⟨⟨rfl, rfl⟩, rfl, rfl, ⟨hrecL, fun _ _ => rfl⟩⟩, ⟨_, rfl⟩, by decide +kernel⟩
  · refine .and (.binaryApp .eq (.getAttr "info" (.var _)) (.record (by decide) ?_))
      (.binaryApp .less (.getAttr "level" (.var _)) (.getAttr "lim" (.var _)))
    intro kv hkv; simp only [List.mem_cons, List.not_mem_nil, or_false] at hkv; subst hkv; exact .lit _
  · exact PS.storeCompletes_single _ _ _ rfl
      (PS.attrsComplete_cons "info" (show PS.AttrCompletes _ _ (.residual _) _ from ⟨hrec1, hcan, fun _ _ => rfl⟩)
        (PS.attrsComplete_cons "level" (show PS.AttrCompletes _ _ (.residual _) (.prim (.int 1)) from ⟨.unknown _ _ hul, trivial, fun _ _ => rfl⟩)
          PS.attrsComplete_nil))
      PS.attrsComplete_nil

/-- **second_round_needed** (kernel-checked; the model reproduces the harness observation
`undiscovered_nested_unknown_second_round`).  Entity `User::"a"` has `info = {x: unknown("u")}` (an unknown *nested* in an
attribute value); the principal is unknown; σ = {principal ↦ User::"a", u ↦ 1}.  For the policy `principal.info == {x: 1}`
(concretely: `Allow`):
  * `reauthorize σ` on the **unsubstituted** store (unknown attributes kept) still leaves the policy residual — `get_attr`
    maps only a direct `Unknown` through the mapper, any other residual attribute is returned unchanged — so the decision
    is still undetermined although σ defines every unknown;
  * a **second** `reauthorize` round (same σ minus the request variables, now concrete) resolves it to `Allow`;
  * `reauthorize σ` on the **substituted** store gives `Allow` at once (this is `partial_authorization_sound`). -/
theorem second_round_needed :
    (isAuthorized PS.srReq PS.srEs [PS.srNested]).decision = .allow ∧
    (∃ pr2, (isAuthorizedCore [] PS.srPreq PS.srPes [PS.srNested]).reauthorize PS.srSigma PS.srPes = .ok pr2 ∧ pr2.decision = none ∧
      pr2.residualPermits = [("nested", .and (.lit (.bool true)) (.and (.lit (.bool true)) (.and (.lit (.bool true))
        (.binaryApp .eq (.record [("x", .unknown "u" none)]) (.record [("x", .lit (.int 1))])))))] ∧
      ∃ pr3, pr2.reauthorize [("u", .prim (.int 1))] PS.srPes = .ok pr3 ∧ pr3.decision = some .allow) ∧
    (∃ pr2, (isAuthorizedCore [] PS.srPreq PS.srPes [PS.srNested]).reauthorize PS.srSigma (.ofConcrete PS.srEs) = .ok pr2 ∧
      pr2.decision = some .allow) :=
  ⟨by decide +kernel, ⟨_, rfl, by decide +kernel, rfl, _, rfl, by decide +kernel⟩, ⟨_, rfl, by decide +kernel⟩⟩

/-- **direct_unknown_one_round** (kernel-checked): for an attribute that is a *direct* `Unknown` (`principal.level == 1`)
one `reauthorize` round on the unsubstituted store suffices (`get_attr` passes it through the mapper); for a *tag* that is
a direct unknown it does not (`getTag` returns the stored partial value as it is) — on the substituted store both are
resolved. -/
theorem direct_unknown_one_round :
    (∃ pr2, (isAuthorizedCore [] PS.srPreq PS.srPes [PS.srDirect]).reauthorize PS.srSigma PS.srPes = .ok pr2 ∧ pr2.decision = some .allow) ∧
    (∃ pr2, (isAuthorizedCore [] PS.srPreq PS.srPes [PS.srTag]).reauthorize PS.srSigma PS.srPes = .ok pr2 ∧ pr2.decision = none) ∧
    (∃ pr2, (isAuthorizedCore [] PS.srPreq PS.srPes [PS.srTag]).reauthorize PS.srSigma (.ofConcrete PS.srEs) = .ok pr2 ∧
      pr2.decision = some .allow) :=
  ⟨⟨_, rfl, by decide +kernel⟩, ⟨_, rfl, by decide +kernel⟩, ⟨_, rfl, by decide +kernel⟩⟩

/-- **pinterp_sound_store_reauth_direct** — "for direct-`Unknown` attributes exactly": when every residual attribute
value of the (concrete-mode) partial store is a *direct* `Unknown` and no tag value is residual (`PS.DirectUnk`), ONE second
pass on the **unsubstituted** store `pes` — mapper σ, concretised request — leaves no residual and agrees with the concrete
evaluation: `get_attr` passes exactly the direct `Unknown`s through the mapper.  (`second_round_needed`,
`direct_unknown_one_round`: neither "direct" nor "no residual tag" can be dropped.) -/
theorem pinterp_sound_store_reauth_direct (σ : Mapper) (req : Request) (es : Entities) (env : SlotEnv)
    (hctx : (Value.record req.context).Canon) {e : Expr} (hf : PS.Frag2 σ e)
    (m0 : Mapper) (preq : PRequest) (pes : PEntities) (n : Nat) (hm : PS.MapLE m0 σ)
    (hS : PS.StoreCompletes σ pes es) (hC : PS.Concretizes2 σ es preq req) (hD : PS.DirectUnk pes) :
    match pinterp m0 preq pes env n e with
    | .val v => evaluate req es env (e.substUnk σ) = .ok v
    | .err _ => ∃ c, evaluate req es env (e.substUnk σ) = .error c
    | .res r => ∀ n', Sem (pinterp σ (.ofConcrete req) pes env n' r) (evaluate req es env (e.substUnk σ))
    | .fuel => True
    | .panic => True := by
  have h := PS.pinterp_sound3 σ req es env hctx m0 preq pes hS hm hC n e hf
  cases hx : pinterp m0 preq pes env n e with
  | val v => rw [hx] at h; exact h.1
  | err c => rw [hx] at h; exact h
  | res r => rw [hx] at h; exact fun n' => PS.sem_of_agree (PS.bridge_direct σ req es env hctx pes hS hD h.2.2 n') h.1
  | fuel => trivial
  | panic => trivial

/-- non-vacuity of `pinterp_sound_store_reauth_direct`: `User::"a"` with `level = unknown("u")`, unknown principal,
    `principal.level == 1`: the first pass leaves `unknown(principal).level == 1`; the hypotheses hold. -/
example :
    let σ : Mapper := [("principal", .prim (.entityUID ⟨"User", "a"⟩)), ("u", .prim (.int 1))]
    let req : Request := ⟨⟨"User", "a"⟩, ⟨"A", "x"⟩, ⟨"R", "r"⟩, []⟩
    let preq : PRequest := ⟨.unknown (some "User"), .known ⟨"A", "x"⟩, .known ⟨"R", "r"⟩, some (.value [])⟩
    let pes : PEntities := ⟨[(⟨"User", "a"⟩, ⟨[("level", .residual (.unknown "u" none))], [], []⟩)], false⟩
    let es : Entities := [(⟨"User", "a"⟩, ⟨[("level", .prim (.int 1))], [], []⟩)]
    let e : Expr := .binaryApp .eq (.getAttr (.var .principal) "level") (.lit (.int 1))
    PS.Frag2 σ e ∧ PS.StoreCompletes σ pes es ∧ PS.Concretizes2 σ es preq req ∧ PS.DirectUnk pes ∧
    pinterp [] preq pes [] 10 e = .res (.binaryApp .eq (.getAttr (.unknown "principal" (some (.entity "User"))) "level") (.lit (.int 1))) ∧
    (match pinterp σ (.ofConcrete req) pes [] 10
        (.binaryApp .eq (.getAttr (.unknown "principal" (some (.entity "User"))) "level") (.lit (.int 1))) with
      | .val (.prim (.bool b)) => b
      | _ => false) = true := by
  intro σ req preq pes es e
  have hu : PS.UnkOK σ "u" none := ⟨_, rfl, trivial, by intro t ht; cases ht⟩
  refine ⟨.binaryApp .eq (.getAttr "level" (.var _)) (.lit _), ?_, ⟨⟨rfl, rfl⟩, rfl, rfl, rfl⟩, ⟨rfl, ?_⟩, rfl, by decide +kernel⟩
  · exact PS.storeCompletes_single _ _ _ rfl
      (PS.attrsComplete_cons "level" (show PS.AttrCompletes _ _ (.residual _) (.prim (.int 1)) from ⟨.unknown _ _ hu, trivial, fun _ _ => rfl⟩)
        PS.attrsComplete_nil)
      PS.attrsComplete_nil
  · intro u d hfd
    simp only [pes, PEntities.find?] at hfd
    split at hfd
    · cases hfd
      constructor
      · intro a r hl
        simp only [lookupKV] at hl
        split at hl
        · cases hl; exact ⟨_, _, rfl⟩
        · cases hl
      · intro a r hl; simp [lookupKV] at hl
    · cases hfd

/-- **missing_unbound_counterexample** (kernel-checked): for an entity missing from a `.partial()` store it is *not*
enough that it is absent from the completed store — σ has to bind the unknown named by its uid (to the entity itself).
`User::"a" has x` on the empty partial store leaves `unknown(User::"a") has x`; with σ = ∅ and the empty concrete store the
concrete result is `false`, the substituted residual is an error. -/
theorem missing_unbound_counterexample :
    let e : Expr := .hasAttr (.lit (.entityUID ⟨"User", "a"⟩)) "x"
    let r : Expr := .hasAttr (.unknown "User::\"a\"" (some (.entity "User"))) "x"
    let req : Request := ⟨⟨"User", "b"⟩, ⟨"A", "x"⟩, ⟨"R", "r"⟩, []⟩
    pinterp [] (.ofConcrete req) ⟨[], true⟩ [] 5 e = .res r ∧
    evaluate req [] [] (e.substUnk []) = .ok (.prim (.bool false)) ∧
    evaluate req [] [] (r.substUnk []) = .error .residual ∧
    -- bound to itself, the residual agrees
    evaluate req [] [] (r.substUnk [("User::\"a\"", .prim (.entityUID ⟨"User", "a"⟩))]) = .ok (.prim (.bool false)) := by
  intro e r req
  exact ⟨rfl, rfl, rfl, rfl⟩

/-- **partial_definite_sound** — "any definite decision of the partial response is the decision obtained for every
substitution", with explicit, validation-free hypotheses: for a policy set (static or template-linked policies, any slot
environments) whose conditions lie in `Frag2 σ` and contain no unknown nodes, a partial store completed by `es` under σ, a
partial request (possibly with a residual context) concretised by σ to `req`: a definite `decision()` of
`is_authorized_core` is the decision of the concrete authorizer on `(req, es)`; `must_be_determining ⊆` the concrete
determining policies `⊆ may_be_determining`; and the definitely satisfied / errored / false policies are so concretely
(`table_sound` with its `Consistent` hypothesis discharged by `pinterp_sound_store`). -/
theorem partial_definite_sound (σ : Mapper) (req : Request) (es : Entities) (preq : PRequest) (pes : PEntities)
    (ps : List Policy) (hctx : (Value.record req.context).Canon)
    (hS : PS.StoreCompletes σ pes es) (hC : PS.Concretizes2 σ es preq req)
    (hfrag : ∀ p, p ∈ ps → PS.Frag2 σ p.condition ∧ p.condition.unknowns = [])
    (hfuel1 : ∀ p, p ∈ ps → partialEvaluate [] preq pes p ≠ .stuck) :
    let pr := isAuthorizedCore [] preq pes ps
    (∀ d, pr.decision = some d → (isAuthorized req es ps).decision = d) ∧
    (∀ id, id ∈ pr.mustBeDetermining → id ∈ (isAuthorized req es ps).reasons) ∧
    (∀ id, id ∈ (isAuthorized req es ps).reasons → id ∈ pr.mayBeDetermining) ∧
    (∀ id, id ∈ pr.definitelySatisfied → ∃ p, p ∈ ps ∧ p.id = id ∧ p.outcome req es = .sat) ∧
    (∀ id, id ∈ pr.definitelyErrored → ∃ p, p ∈ ps ∧ p.id = id ∧ p.outcome req es = .err) ∧
    (∀ id, id ∈ pr.definitelyFalse → ∃ p, p ∈ ps ∧ p.id = id ∧ p.outcome req es = .unsat) := by
  intro pr
  have hc : ∀ p, p ∈ ps → Consistent (partialEvaluate [] preq pes p) (p.outcome req es) := fun p hp =>
    PS.consistent_of_frag3 σ req es hctx preq pes hS hC p (hfrag p hp).1
      (PS.substUnk_of_noUnk σ _ (hfrag p hp).2) (hfuel1 p hp)
  obtain ⟨h1, h2, h3, h4, h5, h6⟩ := table_sound [] preq pes ps (fun p => p.outcome req es) hc
  refine ⟨?_, ?_, ?_, h4, h5, h6⟩
  · intro d hd; rw [PS.isAuthorized_decision]; exact h1 d hd
  · intro id hid; rw [PS.isAuthorized_reasons]; exact h2 id hid
  · intro id hid; rw [PS.isAuthorized_reasons] at hid; exact h3 id hid

/-- **partial_authorization_sound** — the statement of the property at the level of the whole authorizer.  Policy set:
static and template-linked policies (arbitrary slot environments) whose conditions lie in `Frag2 σ` and contain no unknown
nodes; partial store `pes` (unknown attribute / tag values, direct or nested) completed by `es` under σ; partial request
(unknown principal / action / resource, missing or residual context) concretised by σ to `req`; no residual kept a slot
(`residualPoliciesPanic = false`: otherwise `reauthorize` panics — the recorded finding); `concretize_request` succeeds;
neither pass exhausts the model's recursion budget.  Then
  (1) re-authorizing the partial response with σ **on the substituted store** succeeds in ONE round and gives the decision
      and the determining policies of authorizing the fully concrete request from scratch;
  (2) any definite decision of the partial response already is that decision, and
      `must_be_determining ⊆ determining ⊆ may_be_determining`.
One round suffices because the second pass reads the substituted store; on the unsubstituted store a nested unknown needs
a second round (`second_round_needed`). -/
theorem partial_authorization_sound (σ : Mapper) (req : Request) (es : Entities) (preq : PRequest) (pes : PEntities)
    (ps : List Policy) (hctx : (Value.record req.context).Canon) (hstore : PS.StoreCanon es)
    (hS : PS.StoreCompletes σ pes es) (hC : PS.Concretizes2 σ es preq req)
    (hfrag : ∀ p, p ∈ ps → PS.Frag2 σ p.condition ∧ p.condition.unknowns = [])
    (hreq : (isAuthorizedCore [] preq pes ps).concretizeRequest σ = .ok (.ofConcrete req))
    (hslot : (isAuthorizedCore [] preq pes ps).residualPoliciesPanic = false)
    (hfuel1 : ∀ p, p ∈ ps → partialEvaluate [] preq pes p ≠ .stuck)
    (hfuel2 : ∀ p, p ∈ ps → ∀ q, residualPolicy (partialEvaluate [] preq pes p) p = some q →
      partialEvaluate σ (.ofConcrete req) (.ofConcrete es) q ≠ .stuck) :
    let pr := isAuthorizedCore [] preq pes ps
    (∃ pr2, pr.reauthorize σ (.ofConcrete es) = .ok pr2 ∧
      pr2.decision = some (isAuthorized req es ps).decision ∧
      pr2.concretize.decision = (isAuthorized req es ps).decision ∧
      (∀ id, id ∈ pr2.concretize.reasons ↔ id ∈ (isAuthorized req es ps).reasons)) ∧
    (∀ d, pr.decision = some d → (isAuthorized req es ps).decision = d) ∧
    (∀ id, id ∈ pr.mustBeDetermining → id ∈ (isAuthorized req es ps).reasons) ∧
    (∀ id, id ∈ (isAuthorized req es ps).reasons → id ∈ pr.mayBeDetermining) := by
  intro pr
  obtain ⟨h1, h2, h3, _⟩ := partial_definite_sound σ req es preq pes ps hctx hS hC hfrag hfuel1
  refine ⟨?_, h1, h2, h3⟩
  exact reauthorize_core σ preq pes ps req es hreq hslot
    (fun p hp => PS.policyAgrees_of_frag3 σ req es hctx hstore preq pes hS hC p (hfrag p hp).1
      (PS.substUnk_of_noUnk σ _ (hfrag p hp).2)
      (fun r hr => PS.noSlot_of_panicFree preq pes ps hslot hp hr) (hfuel2 p hp) (hfuel1 p hp))

/-- non-vacuity of `partial_authorization_sound` / `partial_definite_sound`: the scenario of `second_round_needed` (unknown
    principal, an entity with nested and direct unknown attributes) with a **template-linked** forbid
    (`principal == ?principal`, linked to `User::"z"`) next to the nested-unknown permit.  All hypotheses are discharged;
    the partial decision is undetermined, one `reauthorize` round on the substituted store gives the concrete `Allow`. -/
example :
    let linked : Policy := ⟨"linked", .forbid, .binaryApp .eq (.var .principal) (.slot .principal), [(.principal, ⟨"User", "z"⟩)]⟩
    let ps := [PS.srNested, linked]
    (isAuthorizedCore [] PS.srPreq PS.srPes ps).decision = none ∧ (isAuthorized PS.srReq PS.srEs ps).decision = .allow ∧
    ∃ pr2, (isAuthorizedCore [] PS.srPreq PS.srPes ps).reauthorize PS.srSigma (.ofConcrete PS.srEs) = .ok pr2 ∧
      pr2.decision = some (isAuthorized PS.srReq PS.srEs ps).decision ∧
      (∀ id, id ∈ pr2.concretize.reasons ↔ id ∈ (isAuthorized PS.srReq PS.srEs ps).reasons) := by
  intro linked ps
  have hcan : (Value.record [("x", .prim (.int 1))]).Canon := ⟨⟨(by intro k' h; cases h), trivial⟩, trivial, trivial⟩
  have hstore : PS.StoreCanon PS.srEs := by
    intro u d h
    simp only [PS.srEs, Entities.find?] at h
    split at h
    · cases h; exact ⟨⟨hcan, trivial, trivial⟩, trivial, trivial⟩
    · cases h
  have hfrag : ∀ p, p ∈ ps → PS.Frag2 PS.srSigma p.condition ∧ p.condition.unknowns = [] := by
    intro p hp
    simp only [ps, List.mem_cons, List.not_mem_nil, or_false] at hp
    rcases hp with rfl | rfl
    · refine ⟨.binaryApp .eq (.getAttr "info" (.var _)) (.record (by decide) ?_), rfl⟩
      intro kv hkv; simp only [List.mem_cons, List.not_mem_nil, or_false] at hkv; subst hkv; exact .lit _
    · exact ⟨.binaryApp .eq (.var _) (.slot _), rfl⟩
  obtain ⟨hf1, hf2⟩ := PS.fuelOK_spec (σ := PS.srSigma) (req := PS.srReq) (es := PS.srEs) (preq := PS.srPreq) (pes := PS.srPes) (ps := ps)
    (by decide +kernel)
  obtain ⟨⟨pr2, h1, h2, _, h4⟩, _⟩ := partial_authorization_sound PS.srSigma PS.srReq PS.srEs PS.srPreq PS.srPes ps ⟨trivial, trivial⟩ hstore
    PS.sr_storeCompletes.1 PS.sr_storeCompletes.2 hfrag rfl (by decide +kernel) hf1 hf2
  exact ⟨by decide +kernel, by decide +kernel, pr2, h1, h2, h4⟩

/-! ### `.partial()` stores, relativised to the uids the first pass can dereference -/

/-- **pinterp_sound_store_on** — `pinterp_sound_store` with the hypothesis on entities missing from a `.partial()` store
relativised: `PS.StoreCompletesOn U` asks the uid-named unknown of a missing entity to be bound (to the entity itself) only
for uids of the FINITE list `U = PS.mentioned m0 preq pes env e` — the literal uids of `e`, the known request entries, the
uids in the context, in the values of the mapper `m0`, in the slot environment and in the (known or residual) attribute / tag
values of `pes`.  Closed world (`PS.pinterp_in`): every value and every residual the first pass produces mentions only
such uids, so these are the only uids it can pass to `Entities::entity`.  What the completed store `es` holds for other
uids, and for the missing ones, is arbitrary.  (`U` over-approximates "dereferenced": a mentioned uid that is never
dereferenced still has to be present or bound.) -/
theorem pinterp_sound_store_on (σ : Mapper) (req : Request) (es : Entities) (env : SlotEnv)
    (hctx : (Value.record req.context).Canon) {e : Expr} (hf : PS.Frag2 σ e)
    (m0 : Mapper) (preq : PRequest) (pes : PEntities) (n : Nat) (hm : PS.MapLE m0 σ)
    (hS : PS.StoreCompletesOn (fun u => u ∈ PS.mentioned m0 preq pes env e) σ pes es) (hC : PS.Concretizes2 σ es preq req) :
    match pinterp m0 preq pes env n e with
    | .val v => evaluate req es env (v.toExpr.substUnk σ) = .ok v ∧ evaluate req es env (e.substUnk σ) = .ok v
    | .err _ => ∃ c, evaluate req es env (e.substUnk σ) = .error c
    | .res r => PS.Agree (evaluate req es env (r.substUnk σ)) (evaluate req es env (e.substUnk σ))
    | .fuel => True
    | .panic => True := by
  obtain ⟨h1, h2, h3, h4, h5⟩ := PS.mentioned_closed m0 preq pes env e
  have h := PS.pinterp_sound3_on σ req es env hctx m0 preq pes _ hS hm hC h2 h3 h4 h5 n e hf h1
  cases hx : pinterp m0 preq pes env n e with
  | val v => rw [hx] at h; exact ⟨PS.Y_toExpr σ req es env h.2, h.1⟩
  | err c => rw [hx] at h; exact h
  | res r => rw [hx] at h; exact h.1
  | fuel => trivial
  | panic => trivial

/-- **pinterp_sound_store_reauth_on** — the `reauthorize` form (second pass on the substituted store), relativised likewise. -/
theorem pinterp_sound_store_reauth_on (σ : Mapper) (req : Request) (es : Entities) (env : SlotEnv)
    (hctx : (Value.record req.context).Canon) (hstore : PS.StoreCanon es) {e : Expr} (hf : PS.Frag2 σ e)
    (m0 : Mapper) (preq : PRequest) (pes : PEntities) (n : Nat) (hm : PS.MapLE m0 σ)
    (hS : PS.StoreCompletesOn (fun u => u ∈ PS.mentioned m0 preq pes env e) σ pes es) (hC : PS.Concretizes2 σ es preq req) :
    match pinterp m0 preq pes env n e with
    | .val v => evaluate req es env (e.substUnk σ) = .ok v
    | .err _ => ∃ c, evaluate req es env (e.substUnk σ) = .error c
    | .res r => ∀ n', Sem (pinterp σ (.ofConcrete req) (.ofConcrete es) env n' r) (evaluate req es env (e.substUnk σ))
    | .fuel => True
    | .panic => True := by
  obtain ⟨h1, h2, h3, h4, h5⟩ := PS.mentioned_closed m0 preq pes env e
  have h := PS.pinterp_sound3_on σ req es env hctx m0 preq pes _ hS hm hC h2 h3 h4 h5 n e hf h1
  cases hx : pinterp m0 preq pes env n e with
  | val v => rw [hx] at h; exact h.1
  | err c => rw [hx] at h; exact h
  | res r => rw [hx] at h; exact fun n' => PS.sem_of_agree (PS.bridge σ req es env hctx hstore h.2.2 n') h.1
  | fuel => trivial
  | panic => trivial

/-- **partial_definite_sound_on** — `partial_definite_sound` with `StoreCompletes` relativised to
`PS.mentionedPolicies preq pes ps` (the union of `PS.mentioned [] preq pes p.env p.condition` over the policies). -/
theorem partial_definite_sound_on (σ : Mapper) (req : Request) (es : Entities) (preq : PRequest) (pes : PEntities)
    (ps : List Policy) (hctx : (Value.record req.context).Canon)
    (hS : PS.StoreCompletesOn (fun u => u ∈ PS.mentionedPolicies preq pes ps) σ pes es) (hC : PS.Concretizes2 σ es preq req)
    (hfrag : ∀ p, p ∈ ps → PS.Frag2 σ p.condition ∧ p.condition.unknowns = [])
    (hfuel1 : ∀ p, p ∈ ps → partialEvaluate [] preq pes p ≠ .stuck) :
    let pr := isAuthorizedCore [] preq pes ps
    (∀ d, pr.decision = some d → (isAuthorized req es ps).decision = d) ∧
    (∀ id, id ∈ pr.mustBeDetermining → id ∈ (isAuthorized req es ps).reasons) ∧
    (∀ id, id ∈ (isAuthorized req es ps).reasons → id ∈ pr.mayBeDetermining) ∧
    (∀ id, id ∈ pr.definitelySatisfied → ∃ p, p ∈ ps ∧ p.id = id ∧ p.outcome req es = .sat) ∧
    (∀ id, id ∈ pr.definitelyErrored → ∃ p, p ∈ ps ∧ p.id = id ∧ p.outcome req es = .err) ∧
    (∀ id, id ∈ pr.definitelyFalse → ∃ p, p ∈ ps ∧ p.id = id ∧ p.outcome req es = .unsat) := by
  intro pr
  have hc : ∀ p, p ∈ ps → Consistent (partialEvaluate [] preq pes p) (p.outcome req es) := fun p hp =>
    PS.consistent_of_sound σ req es preq pes p
      (PS.sound_of_mentioned σ req es hctx preq pes hS hC p
        (fun u hu => List.mem_flatMap.mpr ⟨p, hp, hu⟩) (hfrag p hp).1)
      (PS.substUnk_of_noUnk σ _ (hfrag p hp).2) (hfuel1 p hp)
  obtain ⟨h1, h2, h3, h4, h5, h6⟩ := table_sound [] preq pes ps (fun p => p.outcome req es) hc
  refine ⟨?_, ?_, ?_, h4, h5, h6⟩
  · intro d hd; rw [PS.isAuthorized_decision]; exact h1 d hd
  · intro id hid; rw [PS.isAuthorized_reasons]; exact h2 id hid
  · intro id hid; rw [PS.isAuthorized_reasons] at hid; exact h3 id hid

/-- **partial_authorization_sound_on** — `partial_authorization_sound` for `.partial()` stores in the relativised form: an
entity missing from the partial store has to be bound by σ only if its uid is mentioned by a policy of the set, the request
or an attribute / tag value of the store (`PS.mentionedPolicies`).  Conclusions as in `partial_authorization_sound`. -/
theorem partial_authorization_sound_on (σ : Mapper) (req : Request) (es : Entities) (preq : PRequest) (pes : PEntities)
    (ps : List Policy) (hctx : (Value.record req.context).Canon) (hstore : PS.StoreCanon es)
    (hS : PS.StoreCompletesOn (fun u => u ∈ PS.mentionedPolicies preq pes ps) σ pes es) (hC : PS.Concretizes2 σ es preq req)
    (hfrag : ∀ p, p ∈ ps → PS.Frag2 σ p.condition ∧ p.condition.unknowns = [])
    (hreq : (isAuthorizedCore [] preq pes ps).concretizeRequest σ = .ok (.ofConcrete req))
    (hslot : (isAuthorizedCore [] preq pes ps).residualPoliciesPanic = false)
    (hfuel1 : ∀ p, p ∈ ps → partialEvaluate [] preq pes p ≠ .stuck)
    (hfuel2 : ∀ p, p ∈ ps → ∀ q, residualPolicy (partialEvaluate [] preq pes p) p = some q →
      partialEvaluate σ (.ofConcrete req) (.ofConcrete es) q ≠ .stuck) :
    let pr := isAuthorizedCore [] preq pes ps
    (∃ pr2, pr.reauthorize σ (.ofConcrete es) = .ok pr2 ∧
      pr2.decision = some (isAuthorized req es ps).decision ∧
      pr2.concretize.decision = (isAuthorized req es ps).decision ∧
      (∀ id, id ∈ pr2.concretize.reasons ↔ id ∈ (isAuthorized req es ps).reasons)) ∧
    (∀ d, pr.decision = some d → (isAuthorized req es ps).decision = d) ∧
    (∀ id, id ∈ pr.mustBeDetermining → id ∈ (isAuthorized req es ps).reasons) ∧
    (∀ id, id ∈ (isAuthorized req es ps).reasons → id ∈ pr.mayBeDetermining) := by
  intro pr
  obtain ⟨h1, h2, h3, _⟩ := partial_definite_sound_on σ req es preq pes ps hctx hS hC hfrag hfuel1
  refine ⟨?_, h1, h2, h3⟩
  exact reauthorize_core σ preq pes ps req es hreq hslot
    (fun p hp => PS.policyAgrees_of_sound σ req es hctx hstore preq pes p
      (PS.sound_of_mentioned σ req es hctx preq pes hS hC p
        (fun u hu => List.mem_flatMap.mpr ⟨p, hp, hu⟩) (hfrag p hp).1)
      (PS.substUnk_of_noUnk σ _ (hfrag p hp).2)
      (fun r hr => PS.noSlot_of_panicFree preq pes ps hslot hp hr) (hfuel2 p hp) (hfuel1 p hp))

/-- non-vacuity of the `…_on` theorems: a **`.partial()` store that really lacks an entity the policy dereferences**.
    `resource.owner.name == "alice"`; the partial store holds `File::"f"` with `owner = User::"o"` but not `User::"o"`; σ binds
    the request entities and `User::"o"` (all the mentioned uids that are missing), nothing else — `PS.StoreCompletes` is
    false for this σ (`File::"zz"` is missing and unbound), `PS.StoreCompletesOn` holds.  The first pass leaves
    `unknown(User::"o").name == "alice"`; its substitution evaluates to the concrete `true` on the completed store; ONE
    `reauthorize` round on the substituted store gives `Allow`; on the unsubstituted `.partial()` store the second pass
    maps the unknown to `User::"o"`, dereferences it, finds it missing again and returns the same residual (no number of
    rounds resolves it). -/
example :
    let f : EntityUID := ⟨"File", "f"⟩
    let o : EntityUID := ⟨"User", "o"⟩
    let σ : Mapper := [("User::\"p\"", .prim (.entityUID ⟨"User", "p"⟩)), ("A::\"x\"", .prim (.entityUID ⟨"A", "x"⟩)),
      ("User::\"o\"", .prim (.entityUID o))]
    let req : Request := ⟨⟨"User", "p"⟩, ⟨"A", "x"⟩, f, []⟩
    let pes : PEntities := ⟨[(f, ⟨[("owner", .value (.prim (.entityUID o)))], [], []⟩)], true⟩
    let es : Entities := [(f, ⟨[("owner", .prim (.entityUID o))], [], []⟩), (o, ⟨[("name", .prim (.string "alice"))], [], []⟩)]
    let e : Expr := .binaryApp .eq (.getAttr (.getAttr (.var .resource) "owner") "name") (.lit (.string "alice"))
    let r : Expr := .binaryApp .eq (.getAttr (.unknown "User::\"o\"" (some (.entity "User"))) "name") (.lit (.string "alice"))
    let p : Policy := ⟨"owner", .permit, e, []⟩
    PS.Frag2 σ e ∧ ¬ PS.StoreCompletes σ pes es ∧
    PS.StoreCompletesOn (fun u => u ∈ PS.mentionedPolicies (.ofConcrete req) pes [p]) σ pes es ∧
    pinterp [] (.ofConcrete req) pes [] 10 e = .res r ∧
    (⟨"q", .permit, r.substUnk σ, []⟩ : Policy).outcome req es = .sat ∧ p.outcome req es = .sat ∧
    (match pinterp σ (.ofConcrete req) (.ofConcrete es) [] 10 r with | .val (.prim (.bool true)) => true | _ => false) = true ∧
    (match pinterp σ (.ofConcrete req) pes [] 10 r with | .res r' => Expr.beq r' r | _ => false) = true ∧
    (isAuthorizedCore [] (.ofConcrete req) pes [p]).decision = none ∧
    ∃ pr2, (isAuthorizedCore [] (.ofConcrete req) pes [p]).reauthorize σ (.ofConcrete es) = .ok pr2 ∧
      pr2.decision = some (isAuthorized req es [p]).decision ∧ (isAuthorized req es [p]).decision = .allow := by
  intro f o σ req pes es e r p
  have hfrag : PS.Frag2 σ e := .binaryApp .eq (.getAttr "name" (.getAttr "owner" (.var _))) (.lit _)
  have hment : PS.mentionedPolicies (.ofConcrete req) pes [p] = [⟨"User", "p"⟩, ⟨"A", "x"⟩, f, o] := by decide +kernel
  have hSon : PS.StoreCompletesOn (fun u => u ∈ PS.mentionedPolicies (.ofConcrete req) pes [p]) σ pes es := by
    intro u
    rw [hment]
    simp only [pes, PEntities.find?]
    by_cases hk : (f == u) = true
    · simp only [hk, if_true]
      refine ⟨⟨[("owner", .prim (.entityUID o))], [], []⟩, by simp [es, Entities.find?, hk], rfl, ?_, PS.attrsComplete_nil⟩
      exact PS.attrsComplete_cons "owner" (show PS.AttrCompletes _ _ (.value (.prim (.entityUID o))) (.prim (.entityUID o)) from ⟨rfl, trivial⟩) PS.attrsComplete_nil
    · simp only [hk, Bool.false_eq_true, if_false, if_true]
      intro hu
      simp only [List.mem_cons, List.not_mem_nil, or_false] at hu
      rcases hu with rfl | rfl | rfl | rfl
      · rfl
      · rfl
      · exact absurd (by decide) hk
      · rfl
  have hnot : ¬ PS.StoreCompletes σ pes es := by
    intro h
    have hb := h ⟨"File", "zz"⟩
    simp only [pes, PEntities.find?, show (f == (⟨"File", "zz"⟩ : EntityUID)) = false from by decide, Bool.false_eq_true,
      if_false, if_true] at hb
    unfold PS.Bound at hb
    have hn : lookupKV σ (uidName ⟨"File", "zz"⟩) = none := rfl
    rw [hn] at hb
    cases hb
  have hstore : PS.StoreCanon es := by
    intro u d h
    simp only [es, Entities.find?] at h
    split at h
    · cases h; repeat' constructor
    · split at h
      · cases h; repeat' constructor
      · cases h
  have hfr : ∀ q, q ∈ [p] → PS.Frag2 σ q.condition ∧ q.condition.unknowns = [] := by
    intro q hq; simp only [List.mem_cons, List.not_mem_nil, or_false] at hq; subst hq; exact ⟨hfrag, rfl⟩
  obtain ⟨hf1, hf2⟩ := PS.fuelOK_spec (σ := σ) (req := req) (es := es) (preq := .ofConcrete req) (pes := pes) (ps := [p])
    (by decide +kernel)
  obtain ⟨⟨pr2, h1, h2, _, _⟩, _⟩ := partial_authorization_sound_on σ req es (.ofConcrete req) pes [p] ⟨trivial, trivial⟩ hstore
    hSon (PS.concretizes2_ofConcrete σ es req) hfr rfl (by decide +kernel) hf1 hf2
  exact ⟨hfrag, hnot, hSon, rfl, by decide +kernel, by decide +kernel, by decide +kernel, by decide +kernel, by decide +kernel, pr2, h1, h2,
    by decide +kernel⟩

/-- **restricted_eval_sound** — the restricted evaluator (`RestrictedEvaluator::partial_interpret`, which evaluates
contexts and attribute values) is sound for the evaluator: a *value* it returns is the value of the expression for every
request, store and slot environment.  Consequently the hypotheses `PS.Concretizes2` of the theorems above are what
`concretize_request` computes: `concretize_entry_gives_conc` for principal / action / resource,
`context_substitute_gives_completes` for a residual context (`Context::substitute`). -/
theorem restricted_eval_sound (req : Request) (es : Entities) (env : SlotEnv) (n : Nat) (e : Expr) (v : Value)
    (h : rinterp n e = .val v) : evaluate req es env e = .ok v :=
  PS.rinterp_sound req es env n e v h

theorem concretize_entry_gives_conc {σ : Mapper} {en : UidEntry} {key : String} {uid : EntityUID}
    (h : en.concretize key σ = .ok (.known uid)) : en.Conc σ key uid :=
  PS.conc_of_concretize h

theorem context_substitute_gives_completes (σ : Mapper) (es : Entities) {kvs : List (String × Expr)} {ctx : List (String × Value)}
    (hf : PS.Frag2 σ (.record kvs)) (h : (PContext.residual kvs).substitute σ = .ok (.value ctx)) :
    PS.CtxCompletes σ es (some (.residual kvs)) ctx :=
  PS.ctxCompletes_of_substitute σ es hf h

/-- non-vacuity: the residual context `{lim: unknown("l": long)}` under `l ↦ 7` -/
example :
    let σ : Mapper := [("l", .prim (.int 7))]
    (PContext.residual [("lim", .unknown "l" (some .long))]).substitute σ = .ok (.value [("lim", .prim (.int 7))]) ∧
    PS.CtxCompletes σ [] (some (.residual [("lim", .unknown "l" (some .long))])) [("lim", .prim (.int 7))] := by
  intro σ
  have hl : PS.UnkOK σ "l" (some .long) := ⟨_, rfl, trivial, by intro t ht; cases ht; rfl⟩
  have hf : PS.Frag2 σ (.record [("lim", .unknown "l" (some .long))]) := by
    refine .record (by decide) ?_
    intro kv hkv; simp only [List.mem_cons, List.not_mem_nil, or_false] at hkv; subst hkv; exact .unknown _ _ hl
  exact ⟨rfl, context_substitute_gives_completes σ [] hf rfl⟩

/-! ### one round on the store the caller still holds; `concretize_request` as the only request hypothesis -/

/-- **reauthorize_eq_fresh_on** — `reauthorize_eq_fresh` for an arbitrary second-pass store `pes2` (the `entities` argument
of `PartialResponse::reauthorize`): given policy-level agreement of the residual policies re-evaluated on `pes2`
(`PolicyAgreesOn pes2`), `reauthorize σ pes2` yields decision and determining policies of the fresh concrete authorization
on `(req', es')`.  `reauthorize_eq_fresh` is the instance `pes2 = .ofConcrete es'`. -/
theorem reauthorize_eq_fresh_on (pes2 : PEntities) (σ : Mapper) (preq : PRequest) (pes : PEntities) (ps : List Policy)
    (req' : Request) (es' : Entities)
    (hreq : (isAuthorizedCore [] preq pes ps).concretizeRequest σ = .ok (.ofConcrete req'))
    (hslot : (isAuthorizedCore [] preq pes ps).residualPoliciesPanic = false)
    (hsound : ∀ p, p ∈ ps → PolicyAgreesOn pes2 σ preq pes req' es' p) :
    ∃ pr2, (isAuthorizedCore [] preq pes ps).reauthorize σ pes2 = .ok pr2 ∧
      pr2.decision = some (isAuthorized req' es' ps).decision ∧
      pr2.concretize.decision = (isAuthorized req' es' ps).decision ∧
      (∀ id, id ∈ pr2.concretize.reasons ↔ id ∈ (isAuthorized req' es' ps).reasons) :=
  reauthorize_core_on pes2 σ preq pes ps req' es' hreq hslot hsound

/-- **partial_authorization_sound_direct** — `partial_authorization_sound` with the second pass on the **unsubstituted**
store: when every residual attribute value of the (concrete-mode) partial store `pes` is a direct `Unknown` and no tag value
is residual (`PS.DirectUnk pes`), `reauthorize σ pes` — re-authorizing against the very store the caller still holds, the way
`PartialResponse::reauthorize(mapping, auth, entities)` is typically called — succeeds in ONE round and gives the decision
and the determining policies of authorizing the fully concrete request on the completed store `es` from scratch.  No
canonicity hypothesis on `es` beyond `StoreCompletes` is needed (the second pass never reads `es`).  Neither "direct" nor
"no residual tag" can be dropped (`second_round_needed`, `direct_unknown_one_round`).  `hfuel2` is about the pass that is
actually run (on `pes`). -/
theorem partial_authorization_sound_direct (σ : Mapper) (req : Request) (es : Entities) (preq : PRequest) (pes : PEntities)
    (ps : List Policy) (hctx : (Value.record req.context).Canon)
    (hS : PS.StoreCompletes σ pes es) (hD : PS.DirectUnk pes) (hC : PS.Concretizes2 σ es preq req)
    (hfrag : ∀ p, p ∈ ps → PS.Frag2 σ p.condition ∧ p.condition.unknowns = [])
    (hreq : (isAuthorizedCore [] preq pes ps).concretizeRequest σ = .ok (.ofConcrete req))
    (hslot : (isAuthorizedCore [] preq pes ps).residualPoliciesPanic = false)
    (hfuel1 : ∀ p, p ∈ ps → partialEvaluate [] preq pes p ≠ .stuck)
    (hfuel2 : ∀ p, p ∈ ps → ∀ q, residualPolicy (partialEvaluate [] preq pes p) p = some q →
      partialEvaluate σ (.ofConcrete req) pes q ≠ .stuck) :
    let pr := isAuthorizedCore [] preq pes ps
    (∃ pr2, pr.reauthorize σ pes = .ok pr2 ∧
      pr2.decision = some (isAuthorized req es ps).decision ∧
      pr2.concretize.decision = (isAuthorized req es ps).decision ∧
      (∀ id, id ∈ pr2.concretize.reasons ↔ id ∈ (isAuthorized req es ps).reasons)) ∧
    (∀ d, pr.decision = some d → (isAuthorized req es ps).decision = d) ∧
    (∀ id, id ∈ pr.mustBeDetermining → id ∈ (isAuthorized req es ps).reasons) ∧
    (∀ id, id ∈ (isAuthorized req es ps).reasons → id ∈ pr.mayBeDetermining) := by
  intro pr
  obtain ⟨h1, h2, h3, _⟩ := partial_definite_sound σ req es preq pes ps hctx hS hC hfrag hfuel1
  refine ⟨?_, h1, h2, h3⟩
  exact reauthorize_core_on pes σ preq pes ps req es hreq hslot
    (fun p hp => PS.policyAgreesOn_of_frag3_direct σ req es hctx preq pes hS hD hC p (hfrag p hp).1
      (PS.substUnk_of_noUnk σ _ (hfrag p hp).2)
      (fun r hr => PS.noSlot_of_panicFree preq pes ps hslot hp hr) (hfuel2 p hp) (hfuel1 p hp))

/-- non-vacuity of `partial_authorization_sound_direct`: `User::"a"` with the direct unknown attribute `level = unknown("u")`,
    unknown principal; a permit `principal.level == 1`, a forbid `principal.level < 0` and a template-linked forbid
    `principal == ?principal` (linked to `User::"z"`).  All hypotheses hold; the partial decision is undetermined (three
    residuals); ONE `reauthorize` round on the *unsubstituted* store `pes` gives the concrete `Allow`. -/
example :
    let σ : Mapper := [("principal", .prim (.entityUID ⟨"User", "a"⟩)), ("u", .prim (.int 1))]
    let req : Request := ⟨⟨"User", "a"⟩, ⟨"A", "x"⟩, ⟨"R", "r"⟩, []⟩
    let preq : PRequest := ⟨.unknown (some "User"), .known ⟨"A", "x"⟩, .known ⟨"R", "r"⟩, some (.value [])⟩
    let pes : PEntities := ⟨[(⟨"User", "a"⟩, ⟨[("level", .residual (.unknown "u" none))], [], []⟩)], false⟩
    let es : Entities := [(⟨"User", "a"⟩, ⟨[("level", .prim (.int 1))], [], []⟩)]
    let p1 : Policy := ⟨"p1", .permit, .binaryApp .eq (.getAttr (.var .principal) "level") (.lit (.int 1)), []⟩
    let p2 : Policy := ⟨"p2", .forbid, .binaryApp .less (.getAttr (.var .principal) "level") (.lit (.int 0)), []⟩
    let p3 : Policy := ⟨"p3", .forbid, .binaryApp .eq (.var .principal) (.slot .principal), [(.principal, ⟨"User", "z"⟩)]⟩
    let ps := [p1, p2, p3]
    PS.DirectUnk pes ∧ (isAuthorizedCore [] preq pes ps).decision = none ∧
    (isAuthorizedCore [] preq pes ps).residualForbids.length = 2 ∧ (isAuthorized req es ps).decision = .allow ∧
    ∃ pr2, (isAuthorizedCore [] preq pes ps).reauthorize σ pes = .ok pr2 ∧
      pr2.decision = some (isAuthorized req es ps).decision ∧
      (∀ id, id ∈ pr2.concretize.reasons ↔ id ∈ (isAuthorized req es ps).reasons) := by
  intro σ req preq pes es p1 p2 p3 ps
  have hu : PS.UnkOK σ "u" none := ⟨_, rfl, trivial, by intro t ht; cases ht⟩
  have hS : PS.StoreCompletes σ pes es :=
    PS.storeCompletes_single _ _ _ rfl
      (PS.attrsComplete_cons "level" (show PS.AttrCompletes _ _ (.residual _) (.prim (.int 1)) from ⟨.unknown _ _ hu, trivial, fun _ _ => rfl⟩)
        PS.attrsComplete_nil)
      PS.attrsComplete_nil
  have hD : PS.DirectUnk pes := by
    refine ⟨rfl, ?_⟩
    intro u d hfd
    simp only [pes, PEntities.find?] at hfd
    split at hfd
    · cases hfd
      constructor
      · intro a r hl
        simp only [lookupKV] at hl
        split at hl
        · cases hl; exact ⟨_, _, rfl⟩
        · cases hl
      · intro a r hl; simp [lookupKV] at hl
    · cases hfd
  have hfrag : ∀ p, p ∈ ps → PS.Frag2 σ p.condition ∧ p.condition.unknowns = [] := by
    intro p hp
    simp only [ps, List.mem_cons, List.not_mem_nil, or_false] at hp
    rcases hp with rfl | rfl | rfl
    · exact ⟨.binaryApp .eq (.getAttr "level" (.var _)) (.lit _), rfl⟩
    · exact ⟨.binaryApp .less (.getAttr "level" (.var _)) (.lit _), rfl⟩
    · exact ⟨.binaryApp .eq (.var _) (.slot _), rfl⟩
  obtain ⟨hf1, hf2⟩ := PS.fuelOKOn_spec (pes2 := pes) (σ := σ) (req := req) (preq := preq) (pes := pes) (ps := ps) (by decide +kernel)
  obtain ⟨⟨pr2, h1, h2, _, h4⟩, _⟩ := partial_authorization_sound_direct σ req es preq pes ps ⟨trivial, trivial⟩
    hS hD ⟨⟨rfl, rfl⟩, rfl, rfl, rfl⟩ hfrag rfl (by decide +kernel) hf1 hf2
  exact ⟨hD, by decide +kernel, by decide +kernel, by decide +kernel, pr2, h1, h2, h4⟩

/-- **concretize_request_sound** — what `PartialResponse::concretize_request` computes is the relation the soundness
theorems assume.  If the model's `concretizeRequest σ` (the do-block mirroring the Rust function: principal / action /
resource through `EntityUIDEntry::concretize` — σ's value must be an entity, a known entry must not be re-bound, a typed
unknown must receive an entity of that type —; a missing context replaced by σ's `context` record, a present one conflicting
with it; then `Context::substitute` = substitution + restricted evaluation) returns the **concrete** request `req`, then
`PS.Concretizes2 σ es preq req` for every store `es`.  Side condition on the input: a residual context lies in the fragment
(`PS.CtxFrag`: σ defines its unknowns with canonical values of the annotated types; distinct keys).  Built from
`concretize_entry_gives_conc`, `context_substitute_gives_completes`, `restricted_eval_sound`. -/
theorem concretize_request_sound (σ : Mapper) (preq : PRequest) (pes : PEntities) (ps : List Policy) (es : Entities)
    (req : Request) (hcf : PS.CtxFrag σ preq.context)
    (hreq : (isAuthorizedCore [] preq pes ps).concretizeRequest σ = .ok (.ofConcrete req)) :
    PS.Concretizes2 σ es preq req := by
  have h := PS.concretizes2_of_concretizeRequest (isAuthorizedCore [] preq pes ps) σ es req
    (by rw [PS.isAuthorizedCore_request]; exact hcf) hreq
  rw [PS.isAuthorizedCore_request] at h
  exact h

/-- **partial_authorization_sound_req** — `partial_authorization_sound` with the request hypotheses reduced to ONE:
`concretize_request σ` succeeds with the concrete request `req` (`PS.Concretizes2` is derived by `concretize_request_sound`).
Remaining hypotheses: the store (`StoreCompletes`, canonical values), the policies and a residual context lie in the
fragment, no residual keeps a slot, fuel. -/
theorem partial_authorization_sound_req (σ : Mapper) (req : Request) (es : Entities) (preq : PRequest) (pes : PEntities)
    (ps : List Policy) (hctx : (Value.record req.context).Canon) (hstore : PS.StoreCanon es)
    (hS : PS.StoreCompletes σ pes es)
    (hfrag : ∀ p, p ∈ ps → PS.Frag2 σ p.condition ∧ p.condition.unknowns = [])
    (hcf : PS.CtxFrag σ preq.context)
    (hreq : (isAuthorizedCore [] preq pes ps).concretizeRequest σ = .ok (.ofConcrete req))
    (hslot : (isAuthorizedCore [] preq pes ps).residualPoliciesPanic = false)
    (hfuel1 : ∀ p, p ∈ ps → partialEvaluate [] preq pes p ≠ .stuck)
    (hfuel2 : ∀ p, p ∈ ps → ∀ q, residualPolicy (partialEvaluate [] preq pes p) p = some q →
      partialEvaluate σ (.ofConcrete req) (.ofConcrete es) q ≠ .stuck) :
    let pr := isAuthorizedCore [] preq pes ps
    (∃ pr2, pr.reauthorize σ (.ofConcrete es) = .ok pr2 ∧
      pr2.decision = some (isAuthorized req es ps).decision ∧
      pr2.concretize.decision = (isAuthorized req es ps).decision ∧
      (∀ id, id ∈ pr2.concretize.reasons ↔ id ∈ (isAuthorized req es ps).reasons)) ∧
    (∀ d, pr.decision = some d → (isAuthorized req es ps).decision = d) ∧
    (∀ id, id ∈ pr.mustBeDetermining → id ∈ (isAuthorized req es ps).reasons) ∧
    (∀ id, id ∈ (isAuthorized req es ps).reasons → id ∈ pr.mayBeDetermining) :=
  partial_authorization_sound σ req es preq pes ps hctx hstore hS
    (concretize_request_sound σ preq pes ps es req hcf hreq) hfrag hreq hslot hfuel1 hfuel2

/-- … and the one-round statement on the unsubstituted store, likewise. -/
theorem partial_authorization_sound_direct_req (σ : Mapper) (req : Request) (es : Entities) (preq : PRequest) (pes : PEntities)
    (ps : List Policy) (hctx : (Value.record req.context).Canon)
    (hS : PS.StoreCompletes σ pes es) (hD : PS.DirectUnk pes)
    (hfrag : ∀ p, p ∈ ps → PS.Frag2 σ p.condition ∧ p.condition.unknowns = [])
    (hcf : PS.CtxFrag σ preq.context)
    (hreq : (isAuthorizedCore [] preq pes ps).concretizeRequest σ = .ok (.ofConcrete req))
    (hslot : (isAuthorizedCore [] preq pes ps).residualPoliciesPanic = false)
    (hfuel1 : ∀ p, p ∈ ps → partialEvaluate [] preq pes p ≠ .stuck)
    (hfuel2 : ∀ p, p ∈ ps → ∀ q, residualPolicy (partialEvaluate [] preq pes p) p = some q →
      partialEvaluate σ (.ofConcrete req) pes q ≠ .stuck) :
    let pr := isAuthorizedCore [] preq pes ps
    (∃ pr2, pr.reauthorize σ pes = .ok pr2 ∧
      pr2.decision = some (isAuthorized req es ps).decision ∧
      pr2.concretize.decision = (isAuthorized req es ps).decision ∧
      (∀ id, id ∈ pr2.concretize.reasons ↔ id ∈ (isAuthorized req es ps).reasons)) ∧
    (∀ d, pr.decision = some d → (isAuthorized req es ps).decision = d) ∧
    (∀ id, id ∈ pr.mustBeDetermining → id ∈ (isAuthorized req es ps).reasons) ∧
    (∀ id, id ∈ (isAuthorized req es ps).reasons → id ∈ pr.mayBeDetermining) :=
  partial_authorization_sound_direct σ req es preq pes ps hctx hS hD
    (concretize_request_sound σ preq pes ps es req hcf hreq) hfrag hreq hslot hfuel1 hfuel2

/-- non-vacuity of `concretize_request_sound` / `partial_authorization_sound_req`: typed unknown principal, **residual
    context** `{lim: unknown("l": long)}`, the store of `second_round_needed` (nested and direct unknown attributes);
    `principal.level < context.lim`.  `concretize_request` computes the concrete request (kernel-checked `rfl`), from which
    `Concretizes2` follows; one round on the substituted store gives the concrete `Allow`.  Rejections of
    `concretize_request`: a non-entity value for `principal`, an entity of the wrong type, re-binding the known action. -/
example :
    let σ : Mapper := [("principal", .prim (.entityUID ⟨"User", "a"⟩)), ("u", .prim (.int 1)), ("l", .prim (.int 7))]
    let req : Request := ⟨⟨"User", "a"⟩, ⟨"A", "x"⟩, ⟨"R", "r"⟩, [("lim", .prim (.int 7))]⟩
    let preq : PRequest := ⟨.unknown (some "User"), .known ⟨"A", "x"⟩, .known ⟨"R", "r"⟩,
      some (.residual [("lim", .unknown "l" (some .long))])⟩
    let p : Policy := ⟨"lt", .permit, .binaryApp .less (.getAttr (.var .principal) "level") (.getAttr (.var .context) "lim"), []⟩
    (isAuthorizedCore [] preq PS.srPes [p]).concretizeRequest σ = .ok (.ofConcrete req) ∧
    PS.Concretizes2 σ PS.srEs preq req ∧
    (isAuthorizedCore [] preq PS.srPes [p]).decision = none ∧
    (∃ pr2, (isAuthorizedCore [] preq PS.srPes [p]).reauthorize σ (.ofConcrete PS.srEs) = .ok pr2 ∧
      pr2.decision = some (isAuthorized req PS.srEs [p]).decision ∧ (isAuthorized req PS.srEs [p]).decision = .allow) ∧
    (isAuthorizedCore [] preq PS.srPes [p]).concretizeRequest [("principal", .prim (.int 3))] = .error .concretization ∧
    (isAuthorizedCore [] preq PS.srPes [p]).concretizeRequest [("principal", .prim (.entityUID ⟨"Group", "g"⟩))] = .error .concretization ∧
    (isAuthorizedCore [] preq PS.srPes [p]).concretizeRequest [("action", .prim (.entityUID ⟨"A", "x"⟩))] = .error .concretization := by
  intro σ req preq p
  have hl : PS.UnkOK σ "l" (some .long) := ⟨_, rfl, trivial, by intro t ht; cases ht; rfl⟩
  have hu : PS.UnkOK σ "u" none := ⟨_, rfl, trivial, by intro t ht; cases ht⟩
  have hcf : PS.CtxFrag σ preq.context := by
    intro kvs hk
    cases hk
    refine .record (by decide) ?_
    intro kv hkv; simp only [List.mem_cons, List.not_mem_nil, or_false] at hkv; subst hkv; exact .unknown _ _ hl
  have hreq : (isAuthorizedCore [] preq PS.srPes [p]).concretizeRequest σ = .ok (.ofConcrete req) := rfl
  have hcan : (Value.record [("x", .prim (.int 1))]).Canon := ⟨⟨(by intro k' h; cases h), trivial⟩, trivial, trivial⟩
  have hstore : PS.StoreCanon PS.srEs := by
    intro u d h
    simp only [PS.srEs, Entities.find?] at h
    split at h
    · cases h; exact ⟨⟨hcan, trivial, trivial⟩, trivial, trivial⟩
    · cases h
  have hS : PS.StoreCompletes σ PS.srPes PS.srEs := by
    refine PS.storeCompletes_single _ _ _ rfl
      (PS.attrsComplete_cons "info" (show PS.AttrCompletes _ _ (.residual _) _ from ⟨.record (by decide) ?_, hcan, fun _ _ => rfl⟩)
        (PS.attrsComplete_cons "level" (show PS.AttrCompletes _ _ (.residual _) (.prim (.int 1)) from ⟨.unknown _ _ hu, trivial, fun _ _ => rfl⟩)
          PS.attrsComplete_nil))
      (PS.attrsComplete_cons "t" (show PS.AttrCompletes _ _ (.residual _) (.prim (.int 1)) from ⟨.unknown _ _ hu, trivial, fun _ _ => rfl⟩)
        PS.attrsComplete_nil)
    intro kv hkv; simp only [List.mem_cons, List.not_mem_nil, or_false] at hkv; subst hkv; exact .unknown _ _ hu
  have hfrag : ∀ q, q ∈ [p] → PS.Frag2 σ q.condition ∧ q.condition.unknowns = [] := by
    intro q hq; simp only [List.mem_cons, List.not_mem_nil, or_false] at hq; subst hq
    exact ⟨.binaryApp .less (.getAttr "level" (.var _)) (.getAttr "lim" (.var _)), rfl⟩
  obtain ⟨hf1, hf2⟩ := PS.fuelOK_spec (σ := σ) (req := req) (es := PS.srEs) (preq := preq) (pes := PS.srPes) (ps := [p])
    (by decide +kernel)
  have hctx : (Value.record req.context).Canon := ⟨⟨(by intro k' h; cases h), trivial⟩, trivial, trivial⟩
  obtain ⟨⟨pr2, h1, h2, _, _⟩, _⟩ := partial_authorization_sound_req σ req PS.srEs preq PS.srPes [p] hctx hstore hS hfrag hcf hreq
    (by decide +kernel) hf1 hf2
  exact ⟨hreq, concretize_request_sound σ preq PS.srPes [p] PS.srEs req hcf hreq, by decide +kernel, ⟨pr2, h1, h2, by decide +kernel⟩,
    rfl, rfl, rfl⟩

/-- … the other context branch of `concretize_request`: a **missing** context supplied by σ's `context` record; a context that
    is present conflicts with it; a non-record value for `context` is rejected. -/
example :
    let σ : Mapper := [("context", .record [("lim", .prim (.int 7))])]
    let req : Request := ⟨⟨"User", "a"⟩, ⟨"A", "x"⟩, ⟨"R", "r"⟩, [("lim", .prim (.int 7))]⟩
    let preq : PRequest := ⟨.known ⟨"User", "a"⟩, .known ⟨"A", "x"⟩, .known ⟨"R", "r"⟩, none⟩
    (isAuthorizedCore [] preq ⟨[], false⟩ []).concretizeRequest σ = .ok (.ofConcrete req) ∧
    PS.Concretizes2 σ [] preq req ∧
    (isAuthorizedCore [] (.ofConcrete req) ⟨[], false⟩ []).concretizeRequest σ = .error .concretization ∧
    (isAuthorizedCore [] preq ⟨[], false⟩ []).concretizeRequest [("context", .prim (.int 1))] = .error .concretization := by
  intro σ req preq
  have hreq : (isAuthorizedCore [] preq ⟨[], false⟩ []).concretizeRequest σ = .ok (.ofConcrete req) := rfl
  exact ⟨hreq, concretize_request_sound σ preq ⟨[], false⟩ [] [] req (by intro kvs hk; cases hk) hreq, rfl, rfl⟩

/-! ### calls of the `unknown` extension function in the policy text -/

/-- **unknown_call_counterexample** (kernel-checked) — the soundness statement is FALSE for policies that call the
`unknown` extension function, in both forms, so the side condition `fn ≠ "unknown"` of `Frag2.call` cannot be dropped.
Rust: in `partial_interpret` the arm `ExtensionFunctionApp` evaluates the arguments and calls `efunc.call`, which for `unknown`
(`extensions/partial_evaluation.rs: create_new_unknown`) returns `PartialValue::Residual(Expr::unknown(Unknown::new_untyped(s)))`
directly — an unknown *node*, not passed through the unknowns mapper; `Evaluator::interpret` (concrete evaluation) turns that
residual into the error `non_value`; `Expr::substitute` replaces unknown nodes only, it never touches the call.  Hence for
`permit when { unknown("x") == 1 }`, a fully concrete request, the empty store and σ = {x ↦ 1}:
  * the first pass leaves `unknown(x) == 1` (a node now) — also with a first-pass mapper that defines `x`;
  * substitution form: the substituted residual evaluates to `true`, the substituted policy text (= the policy text) is an
    error;
  * `reauthorize` form: one `reauthorize σ` round answers `Allow`, the fresh concrete authorization of the policy answers
    `Deny` (the policy errors) — although every other hypothesis of `partial_authorization_sound` holds (`unknowns = []`,
    no slot, `concretize_request` succeeds, no budget exhaustion);
  * read as the node it creates (`PS.desugarUnk`), the policy is in `Frag2 σ` and concretely `Allow`: the only concrete
    counterpart such a policy has is its (substituted) desugaring. -/
theorem unknown_call_counterexample :
    let e : Expr := .binaryApp .eq (.call "unknown" [.lit (.string "x")]) (.lit (.int 1))
    let r : Expr := .binaryApp .eq (.unknown "x" none) (.lit (.int 1))
    let σ : Mapper := [("x", .prim (.int 1))]
    let req : Request := ⟨⟨"U", "a"⟩, ⟨"A", "x"⟩, ⟨"R", "r"⟩, []⟩
    let p : Policy := ⟨"p", .permit, e, []⟩
    let p' : Policy := ⟨"p", .permit, (PS.desugarUnk e).substUnk σ, []⟩
    pinterp [] (.ofConcrete req) ⟨[], false⟩ [] 10 e = .res r ∧
    pinterp σ (.ofConcrete req) ⟨[], false⟩ [] 10 e = .res r ∧
    e.substUnk σ = e ∧ e.unknowns = [] ∧
    evaluate req [] [] (r.substUnk σ) = .ok (.prim (.bool true)) ∧
    evaluate req [] [] (e.substUnk σ) = .error .ext ∧
    ¬ PS.Agree (evaluate req [] [] (r.substUnk σ)) (evaluate req [] [] (e.substUnk σ)) ∧
    (isAuthorizedCore [] (.ofConcrete req) ⟨[], false⟩ [p]).concretizeRequest σ = .ok (.ofConcrete req) ∧
    (isAuthorizedCore [] (.ofConcrete req) ⟨[], false⟩ [p]).residualPoliciesPanic = false ∧
    PS.fuelOK σ req [] (.ofConcrete req) ⟨[], false⟩ [p] = true ∧
    (∃ pr2, (isAuthorizedCore [] (.ofConcrete req) ⟨[], false⟩ [p]).reauthorize σ (.ofConcrete []) = .ok pr2 ∧
      pr2.decision = some .allow) ∧
    (isAuthorized req [] [p]).decision = .deny ∧
    PS.desugarUnk e = r ∧ PS.Frag2 σ (PS.desugarUnk e) ∧ (isAuthorized req [] [p']).decision = .allow := by
  intro e r σ req p p'
  have h1 : evaluate req [] [] (r.substUnk σ) = .ok (.prim (.bool true)) := by with_unfolding_all rfl
  have h2 : evaluate req [] [] (e.substUnk σ) = .error .ext := by with_unfolding_all rfl
  refine ⟨rfl, rfl, rfl, rfl, h1, h2, ?_, rfl, by decide +kernel, by decide +kernel, ⟨_, rfl, by decide +kernel⟩,
    by decide +kernel, rfl, ?_, by decide +kernel⟩
  · rw [h1, h2]
    rintro (⟨v, _, hv⟩ | ⟨c, c', hc, _⟩)
    · cases hv
    · cases hc
  · exact .binaryApp .eq (.unknown "x" none ⟨_, rfl, trivial, by intro t ht; cases ht⟩) (.lit _)

/-- **Full statement for `unknown` calls**, kept visible; NOT proved.  The sound reading of a policy that calls
`unknown("s")` with a literal name is its desugaring `PS.desugarUnk` (the call replaced by the untyped unknown node it
creates): the first pass (empty mapper, as in `is_authorized_core`) on the policy text is sound for the substituted
*desugared* text; residuals are compared after desugaring too, because the best-effort fall-back (`bestEffort`) copies
original operands — calls included — into residuals.  Calls with a computed name (`unknown(context.n)`) stay outside. -/
def UnknownCallSoundFull : Prop :=
  ∀ (σ : Mapper) (req : Request) (es : Entities) (env : SlotEnv) (e : Expr) (preq : PRequest) (pes : PEntities) (n : Nat),
    (Value.record req.context).Canon → PS.Frag2 σ (PS.desugarUnk e) → PS.StoreCompletes σ pes es → PS.Concretizes2 σ es preq req →
    match pinterp [] preq pes env n e with
    | .val v => evaluate req es env ((PS.desugarUnk e).substUnk σ) = .ok v
    | .err _ => ∃ c, evaluate req es env ((PS.desugarUnk e).substUnk σ) = .error c
    | .res r => PS.Agree (evaluate req es env ((PS.desugarUnk r).substUnk σ)) (evaluate req es env ((PS.desugarUnk e).substUnk σ))
    | .fuel => True
    | .panic => True

/-- **unknown_call_sound_partial** — what is proved of `UnknownCallSoundFull`: the call itself.  For every mapper, partial
request, store and budget ≥ 2 the first pass turns `unknown("s")` into the node `unknown(s)` (never consulting the
mapper), and if σ defines `s` that residual, substituted, evaluates to σ's value — the value of the substituted desugaring.
Missing: the congruence "first pass of `e` = first pass of `desugarUnk e` up to desugaring of residuals and one unit of
budget per call" through all arms of `partial_interpret` (best-effort fall-backs, `get_attr` re-interpretation, typed-unknown
short circuits — which never fire on the untyped node a call creates). -/
theorem unknown_call_sound_partial (σ m : Mapper) (req : Request) (es : Entities) (env : SlotEnv) (preq : PRequest)
    (pes : PEntities) (n : Nat) (s : String) (hs : PS.UnkOK σ s none) :
    let e : Expr := .call "unknown" [.lit (.string s)]
    PS.desugarUnk e = .unknown s none ∧
    pinterp m preq pes env (n + 2) e = .res (PS.desugarUnk e) ∧
    ∃ v, lookupKV σ s = some v ∧ evaluate req es env ((PS.desugarUnk e).substUnk σ) = .ok v := by
  intro e
  obtain ⟨v, hl, hcan, _⟩ := hs
  have hd : PS.desugarUnk e = .unknown s none := by simp [e, PS.desugarUnk, PS.isUnkCall]
  refine ⟨hd, ?_, v, hl, ?_⟩
  · rw [hd]; exact PS.pinterp_unknownCall m preq pes env n s
  · rw [hd]; exact PS.Y_unknown σ req es env hl hcan

/-- kernel-checked instance of `UnknownCallSoundFull` beyond the bare call: unknown principal, `unknown("y") && (1 + "a" ==
    unknown("x")) || principal == unknown("z")` — the erroring right operand of `&&` is copied into the residual by the
    best-effort fall-back, call included; after desugaring, both sides evaluate to `true` under σ. -/
example :
    let σ : Mapper := [("principal", .prim (.entityUID ⟨"U", "a"⟩)), ("x", .prim (.int 1)), ("y", .prim (.bool false)),
      ("z", .prim (.entityUID ⟨"U", "a"⟩))]
    let req : Request := ⟨⟨"U", "a"⟩, ⟨"A", "x"⟩, ⟨"R", "r"⟩, []⟩
    let preq : PRequest := ⟨.unknown (some "U"), .known ⟨"A", "x"⟩, .known ⟨"R", "r"⟩, some (.value [])⟩
    let e : Expr := .or (.and (.call "unknown" [.lit (.string "y")])
        (.binaryApp .eq (.binaryApp .add (.lit (.int 1)) (.lit (.string "a"))) (.call "unknown" [.lit (.string "x")])))
      (.binaryApp .eq (.var .principal) (.call "unknown" [.lit (.string "z")]))
    let r : Expr := .or (.and (.unknown "y" none)
        (.binaryApp .eq (.binaryApp .add (.lit (.int 1)) (.lit (.string "a"))) (.call "unknown" [.lit (.string "x")])))
      (.binaryApp .eq (.unknown "principal" (some (.entity "U"))) (.unknown "z" none))
    pinterp [] preq ⟨[], false⟩ [] 10 e = .res r ∧
    evaluate req [] [] ((PS.desugarUnk r).substUnk σ) = .ok (.prim (.bool true)) ∧
    evaluate req [] [] ((PS.desugarUnk e).substUnk σ) = .ok (.prim (.bool true)) := by
  intro σ req preq e r
  exact ⟨rfl, by with_unfolding_all rfl, by with_unfolding_all rfl⟩

end Cedar.C13
