import CedarVerif.Lemmas.PartialTable2
import CedarVerif.Lemmas.PartialSound6
import CedarVerif.Lemmas.PartialReauth
import CedarVerif.Lemmas.PartialFull
import CedarVerif.Lemmas.PartialBridge
import CedarVerif.Lemmas.PartialSubst5
/-
C13 — partial evaluation with unknowns is sound.  Property theorems only (helpers: Lemmas/Partial*.lean).
Model: Cedar/Partial.lean (`pinterp`, `PartialResponse`, `reauthorize`).
What is proved:
  * `table_sound` (full);
  * `pinterp_sound_partial` on `Frag` (reauthorize form; side condition `CallDRT` now discharged for EVERY extension
    function by `callDRT_every`; hypotheses `DRT`/`StoreDRT` follow from `Value.Canon` by `drt_of_canon`);
  * `pinterp_sound_subst` on `Frag2 σ` — the `evaluate ∘ substUnk` form of the statement, with unknown nodes in the
    expression, `.`/`has` directly on record constructors (projection arm of `get_attr`), every extension function;
    `pinterp_sound_partial2`: the reauthorize form on `Frag2 σ`;
  * `reauthorize_eq_fresh` (given policy-level agreement), `reauthorize_eq_fresh_frag` (on `Frag`),
    `reauthorize_eq_fresh_frag2` (on `Frag2 σ`, policies without unknown nodes in their text);
  * `pinterpSoundFull_needs_cover`: the kept full statement is false for a substitution that leaves a typed unknown
    undefined (typed-unknown short circuits) — it has to be read with σ defining every unknown.
`Frag` and `Frag2 σ` are formally incomparable only because `Frag2.record` asks for pairwise distinct keys (what the parser
and `Expr::record` guarantee; without it `get_attr`'s projection — first binding — and record evaluation — last binding —
differ in the model).
Still missing w.r.t. `PinterpSoundFull`: residual contexts (`Context::Residual`), unknown attribute / tag values in
entities, `.partial()` stores (`Dereference::Residual`), calls of the `unknown` function in the policy text (no concrete
counterpart: `Expr::substitute` does not look into them).
-/
namespace Cedar.C13
open Cedar

/-- **table_sound** (full, combinatorial).  For every completion `out` of the policies to final outcomes that is
consistent with what partial evaluation established (satisfied / false / errored stay so, residuals arbitrary):
a definite partial decision is the concrete decision; `must ⊆ determining ⊆ may`; the definite buckets keep
their outcome.  Holds for arbitrary policy lists, partial requests, stores and mappers. -/
theorem table_sound (m : Mapper) (req : PRequest) (es : PEntities) (ps : List Policy) (out : Policy → Outcome)
    (hc : ∀ p, p ∈ ps → Consistent (partialEvaluate m req es p) (out p)) :
    let pr := isAuthorizedCore m req es ps
    (∀ d, pr.decision = some d → concreteDecision ps out = d) ∧
    (∀ id, id ∈ pr.mustBeDetermining → id ∈ determining ps out) ∧
    (∀ id, id ∈ determining ps out → id ∈ pr.mayBeDetermining) ∧
    (∀ id, id ∈ pr.definitelySatisfied → ∃ p, p ∈ ps ∧ p.id = id ∧ out p = .sat) ∧
    (∀ id, id ∈ pr.definitelyErrored → ∃ p, p ∈ ps ∧ p.id = id ∧ out p = .err) ∧
    (∀ id, id ∈ pr.definitelyFalse → ∃ p, p ∈ ps ∧ p.id = id ∧ out p = .unsat) := by
  intro pr
  obtain ⟨h1, h2, h3⟩ := table_sound_core m req es ps out hc
  obtain ⟨h4, h5, h6⟩ := definite_sound_core m req es ps out hc
  exact ⟨h1, h2, h3, h4, h5, h6⟩

/-- non-vacuity of `table_sound`: unknown principal; a satisfied permit, a residual permit, an errored forbid.
    The partial decision is `allow`, must = {p1}, may = {p1, p2}. -/
example :
    let req : PRequest := ⟨.unknown (some "U"), .known ⟨"A", "x"⟩, .known ⟨"R", "r"⟩, some (.value [])⟩
    let es : PEntities := ⟨[], false⟩
    let p1 : Policy := ⟨"p1", .permit, .lit (.bool true), []⟩
    let p2 : Policy := ⟨"p2", .permit, .binaryApp .eq (.var .principal) (.lit (.entityUID ⟨"U", "a"⟩)), []⟩
    let p3 : Policy := ⟨"p3", .forbid, .getAttr (.var .context) "nosuch", []⟩
    let pr := isAuthorizedCore [] req es [p1, p2, p3]
    pr.decision = some .allow ∧ pr.mustBeDetermining = ["p1"] ∧ pr.mayBeDetermining = ["p1", "p2"] ∧
    pr.definitelyErrored = ["p3"] := by
  decide +kernel


/-- **Full statement of `pinterp_sound`** (DESIGN.md §6 C13), kept visible; NOT proved in full.
For every substitution σ respecting the type annotations, every concretisation of the request and every
completion of the store: substituting σ into what partial interpretation returned evaluates like the substituted
original expression (equal values modulo `Value.beq`, or both errors), and a definite error of partial
interpretation means the concrete evaluation errors.  All expression forms, residual contexts, unknown attribute
values and `.partial()` stores are included. -/
def PinterpSoundFull : Prop :=
  ∀ (σ : Mapper) (preq : PRequest) (pes : PEntities) (req : Request) (es : Entities) (env : SlotEnv) (e : Expr) (n : Nat),
    ConcretizesFull σ preq req → StoreCompletes σ pes es →
    RespectsTypes σ (e.unknowns ++ preq.unknowns ++ pes.unknowns) →
    match pinterp [] preq pes env n e with
    | .val v => ResultAgree (evaluate req es env (v.toExpr.substUnk σ)) (evaluate req es env (e.substUnk σ))
    | .res r => ResultAgree (evaluate req es env (r.substUnk σ)) (evaluate req es env (e.substUnk σ))
    | .err _ => ∃ c, evaluate req es env (e.substUnk σ) = .error c
    | .fuel => True
    | .panic => True

/-- **the full statement needs a covering substitution** (observation about the *statement*, not about the code):
`PinterpSoundFull` as written only asks σ to respect the annotations of the unknowns it defines.  The typed-unknown short
circuits (`unknown(x: A) == B::"b"` is `false`, `… is A` is `true`) answer for every later value of the declared type,
whereas evaluating the substituted expression with `x` still unknown is an error; so for σ = ∅ the statement fails.
`pinterp_sound_subst` therefore requires σ to define every unknown node (`UnkOK` in `Frag2.unknown`) — the same
reading as "for every substitution *of the unknowns*" in DESIGN.md. -/
theorem pinterpSoundFull_needs_cover : ¬ PinterpSoundFull := by
  intro h
  let preq : PRequest := ⟨.known ⟨"U", "a"⟩, .known ⟨"A", "x"⟩, .known ⟨"R", "r"⟩, some (.value [])⟩
  let req : Request := ⟨⟨"U", "a"⟩, ⟨"A", "x"⟩, ⟨"R", "r"⟩, []⟩
  let e : Expr := .binaryApp .eq (.unknown "x" (some (.entity "A"))) (.lit (.entityUID ⟨"B", "b"⟩))
  have hC : ConcretizesFull [] preq req := ⟨rfl, rfl, rfl, rfl⟩
  have hS : StoreCompletes [] ⟨[], false⟩ [] := by intro u; rfl
  have hR : RespectsTypes [] (e.unknowns ++ preq.unknowns ++ (⟨[], false⟩ : PEntities).unknowns) := by
    intro n t v _ hl; simp [lookupKV] at hl
  have := h [] preq ⟨[], false⟩ req [] [] e 3 hC hS hR
  have hx : pinterp [] preq ⟨[], false⟩ [] 3 e = .val (.prim (.bool false)) := rfl
  rw [hx] at this
  rcases this with ⟨v, w, _, h2, _⟩ | ⟨c, c', h1, _⟩
  · simp [e, Expr.substUnk, lookupKV, evaluate] at h2
  · simp [Value.toExpr, Expr.substUnk, evaluate] at h1

/-- **pinterp_sound_partial**: `PinterpSoundFull` restricted to the fragment `Frag` (literals, `principal`/
`action`/`resource`/`context` incl. unknown — typed or untyped — principal/action/resource and a missing
context, slots, `&&`, `||`, `if`, every unary operator, all twelve binary operators — the nine store-free ones incl.
the typed-unknown `==` short circuits, and `in` / `getTag` / `hasTag` on the complete store —, `.`/`has` on records
and entities (not applied directly to a record constructor or an `if` with such a branch: `NR`), `like`, `is` incl.
its typed-unknown short circuit, set and record constructors and extension-function calls with the `split` semantics:
all components values ⇒ a value (canonical set / key-sorted record, which round-trips), otherwise a residual set /
record / call with the values converted back to expressions; calls for functions satisfying `CallDRT` — proved for the comparison, predicate and conversion
functions in `callDRT_decimalCmp`, `callDRT_unaryPrim`, `callDRT_isInRange`; for the constructors it is the print/parse
round trip of the canonical rendering), a concrete store, and context/attribute/tag values that survive `Value.toExpr`
(`DRT`; trivial for primitives).  The residual is evaluated the way `reauthorize` does it (same interpreter, mapper σ, concretised
request); `Sem` = equal values, or both errors (error classes may differ).  Proved by induction on the
fragment, for every first-pass mapper, partial request and fuel.
Missing w.r.t. the full statement: `.`/`has` applied directly to a record constructor (the residual is a record
literal, which `get_attr` projects into and re-interprets), `CallDRT` for the extension constructors, unknowns in the
policy text, residual contexts, unknown attribute values, `.partial()` stores, and the `subst`-form. -/
theorem pinterp_sound_partial (σ : Mapper) (req : Request) (es : Entities) (env : SlotEnv)
    (hctx : (Value.record req.context).DRT) (hstore : StoreDRT es) {e : Expr} (hf : Frag e)
    (m0 : Mapper) (preq : PRequest) (n : Nat) (hC : Concretizes σ preq req) :
    match pinterp m0 preq (.ofConcrete es) env n e with
    | .val v => evaluate req es env e = .ok v
    | .err _ => ∃ c, evaluate req es env e = .error c
    | .res r => ∀ n', Sem (pinterp σ (.ofConcrete req) (.ofConcrete es) env n' r) (evaluate req es env e)
    | .fuel => True
    | .panic => True := by
  have h := pinterp_sound_frag σ req es env hctx hstore hf m0 preq n hC
  cases hx : pinterp m0 preq (.ofConcrete es) env n e with
  | val v => rw [hx] at h; exact h.1
  | err c => rw [hx] at h; exact h
  | res r => rw [hx] at h; exact h.2.2
  | fuel => trivial
  | panic => trivial

/-- non-vacuity of `pinterp_sound_partial`: `principal == U::"a" && !(context has x)` with a typed unknown
    principal leaves a residual; the hypotheses are satisfiable and the conclusion is about that residual. -/
example :
    let σ : Mapper := [("principal", .prim (.entityUID ⟨"U", "a"⟩))]
    let req : Request := ⟨⟨"U", "a"⟩, ⟨"A", "x"⟩, ⟨"R", "r"⟩, []⟩
    let preq : PRequest := ⟨.unknown (some "U"), .known ⟨"A", "x"⟩, .known ⟨"R", "r"⟩, some (.value [])⟩
    let e : Expr := .and (.binaryApp .eq (.var .principal) (.lit (.entityUID ⟨"U", "a"⟩)))
                         (.unaryApp .not (.hasAttr (.var .context) "x"))
    (∃ r, pinterp [] preq (.ofConcrete []) [] 10 e = .res r) ∧
    ∀ n', Sem (pinterp σ (.ofConcrete req) (.ofConcrete []) [] n'
        (.and (.binaryApp .eq (.unknown "principal" (some (.entity "U"))) (.lit (.entityUID ⟨"U", "a"⟩))) (.lit (.bool true))))
      (evaluate req [] [] e) := by
  intro σ req preq e
  have hf : Frag e := .and (.binaryApp .eq (.var _) (.lit _)) (.unaryApp .not (.hasAttr "x" trivial (.var _)))
  have hC : Concretizes σ preq req := ⟨⟨rfl, rfl⟩, rfl, rfl, rfl⟩
  have hctx : (Value.record req.context).DRT := ⟨RT_emptyRecord, trivial⟩
  have hst : StoreDRT [] := by intro u d h; cases h
  have h := pinterp_sound_partial σ req [] [] hctx hst hf [] preq 10 hC
  exact ⟨⟨_, rfl⟩, h⟩

/-- non-vacuity for the constructors and the store-dependent operators: `[principal, User::"b"].contains(resource.owner)
    && context.d.lessThan(context.lim) && principal in Group::"g"` with an unknown principal is in the fragment and leaves
    a residual containing a residual set and a residual `in`. -/
example :
    let e : Expr := .and (.binaryApp .contains (.set [.var .principal, .lit (.entityUID ⟨"User", "b"⟩)]) (.getAttr (.var .resource) "owner"))
                     (.and (.call "lessThan" [.getAttr (.var .context) "d", .getAttr (.var .context) "lim"])
                           (.binaryApp .mem (.var .principal) (.lit (.entityUID ⟨"Group", "g"⟩))))
    let preq : PRequest := ⟨.unknown (some "User"), .known ⟨"A", "x"⟩, .known ⟨"R", "r"⟩,
      some (.value [("d", .ext (.decimal 10000)), ("lim", .ext (.decimal 20000))])⟩
    Frag e ∧ ∃ r, pinterp [] preq (.ofConcrete [(⟨"R", "r"⟩, ⟨[("owner", .prim (.entityUID ⟨"User", "b"⟩))], [], []⟩)]) [] 10 e = .res r := by
  intro e preq
  refine ⟨?_, _, rfl⟩
  refine .and (.binaryApp .contains (.set ?_) (.getAttr "owner" trivial (.var _)))
    (.and (.call "lessThan" (by decide) (callDRT_decimalCmp _ (Or.inl rfl)) ?_) (.binaryApp .mem (.var _) (.lit _)))
  · intro x hx
    simp only [List.mem_cons, List.not_mem_nil, or_false] at hx
    rcases hx with rfl | rfl
    · exact .var _
    · exact .lit _
  · intro x hx
    simp only [List.mem_cons, List.not_mem_nil, or_false] at hx
    rcases hx with rfl | rfl
    · exact .getAttr "d" trivial (.var _)
    · exact .getAttr "lim" trivial (.var _)

/-- … and for record constructors: `{a: principal, b: 1} == context.r` with an unknown principal leaves the residual
    `{a: unknown(principal), b: 1} == {a: User::"u", b: 1}` (the record value converted back by `Value.toExpr`). -/
example :
    let e : Expr := .binaryApp .eq (.record [("a", .var .principal), ("b", .lit (.int 1))]) (.getAttr (.var .context) "r")
    let preq : PRequest := ⟨.unknown (some "User"), .known ⟨"A", "x"⟩, .known ⟨"R", "r"⟩,
      some (.value [("r", .record [("a", .prim (.entityUID ⟨"User", "u"⟩)), ("b", .prim (.int 1))])])⟩
    Frag e ∧ pinterp [] preq (.ofConcrete []) [] 10 e =
      .res (.binaryApp .eq (.record [("a", .unknown "principal" (some (.entity "User"))), ("b", .lit (.int 1))])
                           (.record [("a", .lit (.entityUID ⟨"User", "u"⟩)), ("b", .lit (.int 1))])) := by
  intro e preq
  refine ⟨.binaryApp .eq (.record ?_) (.getAttr "r" trivial (.var _)), rfl⟩
  intro kv hkv
  simp only [List.mem_cons, List.not_mem_nil, or_false] at hkv
  rcases hkv with rfl | rfl
  · exact .var _
  · exact .lit _

/-- **reauthorize_eq_fresh** (given soundness of the residuals at policy level).  If the substitution concretises
the partial request to `req'`, no residual kept a template slot (otherwise `reauthorize` panics — the recorded
finding), and every policy's residual policy — re-evaluated with the mapper σ on the concretised request and
store, exactly as `reauthorize` does — is satisfied iff the policy is satisfied concretely (`PolicyAgrees`, the
policy-level consequence of `pinterp_sound`), then `reauthorize` succeeds and yields the decision and the
determining policies of the fresh concrete authorization `isAuthorized req' es' ps`. -/
theorem reauthorize_eq_fresh (σ : Mapper) (preq : PRequest) (pes : PEntities) (ps : List Policy)
    (req' : Request) (es' : Entities)
    (hreq : (isAuthorizedCore [] preq pes ps).concretizeRequest σ = .ok (.ofConcrete req'))
    (hslot : (isAuthorizedCore [] preq pes ps).residualPoliciesPanic = false)
    (hsound : ∀ p, p ∈ ps → PolicyAgrees σ preq pes req' es' p) :
    ∃ pr2, (isAuthorizedCore [] preq pes ps).reauthorize σ (.ofConcrete es') = .ok pr2 ∧
      pr2.decision = some (isAuthorized req' es' ps).decision ∧
      pr2.concretize.decision = (isAuthorized req' es' ps).decision ∧
      (∀ id, id ∈ pr2.concretize.reasons ↔ id ∈ (isAuthorized req' es' ps).reasons) :=
  reauthorize_core σ preq pes ps req' es' hreq hslot hsound

/-- non-vacuity of `reauthorize_eq_fresh`: unknown typed principal, one residual permit, one unsatisfied forbid
    guarded by the context; all hypotheses hold for the substitution principal ↦ U::"a". -/
example :
    let σ : Mapper := [("principal", .prim (.entityUID ⟨"U", "a"⟩))]
    let req' : Request := ⟨⟨"U", "a"⟩, ⟨"A", "x"⟩, ⟨"R", "r"⟩, []⟩
    let preq : PRequest := ⟨.unknown (some "U"), .known ⟨"A", "x"⟩, .known ⟨"R", "r"⟩, some (.value [])⟩
    let p1 : Policy := ⟨"p1", .permit, .unaryApp .not (.hasAttr (.var .principal) "blocked"), []⟩
    let p2 : Policy := ⟨"p2", .forbid, .hasAttr (.var .context) "x", []⟩
    (isAuthorizedCore [] preq ⟨[], false⟩ [p1, p2]).concretizeRequest σ = .ok (.ofConcrete req') ∧
    (isAuthorizedCore [] preq ⟨[], false⟩ [p1, p2]).residualPoliciesPanic = false ∧
    PolicyAgrees σ preq ⟨[], false⟩ req' [] p1 ∧ PolicyAgrees σ preq ⟨[], false⟩ req' [] p2 ∧
    (isAuthorizedCore [] preq ⟨[], false⟩ [p1, p2]).decision = none ∧
    (isAuthorized req' [] [p1, p2]).decision = .allow := by
  intro σ req' preq p1 p2
  refine ⟨rfl, rfl, ⟨_, rfl, ?_⟩, ⟨_, rfl, ?_⟩, rfl, ?_⟩
  · show p1.outcome req' [] = .sat
    rfl
  · show p2.outcome req' [] ≠ .sat
    decide
  · rfl


/-- **reauthorize_eq_fresh_frag**: the two results composed, without a soundness hypothesis.  For static policies
whose conditions lie in the fragment of `pinterp_sound_partial`, a concrete store and a substitution σ that
concretises the partial request: `reauthorize σ` returns the decision and determining policies of the fresh
concrete authorization.  (`hfuel*`: neither pass exhausts the model's recursion budget — an outcome the driver
reports explicitly and that never occurred; `hslot`: see the recorded finding.) -/
theorem reauthorize_eq_fresh_frag (σ : Mapper) (req : Request) (es : Entities) (preq : PRequest) (ps : List Policy)
    (hctx : (Value.record req.context).DRT) (hstore : StoreDRT es) (hC : Concretizes σ preq req)
    (hfrag : ∀ p, p ∈ ps → p.env = [] ∧ Frag p.condition)
    (hreq : (isAuthorizedCore [] preq (.ofConcrete es) ps).concretizeRequest σ = .ok (.ofConcrete req))
    (hslot : (isAuthorizedCore [] preq (.ofConcrete es) ps).residualPoliciesPanic = false)
    (hfuel1 : ∀ p, p ∈ ps → partialEvaluate [] preq (.ofConcrete es) p ≠ .stuck)
    (hfuel2 : ∀ p, p ∈ ps → ∀ q, residualPolicy (partialEvaluate [] preq (.ofConcrete es) p) p = some q →
      partialEvaluate σ (.ofConcrete req) (.ofConcrete es) q ≠ .stuck) :
    ∃ pr2, (isAuthorizedCore [] preq (.ofConcrete es) ps).reauthorize σ (.ofConcrete es) = .ok pr2 ∧
      pr2.decision = some (isAuthorized req es ps).decision ∧
      pr2.concretize.decision = (isAuthorized req es ps).decision ∧
      (∀ id, id ∈ pr2.concretize.reasons ↔ id ∈ (isAuthorized req es ps).reasons) :=
  reauthorize_core σ preq (.ofConcrete es) ps req es hreq hslot
    (fun p hp => policyAgrees_of_frag σ req es hctx hstore preq hC p (hfrag p hp).1 (hfrag p hp).2 (hfuel2 p hp) (hfuel1 p hp))

/-! ### the larger fragment `Frag2 σ` and the substitution form -/

/-- **callDRT_every**: the side condition `CallDRT` of `Frag.call` holds for *every* extension function — constructors
(`decimal`, `ip`, `datetime`, `duration`), `offset`, `durationSince`, `toDate`, `toTime` included: what they return lies in
the value range of the Rust types (i64 payloads, u32/u128 addresses with prefix ≤ 32/128 — proved from the parsers and
the checked arithmetic), and on that range the canonical constructor call `Ext.toExpr` parses back to the value (decimal,
duration, datetime, IPv4: the renderings coincide with the JSON canonical renderings of C10 and `extRoundTrip_*`'s
parse lemmas are reused; IPv6: the model renders the eight groups uncompressed, so IPv4-mapped addresses round-trip too). -/
theorem callDRT_every (fn : String) : CallDRT fn := callDRT_all fn

/-- values as Rust holds them (`Value.Canon`: canonical sets, key-sorted records, extension payloads in range) satisfy
the round-trip hypotheses `DRT` / `StoreDRT` of `pinterp_sound_partial`. -/
theorem drt_of_canon (v : Value) (h : v.Canon) : v.DRT := DRT_of_canon v h

example : CallDRT "ip" ∧ (Value.ext (.ipaddr true 0xffff01020304 128)).DRT ∧ (Value.ext (.decimal (-15000))).DRT :=
  ⟨callDRT_every _, drt_of_canon _ (show _ ∧ _ from ⟨by decide, by decide⟩), drt_of_canon _ (show inI64 (-15000) = true by decide)⟩

/-- **pinterp_sound_subst** — `PinterpSoundFull` (the `evaluate ∘ substUnk` form) on the fragment `Frag2 σ`, a concrete
store and a value-or-missing context.  `Frag2 σ`: every expression form — literals, variables, slots, **unknown nodes**
(σ must define them, with a canonical value of the annotated type), `&&`, `||`, `if`, all unary and binary operators,
`.`/`has` on anything (**including record constructors**: `get_attr`'s projection arm, which re-interprets a component of
the residual record, and the non-projectable arm), `like`, `is`, sets, records with pairwise distinct keys, **every
extension function** except the `unknown` function itself.  Hypotheses: the first-pass mapper is part of σ (`MapLE`; `[]`
in `is_authorized_core`), σ concretises the request, context / attribute / tag values are values as Rust holds them
(`Value.Canon`).  Conclusion: a value is the value of the substituted expression (and converting it back evaluates to
it); an error means the substituted expression errors; a residual, substituted, evaluates like the substituted
expression (equal values — strict equality, stronger than `Value.beq` — or both errors).
Proved by induction on the recursion budget (the re-interpreted record component is not a subterm). -/
theorem pinterp_sound_subst (σ : Mapper) (req : Request) (es : Entities) (env : SlotEnv)
    (hctx : (Value.record req.context).Canon) (hstore : PS.StoreCanon es) {e : Expr} (hf : PS.Frag2 σ e)
    (m0 : Mapper) (preq : PRequest) (n : Nat) (hm : PS.MapLE m0 σ) (hC : Concretizes σ preq req) :
    match pinterp m0 preq (.ofConcrete es) env n e with
    | .val v => evaluate req es env (v.toExpr.substUnk σ) = .ok v ∧ evaluate req es env (e.substUnk σ) = .ok v
    | .err _ => ∃ c, evaluate req es env (e.substUnk σ) = .error c
    | .res r => PS.Agree (evaluate req es env (r.substUnk σ)) (evaluate req es env (e.substUnk σ))
    | .fuel => True
    | .panic => True := by
  have h := PS.pinterp_sound2 σ req es env hctx hstore m0 preq hm hC n e hf
  cases hx : pinterp m0 preq (.ofConcrete es) env n e with
  | val v => rw [hx] at h; exact ⟨PS.Y_toExpr σ req es env h.2, h.1⟩
  | err c => rw [hx] at h; exact h
  | res r => rw [hx] at h; exact h.1
  | fuel => trivial
  | panic => trivial

/-- **pinterp_sound_partial2** — the `reauthorize` form on `Frag2 σ`: the residual, re-interpreted the way `reauthorize`
does it (same interpreter, mapper σ, concretised request and store), agrees with the concrete evaluation of the
substituted expression.  Obtained from `pinterp_sound_subst` and the bridge "with a mapper that defines every unknown,
partial interpretation on a concrete request and store leaves no residual and computes `evaluate ∘ substUnk σ`". -/
theorem pinterp_sound_partial2 (σ : Mapper) (req : Request) (es : Entities) (env : SlotEnv)
    (hctx : (Value.record req.context).Canon) (hstore : PS.StoreCanon es) {e : Expr} (hf : PS.Frag2 σ e)
    (m0 : Mapper) (preq : PRequest) (n : Nat) (hm : PS.MapLE m0 σ) (hC : Concretizes σ preq req) :
    match pinterp m0 preq (.ofConcrete es) env n e with
    | .val v => evaluate req es env (e.substUnk σ) = .ok v
    | .err _ => ∃ c, evaluate req es env (e.substUnk σ) = .error c
    | .res r => ∀ n', Sem (pinterp σ (.ofConcrete req) (.ofConcrete es) env n' r) (evaluate req es env (e.substUnk σ))
    | .fuel => True
    | .panic => True := by
  have h := PS.pinterp_sound2 σ req es env hctx hstore m0 preq hm hC n e hf
  cases hx : pinterp m0 preq (.ofConcrete es) env n e with
  | val v => rw [hx] at h; exact h.1
  | err c => rw [hx] at h; exact h
  | res r => rw [hx] at h; exact fun n' => PS.sem_of_agree (PS.bridge σ req es env hctx hstore h.2.2 n') h.1
  | fuel => trivial
  | panic => trivial

/-- non-vacuity (a): `!({a: principal, b: 1}.a in Group::"g")` with a typed unknown principal — the record constructor
    leaves a projectable residual record, `get_attr` projects into it and re-interprets the component; the residual is
    `!(unknown(principal) in Group::"g")`. -/
example :
    let σ : Mapper := [("principal", .prim (.entityUID ⟨"User", "u"⟩))]
    let req : Request := ⟨⟨"User", "u"⟩, ⟨"A", "x"⟩, ⟨"R", "r"⟩, []⟩
    let preq : PRequest := ⟨.unknown (some "User"), .known ⟨"A", "x"⟩, .known ⟨"R", "r"⟩, some (.value [])⟩
    let e : Expr := .unaryApp .not (.binaryApp .mem (.getAttr (.record [("a", .var .principal), ("b", .lit (.int 1))]) "a")
                      (.lit (.entityUID ⟨"Group", "g"⟩)))
    let r : Expr := .unaryApp .not (.binaryApp .mem (.unknown "principal" (some (.entity "User"))) (.lit (.entityUID ⟨"Group", "g"⟩)))
    pinterp [] preq (.ofConcrete []) [] 10 e = .res r ∧
    PS.Agree (evaluate req [] [] (r.substUnk σ)) (evaluate req [] [] (e.substUnk σ)) ∧
    (⟨"q", .permit, e.substUnk σ, []⟩ : Policy).outcome req [] = .sat := by
  intro σ req preq e r
  have hf : PS.Frag2 σ e := by
    refine .unaryApp .not (.binaryApp .mem (.getAttr "a" (.record (by decide) ?_)) (.lit _))
    intro kv hkv
    simp only [List.mem_cons, List.not_mem_nil, or_false] at hkv
    rcases hkv with rfl | rfl
    · exact .var _
    · exact .lit _
  have hC : Concretizes σ preq req := ⟨⟨rfl, rfl⟩, rfl, rfl, rfl⟩
  have hctx : (Value.record req.context).Canon := ⟨trivial, trivial⟩
  have hst : PS.StoreCanon [] := by intro u d h; cases h
  have hx : pinterp [] preq (.ofConcrete []) [] 10 e = .res r := rfl
  have h := pinterp_sound_subst σ req [] [] hctx hst hf [] preq 10 (PS.MapLE.nil σ) hC
  rw [hx] at h
  exact ⟨hx, h, by decide +kernel⟩

/-- non-vacuity (b), (c): an unknown node in the expression and a constructor call — `unknown(x: long) < 5 &&
    context.lim.lessThan(decimal("1.5"))` with a missing context; σ maps `x` and `context`. -/
example :
    let σ : Mapper := [("x", .prim (.int 3)), ("context", .record [("lim", .ext (.decimal 10000))])]
    let req : Request := ⟨⟨"User", "u"⟩, ⟨"A", "x"⟩, ⟨"R", "r"⟩, [("lim", .ext (.decimal 10000))]⟩
    let preq : PRequest := ⟨.known ⟨"User", "u"⟩, .known ⟨"A", "x"⟩, .known ⟨"R", "r"⟩, none⟩
    let e : Expr := .and (.binaryApp .less (.unknown "x" (some .long)) (.lit (.int 5)))
                      (.call "lessThan" [.getAttr (.var .context) "lim", .call "decimal" [.lit (.string "1.5")]])
    PS.Frag2 σ e ∧ Concretizes σ preq req ∧ (∃ r, pinterp [] preq (.ofConcrete []) [] 10 e = .res r) ∧
    (⟨"q", .permit, e.substUnk σ, []⟩ : Policy).outcome req [] = .sat := by
  intro σ req preq e
  refine ⟨?_, ⟨rfl, rfl, rfl, rfl⟩, ⟨_, rfl⟩, by decide +kernel⟩
  refine .and (.binaryApp .less (.unknown "x" _ ⟨_, rfl, trivial, ?_⟩) (.lit _)) (.call "lessThan" (by decide) ?_)
  · intro t ht; cases ht; rfl
  · intro x hx
    simp only [List.mem_cons, List.not_mem_nil, or_false] at hx
    rcases hx with rfl | rfl
    · exact .getAttr "lim" (.var _)
    · refine .call "decimal" (by decide) ?_
      intro y hy
      simp only [List.mem_cons, List.not_mem_nil, or_false] at hy
      subst hy; exact .lit _

/-- **reauthorize_eq_fresh_frag2**: `reauthorize_eq_fresh` without a soundness hypothesis on the larger fragment: static
policies without unknown nodes in their text (what the parser produces; `unknown("x")` *calls* are excluded from `Frag2`)
whose conditions lie in `Frag2 σ`, a concrete store and a request with canonical values, σ concretising the partial
request: `reauthorize σ` returns the decision and determining policies of the fresh concrete authorization. -/
theorem reauthorize_eq_fresh_frag2 (σ : Mapper) (req : Request) (es : Entities) (preq : PRequest) (ps : List Policy)
    (hctx : (Value.record req.context).Canon) (hstore : PS.StoreCanon es) (hC : Concretizes σ preq req)
    (hfrag : ∀ p, p ∈ ps → p.env = [] ∧ PS.Frag2 σ p.condition ∧ p.condition.unknowns = [])
    (hreq : (isAuthorizedCore [] preq (.ofConcrete es) ps).concretizeRequest σ = .ok (.ofConcrete req))
    (hslot : (isAuthorizedCore [] preq (.ofConcrete es) ps).residualPoliciesPanic = false)
    (hfuel1 : ∀ p, p ∈ ps → partialEvaluate [] preq (.ofConcrete es) p ≠ .stuck)
    (hfuel2 : ∀ p, p ∈ ps → ∀ q, residualPolicy (partialEvaluate [] preq (.ofConcrete es) p) p = some q →
      partialEvaluate σ (.ofConcrete req) (.ofConcrete es) q ≠ .stuck) :
    ∃ pr2, (isAuthorizedCore [] preq (.ofConcrete es) ps).reauthorize σ (.ofConcrete es) = .ok pr2 ∧
      pr2.decision = some (isAuthorized req es ps).decision ∧
      pr2.concretize.decision = (isAuthorized req es ps).decision ∧
      (∀ id, id ∈ pr2.concretize.reasons ↔ id ∈ (isAuthorized req es ps).reasons) :=
  reauthorize_core σ preq (.ofConcrete es) ps req es hreq hslot
    (fun p hp => PS.policyAgrees_of_frag2 σ req es hctx hstore preq hC p (hfrag p hp).1 (hfrag p hp).2.1
      (PS.substUnk_of_noUnk σ _ (hfrag p hp).2.2) (hfuel2 p hp) (hfuel1 p hp))

/-- non-vacuity of `reauthorize_eq_fresh_frag2`: a permit whose condition projects out of a record constructor holding
    the unknown principal; all hypotheses hold and the residual re-evaluates. -/
example :
    let σ : Mapper := [("principal", .prim (.entityUID ⟨"User", "u"⟩))]
    let req : Request := ⟨⟨"User", "u"⟩, ⟨"A", "x"⟩, ⟨"R", "r"⟩, []⟩
    let preq : PRequest := ⟨.unknown (some "User"), .known ⟨"A", "x"⟩, .known ⟨"R", "r"⟩, some (.value [])⟩
    let p1 : Policy := ⟨"p1", .permit, .unaryApp .not (.binaryApp .mem (.getAttr (.record [("a", .var .principal), ("b", .lit (.int 1))]) "a")
                      (.lit (.entityUID ⟨"Group", "g"⟩))), []⟩
    (isAuthorizedCore [] preq (.ofConcrete []) [p1]).decision = none ∧
    ∃ pr2, (isAuthorizedCore [] preq (.ofConcrete []) [p1]).reauthorize σ (.ofConcrete []) = .ok pr2 ∧
      pr2.decision = some (isAuthorized req [] [p1]).decision ∧ (isAuthorized req [] [p1]).decision = .allow := by
  intro σ req preq p1
  have hf : PS.Frag2 σ p1.condition := by
    refine .unaryApp .not (.binaryApp .mem (.getAttr "a" (.record (by decide) ?_)) (.lit _))
    intro kv hkv
    simp only [List.mem_cons, List.not_mem_nil, or_false] at hkv
    rcases hkv with rfl | rfl
    · exact .var _
    · exact .lit _
  have hC : Concretizes σ preq req := ⟨⟨rfl, rfl⟩, rfl, rfl, rfl⟩
  have hctx : (Value.record req.context).Canon := ⟨trivial, trivial⟩
  have hst : PS.StoreCanon [] := by intro u d h; cases h
  obtain ⟨pr2, h1, h2, _, _⟩ := reauthorize_eq_fresh_frag2 σ req [] preq [p1] hctx hst hC
    (by intro p hp; simp only [List.mem_cons, List.not_mem_nil, or_false] at hp; subst hp; exact ⟨rfl, hf, rfl⟩)
    rfl rfl
    (by intro p hp; simp only [List.mem_cons, List.not_mem_nil, or_false] at hp; subst hp
        have h0 : partialEvaluate [] preq (.ofConcrete []) p1 = .residual (.unaryApp .not (.binaryApp .mem (.unknown "principal" (some (.entity "User"))) (.lit (.entityUID ⟨"Group", "g"⟩)))) := rfl
        rw [h0]; intro h; cases h)
    (by intro p hp q hq; simp only [List.mem_cons, List.not_mem_nil, or_false] at hp; subst hp
        have h0 : residualPolicy (partialEvaluate [] preq (.ofConcrete []) p1) p1 = some ⟨"p1", .permit, residualCondition (.unaryApp .not (.binaryApp .mem (.unknown "principal" (some (.entity "User"))) (.lit (.entityUID ⟨"Group", "g"⟩)))), []⟩ := rfl
        rw [h0] at hq; cases hq
        have h1 : partialEvaluate σ (.ofConcrete req) (.ofConcrete []) ⟨"p1", .permit, residualCondition (.unaryApp .not (.binaryApp .mem (.unknown "principal" (some (.entity "User"))) (.lit (.entityUID ⟨"Group", "g"⟩)))), []⟩ = .sat := rfl
        rw [h1]; intro h; cases h)
  exact ⟨rfl, pr2, h1, h2, by decide +kernel⟩

end Cedar.C13
