import CedarVerif.Lemmas.PartialTable2
import CedarVerif.Lemmas.PartialSound6
import CedarVerif.Lemmas.PartialReauth
import CedarVerif.Lemmas.PartialFull
import CedarVerif.Lemmas.PartialBridge
/-
C13 — partial evaluation with unknowns is sound.  Property theorems only (helpers: Lemmas/Partial*.lean).
Model: Cedar/Partial.lean (`pinterp`, `PartialResponse`, `reauthorize`).
-/
namespace Cedar.C13
open Cedar

/-- **table_sound** (full, combinatorial).  For every completion `out` of the policies to final outcomes that is
consistent with what partial evaluation established (satisfied / false / errored stay so, residuals arbitrary):
a definite partial decision is the concrete decision; `must ⊆ determining ⊆ may`; the definite buckets keep
their outcome.  Holds for arbitrary policy lists, partial requests, stores and mappers. -/
theorem table_sound (m : Mapper) (req : PRequest) (es : PEntities) (ps : List Policy) (out : Policy → Outcome)
    (hc : ∀ p, p ∈ ps → Consistent (partialEvaluate m req es p) (out p)) :
    let pr := isAuthorizedCore m req es ps
    (∀ d, pr.decision = some d → concreteDecision ps out = d) ∧
    (∀ id, id ∈ pr.mustBeDetermining → id ∈ determining ps out) ∧
    (∀ id, id ∈ determining ps out → id ∈ pr.mayBeDetermining) ∧
    (∀ id, id ∈ pr.definitelySatisfied → ∃ p, p ∈ ps ∧ p.id = id ∧ out p = .sat) ∧
    (∀ id, id ∈ pr.definitelyErrored → ∃ p, p ∈ ps ∧ p.id = id ∧ out p = .err) ∧
    (∀ id, id ∈ pr.definitelyFalse → ∃ p, p ∈ ps ∧ p.id = id ∧ out p = .unsat) := by
  intro pr
  obtain ⟨h1, h2, h3⟩ := table_sound_core m req es ps out hc
  obtain ⟨h4, h5, h6⟩ := definite_sound_core m req es ps out hc
  exact ⟨h1, h2, h3, h4, h5, h6⟩

/-- non-vacuity of `table_sound`: unknown principal; a satisfied permit, a residual permit, an errored forbid.
    The partial decision is `allow`, must = {p1}, may = {p1, p2}. -/
example :
    let req : PRequest := ⟨.unknown (some "U"), .known ⟨"A", "x"⟩, .known ⟨"R", "r"⟩, some (.value [])⟩
    let es : PEntities := ⟨[], false⟩
    let p1 : Policy := ⟨"p1", .permit, .lit (.bool true), []⟩
    let p2 : Policy := ⟨"p2", .permit, .binaryApp .eq (.var .principal) (.lit (.entityUID ⟨"U", "a"⟩)), []⟩
    let p3 : Policy := ⟨"p3", .forbid, .getAttr (.var .context) "nosuch", []⟩
    let pr := isAuthorizedCore [] req es [p1, p2, p3]
    pr.decision = some .allow ∧ pr.mustBeDetermining = ["p1"] ∧ pr.mayBeDetermining = ["p1", "p2"] ∧
    pr.definitelyErrored = ["p3"] := by
  decide +kernel


/-- **Full statement of `pinterp_sound`** (DESIGN.md §6 C13), kept visible; NOT proved in full.
For every substitution σ respecting the type annotations, every concretisation of the request and every
completion of the store: substituting σ into what partial interpretation returned evaluates like the substituted
original expression (equal values modulo `Value.beq`, or both errors), and a definite error of partial
interpretation means the concrete evaluation errors.  All expression forms, residual contexts, unknown attribute
values and `.partial()` stores are included. -/
def PinterpSoundFull : Prop :=
  ∀ (σ : Mapper) (preq : PRequest) (pes : PEntities) (req : Request) (es : Entities) (env : SlotEnv) (e : Expr) (n : Nat),
    ConcretizesFull σ preq req → StoreCompletes σ pes es →
    RespectsTypes σ (e.unknowns ++ preq.unknowns ++ pes.unknowns) →
    match pinterp [] preq pes env n e with
    | .val v => ResultAgree (evaluate req es env (v.toExpr.substUnk σ)) (evaluate req es env (e.substUnk σ))
    | .res r => ResultAgree (evaluate req es env (r.substUnk σ)) (evaluate req es env (e.substUnk σ))
    | .err _ => ∃ c, evaluate req es env (e.substUnk σ) = .error c
    | .fuel => True
    | .panic => True

/-- **pinterp_sound_partial**: `PinterpSoundFull` restricted to the fragment `Frag` (literals, `principal`/
`action`/`resource`/`context` incl. unknown — typed or untyped — principal/action/resource and a missing
context, slots, `&&`, `||`, `if`, every unary operator, all twelve binary operators — the nine store-free ones incl.
the typed-unknown `==` short circuits, and `in` / `getTag` / `hasTag` on the complete store —, `.`/`has` on records
and entities (not applied directly to a record constructor or an `if` with such a branch: `NR`), `like`, `is` incl.
its typed-unknown short circuit, set and record constructors and extension-function calls with the `split` semantics:
all components values ⇒ a value (canonical set / key-sorted record, which round-trips), otherwise a residual set /
record / call with the values converted back to expressions; calls for functions satisfying `CallDRT` — proved for the comparison, predicate and conversion
functions in `callDRT_decimalCmp`, `callDRT_unaryPrim`, `callDRT_isInRange`; for the constructors it is the print/parse
round trip of the canonical rendering), a concrete store, and context/attribute/tag values that survive `Value.toExpr`
(`DRT`; trivial for primitives).  The residual is evaluated the way `reauthorize` does it (same interpreter, mapper σ, concretised
request); `Sem` = equal values, or both errors (error classes may differ).  Proved by induction on the
fragment, for every first-pass mapper, partial request and fuel.
Missing w.r.t. the full statement: `.`/`has` applied directly to a record constructor (the residual is a record
literal, which `get_attr` projects into and re-interprets), `CallDRT` for the extension constructors, unknowns in the
policy text, residual contexts, unknown attribute values, `.partial()` stores, and the `subst`-form. -/
theorem pinterp_sound_partial (σ : Mapper) (req : Request) (es : Entities) (env : SlotEnv)
    (hctx : (Value.record req.context).DRT) (hstore : StoreDRT es) {e : Expr} (hf : Frag e)
    (m0 : Mapper) (preq : PRequest) (n : Nat) (hC : Concretizes σ preq req) :
    match pinterp m0 preq (.ofConcrete es) env n e with
    | .val v => evaluate req es env e = .ok v
    | .err _ => ∃ c, evaluate req es env e = .error c
    | .res r => ∀ n', Sem (pinterp σ (.ofConcrete req) (.ofConcrete es) env n' r) (evaluate req es env e)
    | .fuel => True
    | .panic => True := by
  have h := pinterp_sound_frag σ req es env hctx hstore hf m0 preq n hC
  cases hx : pinterp m0 preq (.ofConcrete es) env n e with
  | val v => rw [hx] at h; exact h.1
  | err c => rw [hx] at h; exact h
  | res r => rw [hx] at h; exact h.2.2
  | fuel => trivial
  | panic => trivial

/-- non-vacuity of `pinterp_sound_partial`: `principal == U::"a" && !(context has x)` with a typed unknown
    principal leaves a residual; the hypotheses are satisfiable and the conclusion is about that residual. -/
example :
    let σ : Mapper := [("principal", .prim (.entityUID ⟨"U", "a"⟩))]
    let req : Request := ⟨⟨"U", "a"⟩, ⟨"A", "x"⟩, ⟨"R", "r"⟩, []⟩
    let preq : PRequest := ⟨.unknown (some "U"), .known ⟨"A", "x"⟩, .known ⟨"R", "r"⟩, some (.value [])⟩
    let e : Expr := .and (.binaryApp .eq (.var .principal) (.lit (.entityUID ⟨"U", "a"⟩)))
                         (.unaryApp .not (.hasAttr (.var .context) "x"))
    (∃ r, pinterp [] preq (.ofConcrete []) [] 10 e = .res r) ∧
    ∀ n', Sem (pinterp σ (.ofConcrete req) (.ofConcrete []) [] n'
        (.and (.binaryApp .eq (.unknown "principal" (some (.entity "U"))) (.lit (.entityUID ⟨"U", "a"⟩))) (.lit (.bool true))))
      (evaluate req [] [] e) := by
  intro σ req preq e
  have hf : Frag e := .and (.binaryApp .eq (.var _) (.lit _)) (.unaryApp .not (.hasAttr "x" trivial (.var _)))
  have hC : Concretizes σ preq req := ⟨⟨rfl, rfl⟩, rfl, rfl, rfl⟩
  have hctx : (Value.record req.context).DRT := ⟨RT_emptyRecord, trivial⟩
  have hst : StoreDRT [] := by intro u d h; cases h
  have h := pinterp_sound_partial σ req [] [] hctx hst hf [] preq 10 hC
  exact ⟨⟨_, rfl⟩, h⟩

/-- non-vacuity for the constructors and the store-dependent operators: `[principal, User::"b"].contains(resource.owner)
    && context.d.lessThan(context.lim) && principal in Group::"g"` with an unknown principal is in the fragment and leaves
    a residual containing a residual set and a residual `in`. -/
example :
    let e : Expr := .and (.binaryApp .contains (.set [.var .principal, .lit (.entityUID ⟨"User", "b"⟩)]) (.getAttr (.var .resource) "owner"))
                     (.and (.call "lessThan" [.getAttr (.var .context) "d", .getAttr (.var .context) "lim"])
                           (.binaryApp .mem (.var .principal) (.lit (.entityUID ⟨"Group", "g"⟩))))
    let preq : PRequest := ⟨.unknown (some "User"), .known ⟨"A", "x"⟩, .known ⟨"R", "r"⟩,
      some (.value [("d", .ext (.decimal 10000)), ("lim", .ext (.decimal 20000))])⟩
    Frag e ∧ ∃ r, pinterp [] preq (.ofConcrete [(⟨"R", "r"⟩, ⟨[("owner", .prim (.entityUID ⟨"User", "b"⟩))], [], []⟩)]) [] 10 e = .res r := by
  intro e preq
  refine ⟨?_, _, rfl⟩
  refine .and (.binaryApp .contains (.set ?_) (.getAttr "owner" trivial (.var _)))
    (.and (.call "lessThan" (by decide) (callDRT_decimalCmp _ (Or.inl rfl)) ?_) (.binaryApp .mem (.var _) (.lit _)))
  · intro x hx
    simp only [List.mem_cons, List.not_mem_nil, or_false] at hx
    rcases hx with rfl | rfl
    · exact .var _
    · exact .lit _
  · intro x hx
    simp only [List.mem_cons, List.not_mem_nil, or_false] at hx
    rcases hx with rfl | rfl
    · exact .getAttr "d" trivial (.var _)
    · exact .getAttr "lim" trivial (.var _)

/-- … and for record constructors: `{a: principal, b: 1} == context.r` with an unknown principal leaves the residual
    `{a: unknown(principal), b: 1} == {a: User::"u", b: 1}` (the record value converted back by `Value.toExpr`). -/
example :
    let e : Expr := .binaryApp .eq (.record [("a", .var .principal), ("b", .lit (.int 1))]) (.getAttr (.var .context) "r")
    let preq : PRequest := ⟨.unknown (some "User"), .known ⟨"A", "x"⟩, .known ⟨"R", "r"⟩,
      some (.value [("r", .record [("a", .prim (.entityUID ⟨"User", "u"⟩)), ("b", .prim (.int 1))])])⟩
    Frag e ∧ pinterp [] preq (.ofConcrete []) [] 10 e =
      .res (.binaryApp .eq (.record [("a", .unknown "principal" (some (.entity "User"))), ("b", .lit (.int 1))])
                           (.record [("a", .lit (.entityUID ⟨"User", "u"⟩)), ("b", .lit (.int 1))])) := by
  intro e preq
  refine ⟨.binaryApp .eq (.record ?_) (.getAttr "r" trivial (.var _)), rfl⟩
  intro kv hkv
  simp only [List.mem_cons, List.not_mem_nil, or_false] at hkv
  rcases hkv with rfl | rfl
  · exact .var _
  · exact .lit _

/-- **reauthorize_eq_fresh** (given soundness of the residuals at policy level).  If the substitution concretises
the partial request to `req'`, no residual kept a template slot (otherwise `reauthorize` panics — the recorded
finding), and every policy's residual policy — re-evaluated with the mapper σ on the concretised request and
store, exactly as `reauthorize` does — is satisfied iff the policy is satisfied concretely (`PolicyAgrees`, the
policy-level consequence of `pinterp_sound`), then `reauthorize` succeeds and yields the decision and the
determining policies of the fresh concrete authorization `isAuthorized req' es' ps`. -/
theorem reauthorize_eq_fresh (σ : Mapper) (preq : PRequest) (pes : PEntities) (ps : List Policy)
    (req' : Request) (es' : Entities)
    (hreq : (isAuthorizedCore [] preq pes ps).concretizeRequest σ = .ok (.ofConcrete req'))
    (hslot : (isAuthorizedCore [] preq pes ps).residualPoliciesPanic = false)
    (hsound : ∀ p, p ∈ ps → PolicyAgrees σ preq pes req' es' p) :
    ∃ pr2, (isAuthorizedCore [] preq pes ps).reauthorize σ (.ofConcrete es') = .ok pr2 ∧
      pr2.decision = some (isAuthorized req' es' ps).decision ∧
      pr2.concretize.decision = (isAuthorized req' es' ps).decision ∧
      (∀ id, id ∈ pr2.concretize.reasons ↔ id ∈ (isAuthorized req' es' ps).reasons) :=
  reauthorize_core σ preq pes ps req' es' hreq hslot hsound

/-- non-vacuity of `reauthorize_eq_fresh`: unknown typed principal, one residual permit, one unsatisfied forbid
    guarded by the context; all hypotheses hold for the substitution principal ↦ U::"a". -/
example :
    let σ : Mapper := [("principal", .prim (.entityUID ⟨"U", "a"⟩))]
    let req' : Request := ⟨⟨"U", "a"⟩, ⟨"A", "x"⟩, ⟨"R", "r"⟩, []⟩
    let preq : PRequest := ⟨.unknown (some "U"), .known ⟨"A", "x"⟩, .known ⟨"R", "r"⟩, some (.value [])⟩
    let p1 : Policy := ⟨"p1", .permit, .unaryApp .not (.hasAttr (.var .principal) "blocked"), []⟩
    let p2 : Policy := ⟨"p2", .forbid, .hasAttr (.var .context) "x", []⟩
    (isAuthorizedCore [] preq ⟨[], false⟩ [p1, p2]).concretizeRequest σ = .ok (.ofConcrete req') ∧
    (isAuthorizedCore [] preq ⟨[], false⟩ [p1, p2]).residualPoliciesPanic = false ∧
    PolicyAgrees σ preq ⟨[], false⟩ req' [] p1 ∧ PolicyAgrees σ preq ⟨[], false⟩ req' [] p2 ∧
    (isAuthorizedCore [] preq ⟨[], false⟩ [p1, p2]).decision = none ∧
    (isAuthorized req' [] [p1, p2]).decision = .allow := by
  intro σ req' preq p1 p2
  refine ⟨rfl, rfl, ⟨_, rfl, ?_⟩, ⟨_, rfl, ?_⟩, rfl, ?_⟩
  · show p1.outcome req' [] = .sat
    rfl
  · show p2.outcome req' [] ≠ .sat
    decide
  · rfl


/-- **reauthorize_eq_fresh_frag**: the two results composed, without a soundness hypothesis.  For static policies
whose conditions lie in the fragment of `pinterp_sound_partial`, a concrete store and a substitution σ that
concretises the partial request: `reauthorize σ` returns the decision and determining policies of the fresh
concrete authorization.  (`hfuel*`: neither pass exhausts the model's recursion budget — an outcome the driver
reports explicitly and that never occurred; `hslot`: see the recorded finding.) -/
theorem reauthorize_eq_fresh_frag (σ : Mapper) (req : Request) (es : Entities) (preq : PRequest) (ps : List Policy)
    (hctx : (Value.record req.context).DRT) (hstore : StoreDRT es) (hC : Concretizes σ preq req)
    (hfrag : ∀ p, p ∈ ps → p.env = [] ∧ Frag p.condition)
    (hreq : (isAuthorizedCore [] preq (.ofConcrete es) ps).concretizeRequest σ = .ok (.ofConcrete req))
    (hslot : (isAuthorizedCore [] preq (.ofConcrete es) ps).residualPoliciesPanic = false)
    (hfuel1 : ∀ p, p ∈ ps → partialEvaluate [] preq (.ofConcrete es) p ≠ .stuck)
    (hfuel2 : ∀ p, p ∈ ps → ∀ q, residualPolicy (partialEvaluate [] preq (.ofConcrete es) p) p = some q →
      partialEvaluate σ (.ofConcrete req) (.ofConcrete es) q ≠ .stuck) :
    ∃ pr2, (isAuthorizedCore [] preq (.ofConcrete es) ps).reauthorize σ (.ofConcrete es) = .ok pr2 ∧
      pr2.decision = some (isAuthorized req es ps).decision ∧
      pr2.concretize.decision = (isAuthorized req es ps).decision ∧
      (∀ id, id ∈ pr2.concretize.reasons ↔ id ∈ (isAuthorized req es ps).reasons) :=
  reauthorize_core σ preq (.ofConcrete es) ps req es hreq hslot
    (fun p hp => policyAgrees_of_frag σ req es hctx hstore preq hC p (hfrag p hp).1 (hfrag p hp).2 (hfuel2 p hp) (hfuel1 p hp))

end Cedar.C13
