import CedarVerif.Lemmas.PartialTable2
/-
C13 — partial evaluation with unknowns is sound.  Property theorems only (helpers: Lemmas/Partial*.lean).
Model: Cedar/Partial.lean (`pinterp`, `PartialResponse`, `reauthorize`).
-/
namespace Cedar.C13
open Cedar

/-- **table_sound** (full, combinatorial).  For every completion `out` of the policies to final outcomes that is
consistent with what partial evaluation established (satisfied / false / errored stay so, residuals arbitrary):
a definite partial decision is the concrete decision; `must ⊆ determining ⊆ may`; the definite buckets keep
their outcome.  Holds for arbitrary policy lists, partial requests, stores and mappers. -/
theorem table_sound (m : Mapper) (req : PRequest) (es : PEntities) (ps : List Policy) (out : Policy → Outcome)
    (hc : ∀ p, p ∈ ps → Consistent (partialEvaluate m req es p) (out p)) :
    let pr := isAuthorizedCore m req es ps
    (∀ d, pr.decision = some d → concreteDecision ps out = d) ∧
    (∀ id, id ∈ pr.mustBeDetermining → id ∈ determining ps out) ∧
    (∀ id, id ∈ determining ps out → id ∈ pr.mayBeDetermining) ∧
    (∀ id, id ∈ pr.definitelySatisfied → ∃ p, p ∈ ps ∧ p.id = id ∧ out p = .sat) ∧
    (∀ id, id ∈ pr.definitelyErrored → ∃ p, p ∈ ps ∧ p.id = id ∧ out p = .err) ∧
    (∀ id, id ∈ pr.definitelyFalse → ∃ p, p ∈ ps ∧ p.id = id ∧ out p = .unsat) := by
  intro pr
  obtain ⟨h1, h2, h3⟩ := table_sound_core m req es ps out hc
  obtain ⟨h4, h5, h6⟩ := definite_sound_core m req es ps out hc
  exact ⟨h1, h2, h3, h4, h5, h6⟩

/-- non-vacuity of `table_sound`: unknown principal; a satisfied permit, a residual permit, an errored forbid.
    The partial decision is `allow`, must = {p1}, may = {p1, p2}. -/
example :
    let req : PRequest := ⟨.unknown (some "U"), .known ⟨"A", "x"⟩, .known ⟨"R", "r"⟩, some (.value [])⟩
    let es : PEntities := ⟨[], false⟩
    let p1 : Policy := ⟨"p1", .permit, .lit (.bool true), []⟩
    let p2 : Policy := ⟨"p2", .permit, .binaryApp .eq (.var .principal) (.lit (.entityUID ⟨"U", "a"⟩)), []⟩
    let p3 : Policy := ⟨"p3", .forbid, .getAttr (.var .context) "nosuch", []⟩
    let pr := isAuthorizedCore [] req es [p1, p2, p3]
    pr.decision = some .allow ∧ pr.mustBeDetermining = ["p1"] ∧ pr.mayBeDetermining = ["p1", "p2"] ∧
    pr.definitelyErrored = ["p3"] := by
  decide +kernel

end Cedar.C13
