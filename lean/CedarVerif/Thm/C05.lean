import CedarVerif.Lemmas.SyntaxSound
import CedarVerif.Lemmas.SyntaxSplitOn
import CedarVerif.Lemmas.SyntaxPolicy
import CedarVerif.Lemmas.SyntaxPolicySound
import CedarVerif.Lemmas.SyntaxLex
import CedarVerif.Lemmas.SyntaxLexWF
import CedarVerif.Lemmas.SyntaxTokOK
import CedarVerif.Lemmas.SyntaxLexSpace
import CedarVerif.Cedar.Eval
/-
C05 — policy text → AST → text round trip.  Property theorems (every `theorem` here is an obligation).
Model: Cedar/Syntax/{Token,Escape,Print,Parse,PolicyPrint,PolicyParse,Lex}.lean.

What is proved about `Parse.expr (Print.expr me e) = some e` (for every escape table `me`):
* `parse_print_full : ParsePrintFull` — THE FULL STATEMENT: for every AST in `ParserImage` (what `cst_to_ast` can produce).
  INSIDE: Bool / i64 (both boundary values) / string literals, entity-uid literals `T::"id"` (any escapes), variables,
  slots, `!`, unary minus, `* + - == < <= in && ||` incl. the unparenthesised left-nested chains, `if-then-else`,
  `e has attr`, `e.attr` / `e["attr"]` (identifier vs non-identifier / reserved-word names), `like` (any pattern),
  `is T`, `contains containsAll containsAny isEmpty getTag hasTag`, extension functions (function style, any arity)
  and extension methods (method style), set literals, record literals (strictly key-sorted; identifier, variable-name
  and string keys), arbitrarily nested.  Desugared surface forms (`!= > >=`, `is T in e`, `has a.b.c`) are not ASTs;
  the ASTs they lower to are inside.
  OUTSIDE (= not in `ParserImage`, the parser never produces them): `.unknown` nodes, `&&`/`||` of two Boolean literals,
  non-extension `call`s, extension methods without receiver, unsorted / duplicate-key records, out-of-range integers,
  type names that are not `::`-separated unreserved identifiers.
* `parse_image` — soundness of the image predicate: on well-formed tokens (`TokWF`: `IDENTIFIER` tokens have identifier
  syntax) `Parse.expr` only returns `ParserImage` ASTs.
* `parse_print_parse` — from text: every accepted token list `ts` with `Parse.expr ts = some e` satisfies
  `Parse.expr (Print.expr me e) = some e`.
* `round_trip_meaning`, `round_trip_meaning_text` — the re-parsed expression evaluates like the original (corollaries).
* `parse_print_partial3` (fragment `inFrag3`, Lemmas/SyntaxMem.lean; = `ParserImage` by `inFrag3_parserImage` /
  `parserImage_inFrag3`), `parse_print_partial` (the older, smaller fragment `inFrag2`, independent proof), `inFrag2_inFrag3`.
Proof files: Lemmas/Syntax{Parse,Frag,Main,Chain}.lean (operators, chains), Syntax{Mem,Rec,Name,Prim,Full}.lean (`Member`
level in continuation form, lists, records, names, the induction), SyntaxSound.lean (parser invariant), SyntaxSplitOn.lean
(`intercalate "::" ∘ splitOn "::" = id` and the converse on identifiers, for the legacy byte-position `String.splitOn`).
POLICY LEVEL (model: Cedar/Syntax/{PolicyPrint,PolicyParse}.lean; AST = `Cedar.TemplateBody` of the C08 model; proofs:
Lemmas/SyntaxPolicy.lean):
* `policy_parse_print : PolicyParsePrintFull` — THE FULL STATEMENT for policies and templates: for every `TemplateBody` in
  `PolicyImage` (annotations in strict key order = a `BTreeMap`; scope constraints of every form `principal`, `== uid`,
  `== ?principal`, `in uid`, `in ?principal`, `is T`, `is T in uid`, `is T in ?principal`, same for `resource`; `action`,
  `action == uid`, `action in [uid,…]` with action-typed uids; effect; no condition or one folded condition in
  `ParserImage` without slots) and every escape table, `parsePolicy id (printPolicy p) = some p`.
* `annotation_round_trip` — annotation values with arbitrary content survive `escape_debug` printing and unescaping.
* `policy_round_trip_text` — from text: a token list the model parser accepts with a result in `PolicyImage` re-parses
  to the same object after printing.
* `policy_parse_image : PolicyParseImage` — soundness of the policy image predicate: on well-formed tokens (`TokWF`) the
  policy parser only returns `PolicyImage` objects (parser-invariant induction for `parseAnnots` / `scopeElem` / `actionElem` /
  `parseConds`, Lemmas/SyntaxPolicySound.lean: `foldr insertAnn` sorts a duplicate-free list, `mkAnd`-folding of several
  `when`/`unless` clauses stays in `ParserImage` and slot-free).  No parser arm leaves the image.
* `policy_round_trip_text_full` — from text WITHOUT an image hypothesis: whatever well-formed token list the model parser
  accepts (any number of clauses), printing the result and parsing again gives the same object.
LEXER (model: Cedar/Syntax/Lex.lean, mirror of the `match { … }` block of grammar.lalrpop: `\s*`, `//` comments, identifiers /
keywords, `[0-9]+` by value, `"(\\.|[^"\\])*"` kept raw, slots, two-character punctuation first; proofs: Lemmas/SyntaxLex.lean):
* `lex_tokWF` — the lexer only returns identifier-shaped `IDENTIFIER` tokens (the `TokWF` hypothesis of the parser theorems);
  `policy_round_trip_chars` — from characters: any text `lex` + `parsePolicy` accept round-trips, no side hypothesis.
* `lex_print` — for every list `ts` of lexer-producible tokens (`TokOK`: identifier-shaped `IDENTIFIER`s, string tokens
  matching the `STRINGLIT` body regex, slots `?ident`; full token alphabet), `lex (render ts) = some ts`, `render` = tokens
  separated by single spaces (the harness's `render`; Rust's `Display` uses tighter spacing — its output is covered by the
  `(lex …)` / `(lexpolparse …)` correspondence lines; any other spacing: `lex_respace` below).
PRINTERS EMIT LEXABLE TOKENS, CHARACTER-LEVEL ROUND TRIP (proofs: Lemmas/SyntaxTokOK.lean):
* `escapeStr_rawOK` / `escapeStrAt_rawOK` / `escapePattern_rawOK` — `escape_debug` output is one `STRINGLIT` body for EVERY escape
  table (no side condition: the `\\ \" \n …` arms of `escapeChar` = `char::escape_debug_ext` precede the table lookups).
* `printE_tokOK` (on `ParserImage`), `printPolicy_tokOK` (on `PolicyImage` + `AnnKeysIdent`: annotation keys identifier-shaped —
  Rust `AnyId`s; the model keeps `String`s, `PolicyImage` does not constrain them, and the statement is FALSE without it:
  `badKeyPolicy`); `parse_annKeysIdent` — the parser establishes `AnnKeysIdent` on `TokWF` tokens.
* `expr_text_round_trip`, `text_round_trip` — `lex (render (print x)) = some (print x)` and `lex` + parse of that text = `x`;
  `expr_text_round_trip_from_text`, `text_round_trip_from_text` — starting from ANY text the model lexer + parser accept, with no
  side hypothesis: print, render to characters, lex, parse gives the same object.
SPACING (proofs: Lemmas/SyntaxLexSpace.lean):
* `lex_respace` — the lexer ignores spacing: tokens written with arbitrary separators (blanks / `//` comments closed by a line
  break / nothing) lex to the same tokens provided the text after each token does not extend it (`stopsTok`; token-level
  `NoGlue`); `lex_renderWith` (separator chosen per adjacent pair), `lex_renderMin` (tightest spacing), `stopsTok_blank`;
  `text_round_trip_spacing`, `expr_text_round_trip_spacing`, `text_round_trip_min` — the round trip for every admissible spacing
  of the printer's tokens.
Not covered by theorems: that Rust's `Display` spacing IS an admissible spacing of the model printer's tokens (i.e. that
`Display` never writes two gluing tokens without a blank — covered by the `(lex …)` / `(lexpolparse …)` correspondence lines on
Display output); policy sets; the EST printer; the nesting-depth limit of the real parser (the model has none).
-/
namespace Cedar.C05
open Cedar Cedar.Syntax

/-! ### escapes never change meaning -/

/-- Whatever the Unicode tables of `escape_debug` decide (`mustEscape` arbitrary, even position dependent as in
`str::escape_debug`), unescaping an escaped string gives the string back. Covers string literals, entity ids,
attribute names, record keys and annotation values (all printed with `escape_debug`, all read with
`to_unescaped_string`). -/
theorem unescape_escape_at (mustEscape : Nat → Char → Bool) (i : Nat) (s : List Char) :
    unescapeStr (escapeStrAt mustEscape i s) = .ok s := by
  unfold unescapeStr
  rw [unescapeGo_escapeStrAt]
  simp [Except.map, patChars_map_char]

theorem unescape_escape (mustEscape : Char → Bool) (s : List Char) :
    unescapeStr (escapeStr mustEscape s) = .ok s :=
  unescape_escape_at (fun _ => mustEscape) 0 s

/-- patterns: `*` stays a wildcard, a literal `*` is printed `\*` and read back as a literal -/
theorem unescape_escape_pattern (mustEscape : Char → Bool) (p : Pattern) :
    unescapePattern (escapePattern mustEscape p) = .ok p :=
  unescapeGo_escapePattern mustEscape p

/-- on the model's `String`s -/
theorem strOfRaw_escape (mustEscape : Char → Bool) (s : String) :
    strOfRaw (escapeStr mustEscape s.toList) = some s := by
  unfold strOfRaw
  rw [unescape_escape]
  simp [String.ofList_toList]

-- non-vacuity: NUL, quote, backslash, a combining mark, a non-BMP scalar; all forced into `\u{…}` form or none
example : unescapeStr (escapeStr (fun _ => true) ['a', '\x00', '"', '\\', '́', Char.ofNat 0x1F600, '*']) =
    .ok ['a', '\x00', '"', '\\', '́', Char.ofNat 0x1F600, '*'] := unescape_escape _ _
example : escapeStr (fun _ => true) ['a', '\x00', Char.ofNat 0x1F600] =
    "\\u{61}\\0\\u{1f600}".toList := by decide
example : unescapePattern (escapePattern (fun _ => false) [.char 'a', .star, .char '*', .char '\\']) =
    .ok [.char 'a', .star, .char '*', .char '\\'] := unescape_escape_pattern _ _
example : escapePattern (fun _ => false) [.char 'a', .star, .char '*', .char '\\'] = "a*\\*\\\\".toList := by decide

/-! ### print then parse is the identity -/

def validTypeName (ty : String) : Bool :=
  (ty.splitOn "::").all (fun c => isIdentChars c.toList && unreservedIdent c)

def strictSortedKeys : List (String × Expr) → Bool
  | (k1, _) :: (k2, v2) :: rest => decide (k1 < k2) && strictSortedKeys ((k2, v2) :: rest)
  | _ => true

mutual
/-- ASTs the lowering `cst_to_ast` can produce (the quantifier of the property: objects obtained by parsing). -/
def ParserImage : Expr → Bool
  | .lit (.bool _) => true
  | .lit (.int i) => decide (-(Int.ofNat Syntax.i64Max) - 1 ≤ i ∧ i ≤ Int.ofNat Syntax.i64Max)
  | .lit (.string _) => true
  | .lit (.entityUID u) => validTypeName u.ty
  | .var _ => true
  | .slot _ => true
  | .unknown _ _ => false
  | .ite c t e => ParserImage c && ParserImage t && ParserImage e
  | .and a b => ParserImage a && ParserImage b && !(isBoolLit a && isBoolLit b)
  | .or a b => ParserImage a && ParserImage b && !(isBoolLit a && isBoolLit b)
  | .unaryApp _ a => ParserImage a
  | .binaryApp _ a b => ParserImage a && ParserImage b
  | .call fn args => (isExtFunction fn || (isExtMethod fn && !args.isEmpty)) && ParserImageList args
  | .getAttr e _ => ParserImage e
  | .hasAttr e _ => ParserImage e
  | .like e _ => ParserImage e
  | .is e ty => ParserImage e && validTypeName ty
  | .set es => ParserImageList es
  | .record kvs => strictSortedKeys kvs && ParserImageKVs kvs
def ParserImageList : List Expr → Bool
  | [] => true
  | e :: es => ParserImage e && ParserImageList es
def ParserImageKVs : List (String × Expr) → Bool
  | [] => true
  | (_, e) :: kvs => ParserImage e && ParserImageKVs kvs
end

/-- The full statement (C05, expression level): for every AST the parser can produce and every behaviour of the
`escape_debug` tables, parsing the printed form gives the AST back — hence the same evaluation on every request. -/
def ParsePrintFull : Prop :=
  ∀ (mustEscape : Char → Bool) (e : Expr), ParserImage e = true → Parse.expr (Print.expr mustEscape e) = some e

/-- `parse_print` on the fragment `inFrag2` (see its doc-string): literals incl. both i64 boundary values and
arbitrary strings (any escape table), variables, `!`, unary minus (`-(e)`, negative literals `(-n)`),
`* + - == < <= in && ||` with the unparenthesised left-nested chains (`a + b + c`, `a - b - c`, `a && b && c` …),
`e has attr` (identifier, reserved word or arbitrary string as attribute name), `if then else`, arbitrarily nested.
Superseded by `parse_print_partial3` (kept: smaller fragment, independent proof). -/
theorem parse_print_partial (mustEscape : Char → Bool) (e : Expr) (h : inFrag2 e = true) :
    Parse.expr (Print.expr mustEscape e) = some e := by
  unfold Parse.expr Print.expr
  obtain ⟨s, h1, h2⟩ := (parse_print_aux2 mustEscape (fsize e) e (Nat.le_refl _) h (printE mustEscape e).length
    (fsize_le_length mustEscape _ e (Nat.le_refl _) h)).top [] rfl
  simp only [List.append_nil] at h1
  rw [h1]
  exact h2

/-- every fragment expression is in the parser's image, so the partial theorem is an instance of the full statement -/
theorem inFrag_parserImage : ∀ k e, fsize e ≤ k → inFrag2 e = true → ParserImage e = true := by
  intro k
  induction k with
  | zero => intro e hk; have := fsize_pos e; omega
  | succ k ih =>
    intro e hk hf
    cases e
    case lit p => cases p <;> simp_all [inFrag2, ParserImage]
    case var v => rfl
    case ite c t e' =>
      simp only [inFrag2, Bool.and_eq_true] at hf
      simp only [fsize] at hk
      simp [ParserImage, ih c (by omega) hf.1.1, ih t (by omega) hf.1.2, ih e' (by omega) hf.2]
    case and a b =>
      simp only [inFrag2, Bool.and_eq_true] at hf
      simp only [fsize] at hk
      simp [ParserImage, ih a (by omega) hf.1.1, ih b (by omega) hf.1.2, hf.2]
    case or a b =>
      simp only [inFrag2, Bool.and_eq_true] at hf
      simp only [fsize] at hk
      simp [ParserImage, ih a (by omega) hf.1.1, ih b (by omega) hf.1.2, hf.2]
    case unaryApp op a =>
      simp only [fsize] at hk
      cases op <;> simp only [inFrag2] at hf
      · simp [ParserImage, ih a (by omega) hf]
      · simp [ParserImage, ih a (by omega) hf]
      · simp at hf
    case binaryApp op a b =>
      simp only [inFrag2, Bool.and_eq_true] at hf
      simp only [fsize] at hk
      simp [ParserImage, ih a (by omega) hf.1.2, ih b (by omega) hf.2]
    case hasAttr e' a =>
      simp only [inFrag2] at hf
      simp only [fsize] at hk
      simp [ParserImage, ih e' (by omega) hf]
    all_goals (simp [inFrag2] at hf)

/-! ### the whole parser image (modulo one library fact about `String.splitOn`) -/

/-- `parse_print` on the fragment `inFrag3` (Lemmas/SyntaxMem.lean): **every constructor of `ParserImage`** —
all of `inFrag2`, plus entity-uid literals `T::"id"` (any escapes in the id), slots `?principal` / `?resource`,
member access `e.attr` / `e["attr"]` (identifier vs non-identifier / reserved-word attribute names), `like` with any
pattern, `is T`, the method calls `contains containsAll containsAny isEmpty getTag hasTag`, extension functions in
function style (`decimal(…) ip(…) datetime(…) duration(…) unknown(…)`, any argument count) and extension methods in
method style (`a.lessThan(b)`, `a.isInRange(b)`, `a.offset(b)`, …), set literals `[e, …]`, record literals `{k: e, …}`
(strictly key-sorted, identifier / variable-name / string keys), arbitrarily nested, with the printer's own
parenthesisation (`maybe_with_parens`; unparenthesised `Member` operands `a.b.c(d)[“e”]`, left-nested chains).
The only difference between `inFrag3` and `ParserImage`: a type name `ty` (in an entity literal or after `is`) must
in addition satisfy the decidable side condition `"::".intercalate (ty.splitOn "::") = ty` — which always holds
(`joinName_splitOn`, Lemmas/SyntaxSplitOn.lean), so the two predicates coincide; see `parse_print_full` below.  Forms the parser desugars (`!=`, `>`, `>=`, `e is T in e'`, `e has a.b.c`) are
not ASTs: their images (`!(a == b)`, `!(a <= b)`, `!(a < b)`, `e is T && e in e'`, `e has a && e.a has b && …`) are
in the fragment.  Outside: `.unknown` nodes, `&&`/`||` of two Boolean literals, non-extension `call`s, extension
methods with no receiver, unsorted / duplicate-key records, out-of-range integers — none of which the parser produces. -/
theorem parse_print_partial3 (mustEscape : Char → Bool) (e : Expr) (h : inFrag3 e = true) :
    Parse.expr (Print.expr mustEscape e) = some e :=
  parse_print_frag3 mustEscape e h

theorem sortedKeys3_eq : ∀ kvs, sortedKeys3 kvs = strictSortedKeys kvs
  | [] => rfl
  | [_] => rfl
  | (k1, _) :: (k2, v2) :: rest => by simp only [sortedKeys3, strictSortedKeys, sortedKeys3_eq ((k2, v2) :: rest)]

theorem typeNameOk_valid {ty : String} (h : typeNameOk ty = true) : validTypeName ty = true := by
  simp only [typeNameOk, Bool.and_eq_true] at h
  exact h.1

/-- every `inFrag3` expression is in the parser's image: `parse_print_partial3` is an instance of the full statement -/
theorem inFrag3_parserImage : ∀ k e, sz3 e ≤ k → inFrag3 e = true → ParserImage e = true := by
  intro k
  induction k with
  | zero => intro e hk; have := sz3_pos e; omega
  | succ k ih =>
    intro e hk hf
    have L : ∀ es : List Expr, (∀ a ∈ es, sz3 a ≤ k) → inFrag3L es = true → ParserImageList es = true := by
      intro es
      induction es with
      | nil => intro _ _; rfl
      | cons a es ihl =>
        intro hsz hfl
        simp only [inFrag3L, Bool.and_eq_true] at hfl
        simp only [ParserImageList, Bool.and_eq_true]
        exact ⟨ih a (hsz a (by simp)) hfl.1, ihl (fun x hx => hsz x (by simp [hx])) hfl.2⟩
    have K : ∀ kvs : List (String × Expr), (∀ kv ∈ kvs, sz3 kv.2 ≤ k) → inFrag3K kvs = true → ParserImageKVs kvs = true := by
      intro kvs
      induction kvs with
      | nil => intro _ _; rfl
      | cons kv kvs ihl =>
        obtain ⟨k', a⟩ := kv
        intro hsz hfl
        simp only [inFrag3K, Bool.and_eq_true] at hfl
        simp only [ParserImageKVs, Bool.and_eq_true]
        exact ⟨ih a (hsz (k', a) (by simp)) hfl.1, ihl (fun x hx => hsz x (by simp [hx])) hfl.2⟩
    cases e
    case lit p => cases p <;> simp_all [inFrag3, ParserImage, typeNameOk_valid]
    case var v => rfl
    case slot s => rfl
    case unknown n ty => simp [inFrag3] at hf
    case ite c t e' =>
      simp only [inFrag3, Bool.and_eq_true] at hf
      simp only [sz3] at hk
      simp [ParserImage, ih c (by omega) hf.1.1, ih t (by omega) hf.1.2, ih e' (by omega) hf.2]
    case and a b =>
      simp only [inFrag3, Bool.and_eq_true] at hf
      simp only [sz3] at hk
      simp [ParserImage, ih a (by omega) hf.1.1, ih b (by omega) hf.1.2, hf.2]
    case or a b =>
      simp only [inFrag3, Bool.and_eq_true] at hf
      simp only [sz3] at hk
      simp [ParserImage, ih a (by omega) hf.1.1, ih b (by omega) hf.1.2, hf.2]
    case unaryApp op a =>
      simp only [inFrag3] at hf
      simp only [sz3] at hk
      simp [ParserImage, ih a (by omega) hf]
    case binaryApp op a b =>
      simp only [inFrag3, Bool.and_eq_true] at hf
      simp only [sz3] at hk
      simp [ParserImage, ih a (by omega) hf.1, ih b (by omega) hf.2]
    case call fn args =>
      simp only [inFrag3, Bool.and_eq_true] at hf
      simp only [sz3] at hk
      simp only [ParserImage, Bool.and_eq_true]
      exact ⟨hf.1, L args (fun a ha => by have := sz3L_mem ha; omega) hf.2⟩
    case getAttr a x =>
      simp only [inFrag3] at hf
      simp only [sz3] at hk
      simp [ParserImage, ih a (by omega) hf]
    case hasAttr a x =>
      simp only [inFrag3] at hf
      simp only [sz3] at hk
      simp [ParserImage, ih a (by omega) hf]
    case like a x =>
      simp only [inFrag3] at hf
      simp only [sz3] at hk
      simp [ParserImage, ih a (by omega) hf]
    case is a x =>
      simp only [inFrag3, Bool.and_eq_true] at hf
      simp only [sz3] at hk
      simp [ParserImage, ih a (by omega) hf.1, typeNameOk_valid hf.2]
    case set es =>
      simp only [inFrag3] at hf
      simp only [sz3] at hk
      simp only [ParserImage]
      exact L es (fun a ha => by have := sz3L_mem ha; omega) hf
    case record kvs =>
      simp only [inFrag3, Bool.and_eq_true] at hf
      simp only [sz3] at hk
      simp only [ParserImage, Bool.and_eq_true]
      exact ⟨by rw [← sortedKeys3_eq]; exact hf.1,
        K kvs (fun kv hkv => by have := sz3K_mem (k := kv.1) (a := kv.2) hkv; omega) hf.2⟩

/-- the one fact missing for the full statement: `intercalate ∘ splitOn = id` for the separator `::` -/
def SplitOnJoin : Prop := ∀ ty : String, joinName (ty.splitOn "::") = ty

/-- under `SplitOnJoin` the fragment is the whole parser image -/
theorem parserImage_inFrag3 (sj : SplitOnJoin) : ∀ k e, sz3 e ≤ k → ParserImage e = true → inFrag3 e = true := by
  have T : ∀ ty, validTypeName ty = true → typeNameOk ty = true := by
    intro ty h
    simp only [typeNameOk, Bool.and_eq_true, beq_iff_eq]
    exact ⟨h, sj ty⟩
  intro k
  induction k with
  | zero => intro e hk; have := sz3_pos e; omega
  | succ k ih =>
    intro e hk hf
    have L : ∀ es : List Expr, (∀ a ∈ es, sz3 a ≤ k) → ParserImageList es = true → inFrag3L es = true := by
      intro es
      induction es with
      | nil => intro _ _; rfl
      | cons a es ihl =>
        intro hsz hfl
        simp only [ParserImageList, Bool.and_eq_true] at hfl
        simp only [inFrag3L, Bool.and_eq_true]
        exact ⟨ih a (hsz a (by simp)) hfl.1, ihl (fun x hx => hsz x (by simp [hx])) hfl.2⟩
    have K : ∀ kvs : List (String × Expr), (∀ kv ∈ kvs, sz3 kv.2 ≤ k) → ParserImageKVs kvs = true → inFrag3K kvs = true := by
      intro kvs
      induction kvs with
      | nil => intro _ _; rfl
      | cons kv kvs ihl =>
        obtain ⟨k', a⟩ := kv
        intro hsz hfl
        simp only [ParserImageKVs, Bool.and_eq_true] at hfl
        simp only [inFrag3K, Bool.and_eq_true]
        exact ⟨ih a (hsz (k', a) (by simp)) hfl.1, ihl (fun x hx => hsz x (by simp [hx])) hfl.2⟩
    cases e
    case lit p => cases p <;> simp_all [inFrag3, ParserImage]
    case var v => rfl
    case slot s => rfl
    case unknown n ty => simp [ParserImage] at hf
    case ite c t e' =>
      simp only [ParserImage, Bool.and_eq_true] at hf
      simp only [sz3] at hk
      simp [inFrag3, ih c (by omega) hf.1.1, ih t (by omega) hf.1.2, ih e' (by omega) hf.2]
    case and a b =>
      simp only [ParserImage, Bool.and_eq_true] at hf
      simp only [sz3] at hk
      simp [inFrag3, ih a (by omega) hf.1.1, ih b (by omega) hf.1.2, hf.2]
    case or a b =>
      simp only [ParserImage, Bool.and_eq_true] at hf
      simp only [sz3] at hk
      simp [inFrag3, ih a (by omega) hf.1.1, ih b (by omega) hf.1.2, hf.2]
    case unaryApp op a =>
      simp only [ParserImage] at hf
      simp only [sz3] at hk
      simp [inFrag3, ih a (by omega) hf]
    case binaryApp op a b =>
      simp only [ParserImage, Bool.and_eq_true] at hf
      simp only [sz3] at hk
      simp [inFrag3, ih a (by omega) hf.1, ih b (by omega) hf.2]
    case call fn args =>
      simp only [ParserImage, Bool.and_eq_true] at hf
      simp only [sz3] at hk
      simp only [inFrag3, Bool.and_eq_true]
      exact ⟨hf.1, L args (fun a ha => by have := sz3L_mem ha; omega) hf.2⟩
    case getAttr a x =>
      simp only [ParserImage] at hf
      simp only [sz3] at hk
      simp [inFrag3, ih a (by omega) hf]
    case hasAttr a x =>
      simp only [ParserImage] at hf
      simp only [sz3] at hk
      simp [inFrag3, ih a (by omega) hf]
    case like a x =>
      simp only [ParserImage] at hf
      simp only [sz3] at hk
      simp [inFrag3, ih a (by omega) hf]
    case is a x =>
      simp only [ParserImage, Bool.and_eq_true] at hf
      simp only [sz3] at hk
      simp [inFrag3, ih a (by omega) hf.1, T x hf.2]
    case set es =>
      simp only [ParserImage] at hf
      simp only [sz3] at hk
      simp only [inFrag3]
      exact L es (fun a ha => by have := sz3L_mem ha; omega) hf
    case record kvs =>
      simp only [ParserImage, Bool.and_eq_true] at hf
      simp only [sz3] at hk
      simp only [inFrag3, Bool.and_eq_true]
      exact ⟨by rw [sortedKeys3_eq]; exact hf.1,
        K kvs (fun kv hkv => by have := sz3K_mem (k := kv.1) (a := kv.2) hkv; omega) hf.2⟩

/-- The full statement, reduced to the single library fact `SplitOnJoin`. -/
theorem parse_print_full_of_splitOn (sj : SplitOnJoin) : ParsePrintFull :=
  fun me e h => parse_print_partial3 me e (parserImage_inFrag3 sj (sz3 e) e (Nat.le_refl _) h)

/-- **C05, expression level, full statement**: for every AST the parser can produce and every behaviour of the
`escape_debug` tables, parsing the printed form gives the AST back. -/
theorem parse_print_full : ParsePrintFull := parse_print_full_of_splitOn joinName_splitOn

-- the full theorem on a concrete AST
example : Parse.expr (Print.expr (fun c => c.toNat ≥ 127)
    (.is (.getAttr (.lit (.entityUID ⟨"Ns::User", "a\"b"⟩)) "if") "Ns::User")) =
    some (.is (.getAttr (.lit (.entityUID ⟨"Ns::User", "a\"b"⟩)) "if") "Ns::User") :=
  parse_print_full _ _ (by
    have h : "Ns::User".splitOn "::" = ["Ns", "User"] := by split_on_eval
    simp [ParserImage, validTypeName, h]
    decide)

/-- the old fragment is inside the new one -/
theorem inFrag2_inFrag3 : ∀ k e, fsize e ≤ k → inFrag2 e = true → inFrag3 e = true := by
  intro k
  induction k with
  | zero => intro e hk; have := fsize_pos e; omega
  | succ k ih =>
    intro e hk hf
    cases e
    case lit p => cases p <;> simp_all [inFrag2, inFrag3]
    case var v => rfl
    case ite c t e' =>
      simp only [inFrag2, Bool.and_eq_true] at hf
      simp only [fsize] at hk
      simp [inFrag3, ih c (by omega) hf.1.1, ih t (by omega) hf.1.2, ih e' (by omega) hf.2]
    case and a b =>
      simp only [inFrag2, Bool.and_eq_true] at hf
      simp only [fsize] at hk
      simp [inFrag3, ih a (by omega) hf.1.1, ih b (by omega) hf.1.2, hf.2]
    case or a b =>
      simp only [inFrag2, Bool.and_eq_true] at hf
      simp only [fsize] at hk
      simp [inFrag3, ih a (by omega) hf.1.1, ih b (by omega) hf.1.2, hf.2]
    case unaryApp op a =>
      simp only [fsize] at hk
      cases op <;> simp only [inFrag2] at hf
      · simp [inFrag3, ih a (by omega) hf]
      · simp [inFrag3, ih a (by omega) hf]
      · simp at hf
    case binaryApp op a b =>
      simp only [inFrag2, Bool.and_eq_true] at hf
      simp only [fsize] at hk
      simp [inFrag3, ih a (by omega) hf.1.2, ih b (by omega) hf.2]
    case hasAttr e' a =>
      simp only [inFrag2] at hf
      simp only [fsize] at hk
      simp [inFrag3, ih e' (by omega) hf]
    all_goals (simp [inFrag2] at hf)

-- non-vacuity: `if !(-(1) - (-9223372036854775808) < principal * 2) && true || "a\"b" == context then -5 else 7 in resource`
def sample : Expr :=
  .ite (.or (.and (.unaryApp .not (.binaryApp .less (.binaryApp .sub (.unaryApp .neg (.lit (.int 1))) (.lit (.int (-9223372036854775808))))
                                     (.binaryApp .mul (.var .principal) (.lit (.int 2)))))
                  (.lit (.bool true)))
            (.binaryApp .eq (.lit (.string "a\"b")) (.var .context)))
       (.lit (.int (-5)))
       (.binaryApp .mem (.lit (.int 7)) (.var .resource))

example : inFrag2 sample = true := by decide
example : Parse.expr (Print.expr (fun c => c.toNat ≥ 127) sample) = some sample := parse_print_partial _ _ (by decide)
example : Print.expr (fun _ => false) (.binaryApp .add (.lit (.int (-1))) (.binaryApp .mul (.lit (.int 2)) (.var .context))) =
    [.lparen, .minus, .num 1, .rparen, .plus, .lparen, .num 2, .star, .ident "context", .rparen] := by decide

-- left-nested chains are printed without parentheses and read back with the same association
def chainSample : Expr :=
  .and (.and (.binaryApp .less (.binaryApp .sub (.binaryApp .sub (.lit (.int 1)) (.lit (.int 2))) (.lit (.int 3)))
                               (.binaryApp .sub (.lit (.int 1)) (.binaryApp .sub (.lit (.int 2)) (.lit (.int 3)))))
             (.var .principal))
       (.or (.or (.var .action) (.var .resource)) (.lit (.bool false)))
example : Print.expr (fun _ => false) chainSample =
    [.lparen, .lparen, .num 1, .minus, .num 2, .minus, .num 3, .rparen, .lt,
       .lparen, .num 1, .minus, .lparen, .num 2, .minus, .num 3, .rparen, .rparen, .rparen,
     .andand, .ident "principal", .andand, .lparen, .ident "action", .oror, .ident "resource", .oror, .ident "false", .rparen] := by decide
example : Parse.expr (Print.expr (fun _ => false) chainSample) = some chainSample := parse_print_partial _ _ (by decide)

-- reserved words and non-identifiers as attribute names after `has`
example : Print.expr (fun _ => false) (.hasAttr (.hasAttr (.var .context) "if") "a b") =
    [.lparen, .ident "context", .ident "has", .str ['i', 'f'], .rparen, .ident "has", .str ['a', ' ', 'b']] := by decide
example : Parse.expr (Print.expr (fun _ => true) (.unaryApp .not (.hasAttr (.hasAttr (.var .context) "if") "a\"b"))) =
    some (.unaryApp .not (.hasAttr (.hasAttr (.var .context) "if") "a\"b")) := parse_print_partial _ _ (by decide)

/-! ### from text: parse, print, parse again -/

/-- Soundness of the image predicate: on well-formed tokens (`TokWF`: every `IDENTIFIER` token has identifier syntax,
which the lexer guarantees) the parser only returns ASTs in `ParserImage`.  (Uses `splitOn_joinName`,
`(intercalate "::" comps).splitOn "::" = comps` for identifiers, because `ParserImage` and the printer look at a type
name through `String.splitOn`.) -/
theorem parse_image (ts : List Token) (hwf : TokWF ts) (e : Expr) (h : Parse.expr ts = some e) :
    ParserImage e = true :=
  inFrag3_parserImage (sz3 e) e (Nat.le_refl _) (parse_sound splitOn_joinName hwf h)

/-- The round trip starting from text: whatever the parser accepts, printing the AST (with any escape table) and
parsing again gives the same AST — hence the same meaning.  (Token level.) -/
theorem parse_print_parse (mustEscape : Char → Bool) (ts : List Token) (hwf : TokWF ts) (e : Expr)
    (h : Parse.expr ts = some e) : Parse.expr (Print.expr mustEscape e) = some e :=
  parse_print_partial3 mustEscape e (parse_sound splitOn_joinName hwf h)

/-- "…and meaning": the re-parsed expression evaluates to the same result on every request, entity store and slot
environment (immediate from `parse_print_full` / `parse_print_parse`; stated because the property says so). -/
theorem round_trip_meaning (mustEscape : Char → Bool) (e : Expr) (h : ParserImage e = true)
    (req : Request) (es : Entities) (env : SlotEnv) :
    (Parse.expr (Print.expr mustEscape e)).map (evaluate req es env) = some (evaluate req es env e) := by
  rw [parse_print_full mustEscape e h]; rfl

theorem round_trip_meaning_text (mustEscape : Char → Bool) (ts : List Token) (hwf : TokWF ts) (e : Expr)
    (h : Parse.expr ts = some e) (req : Request) (es : Entities) (env : SlotEnv) :
    (Parse.expr (Print.expr mustEscape e)).map (evaluate req es env) = (Parse.expr ts).map (evaluate req es env) := by
  rw [parse_print_parse mustEscape ts hwf e h, h]

-- non-vacuity: `principal has a.b && resource != context.x` (desugared forms: `has a.b`, `!=`)
example :
    Parse.expr (Print.expr (fun _ => false)
      (.and (.and (.hasAttr (.var .principal) "a") (.hasAttr (.getAttr (.var .principal) "a") "b"))
            (.unaryApp .not (.binaryApp .eq (.var .resource) (.getAttr (.var .context) "x"))))) =
    some (.and (.and (.hasAttr (.var .principal) "a") (.hasAttr (.getAttr (.var .principal) "a") "b"))
            (.unaryApp .not (.binaryApp .eq (.var .resource) (.getAttr (.var .context) "x")))) :=
  parse_print_parse _
    [.ident "principal", .ident "has", .ident "a", .dot, .ident "b", .andand, .ident "resource", .neq, .ident "context", .dot, .ident "x"]
    (by intro s hs; simp at hs; rcases hs with rfl | rfl | rfl | rfl | rfl | rfl | rfl <;> decide) _ (by rfl)

/-! ### non-vacuity of `parse_print_partial3` -/

theorem splitOn_NsUser : "Ns::User".splitOn "::" = ["Ns", "User"] := by split_on_eval
theorem splitOn_datetime : "datetime".splitOn "::" = ["datetime"] := by split_on_eval
theorem splitOn_Action : "Action".splitOn "::" = ["Action"] := by split_on_eval
theorem typeNameOk_NsUser : typeNameOk "Ns::User" = true := by unfold typeNameOk; rw [splitOn_NsUser]; decide
theorem typeNameOk_Action : typeNameOk "Action" = true := by unfold typeNameOk; rw [splitOn_Action]; decide

-- `if principal is Ns::User && principal in Ns::User::"a\"b" then context.ip.isInRange(ip("10.0.0.0/8")) && [1, resource.tags["x y"]].contains(2)
--    else {a: ?principal, "if": decimal("1.5").lessThan(context["true"]), principal: resource like "a*\*"}.a.getTag("k") == Action::"view"`
def sample3 : Expr :=
  .ite (.and (.is (.var .principal) "Ns::User") (.binaryApp .mem (.var .principal) (.lit (.entityUID ⟨"Ns::User", "a\"b"⟩))))
       (.and (.call "isInRange" [.getAttr (.var .context) "ip", .call "ip" [.lit (.string "10.0.0.0/8")]])
             (.binaryApp .contains (.set [.lit (.int 1), .getAttr (.getAttr (.var .resource) "tags") "x y"]) (.lit (.int 2))))
       (.binaryApp .eq
          (.binaryApp .getTag
            (.getAttr (.record [("a", .slot .principal),
                                ("if", .call "lessThan" [.call "decimal" [.lit (.string "1.5")], .getAttr (.var .context) "true"]),
                                ("principal", .like (.var .resource) [.char 'a', .star, .char '*'])]) "a")
            (.lit (.string "k")))
          (.lit (.entityUID ⟨"Action", "view"⟩)))

theorem sample3_inFrag3 : inFrag3 sample3 = true := by
  simp [sample3, inFrag3, inFrag3L, inFrag3K, sortedKeys3, typeNameOk_NsUser, typeNameOk_Action, isBoolLit,
    isExtFunction, isExtMethod, extFunctions, extMethods]
  decide

example : Parse.expr (Print.expr (fun c => c.toNat ≥ 127) sample3) = some sample3 :=
  parse_print_partial3 _ _ sample3_inFrag3

-- what the printer produces for member chains, method / function calls, sets, records (no type names: closed computation)
example : Print.expr (fun _ => false)
    (.binaryApp .add (.getAttr (.getAttr (.var .context) "a") "b c")
      (.unaryApp .isEmpty (.call "offset" [.call "datetime" [.lit (.string "x")], .record [("k", .set []), ("like", .lit (.int (-1)))]]))) =
    [.ident "context", .dot, .ident "a", .lbrack, .str ['b', ' ', 'c'], .rbrack, .plus,
     .ident "datetime", .lparen, .str ['x'], .rparen, .dot, .ident "offset", .lparen,
       .lbrace, .ident "k", .colon, .lbrack, .rbrack, .comma, .str ['l', 'i', 'k', 'e'], .colon, .lparen, .minus, .num 1, .rparen, .rbrace,
     .rparen, .dot, .ident "isEmpty", .lparen, .rparen] := by
  simp [Print.expr, printE, printEs, printEsTail, printKVs, printKVsTail, paren, needsParens, infixTok, isBin, isExtMethod, extMethods,
    nameTokens, splitOn_datetime, keyTok, strTok, isNormalizedIdent, varName]
  decide

/-! ### policies and templates -/

/-- Policies / templates the lowering `cst_to_ast::to_policy_template` can produce: annotations in strict key order (a
`BTreeMap`), every scope-constraint form with valid type names, action constraints over action-typed uids (always a
list after `in`), no condition (`None`) or one condition from the expression parser's image that contains no slot.
The `id` is arbitrary (it is an argument of the parser, not part of the text). -/
def PolicyImage (b : TemplateBody) : Bool := policyOKW validTypeName ParserImage b

/-- The full statement (C05, policy level): for every policy or template the parser can produce and every behaviour of
the `escape_debug` tables, parsing the printed form gives the same object back (effect, annotations, scope constraints,
slots, condition) — hence the same `condition()` and the same evaluation on every request. -/
def PolicyParsePrintFull : Prop :=
  ∀ (mustEscape : Char → Bool) (b : TemplateBody), PolicyImage b = true → parsePolicy b.id (printPolicy mustEscape b) = some b

theorem validTypeName_ok {ty : String} (h : validTypeName ty = true) : typeNameOk ty = true := by
  simp only [typeNameOk, Bool.and_eq_true, beq_iff_eq]
  exact ⟨h, joinName_splitOn ty⟩

/-- **C05, policy level, full statement.** -/
theorem policy_parse_print : PolicyParsePrintFull := fun me b h =>
  parsePolicy_print me b (policyOKW_mono (fun _ => validTypeName_ok)
    (fun e he => parserImage_inFrag3 joinName_splitOn (sz3 e) e (Nat.le_refl _) he) h)

/-- annotation values: any string content (quotes, backslashes, control characters, any Unicode, whatever the tables of
`escape_debug` decide) is read back unchanged; stated for a whole annotation block followed by the effect keyword -/
theorem annotation_round_trip (mustEscape : Char → Bool) (annots : List (String × String)) (eff : String) (rest : List Token) :
    parseAnnots (annots.length + 1) (printAnnots mustEscape annots ++ .ident eff :: rest) = some (annots, .ident eff :: rest) :=
  parseAnnots_print mustEscape eff rest annots _ (Nat.lt_succ_self _)

/-- from text: whatever token list the model parser accepts with a result in the image, printing that result (any escape
table) and parsing again gives the same object -/
theorem policy_round_trip_text (mustEscape : Char → Bool) (id : String) (ts : List Token) (b : TemplateBody)
    (h : parsePolicy id ts = some b) (hi : PolicyImage b = true) :
    parsePolicy b.id (printPolicy mustEscape b) = parsePolicy id ts := by
  rw [h]; exact policy_parse_print mustEscape b hi

/-- Soundness of `PolicyImage` (statement): on well-formed tokens the policy parser only returns objects of the image. -/
def PolicyParseImage : Prop :=
  ∀ (id : String) (ts : List Token) (b : TemplateBody), TokWF ts → parsePolicy id ts = some b → PolicyImage b = true

/-- **Soundness of the policy image predicate**: on well-formed tokens (`TokWF`: `IDENTIFIER` tokens have identifier syntax)
`parsePolicy` only returns `PolicyImage` objects — the annotation list is strictly key-sorted (`foldr insertAnn` of a
duplicate-free list), every type name after `is` / in an entity literal is valid, the action uids are action-typed, and the
condition (one clause, or several `when`/`unless` clauses folded with the builder's `and`) is in `ParserImage` and slot-free.
No arm of the model parser leaves the image.  (Parser-invariant induction: Lemmas/SyntaxPolicySound.lean on top of
`parseFuel_sound`.) -/
theorem policy_parse_image : PolicyParseImage := fun id ts b hwf h =>
  policyOKW_mono (fun _ => typeNameOk_valid) (fun e he => inFrag3_parserImage (sz3 e) e (Nat.le_refl _) he)
    (parsePolicyF_sound splitOn_joinName _ id ts b hwf h)

/-- **From text, no image hypothesis**: whatever well-formed token list the model parser accepts (any annotations, scope
forms, any number of `when`/`unless` clauses), printing the result (any escape table) and parsing again gives the same
object. -/
theorem policy_round_trip_text_full (mustEscape : Char → Bool) (id : String) (ts : List Token) (hwf : TokWF ts)
    (b : TemplateBody) (h : parsePolicy id ts = some b) :
    parsePolicy b.id (printPolicy mustEscape b) = parsePolicy id ts :=
  policy_round_trip_text mustEscape id ts b h (policy_parse_image id ts b hwf h)

-- non-vacuity: the template
--   @id("a\"b") permit(principal == ?principal, action, resource is Ns::User in ?resource)
--     when { context.x } unless { principal has y };
def samplePolicy : TemplateBody :=
  { id := "p0", annotations := [("id", "a\"b")], effect := .permit,
    principalC := .eq .slot, actionC := .any, resourceC := .isIn "Ns::User" .slot,
    nonScope := some (.and (.getAttr (.var .context) "x") (.unaryApp .not (.hasAttr (.var .principal) "y"))) }

def samplePolicyTokens : List Token :=
  [.at, .ident "id", .lparen, .str ['a', '\\', '"', 'b'], .rparen, .ident "permit", .lparen,
   .ident "principal", .eqeq, .slot "?principal", .comma, .ident "action", .comma,
   .ident "resource", .ident "is", .ident "Ns", .dcolon, .ident "User", .ident "in", .slot "?resource", .rparen,
   .ident "when", .lbrace, .ident "context", .dot, .ident "x", .rbrace,
   .ident "unless", .lbrace, .ident "principal", .ident "has", .ident "y", .rbrace, .semi]

-- the `when` + `unless` clauses are folded into `context.x && !(principal has y)`
example : (parsePolicy "p0" samplePolicyTokens).map (·.nonScope) = some samplePolicy.nonScope := by rfl
example : (parsePolicy "p0" samplePolicyTokens).map (fun b => (b.annotations, b.principalC, b.actionC, b.resourceC)) =
    some ([("id", "a\"b")], .eq .slot, .any, .isIn "Ns::User" .slot) := by rfl

theorem samplePolicyTokens_wf : TokWF samplePolicyTokens := by
  intro s hs
  simp only [samplePolicyTokens, List.mem_cons, Token.ident.injEq, reduceCtorEq, false_or, List.mem_nil_iff, or_false] at hs
  rcases hs with rfl | rfl | rfl | rfl | rfl | rfl | rfl | rfl | rfl | rfl | rfl | rfl | rfl | rfl | rfl | rfl <;> decide

-- non-vacuity of `policy_parse_image` / `policy_round_trip_text_full`: a two-clause text (`when … unless …`)
example : (parsePolicy "p0" samplePolicyTokens).map PolicyImage = some true := by
  cases h : parsePolicy "p0" samplePolicyTokens with
  | none => have : (parsePolicy "p0" samplePolicyTokens).isSome = true := by rfl
            rw [h] at this; cases this
  | some b => simp [policy_parse_image "p0" samplePolicyTokens b samplePolicyTokens_wf h]
example : (parsePolicy "p0" samplePolicyTokens).isSome = true := by rfl

theorem samplePolicy_image : PolicyImage samplePolicy = true := by
  simp [PolicyImage, samplePolicy, policyOKW, sortedAnn, scopeOKW, refOKW, actionOKW, condOKW, validTypeName,
    splitOn_NsUser, ParserImage, Expr.slots] <;> decide

example : parsePolicy "p0" (printPolicy (fun c => c.toNat ≥ 127) samplePolicy) = some samplePolicy :=
  policy_parse_print _ _ samplePolicy_image

-- what the printer produces for it: ONE `when` clause holding the folded condition
--   @id("a\"b") permit(principal == ?principal, action, resource is Ns::User in ?resource) when { context.x && (!(principal has y)) };
example : printPolicy (fun _ => false) samplePolicy =
    [.at, .ident "id", .lparen, .str ['a', '\\', '"', 'b'], .rparen, .ident "permit", .lparen,
     .ident "principal", .eqeq, .slot "?principal", .comma, .ident "action", .comma,
     .ident "resource", .ident "is", .ident "Ns", .dcolon, .ident "User", .ident "in", .slot "?resource", .rparen,
     .ident "when", .lbrace, .ident "context", .dot, .ident "x", .andand, .lparen, .bang, .lparen, .ident "principal", .ident "has",
     .ident "y", .rparen, .rparen, .rbrace, .semi] := by
  simp [printPolicy, samplePolicy, printAnnots, printScope, printAction, printCond, printE, refExpr, nameTokens, splitOn_NsUser,
    effectName, slotName, varName, paren, needsParens, isAnd, keyTok, strTok, isNormalizedIdent]
  decide

/-! ### the lexer -/

/-- **Lexing a printed token list gives the token list back**: for every list of lexer-producible tokens (`TokOK`:
`IDENTIFIER` tokens are identifier-shaped `[_a-zA-Z][_a-zA-Z0-9]*`, string tokens hold text of the form `(\\.|[^"\\])*` — e.g.
anything `escape_debug` prints —, slot tokens are `?` + identifier; numbers and punctuation unrestricted), the model lexer
(`Cedar/Syntax/Lex.lean`, mirror of the `match { … }` block of grammar.lalrpop) maps the text `render ts` (tokens separated
by single spaces) to `ts`.  Full alphabet of `Token`. -/
theorem lex_print (ts : List Token) (h : ∀ t ∈ ts, TokOK t = true) : lex (render ts) = some ts :=
  lexFuel_render ts h _ (Nat.lt_succ_self _)

-- non-vacuity: the sample template's tokens (annotation with an escaped quote, slots, `::`, `==`, `&&`-free two-clause text)
example : lex (render samplePolicyTokens) = some samplePolicyTokens := lex_print _ (by decide +kernel)
-- what the lexer does with comments, odd spacing, maximal munch, leading zeros, keywords, escapes
example : lex "permit(principal,action,resource)when{007<=x1&&!(a!=b)||\"q\\\"\"like\"*\"};// done".toList =
    some [.ident "permit", .lparen, .ident "principal", .comma, .ident "action", .comma, .ident "resource", .rparen, .ident "when", .lbrace,
      .num 7, .le, .ident "x1", .andand, .bang, .lparen, .ident "a", .neq, .ident "b", .rparen, .oror, .str ['q', '\\', '"'],
      .ident "like", .str ['*'], .rbrace, .semi] := by decide +kernel
example : lex "a // c\n\t/ b::c ?principal == = ".toList =
    some [.ident "a", .slash, .ident "b", .dcolon, .ident "c", .slot "?principal", .eqeq, .eq] := by decide +kernel
example : lex "\"a\\\nb\"".toList = none := by decide +kernel   -- backslash-newline inside a string token
example : lex "a & b".toList = none := by decide +kernel
example : lex "\"abc".toList = none := by decide +kernel
example : lex "? x".toList = none := by decide +kernel

/-- the lexer guarantees the well-formedness the parser theorems assume: every `IDENTIFIER` token it returns is
identifier-shaped -/
theorem lex_tokWF (cs : List Char) (ts : List Token) (h : lex cs = some ts) : TokWF ts :=
  lexFuel_tokWF _ cs ts h

/-- **From characters**: whatever policy TEXT the model lexer + parser accept, printing the parsed object (any escape table)
and parsing the tokens again gives the same object — no hypothesis on tokens or image left. -/
theorem policy_round_trip_chars (mustEscape : Char → Bool) (id : String) (text : List Char) (ts : List Token) (b : TemplateBody)
    (hl : lex text = some ts) (h : parsePolicy id ts = some b) :
    parsePolicy b.id (printPolicy mustEscape b) = some b := by
  rw [policy_round_trip_text_full mustEscape id ts (lex_tokWF text ts hl) b h, h]

example : ∃ b, parsePolicy "p" ((lex "@a(\"x\")permit(principal,action,resource)when{1<2}unless{false};".toList).getD []) = some b ∧
    PolicyImage b = true := by
  cases h : parsePolicy "p" ((lex "@a(\"x\")permit(principal,action,resource)when{1<2}unless{false};".toList).getD []) with
  | none => exact absurd h (by decide +kernel)
  | some b =>
    refine ⟨b, rfl, policy_parse_image "p" _ b ?_ h⟩
    cases hl : lex "@a(\"x\")permit(principal,action,resource)when{1<2}unless{false};".toList with
    | none => intro s hs; simp at hs
    | some ts => simpa using lex_tokWF _ ts hl

/-! ### the printers only emit lexer-producible tokens; the round trip on characters -/

/-- **`escape_debug` output is always one `STRINGLIT` body** `(\\.|[^"\\])*`, for EVERY escape table: no side condition of the
form "the table escapes `"` and `\`" is needed, because in `char::escape_debug_ext` (model: `escapeChar`) the arms for
`\0 \t \r \n \\ \" \'` come before the table lookups (`is_grapheme_extended`, `is_printable`), every escape emitted is `\` + a
non-newline character, and the `\u{…}` payload is lower-case hex.  Hence every string token of the printers (string literals,
entity ids, non-identifier attribute names / record keys, annotation values) lexes back as one token. -/
theorem escapeStr_rawOK (mustEscape : Char → Bool) (s : List Char) : rawOK (escapeStr mustEscape s) = true :=
  rawOK_escapeStr mustEscape s

/-- same with the position-dependent table of `str::escape_debug` (first character vs the rest) -/
theorem escapeStrAt_rawOK (mustEscape : Nat → Char → Bool) (i : Nat) (s : List Char) : rawOK (escapeStrAt mustEscape i s) = true :=
  rawOK_escapeStrAt mustEscape s i

/-- `like` patterns (`*`, `\*`, `escape_debug` of the other characters) -/
theorem escapePattern_rawOK (mustEscape : Char → Bool) (p : Pattern) : rawOK (escapePattern mustEscape p) = true :=
  rawOK_escapePattern mustEscape p

-- what the unconditional arms are needed for: a raw quote / a trailing backslash / backslash-newline is not a string body
example : rawOK ['a', '"'] = false ∧ rawOK ['a', '\\'] = false ∧ rawOK ['\\', '\n'] = false := by decide +kernel
example : escapeStr (fun _ => false) ['a', '"', '\\', '\n'] = ['a', '\\', '"', '\\', '\\', '\\', 'n'] := by decide +kernel

/-- **Every token of the expression printer is lexer-producible** (`TokOK`) on the parser image: bare identifiers are keywords,
variable / method / extension-function names, components of valid type names, or attribute names / record keys that passed
`is_normalized_ident`; string tokens hold `escape_debug` output; slots are `?principal` / `?resource`.  (`ParserImage` is used
only through: type names valid, `call` names are extension names; proof: Lemmas/SyntaxTokOK.lean.) -/
theorem printE_tokOK (mustEscape : Char → Bool) (e : Expr) (h : ParserImage e = true) :
    ∀ t ∈ Print.expr mustEscape e, TokOK t = true :=
  printE_tokOK_frag mustEscape e (parserImage_inFrag3 joinName_splitOn (sz3 e) e (Nat.le_refl _) h)

/-- annotation keys are identifier-shaped.  In Rust the keys are `AnyId`s (identifier-shaped by construction); the model's
`TemplateBody` keeps them as `String`s and `PolicyImage` does not constrain them (the token-level theorems do not need it), so on
the character level it is an explicit invariant of the object — established by the parser (`parse_annKeysIdent`). -/
def AnnKeysIdent (b : TemplateBody) : Bool := annKeysOK b.annotations

/-- **Every token of the policy printer is lexer-producible** on the policy image with identifier-shaped annotation keys. -/
theorem printPolicy_tokOK (mustEscape : Char → Bool) (b : TemplateBody) (h : PolicyImage b = true) (hk : AnnKeysIdent b = true) :
    ∀ t ∈ printPolicy mustEscape b, TokOK t = true :=
  allOK_mem (printPolicy_allOK mustEscape b (policyOKW_mono (fun _ => validTypeName_ok)
    (fun e he => parserImage_inFrag3 joinName_splitOn (sz3 e) e (Nat.le_refl _) he) h) hk)

/-- on well-formed tokens the policy parser only returns identifier-shaped annotation keys -/
theorem parse_annKeysIdent (id : String) (ts : List Token) (b : TemplateBody) (hwf : TokWF ts) (h : parsePolicy id ts = some b) :
    AnnKeysIdent b = true :=
  parsePolicyF_annKeysOK _ id ts b hwf h

-- `AnnKeysIdent` cannot be dropped: a `TemplateBody` in `PolicyImage` whose annotation key is the `String` "a b" prints (token
-- level) to something the token-level parser reads back, but the rendered TEXT lexes to different tokens
def badKeyPolicy : TemplateBody := { samplePolicy with annotations := [("a b", "")], nonScope := none }
example : PolicyImage badKeyPolicy = true := by
  simp [PolicyImage, badKeyPolicy, samplePolicy, policyOKW, sortedAnn, scopeOKW, refOKW, actionOKW, condOKW, validTypeName,
    splitOn_NsUser] <;> decide +kernel
example : lex (render (printPolicy (fun _ => false) badKeyPolicy)) ≠ some (printPolicy (fun _ => false) badKeyPolicy) := by
  have hp : printPolicy (fun _ => false) badKeyPolicy =
      [.at, .ident "a b", .lparen, .str [], .rparen, .ident "permit", .lparen,
       .ident "principal", .eqeq, .slot "?principal", .comma, .ident "action", .comma,
       .ident "resource", .ident "is", .ident "Ns", .dcolon, .ident "User", .ident "in", .slot "?resource", .rparen, .semi] := by
    simp [printPolicy, badKeyPolicy, samplePolicy, printAnnots, printScope, printAction, printCond, printE, refExpr, nameTokens,
      splitOn_NsUser, effectName, slotName, strTok]
    decide +kernel
  rw [hp]
  decide +kernel

/-- **C05 on characters, expression level**: for every AST of the parser image and every escape table, the rendered text of the
printed expression lexes back to exactly the printed tokens, and lexing + parsing it gives the AST back. -/
theorem expr_text_round_trip (mustEscape : Char → Bool) (e : Expr) (h : ParserImage e = true) :
    lex (render (Print.expr mustEscape e)) = some (Print.expr mustEscape e) ∧
    (lex (render (Print.expr mustEscape e))).bind Parse.expr = some e := by
  have hl := lex_print _ (printE_tokOK mustEscape e h)
  exact ⟨hl, by rw [hl]; exact parse_print_full mustEscape e h⟩

/-- from text, expression level: whatever text the model lexer + parser accept, print → render → lex → parse gives the same AST -/
theorem expr_text_round_trip_from_text (mustEscape : Char → Bool) (text : List Char) (ts : List Token) (e : Expr)
    (hl : lex text = some ts) (h : Parse.expr ts = some e) :
    (lex (render (Print.expr mustEscape e))).bind Parse.expr = some e :=
  (expr_text_round_trip mustEscape e (parse_image ts (lex_tokWF text ts hl) e h)).2

/-- **C05 on characters, policy level**: for every policy / template of the parser image (with identifier-shaped annotation
keys) and every escape table, the rendered text of the printed policy lexes back to exactly the printed tokens, and
lexing + parsing that text gives the same object. -/
theorem text_round_trip (mustEscape : Char → Bool) (b : TemplateBody) (h : PolicyImage b = true) (hk : AnnKeysIdent b = true) :
    lex (render (printPolicy mustEscape b)) = some (printPolicy mustEscape b) ∧
    (lex (render (printPolicy mustEscape b))).bind (parsePolicy b.id) = some b := by
  have hl := lex_print _ (printPolicy_tokOK mustEscape b h hk)
  exact ⟨hl, by rw [hl]; exact policy_parse_print mustEscape b h⟩

/-- **From text to text to object, no side hypothesis**: whatever policy TEXT the model lexer + parser accept, printing the parsed
object (any escape table), rendering it as characters, lexing and parsing again gives the same object. -/
theorem text_round_trip_from_text (mustEscape : Char → Bool) (id : String) (text : List Char) (ts : List Token) (b : TemplateBody)
    (hl : lex text = some ts) (h : parsePolicy id ts = some b) :
    (lex (render (printPolicy mustEscape b))).bind (parsePolicy b.id) = some b :=
  have hwf := lex_tokWF text ts hl
  (text_round_trip mustEscape b (policy_parse_image id ts b hwf h) (parse_annKeysIdent id ts b hwf h)).2

-- non-vacuity: the sample template (annotation value with an escaped quote, slots, `is … in`, folded condition), sample3
example : (lex (render (printPolicy (fun c => c.toNat ≥ 127) samplePolicy))).bind (parsePolicy "p0") = some samplePolicy :=
  (text_round_trip _ samplePolicy samplePolicy_image (by decide +kernel)).2
example : ∀ t ∈ printPolicy (fun c => c.toNat ≥ 127) samplePolicy, TokOK t = true :=
  printPolicy_tokOK _ _ samplePolicy_image (by decide +kernel)
example : (lex (render (Print.expr (fun c => c.toNat ≥ 127) sample3))).bind Parse.expr = some sample3 :=
  (expr_text_round_trip _ sample3 (inFrag3_parserImage _ _ (Nat.le_refl _) sample3_inFrag3)).2
-- from the text of the sample (tokens rendered with single spaces): lex, parse, print, render, lex, parse
example : ∃ b, (lex (render samplePolicyTokens)).bind (parsePolicy "p0") = some b ∧
    (lex (render (printPolicy (fun _ => true) b))).bind (parsePolicy b.id) = some b := by
  have hl : lex (render samplePolicyTokens) = some samplePolicyTokens := lex_print _ (by decide +kernel)
  cases h : parsePolicy "p0" samplePolicyTokens with
  | none => have : (parsePolicy "p0" samplePolicyTokens).isSome = true := by rfl
            rw [h] at this; cases this
  | some b => exact ⟨b, by rw [hl]; exact h, text_round_trip_from_text _ "p0" _ _ b hl h⟩

/-! ### spacing does not matter -/

/-- **Spacing insensitivity of the lexer.**  Write each token followed by an arbitrary separator (`tss : List (Token × List Char)`,
text `lead ++ t₁ s₁ t₂ s₂ …`).  If every token is lexer-producible, every separator and the leading text is skippable
(`Filler`: any sequence of Unicode blanks and `//…` comments closed by `\n` / `\r`; the EMPTY separator is allowed), and the
text following each token does not extend it under longest match (`stopsTok`: no identifier character after an identifier /
slot, no digit after a number, no `:` after `:`, no `=` after `= ! < >`, no `/` after `/`), then `lex` returns exactly the tokens.
`render` (single spaces), Rust's `Display` spacing (`permit(principal, action, resource) when { … };`, `a.b`, `f(x)`, `[1, 2]`)
and the tightest possible spacing (`lex_renderWith` with `minSep`) are instances. -/
theorem lex_respace (lead : List Char) (tss : List (Token × List Char)) (hl : Filler lead) (h : Spaced tss) :
    lex (lead ++ respaceGo tss) = some (tss.map Prod.fst) :=
  lexFuel_respace lead hl tss h

/-- separators chosen per adjacent pair by any admissible function (`SepFine sep`: `sep t t'` is skippable text and
`sep t t' ++ tokChars t'` does not extend `t`) -/
theorem lex_renderWith (sep : Token → Token → List Char) (hs : SepFine sep) (ts : List Token) (h : ∀ t ∈ ts, TokOK t = true) :
    lex (renderWith sep ts) = some ts := by
  have := lex_respace [] (pairsWith sep ts) .nil (spaced_pairsWith sep hs ts h)
  rwa [List.nil_append, respaceGo_pairsWith, pairsWith_fst] at this

/-- the tightest spacing (a blank only where two tokens would glue, `NoGlue`) lexes back -/
theorem lex_renderMin (ts : List Token) (h : ∀ t ∈ ts, TokOK t = true) : lex (renderWith minSep ts) = some ts :=
  lex_renderWith minSep sepFine_minSep ts h

/-- a separator that starts with a blank never extends the token before it; a non-empty separator decides alone -/
theorem stopsTok_blank (t : Token) (c : Char) (h : isWs c = true) (R : List Char) : stopsTok t (c :: R) = true :=
  stopsTok_ws t h R

/-- **C05 on characters with any spacing**: for every policy / template `b` of the parser image, every escape table and EVERY admissible way of spacing the printed tokens (`tss` carries the printer's tokens,
`Spaced tss`), lexing + parsing the text gives `b` back. -/
theorem text_round_trip_spacing (mustEscape : Char → Bool) (b : TemplateBody) (h : PolicyImage b = true)
    (lead : List Char) (tss : List (Token × List Char)) (hl : Filler lead) (hs : Spaced tss)
    (ht : tss.map Prod.fst = printPolicy mustEscape b) :
    (lex (lead ++ respaceGo tss)).bind (parsePolicy b.id) = some b := by
  rw [lex_respace lead tss hl hs, ht]
  exact policy_parse_print mustEscape b h

/-- same at expression level -/
theorem expr_text_round_trip_spacing (mustEscape : Char → Bool) (e : Expr) (h : ParserImage e = true)
    (lead : List Char) (tss : List (Token × List Char)) (hl : Filler lead) (hs : Spaced tss)
    (ht : tss.map Prod.fst = Print.expr mustEscape e) :
    (lex (lead ++ respaceGo tss)).bind Parse.expr = some e := by
  rw [lex_respace lead tss hl hs, ht]
  exact parse_print_full mustEscape e h

/-- the printed policy in the tightest spacing round-trips (no `Spaced` hypothesis left: the printer's tokens are `TokOK`) -/
theorem text_round_trip_min (mustEscape : Char → Bool) (b : TemplateBody) (h : PolicyImage b = true) (hk : AnnKeysIdent b = true) :
    (lex (renderWith minSep (printPolicy mustEscape b))).bind (parsePolicy b.id) = some b := by
  rw [lex_renderMin _ (printPolicy_tokOK mustEscape b h hk)]
  exact policy_parse_print mustEscape b h

-- non-vacuity: the sample template in the tightest spacing, its text, and a hand-spaced text with a comment and odd blanks
example : (lex (renderWith minSep (printPolicy (fun _ => false) samplePolicy))).bind (parsePolicy "p0") = some samplePolicy :=
  text_round_trip_min _ samplePolicy samplePolicy_image (by decide +kernel)
example : String.ofList (renderWith minSep samplePolicyTokens) =
    "@id(\"a\\\"b\")permit(principal==?principal,action,resource is Ns::User in?resource)when{context.x}unless{principal has y};" := by
  decide +kernel
example : lex ("\t".toList ++ respaceGo [(.ident "a", "// c \"\\\r\n ".toList), (.lt, "\u00a0".toList), (.eq, " ".toList), (.eq, []), (.num 7, []),
      (.slash, " //x\n".toList), (.ident "b", [])]) =
    some [.ident "a", .lt, .eq, .eq, .num 7, .slash, .ident "b"] :=
  lex_respace _ _ (.ws (by decide +kernel) .nil)
    ⟨by decide +kernel, .comment (body := " c \"\\".toList) '\r' (by decide +kernel) (.inr rfl) (.ws (by decide +kernel) (.ws (by decide +kernel) .nil)), by decide +kernel,
     by decide +kernel, .ws (by decide +kernel) .nil, by decide +kernel,
     by decide +kernel, .ws (by decide +kernel) .nil, by decide +kernel,
     by decide +kernel, .nil, by decide +kernel,
     by decide +kernel, .nil, by decide +kernel,
     by decide +kernel, .ws (by decide +kernel) (.comment (body := ['x']) '\n' (by decide +kernel) (.inl rfl) .nil), by decide +kernel,
     by decide +kernel, .nil, by decide +kernel, trivial⟩
-- gluing is real: without a separator `<` `=` is one token, `a` `b` one identifier, `/` `/` a comment
example : NoGlue .lt .eq = false ∧ NoGlue (.ident "a") (.ident "b") = false ∧ NoGlue .slash .slash = false ∧
    NoGlue (.ident "a") (.num 1) = false ∧ NoGlue (.num 1) (.ident "a") = true ∧ NoGlue .rparen (.ident "when") = true := by
  decide +kernel
example : lex "<=".toList = some [.le] ∧ lex "a//b".toList = some [.ident "a"] := by decide +kernel

end Cedar.C05
