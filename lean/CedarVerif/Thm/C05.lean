import CedarVerif.Lemmas.SyntaxChain
/-
C05 — policy text → AST → text round trip.  Property theorems (every `theorem` here is an obligation).
Model: Cedar/Syntax/{Token,Escape,Print,Parse}.lean.
-/
namespace Cedar.C05
open Cedar Cedar.Syntax

/-! ### escapes never change meaning -/

/-- Whatever the Unicode tables of `escape_debug` decide (`mustEscape` arbitrary, even position dependent as in
`str::escape_debug`), unescaping an escaped string gives the string back. Covers string literals, entity ids,
attribute names, record keys and annotation values (all printed with `escape_debug`, all read with
`to_unescaped_string`). -/
theorem unescape_escape_at (mustEscape : Nat → Char → Bool) (i : Nat) (s : List Char) :
    unescapeStr (escapeStrAt mustEscape i s) = .ok s := by
  unfold unescapeStr
  rw [unescapeGo_escapeStrAt]
  simp [Except.map, patChars_map_char]

theorem unescape_escape (mustEscape : Char → Bool) (s : List Char) :
    unescapeStr (escapeStr mustEscape s) = .ok s :=
  unescape_escape_at (fun _ => mustEscape) 0 s

/-- patterns: `*` stays a wildcard, a literal `*` is printed `\*` and read back as a literal -/
theorem unescape_escape_pattern (mustEscape : Char → Bool) (p : Pattern) :
    unescapePattern (escapePattern mustEscape p) = .ok p :=
  unescapeGo_escapePattern mustEscape p

/-- on the model's `String`s -/
theorem strOfRaw_escape (mustEscape : Char → Bool) (s : String) :
    strOfRaw (escapeStr mustEscape s.toList) = some s := by
  unfold strOfRaw
  rw [unescape_escape]
  simp [String.ofList_toList]

-- non-vacuity: NUL, quote, backslash, a combining mark, a non-BMP scalar; all forced into `\u{…}` form or none
example : unescapeStr (escapeStr (fun _ => true) ['a', '\x00', '"', '\\', '́', Char.ofNat 0x1F600, '*']) =
    .ok ['a', '\x00', '"', '\\', '́', Char.ofNat 0x1F600, '*'] := unescape_escape _ _
example : escapeStr (fun _ => true) ['a', '\x00', Char.ofNat 0x1F600] =
    "\\u{61}\\0\\u{1f600}".toList := by decide
example : unescapePattern (escapePattern (fun _ => false) [.char 'a', .star, .char '*', .char '\\']) =
    .ok [.char 'a', .star, .char '*', .char '\\'] := unescape_escape_pattern _ _
example : escapePattern (fun _ => false) [.char 'a', .star, .char '*', .char '\\'] = "a*\\*\\\\".toList := by decide

/-! ### print then parse is the identity -/

def validTypeName (ty : String) : Bool :=
  (ty.splitOn "::").all (fun c => isIdentChars c.toList && unreservedIdent c)

def strictSortedKeys : List (String × Expr) → Bool
  | (k1, _) :: (k2, v2) :: rest => decide (k1 < k2) && strictSortedKeys ((k2, v2) :: rest)
  | _ => true

mutual
/-- ASTs the lowering `cst_to_ast` can produce (the quantifier of the property: objects obtained by parsing). -/
def ParserImage : Expr → Bool
  | .lit (.bool _) => true
  | .lit (.int i) => decide (-(Int.ofNat Syntax.i64Max) - 1 ≤ i ∧ i ≤ Int.ofNat Syntax.i64Max)
  | .lit (.string _) => true
  | .lit (.entityUID u) => validTypeName u.ty
  | .var _ => true
  | .slot _ => true
  | .unknown _ _ => false
  | .ite c t e => ParserImage c && ParserImage t && ParserImage e
  | .and a b => ParserImage a && ParserImage b && !(isBoolLit a && isBoolLit b)
  | .or a b => ParserImage a && ParserImage b && !(isBoolLit a && isBoolLit b)
  | .unaryApp _ a => ParserImage a
  | .binaryApp _ a b => ParserImage a && ParserImage b
  | .call fn args => (isExtFunction fn || (isExtMethod fn && !args.isEmpty)) && ParserImageList args
  | .getAttr e _ => ParserImage e
  | .hasAttr e _ => ParserImage e
  | .like e _ => ParserImage e
  | .is e ty => ParserImage e && validTypeName ty
  | .set es => ParserImageList es
  | .record kvs => strictSortedKeys kvs && ParserImageKVs kvs
def ParserImageList : List Expr → Bool
  | [] => true
  | e :: es => ParserImage e && ParserImageList es
def ParserImageKVs : List (String × Expr) → Bool
  | [] => true
  | (_, e) :: kvs => ParserImage e && ParserImageKVs kvs
end

/-- The full statement (C05, expression level): for every AST the parser can produce and every behaviour of the
`escape_debug` tables, parsing the printed form gives the AST back — hence the same evaluation on every request. -/
def ParsePrintFull : Prop :=
  ∀ (mustEscape : Char → Bool) (e : Expr), ParserImage e = true → Parse.expr (Print.expr mustEscape e) = some e

/-- `parse_print` on the fragment `inFrag2` (see its doc-string): literals incl. both i64 boundary values and
arbitrary strings (any escape table), variables, `!`, unary minus (`-(e)`, negative literals `(-n)`),
`* + - == < <= in && ||` with the unparenthesised left-nested chains (`a + b + c`, `a - b - c`, `a && b && c` …),
`e has attr` (identifier, reserved word or arbitrary string as attribute name), `if then else`, arbitrarily nested.
Missing towards `ParsePrintFull`: member access / method and function calls, `like`, `is`, entity literals, sets,
records, slots. -/
theorem parse_print_partial (mustEscape : Char → Bool) (e : Expr) (h : inFrag2 e = true) :
    Parse.expr (Print.expr mustEscape e) = some e := by
  unfold Parse.expr Print.expr
  obtain ⟨s, h1, h2⟩ := (parse_print_aux2 mustEscape (fsize e) e (Nat.le_refl _) h (printE mustEscape e).length
    (fsize_le_length mustEscape _ e (Nat.le_refl _) h)).top [] rfl
  simp only [List.append_nil] at h1
  rw [h1]
  exact h2

/-- every fragment expression is in the parser's image, so the partial theorem is an instance of the full statement -/
theorem inFrag_parserImage : ∀ k e, fsize e ≤ k → inFrag2 e = true → ParserImage e = true := by
  intro k
  induction k with
  | zero => intro e hk; have := fsize_pos e; omega
  | succ k ih =>
    intro e hk hf
    cases e
    case lit p => cases p <;> simp_all [inFrag2, ParserImage]
    case var v => rfl
    case ite c t e' =>
      simp only [inFrag2, Bool.and_eq_true] at hf
      simp only [fsize] at hk
      simp [ParserImage, ih c (by omega) hf.1.1, ih t (by omega) hf.1.2, ih e' (by omega) hf.2]
    case and a b =>
      simp only [inFrag2, Bool.and_eq_true] at hf
      simp only [fsize] at hk
      simp [ParserImage, ih a (by omega) hf.1.1, ih b (by omega) hf.1.2, hf.2]
    case or a b =>
      simp only [inFrag2, Bool.and_eq_true] at hf
      simp only [fsize] at hk
      simp [ParserImage, ih a (by omega) hf.1.1, ih b (by omega) hf.1.2, hf.2]
    case unaryApp op a =>
      simp only [fsize] at hk
      cases op <;> simp only [inFrag2] at hf
      · simp [ParserImage, ih a (by omega) hf]
      · simp [ParserImage, ih a (by omega) hf]
      · simp at hf
    case binaryApp op a b =>
      simp only [inFrag2, Bool.and_eq_true] at hf
      simp only [fsize] at hk
      simp [ParserImage, ih a (by omega) hf.1.2, ih b (by omega) hf.2]
    case hasAttr e' a =>
      simp only [inFrag2] at hf
      simp only [fsize] at hk
      simp [ParserImage, ih e' (by omega) hf]
    all_goals (simp [inFrag2] at hf)

-- non-vacuity: `if !(-(1) - (-9223372036854775808) < principal * 2) && true || "a\"b" == context then -5 else 7 in resource`
def sample : Expr :=
  .ite (.or (.and (.unaryApp .not (.binaryApp .less (.binaryApp .sub (.unaryApp .neg (.lit (.int 1))) (.lit (.int (-9223372036854775808))))
                                     (.binaryApp .mul (.var .principal) (.lit (.int 2)))))
                  (.lit (.bool true)))
            (.binaryApp .eq (.lit (.string "a\"b")) (.var .context)))
       (.lit (.int (-5)))
       (.binaryApp .mem (.lit (.int 7)) (.var .resource))

example : inFrag2 sample = true := by decide
example : Parse.expr (Print.expr (fun c => c.toNat ≥ 127) sample) = some sample := parse_print_partial _ _ (by decide)
example : Print.expr (fun _ => false) (.binaryApp .add (.lit (.int (-1))) (.binaryApp .mul (.lit (.int 2)) (.var .context))) =
    [.lparen, .minus, .num 1, .rparen, .plus, .lparen, .num 2, .star, .ident "context", .rparen] := by decide

-- left-nested chains are printed without parentheses and read back with the same association
def chainSample : Expr :=
  .and (.and (.binaryApp .less (.binaryApp .sub (.binaryApp .sub (.lit (.int 1)) (.lit (.int 2))) (.lit (.int 3)))
                               (.binaryApp .sub (.lit (.int 1)) (.binaryApp .sub (.lit (.int 2)) (.lit (.int 3)))))
             (.var .principal))
       (.or (.or (.var .action) (.var .resource)) (.lit (.bool false)))
example : Print.expr (fun _ => false) chainSample =
    [.lparen, .lparen, .num 1, .minus, .num 2, .minus, .num 3, .rparen, .lt,
       .lparen, .num 1, .minus, .lparen, .num 2, .minus, .num 3, .rparen, .rparen, .rparen,
     .andand, .ident "principal", .andand, .lparen, .ident "action", .oror, .ident "resource", .oror, .ident "false", .rparen] := by decide
example : Parse.expr (Print.expr (fun _ => false) chainSample) = some chainSample := parse_print_partial _ _ (by decide)

-- reserved words and non-identifiers as attribute names after `has`
example : Print.expr (fun _ => false) (.hasAttr (.hasAttr (.var .context) "if") "a b") =
    [.lparen, .ident "context", .ident "has", .str ['i', 'f'], .rparen, .ident "has", .str ['a', ' ', 'b']] := by decide
example : Parse.expr (Print.expr (fun _ => true) (.unaryApp .not (.hasAttr (.hasAttr (.var .context) "if") "a\"b"))) =
    some (.unaryApp .not (.hasAttr (.hasAttr (.var .context) "if") "a\"b")) := parse_print_partial _ _ (by decide)

end Cedar.C05
