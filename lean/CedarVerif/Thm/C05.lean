import CedarVerif.Lemmas.SyntaxEscape
import CedarVerif.Cedar.Syntax.Parse
/-
C05 — policy text → AST → text round trip.  Property theorems (every `theorem` here is an obligation).
Model: Cedar/Syntax/{Token,Escape,Print,Parse}.lean.
-/
namespace Cedar.C05
open Cedar Cedar.Syntax

/-! ### escapes never change meaning -/

/-- Whatever the Unicode tables of `escape_debug` decide (`mustEscape` arbitrary, even position dependent as in
`str::escape_debug`), unescaping an escaped string gives the string back. Covers string literals, entity ids,
attribute names, record keys and annotation values (all printed with `escape_debug`, all read with
`to_unescaped_string`). -/
theorem unescape_escape_at (mustEscape : Nat → Char → Bool) (i : Nat) (s : List Char) :
    unescapeStr (escapeStrAt mustEscape i s) = .ok s := by
  unfold unescapeStr
  rw [unescapeGo_escapeStrAt]
  simp [Except.map, patChars_map_char]

theorem unescape_escape (mustEscape : Char → Bool) (s : List Char) :
    unescapeStr (escapeStr mustEscape s) = .ok s :=
  unescape_escape_at (fun _ => mustEscape) 0 s

/-- patterns: `*` stays a wildcard, a literal `*` is printed `\*` and read back as a literal -/
theorem unescape_escape_pattern (mustEscape : Char → Bool) (p : Pattern) :
    unescapePattern (escapePattern mustEscape p) = .ok p :=
  unescapeGo_escapePattern mustEscape p

/-- on the model's `String`s -/
theorem strOfRaw_escape (mustEscape : Char → Bool) (s : String) :
    strOfRaw (escapeStr mustEscape s.toList) = some s := by
  unfold strOfRaw
  rw [unescape_escape]
  simp [String.ofList_toList]

-- non-vacuity: NUL, quote, backslash, a combining mark, a non-BMP scalar; all forced into `\u{…}` form or none
example : unescapeStr (escapeStr (fun _ => true) ['a', '\x00', '"', '\\', '́', Char.ofNat 0x1F600, '*']) =
    .ok ['a', '\x00', '"', '\\', '́', Char.ofNat 0x1F600, '*'] := unescape_escape _ _
example : escapeStr (fun _ => true) ['a', '\x00', Char.ofNat 0x1F600] =
    "\\u{61}\\0\\u{1f600}".toList := by decide
example : unescapePattern (escapePattern (fun _ => false) [.char 'a', .star, .char '*', .char '\\']) =
    .ok [.char 'a', .star, .char '*', .char '\\'] := unescape_escape_pattern _ _
example : escapePattern (fun _ => false) [.char 'a', .star, .char '*', .char '\\'] = "a*\\*\\\\".toList := by decide

end Cedar.C05
