import CedarVerif.Lemmas.PolicySetApiRefine
import CedarVerif.Lemmas.PolicySetMergeThm
import CedarVerif.Lemmas.PolicySetApiMerge
/-
C08 — Template linking equals substitution; policy-set edits keep ids consistent.

Property theorems only (helpers: Lemmas/PolicySet{Subst,Map,Inv,Hist,Api,Spec,Refine,Proj,ApiRefine,Fold,Merge,MergeInv,
MergeWF,Fresh,MergeThm,ApiMerge}).
The statements are about the mirrors in Cedar/PolicySet.lean of `Template::{condition,check_binding,link}`,
of `ast::PolicySet` and of the public `cedar_policy::PolicySet`.

Proved (all unconditional unless a hypothesis is named):
* linking = substitution: `link_eq_subst`, `link_outcome_eq_subst`, `link_ok_iff`, `pset_link_ok_iff`;
* the core state machine (add_static, add_template, link, unlink, remove_static, remove_template): `op_inv`,
  `op_fail_unchanged`, `no_panic`, `history_inv`, `authorize_considers_exactly_links`;
* refinement of the abstract specification `Spec`: `refines_spec : RefinesSpec` (every non-merge core operation on a
  well-formed set — `link` on a template id that is not a policy id — succeeds iff the abstract operation succeeds on
  `ps.abs`, and then `abs` of the result has exactly the members of the abstract result), `op_refines_spec` (the same
  against any related abstract state, incl. the state after a failure), `history_refines_spec` (after any admissible
  history from the empty set the set contains exactly the statics, templates and links the successful operations imply);
* the public API layer: `api_op_inv`, `api_history_inv`, `api_add_is_add_static`, `api_op_proj` / `api_projection :
  ApiProjection` (the API's `policies` and `templates` maps are exact projections of the core maps in every reachable
  state), `api_op_refines_spec` / `api_history_refines_spec` (no admissibility hypothesis: the API's guards are the
  specification's), `api_history_strict`;
* merge_policyset: `MergeInv` as first stated (both arguments `WF` only) is false — `mergeInv_false`, a core-only
  counterexample (slot-less bare template); restated with the invariant of API-built sets as `MergeInvApi` and proved:
  `merge_inv`, with `merge_no_panic_fail_unchanged` (unconditional), `merge_renaming_ok` (the renaming renames exactly
  the conflicting ids to fresh, pairwise distinct ids; `get_fresh_id` terminates within the model's fuel) and
  `merge_inv_api_histories`.
* the API layer's `merge` and all reachable states: `api_merge_inv` (invariant and projections preserved, its
  `get(pid).unwrap()`s unreachable, failure changes nothing), `api_reachable_inv` (`Invariant` and `ApiProjection` in
  every state reachable by the six operations and merges).
Not proved: the refinement of a specification-level merge (the abstract `Spec` has no merge operation: what the merged
set contains is characterised only concretely, `PolicySet.U_templates` / `U_links` / `U_t2l`); covered by the
correspondence run and the abstract-specification oracle of the harness.
-/
namespace Cedar.C08
open Cedar

/-! ## linking = substitution -/

/-- C08: evaluating a template's condition under slot values = evaluating the condition of the static policy
obtained by writing the linked entity in place of each slot, under the empty environment; and the effect and
annotations of that policy are the template's. Holds for every template, slot values, request and store
(so in particular when the values cover exactly the template's slots, which is when `link` succeeds). -/
theorem link_eq_subst (t : Template) (vals : SlotVals) (newId : String) (req : Request) (es : Entities) :
    evaluate req es vals.toEnv t.condition = evaluate req es [] (t.substitute vals newId).condition ∧
    (t.substitute vals newId).effect = t.body.effect ∧
    (t.substitute vals newId).annotations = t.body.annotations := by
  refine ⟨?_, rfl, rfl⟩
  rw [substitute_condition, ← eval_subst]

/-- the same at the level of what the authorizer sees: a linked policy has the outcome (satisfied / not
satisfied / error), the id and the effect of its substituted static policy -/
theorem link_outcome_eq_subst (t : Template) (vals : SlotVals) (newId : String) (p : TPolicy)
    (h : t.link newId vals = some p) (req : Request) (es : Entities) :
    p.toPolicy.outcome req es = p.substituted.outcome req es ∧ p.toPolicy.id = newId ∧
    p.toPolicy.effect = t.effect ∧ p.template.body.annotations = t.body.annotations := by
  unfold Template.link at h
  split at h
  · cases h
    exact ⟨TPolicy.outcome_substituted _ req es, rfl, rfl, rfl⟩
  · cases h

/-- on templates the parser accepts (no slot in `when`/`unless`) substitution only touches the scope, i.e. it is
`PrincipalConstraint::with_filled_slot` / `ResourceConstraint::with_filled_slot` -/
theorem substitute_nonScope_unchanged (t : Template) (vals : SlotVals) (newId : String) (e : Expr)
    (h : t.body.nonScope = some e) (hs : e.slots = []) : (t.substitute vals newId).nonScope = some e := by
  simp [Template.substitute, h, subst_noSlots _ e hs]

example :
    let t : Template := { body := { id := "T", annotations := [("k", "v")], effect := .forbid,
                                    principalC := .eq .slot, actionC := .any, resourceC := .isIn "Doc" .slot, nonScope := none },
                          slots := [.principal, .resource] }
    let vals : SlotVals := { principal := some ⟨"User", "a"⟩, resource := some ⟨"Doc", "d"⟩ }
    (t.substitute vals "L").principalC = .eq (.euid ⟨"User", "a"⟩) ∧
    (t.substitute vals "L").resourceC = .isIn "Doc" (.euid ⟨"Doc", "d"⟩) ∧
    (t.link "L" vals).isSome = true := by decide +kernel

/-- C08: linking succeeds iff exactly the template's slots are bound. -/
theorem link_ok_iff (t : Template) (newId : String) (vals : SlotVals) :
    (t.link newId vals).isSome = true ↔ ∀ s : SlotId, s ∈ t.slots ↔ (vals.get s).isSome = true := by
  rw [← checkBinding_iff]
  unfold Template.link
  split <;> simp_all

/-- … and at the level of the policy set: `link` succeeds iff the template exists, exactly its slots are bound,
and the new id is used neither by a policy nor by a template. -/
theorem pset_link_ok_iff (ps : PolicySet) (tid newId : String) (vals : SlotVals) :
    (ps.link tid newId vals).err = none ↔
      ∃ t, ps.templates.get? tid = some t ∧ (∀ s : SlotId, s ∈ t.slots ↔ (vals.get s).isSome = true) ∧
        ps.links.get? newId = none ∧ ps.templates.get? newId = none := by
  constructor
  · intro h
    obtain ⟨t, ht, hb, hl, hnt, _⟩ := PolicySet.link_ok ps tid newId vals h
    exact ⟨t, ht, (checkBinding_iff t vals).mp hb, hl, hnt⟩
  · rintro ⟨t, ht, hb, hl, hnt⟩
    have hb' := (checkBinding_iff t vals).mpr hb
    unfold PolicySet.link Template.link
    simp [ht, hb', (contains_false _ _).mpr hl, (contains_false _ _).mpr hnt]

example :
    let t : Template := { body := { id := "T", annotations := [], effect := .permit, principalC := .eq .slot,
                                    actionC := .any, resourceC := .any, nonScope := none }, slots := [.principal] }
    let ps : PolicySet := (PolicySet.addTemplate {} t).ps
    let none_bound : SlotVals := {}
    (ps.link "T" "L" none_bound).err = some .arity ∧
    (ps.link "T" "L" { principal := some ⟨"User", "a"⟩ }).err = none ∧
    (ps.link "T" "T" { principal := some ⟨"User", "a"⟩ }).err = some .idConflict := by
  decide +kernel

/-! ## the policy-set state machine -/

/-- the representation invariant: ids of templates / links consistent, every link's template present,
`template_to_links_map` = inverse image of `links`, an id shared by `templates` and `links` only as the two
halves of a static policy, no template-linked policy linked to the body of a static policy -/
abbrev Invariant (ps : PolicySet) : Prop := ps.WF

/-- C08: every operation preserves the invariant (whether it succeeds or fails). `link` is considered on a
template id that is not a policy id — the check the public API layer makes before calling the core `link`
(`CoreOp.admissible`); without it the core `link` accepts the body of a static policy as template and a
subsequent `remove_static` leaves a link without its template (exercised by the harness as a core-only history). -/
theorem op_inv (ps : PolicySet) (op : CoreOp) (wf : Invariant ps) (adm : op.admissible ps) :
    Invariant (ps.applyOp op).ps :=
  PolicySet.applyOp_wf ps op wf adm

/-- C08: a failed operation changes nothing. Literally so for every operation except a failed `remove_static`
on the id of a template-linked policy, which removes and re-inserts that link: same maps, the link moved to
the back of the iteration order. -/
theorem op_fail_unchanged (ps : PolicySet) (op : CoreOp) (e : PSError)
    (h : (ps.applyOp op).err = some e) (hnp : ∀ m, e ≠ .panic m) :
    (ps.applyOp op).ps.sameMaps ps ∧ ((∀ id, op ≠ .removeStatic id) → (ps.applyOp op).ps = ps) :=
  PolicySet.applyOp_fail ps op e h hnp

/-- C08 / C20: the `panic!` sites of `unlink` ("No template found for linked policy") and `remove_template`
("Found in template_to_links_map but not in templates") are unreachable under the invariant. -/
theorem no_panic (ps : PolicySet) (op : CoreOp) (wf : Invariant ps) (m : String) :
    (ps.applyOp op).err ≠ some (.panic m) :=
  PolicySet.applyOp_no_panic ps op wf m

/-- C08: after any history of operations starting from the empty set the invariant holds: no id is shared, no link
exists without its template, `get_linked_policies` is exact. -/
theorem history_inv (ops : List CoreOp) (adm : PolicySet.admissibleHist {} ops) :
    Invariant (PolicySet.run {} ops) :=
  PolicySet.run_wf ops {} PolicySet.wf_empty adm

/-- what the invariant says about ids, spelled out -/
theorem inv_ids (ps : PolicySet) (wf : Invariant ps) :
    ps.templates.keys.Nodup ∧ ps.links.keys.Nodup ∧
    (∀ k p, ps.links.get? k = some p → p.id = k ∧ ps.templates.get? p.template.id = some p.template) ∧
    (∀ k p, ps.links.get? k = some p → (ps.templates.get? k).isSome = true → p.isStatic = true ∧ p.template.id = k) := by
  refine ⟨wf.tNodup, wf.lNodup, fun k p hp => ⟨wf.lKey k p hp, wf.lTemplate k p hp⟩, ?_⟩
  intro k p hp ht
  have hs := wf.shared k p hp ht
  refine ⟨by simp [TPolicy.isStatic, hs], ?_⟩
  have := wf.lKey k p hp
  unfold TPolicy.id at this
  simpa [hs] using this

example :
    let b : TemplateBody := { id := "a", annotations := [], effect := .permit, principalC := .any, actionC := .any, resourceC := .any, nonScope := none }
    let t : Template := { body := { b with id := "t", principalC := .eq .slot }, slots := [.principal] }
    let ops := [CoreOp.addStatic b, .addTemplate t, .link "t" "l" { principal := some ⟨"User", "u"⟩ }, .addStatic b, .removeTemplate "t",
                .removeStatic "l", .unlink "l", .removeTemplate "t"]
    (PolicySet.run {} ops).links.keys = ["a"] ∧ (PolicySet.run {} ops).templates.keys = ["a"] ∧ PolicySet.admissibleHist {} ops := by
  decide +kernel

/-- C08: authorization considers exactly the stored policies, each as its substituted static policy: the
response equals the response for the list of substituted static policies of `links` (ids, effects and
satisfaction/error outcomes policy by policy). -/
theorem authorize_considers_exactly_links (ps : PolicySet) (req : Request) (es : Entities) :
    ps.authorize req es = isAuthorized req es (ps.links.map (fun e => e.2.substituted)) := by
  unfold PolicySet.authorize PolicySet.policies
  apply isAuthorized_congr
  intro x _
  exact ⟨rfl, rfl, TPolicy.outcome_substituted x.2 req es⟩

/-! ## the public API layer -/

/-- the API's `add` of a static policy goes through the general core `add`; on the sets the API can build this is
exactly `add_static` -/
theorem api_add_is_add_static (ps : PolicySet) (b : TemplateBody) (nb : ps.NoBareStatic) :
    ps.add (linkStaticPolicy b).2 = ps.addStatic b :=
  PolicySet.add_static_eq_addStatic ps b nb

/-- C08 (API layer): every operation of the public `PolicySet` preserves its invariant — the core set is
well-formed (`Invariant`), has no slot-less bare template, and the API's `templates` are core templates that are not
policy ids. No admissibility hypothesis: the API's check `self.templates.get(&template_id)` is what makes the core
`link` safe. `wellTyped`: a `Template` object has at least one slot (`Template::parse`). -/
theorem api_op_inv (s : ApiPolicySet) (op : ApiOp) (wf : s.WF) (wt : op.wellTyped) : (s.applyOp op).ps.WF :=
  ApiPolicySet.applyOp_wf s op wf wt

/-- C08 (API layer): after any sequence of add, add_template, link, unlink, remove_static, remove_template calls on
the public `PolicySet`, starting from the empty set, the core set satisfies the invariant: no id shared, no link
without its template, `template_to_links_map` exact. -/
theorem api_history_inv (ops : List ApiOp) (wt : ∀ op, op ∈ ops → op.wellTyped) :
    (ApiPolicySet.run {} ops).WF ∧ Invariant (ApiPolicySet.run {} ops).ast := by
  have h := ApiPolicySet.run_wf ops {} ApiPolicySet.wf_empty wt
  exact ⟨h, h.ast⟩

example :
    let b : TemplateBody := { id := "a", annotations := [], effect := .permit, principalC := .any, actionC := .any, resourceC := .any, nonScope := none }
    let t : Template := { body := { b with id := "t", principalC := .eq .slot }, slots := [.principal] }
    let ops := [ApiOp.add b, .link "a" "l" {}, .addTemplate t, .link "t" "l" { principal := some ⟨"User", "u"⟩ }, .removeStatic "l",
                .removeTemplate "t", .unlink "a", .unlink "l", .removeTemplate "t"]
    (ApiPolicySet.run {} ops).ast.links.keys = ["a"] ∧ (ApiPolicySet.run {} ops).templates.keys = [] ∧
    ((ApiPolicySet.run {} (ops.take 2)).applyOp (.link "a" "l" {})).err = some .expectedTemplate := by
  decide +kernel

/-! ## statements of the merge / projection / refinement properties (proved below, `MergeInv` refuted and restated) -/

/-- `merge_policyset` preserves the invariant (both arguments well-formed), never reaches its `unwrap`, and on
failure (conflict without renaming) changes nothing. FALSE in this form (`mergeInv_false`); the version with the
precise hypothesis is `MergeInvApi`, proved as `merge_inv`. -/
def MergeInv : Prop :=
  ∀ (ps other : PolicySet) (rename : Bool), ps.WF → other.WF →
    (ps.merge other rename).ps.WF ∧ (∀ m, (ps.merge other rename).err ≠ some (.panic m)) ∧
    ((ps.merge other rename).err ≠ none → (ps.merge other rename).ps = ps)

/-- the API layer's own maps are exactly the projections of the core set (proved: `api_projection`) -/
def ApiProjection : Prop :=
  ∀ (ops : List ApiOp), (∀ op, op ∈ ops → op.wellTyped) →
    let s := ApiPolicySet.run {} ops
    (∀ k p, s.policies.get? k = some p ↔ s.ast.links.get? k = some p) ∧
    (∀ k t, s.templates.get? k = some t ↔ (s.ast.templates.get? k = some t ∧ s.ast.links.get? k = none))

/-- abstraction commutes with every operation: a successful call is a successful step of the abstract
specification with the same resulting sets (as sets), a failed call is a failed step (proved: `refines_spec`) -/
def RefinesSpec : Prop :=
  ∀ (ps : PolicySet) (op : CoreOp) (sop : Spec.Op), ps.WF → op.admissible ps →
    (match op, sop with
     | .addStatic b, .add b' => b = b'
     | .addTemplate t, .addTemplate t' => t = t' ∧ t.slots ≠ []
     | .link a b c, .link a' b' c' => a = a' ∧ b = b' ∧ c = c'
     | .unlink a, .unlink a' => a = a'
     | .removeStatic a, .removeStatic a' => a = a'
     | .removeTemplate a, .removeTemplate a' => a = a'
     | _, _ => False) →
    match ps.abs.apply sop with
    | none => (ps.applyOp op).err ≠ none
    | some sp => (ps.applyOp op).err = none ∧
        (∀ x, x ∈ (ps.applyOp op).ps.abs.statics ↔ x ∈ sp.statics) ∧
        (∀ x, x ∈ (ps.applyOp op).ps.abs.templates ↔ x ∈ sp.templates) ∧
        (∀ x, x ∈ (ps.applyOp op).ps.abs.links ↔ x ∈ sp.links)

/-- for `link`, the implementation's verdict is the one the abstract conditions dictate (template exists, exactly
its slots bound, id free) — without the invariant and without admissibility -/
theorem refines_spec_partial (ps : PolicySet) (tid newId : String) (vals : SlotVals) :
    (ps.applyOp (.link tid newId vals)).err = none ↔
      ∃ t, ps.templates.get? tid = some t ∧ t.checkBinding vals = true ∧
        ps.links.get? newId = none ∧ ps.templates.get? newId = none := by
  show (ps.link tid newId vals).err = none ↔ _
  rw [pset_link_ok_iff]
  constructor
  · rintro ⟨t, h1, h2, h3⟩; exact ⟨t, h1, (checkBinding_iff t vals).mpr h2, h3⟩
  · rintro ⟨t, h1, h2, h3⟩; exact ⟨t, h1, (checkBinding_iff t vals).mp h2, h3⟩

/-- C08: `RefinesSpec` holds — every non-merge operation of the core set, applied to a well-formed set (for `link`:
on a template id that is not a policy id), succeeds exactly when the abstract operation succeeds on `ps.abs`, and then
`abs` of the result has exactly the members of the abstract result. -/
theorem refines_spec : RefinesSpec := by
  intro ps op sop wf adm hm
  have hsop : sop = op.toSpec := by
    cases op <;> cases sop <;> simp only [CoreOp.toSpec] at hm ⊢ <;>
      first
        | exact hm.elim
        | (obtain ⟨rfl, rfl, rfl⟩ := hm; rfl)
        | (obtain ⟨rfl, _⟩ := hm; rfl)
        | (cases hm; rfl)
  subst hsop
  have wf' := PolicySet.applyOp_wf ps op wf adm
  have h := PolicySet.applyOp_refines ps op ps.abs wf adm (PolicySet.absRel_abs ps wf.tNodup wf.lNodup)
  cases hs : ps.abs.apply op.toSpec with
  | none => rw [hs] at h; exact h.1
  | some sp => rw [hs] at h; exact ⟨h.1, (PolicySet.absRel_abs _ wf'.tNodup wf'.lNodup).same h.2⟩

/-- the same against any abstract state with the members of `ps.abs` (`PolicySet.AbsRel`: statics = links without
link id, templates = templates that are not policy ids, links = links with link id), including what a failed call
leaves behind: a state still related to the unchanged abstract state -/
theorem op_refines_spec (ps : PolicySet) (op : CoreOp) (sp : Spec) (wf : Invariant ps) (adm : op.admissible ps)
    (R : ps.AbsRel sp) :
    match sp.apply op.toSpec with
    | none => (ps.applyOp op).err ≠ none ∧ (ps.applyOp op).ps.AbsRel sp
    | some sp' => (ps.applyOp op).err = none ∧ (ps.applyOp op).ps.AbsRel sp' :=
  PolicySet.applyOp_refines ps op sp wf adm R

/-- C08: after any history of core operations from the empty set (links issued as the API issues them), the set
contains exactly the static policies, templates and links that the successful operations imply: its abstraction has
the members of the state reached by the abstract specification, where a failed operation changes nothing. -/
theorem history_refines_spec (ops : List CoreOp) (adm : PolicySet.admissibleHist {} ops) :
    (PolicySet.run {} ops).AbsRel (Spec.run {} (ops.map CoreOp.toSpec)) ∧
    (∀ x, x ∈ (PolicySet.run {} ops).abs.statics ↔ x ∈ (Spec.run {} (ops.map CoreOp.toSpec)).statics) ∧
    (∀ x, x ∈ (PolicySet.run {} ops).abs.templates ↔ x ∈ (Spec.run {} (ops.map CoreOp.toSpec)).templates) ∧
    (∀ x, x ∈ (PolicySet.run {} ops).abs.links ↔ x ∈ (Spec.run {} (ops.map CoreOp.toSpec)).links) := by
  have R := PolicySet.run_refines ops {} {} PolicySet.wf_empty adm PolicySet.absRel_empty
  have wf := PolicySet.run_wf ops {} PolicySet.wf_empty adm
  exact ⟨R, (PolicySet.absRel_abs _ wf.tNodup wf.lNodup).same R⟩

example :
    let b : TemplateBody := { id := "a", annotations := [], effect := .permit, principalC := .any, actionC := .any, resourceC := .any, nonScope := none }
    let t : Template := { body := { b with id := "t", principalC := .eq .slot }, slots := [.principal] }
    let ops := [CoreOp.addStatic b, .addTemplate t, .link "t" "l" { principal := some ⟨"User", "u"⟩ }, .addStatic b, .removeTemplate "t",
                .removeStatic "l", .unlink "l", .removeTemplate "t", .addTemplate t, .link "t" "l2" {}]
    PolicySet.admissibleHist {} ops ∧
    (Spec.run {} (ops.map CoreOp.toSpec)).statics.map (·.1) = ["a"] ∧
    (Spec.run {} (ops.map CoreOp.toSpec)).templates.map (·.1) = ["t"] ∧
    (Spec.run {} (ops.map CoreOp.toSpec)).links = [] ∧
    ((Spec.run {} ((ops.take 3).map CoreOp.toSpec)).apply (.removeTemplate "t")).isNone = true := by
  decide +kernel

/-- the known core-only behaviour, as a counterexample to `RefinesSpec` without admissibility: the core `link`
accepts the body of a static policy as a template where the specification (and the API) refuses -/
example :
    let b : TemplateBody := { id := "a", annotations := [], effect := .permit, principalC := .any, actionC := .any, resourceC := .any, nonScope := none }
    let ps := (PolicySet.addStatic {} b).ps
    (ps.link "a" "l" {}).err = none ∧ (ps.abs.apply (.link "a" "l" {})).isNone = true ∧
    ¬ (CoreOp.link "a" "l" {}).admissible ps := by
  decide +kernel

/-! ### … and for the public API layer, unconditionally -/

/-- C08 (API layer): `ApiProjection` as an invariant: every operation preserves "the API's `policies` map is the
core `links` map and the API's `templates` map is the core templates that are not policy ids". -/
theorem api_op_proj (s : ApiPolicySet) (op : ApiOp) (wf : s.WF) (pr : s.Proj) : (s.applyOp op).ps.Proj :=
  ApiPolicySet.applyOp_proj s op wf pr

/-- C08 (API layer): `ApiProjection` holds. -/
theorem api_projection : ApiProjection := by
  intro ops wt
  have h := (ApiPolicySet.run_proj ops {} ApiPolicySet.wf_empty ApiPolicySet.proj_empty wt).2
  refine ⟨fun k p => ?_, h.tmpl⟩
  rw [h.pol]

/-- C08 (API layer): one call refines the abstract operation: same verdict, related states — no admissibility
hypothesis (the API's guards are the specification's). -/
theorem api_op_refines_spec (s : ApiPolicySet) (op : ApiOp) (sp : Spec) (wf : s.WF) (pr : s.Proj)
    (R : s.ast.AbsRel sp) :
    match sp.apply op.toSpec with
    | none => (s.applyOp op).err ≠ none ∧ (s.applyOp op).ps.ast.AbsRel sp
    | some sp' => (s.applyOp op).err = none ∧ (s.applyOp op).ps.ast.AbsRel sp' :=
  ApiPolicySet.applyOp_refines s op sp wf pr R

/-- C08 (API layer), the unconditional statement: after any sequence of add, add_template, link, unlink,
remove_static, remove_template calls on the public `PolicySet` starting from the empty set, the set contains exactly
the static policies, templates and links that the successful operations imply (the state of the abstract
specification run on the same calls), and the listings `policies()` / `templates()` of the API are those. -/
theorem api_history_refines_spec (ops : List ApiOp) (wt : ∀ op, op ∈ ops → op.wellTyped) :
    (ApiPolicySet.run {} ops).ast.AbsRel (Spec.run {} (ops.map ApiOp.toSpec)) ∧
    (∀ x, x ∈ (ApiPolicySet.run {} ops).abs.statics ↔ x ∈ (Spec.run {} (ops.map ApiOp.toSpec)).statics) ∧
    (∀ x, x ∈ (ApiPolicySet.run {} ops).abs.templates ↔ x ∈ (Spec.run {} (ops.map ApiOp.toSpec)).templates) ∧
    (∀ x, x ∈ (ApiPolicySet.run {} ops).abs.links ↔ x ∈ (Spec.run {} (ops.map ApiOp.toSpec)).links) ∧
    (∀ k t, (ApiPolicySet.run {} ops).templates.get? k = some t ↔ (k, t) ∈ (Spec.run {} (ops.map ApiOp.toSpec)).templates) := by
  have R := ApiPolicySet.run_refines ops {} {} ApiPolicySet.wf_empty ApiPolicySet.proj_empty wt PolicySet.absRel_empty
  obtain ⟨wf, pr⟩ := ApiPolicySet.run_proj ops {} ApiPolicySet.wf_empty ApiPolicySet.proj_empty wt
  obtain ⟨h1, h2, h3⟩ := (PolicySet.absRel_abs _ wf.ast.tNodup wf.ast.lNodup).same R
  refine ⟨R, h1, h2, h3, fun k t => ?_⟩
  rw [pr.tmpl, R.templates]

example :
    let b : TemplateBody := { id := "a", annotations := [], effect := .permit, principalC := .any, actionC := .any, resourceC := .any, nonScope := none }
    let t : Template := { body := { b with id := "t", principalC := .eq .slot }, slots := [.principal] }
    let ops := [ApiOp.add b, .link "a" "l" {}, .addTemplate t, .link "t" "l" { principal := some ⟨"User", "u"⟩ }, .removeStatic "l",
                .removeTemplate "t", .unlink "a"]
    (∀ op, op ∈ ops → op.wellTyped) ∧
    (Spec.run {} (ops.map ApiOp.toSpec)).statics.map (·.1) = ["a"] ∧
    (Spec.run {} (ops.map ApiOp.toSpec)).templates.map (·.1) = ["t"] ∧
    (Spec.run {} (ops.map ApiOp.toSpec)).links = [("l", ("t", { principal := some ⟨"User", "u"⟩ }))] := by
  refine ⟨?_, by decide +kernel⟩
  intro op hop
  simp only [List.mem_cons, List.not_mem_nil, or_false] at hop
  rcases hop with rfl | rfl | rfl | rfl | rfl | rfl | rfl <;> simp [ApiOp.wellTyped]

/-! ### merge_policyset -/

/-- `MergeInv` as first stated — well-formedness of both arguments only — is FALSE of the model (and of the code it
mirrors): take `ps` = a slot-less bare template "a" with a link "l" to it (a core-only state: `Template::parse` and the
API never produce a slot-less template) and `other` = the static policy "a" with the same body. Both are well-formed;
the templates are equal, so nothing is renamed, and the merged set has the static policy "a" *and* the link "l" to its
body: `staticOne` fails (a later `remove_static "a"` leaves "l" without template). This is the same core-only envelope
as the known link-to-static-template behaviour of `op_inv`. -/
theorem mergeInv_false : ¬ MergeInv := by
  intro h
  exact PolicySet.cex_not_wf true (h PolicySet.cexA PolicySet.cexB true PolicySet.cex_wf.1 PolicySet.cex_wf.2).1

/-- the restatement with the precise hypothesis: both arguments satisfy the invariant of API-built sets
(`PolicySet.Strict`: `Invariant`, no slot-less bare template, a static policy's template has no slots — what
`api_history_strict` establishes for every set the public API builds), and the merged set satisfies it again -/
def MergeInvApi : Prop :=
  ∀ (ps other : PolicySet) (rename : Bool), ps.Strict → other.Strict →
    (ps.merge other rename).ps.Strict ∧ (∀ m, (ps.merge other rename).err ≠ some (.panic m)) ∧
    ((ps.merge other rename).err ≠ none → (ps.merge other rename).ps = ps)

/-- C08: `merge_policyset` preserves the invariant (of API-built sets), never reaches its `unwrap`, and a failed merge
changes nothing. -/
theorem merge_inv : MergeInvApi := by
  intro ps other rename hs ho
  exact ⟨PolicySet.merge_strict ps other rename hs ho, PolicySet.merge_no_panic ps other rename,
    fun h => (PolicySet.merge_fail_unchanged ps other rename h).1⟩

/-- the last two parts hold for arbitrary arguments: the `unwrap` of `new_template_id` is guarded by
`!other_policy.is_static()`, and the only failure is `Occupied`, returned before any mutation — exactly when renaming
is off and some id of `other` conflicts -/
theorem merge_no_panic_fail_unchanged (ps other : PolicySet) (rename : Bool) :
    (∀ m, (ps.merge other rename).err ≠ some (.panic m)) ∧
    ((ps.merge other rename).err ≠ none → (ps.merge other rename).ps = ps ∧ (ps.merge other rename).err = some .occupied) ∧
    ((ps.merge other rename).err = none ↔ (rename = true ∨ PolicySet.mergeRenaming ps other = [])) :=
  ⟨PolicySet.merge_no_panic ps other rename, PolicySet.merge_fail_unchanged ps other rename,
   PolicySet.merge_ok_iff ps other rename⟩

/-- C08: the renaming `merge_policyset` computes and returns renames exactly the conflicting ids of `other` (the four
conditions of `PolicySet.Conflict`), to ids `policy{n}` bound in neither set and pairwise distinct — `get_fresh_id`'s
loop terminates within the model's fuel. -/
theorem merge_renaming_ok (ps other : PolicySet) (wf : Invariant other) :
    PolicySet.RenOK ps other (PolicySet.mergeRenaming ps other) :=
  PolicySet.mergeRenaming_ok ps other wf.tNodup wf.lNodup

/-- C08 (API layer): every set built by add, add_template, link, unlink, remove_static, remove_template calls of the
public `PolicySet` satisfies the hypothesis of `merge_inv` … -/
theorem api_history_strict (ops : List ApiOp) (wt : ∀ op, op ∈ ops → op.wellTyped) :
    (ApiPolicySet.run {} ops).ast.Strict :=
  ApiPolicySet.run_strict ops {} ApiPolicySet.wf_empty (by intro k p h; simp at h) wt

/-- … so merging the core sets of any two API-built sets yields a set satisfying the invariant. -/
theorem merge_inv_api_histories (ops1 ops2 : List ApiOp) (rename : Bool)
    (wt1 : ∀ op, op ∈ ops1 → op.wellTyped) (wt2 : ∀ op, op ∈ ops2 → op.wellTyped) :
    Invariant ((ApiPolicySet.run {} ops1).ast.merge (ApiPolicySet.run {} ops2).ast rename).ps :=
  (PolicySet.merge_strict _ _ rename (api_history_strict ops1 wt1) (api_history_strict ops2 wt2)).wf

example :
    let b : TemplateBody := { id := "a", annotations := [], effect := .permit, principalC := .any, actionC := .any, resourceC := .any, nonScope := none }
    let t : Template := { body := { b with id := "t", principalC := .eq .slot }, slots := [.principal] }
    let ps := ApiPolicySet.run {} [.add b, .addTemplate t, .link "t" "l" { principal := some ⟨"User", "u"⟩ }, .add { b with id := "policy0" }]
    let other := ApiPolicySet.run {} [.add { b with effect := .forbid }, .addTemplate { t with body := { t.body with effect := .forbid } },
                                      .link "t" "l" { principal := some ⟨"User", "v"⟩ }, .add { b with id := "z" }]
    (ps.ast.merge other.ast true).rename = [("a", "policy1"), ("t", "policy2"), ("l", "policy3")] ∧
    (ps.ast.merge other.ast true).ps.links.keys = ["a", "l", "policy0", "policy1", "policy3", "z"] ∧
    (ps.ast.merge other.ast true).ps.templates.keys = ["a", "t", "policy0", "policy1", "policy2", "z"] ∧
    (ps.ast.merge other.ast true).ps.t2l.get? "policy2" = some ["policy3"] ∧
    (ps.ast.merge other.ast false).err = some .occupied := by
  decide +kernel

/-! ### the public API layer's merge; all reachable states -/

/-- C08 (API layer): `PolicySet::merge` of two sets satisfying the invariant of the API layer (core set well-formed
within the API envelope, `policies` / `templates` = projections of the core maps) yields such a set; none of its
`get(pid).unwrap()`s (nor the core `unwrap`) is reachable; it fails exactly when the core merge fails, and then changes
nothing. -/
theorem api_merge_inv (s other : ApiPolicySet) (rename : Bool) (hs : s.Inv) (ho : other.Inv) :
    (s.merge other rename).ps.Inv ∧ (∀ m, (s.merge other rename).err ≠ some (.panic m)) ∧
    ((s.merge other rename).err ≠ none → (s.merge other rename).ps = s) ∧
    ((s.merge other rename).err = none ↔ (s.ast.merge other.ast rename).err = none) :=
  ApiPolicySet.merge_inv s other rename hs ho

/-- C08 (API layer), every reachable state — any sequence of add, add_template, link, unlink, remove_static,
remove_template and merges of sets built the same way: the core set satisfies the invariant (no id shared, no link
without its template, `template_to_links_map` exact), and the API's maps are exactly the projections of the core maps
(`ApiProjection`, now including `merge`). -/
theorem api_reachable_inv (s : ApiPolicySet) (h : ApiReachable s) :
    Invariant s.ast ∧ s.WF ∧
    (∀ k p, s.policies.get? k = some p ↔ s.ast.links.get? k = some p) ∧
    (∀ k t, s.templates.get? k = some t ↔ (s.ast.templates.get? k = some t ∧ s.ast.links.get? k = none)) := by
  have hi := h.inv
  refine ⟨hi.wf.ast, hi.wf, fun k p => ?_, hi.proj.tmpl⟩
  rw [hi.proj.pol]

example :
    let b : TemplateBody := { id := "a", annotations := [], effect := .permit, principalC := .any, actionC := .any, resourceC := .any, nonScope := none }
    let t : Template := { body := { b with id := "t", principalC := .eq .slot }, slots := [.principal] }
    let ps := ApiPolicySet.run {} [.add b, .addTemplate t, .link "t" "l" { principal := some ⟨"User", "u"⟩ }]
    let other := ApiPolicySet.run {} [.add { b with effect := .forbid }, .addTemplate t, .link "t" "l2" { principal := some ⟨"User", "v"⟩ }]
    (ps.merge other true).rename = [("a", "policy0")] ∧
    (ps.merge other true).ps.policies.keys = ["a", "l", "policy0", "l2"] ∧
    (ps.merge other true).ps.templates.keys = ["t"] ∧
    (ps.merge other true).ps.ast.t2l.get? "t" = some ["l", "l2"] ∧
    (ps.merge other false).err = some .alreadyDefined := by
  decide +kernel

end Cedar.C08
