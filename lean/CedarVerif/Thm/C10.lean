import CedarVerif.Lemmas.JsonRoundTrip
import CedarVerif.Lemmas.JsonRefuse
import CedarVerif.Lemmas.JsonExt
import CedarVerif.Lemmas.JsonEntity
import CedarVerif.Lemmas.JsonTypedMain
import CedarVerif.Lemmas.JsonIp
/-
C10 — entity / context / value JSON round trip; schema-directed parsing agrees with the escapes.

Model: `Cedar/Json/{Json,SchemaType,Value}.lean` (mirrors of `CedarValueJson`, `from_value`, `into_expr`,
`ValueParser::val_into_restricted_expr`, `EntityJson`), tied to the code by the `c10` stream.
Hypotheses that appear below are facts about Rust values: `WF v` (longs are i64, entity type names are `Name`s,
records are key-sorted `BTreeMap`s), `RustExt` (i64 payloads, u32/u128 addresses, prefix within the family's width),
`ClosedType τ` (closed record types whose attribute maps are `BTreeMap`s).

What is proved: `json_roundtrip` (+ `_rustExt`: no hypothesis left; `ExtRoundTrip` holds for decimal, datetime,
duration, every IPv4 value and every IPv6 value that is not IPv4-mapped, and is FALSE for IPv4-mapped IPv6 addresses —
`extRoundTrip_ip_v6_mapped_false`, a recorded observation); `toJson_refuses_iff`; `typed_agrees_explicit` for all
nesting depths over closed record types (the unrestricted statement is proved false: `typedAgreesExplicit_unrestricted_false`);
`entity_roundtrip`, `store_roundtrip`.
-/
namespace Cedar.C10
open Cedar Cedar.CJson

/-- Parsing the canonical rendering of the extension value `x` gives back `x` (stated on the pieces the
    round-trip induction composes: the document deserialises to the same `CedarValueJson`, converts to a
    restricted expression and evaluates to `x`). -/
def ExtRoundTrip (x : Ext) : Prop := LeafOK canonRepr x

theorem extRoundTrip_duration (ms : Int) (h : inI64 ms = true) : ExtRoundTrip (.duration ms) := leaf_duration ms h
theorem extRoundTrip_datetime (ms : Int) (h : inI64 ms = true) : ExtRoundTrip (.datetime ms) := leaf_datetime ms h
theorem extRoundTrip_decimal (v : Int) (h : inI64 v = true) : ExtRoundTrip (.decimal v) := leaf_decimal v h

/-- ipaddr: the leaf round trips exactly when `ip()` parses the canonical text `Display` prints back to the same
    (family, address, prefix) -/
theorem extRoundTrip_ip_iff (v6 : Bool) (a p : Nat) :
    ExtRoundTrip (.ipaddr v6 a p) ↔
      Ext.IPAddr.parse (String.ofList (renderIp v6 a p)) = some (.ipaddr v6 a p) := by
  constructor
  · intro h
    cases hp : decide (Ext.IPAddr.parse (String.ofList (renderIp v6 a p)) = some (.ipaddr v6 a p)) with
    | true => exact of_decide_eq_true hp
    | false => exact absurd h (not_leaf_ip_of_parse v6 a p (of_decide_eq_false hp))
  · exact leaf_ip_of_parse v6 a p

/-- **every IPv4 value round trips** (32-bit address, prefix ≤ 32: what an `IPAddr` holding an `Ipv4Addr` is) -/
theorem extRoundTrip_ip_v4 (a p : Nat) (ha : a < 2 ^ 32) (hp : p ≤ 32) : ExtRoundTrip (.ipaddr false a p) :=
  leaf_ip_v4 a p ha hp

/-- **every IPv6 value that is not an IPv4-mapped address round trips** (128-bit address, prefix ≤ 128;
    `isV4Mapped a` = the first five segments are 0 and the sixth is `ffff`, the case `Display for Ipv6Addr` prints
    with an embedded dotted quad) -/
theorem extRoundTrip_ip_v6 (a p : Nat) (ha : a < 2 ^ 128) (hp : p ≤ 128) (hm : isV4Mapped a = false) :
    ExtRoundTrip (.ipaddr true a p) :=
  leaf_ip_v6 a p ha hp hm

/-- **the excluded class, a recorded observation**: for an IPv4-mapped IPv6 address the canonical text is
    `::ffff:a.b.c.d/p`, which `ip()` refuses (≥ 2 ':' and ≥ 2 '.'), so such a value does NOT round trip through its
    `canonical_repr` — for every prefix. (The implementation agrees: `c10` stream; such values can only be built by
    `ip()` from a pure-hex spelling, e.g. `ip("::ffff:102:304")`, and Rust serialises the constructor call it
    stored, not the canonical text.) -/
theorem extRoundTrip_ip_v6_mapped_false (a p : Nat) (hm : isV4Mapped a = true) : ¬ ExtRoundTrip (.ipaddr true a p) :=
  not_leaf_ip_v6_mapped a p hm

example : ExtRoundTrip (.ipaddr false 0xc0a80001 24) := extRoundTrip_ip_v4 _ _ (by decide) (by decide)
example : ExtRoundTrip (.ipaddr true 1 128) := extRoundTrip_ip_v6 _ _ (by decide) (by decide) (by decide)
example : ExtRoundTrip (.ipaddr true (255 * 2 ^ 120) 8) := extRoundTrip_ip_v6 _ _ (by decide) (by decide) (by decide)
example : String.ofList (renderIp true 0xffff01020304 128) = "::ffff:1.2.3.4/128" ∧
    Ext.IPAddr.parse "::ffff:102:304" = some (.ipaddr true 0xffff01020304 128) ∧
    ¬ ExtRoundTrip (.ipaddr true 0xffff01020304 128) :=
  ⟨by decide +kernel, by decide +kernel, extRoundTrip_ip_v6_mapped_false _ _ (by decide)⟩

/-- what `ExtRoundTrip x` means at the level of `ofJson`/`toJson` -/
theorem extRoundTrip_ofJson (x : Ext) (h : ExtRoundTrip x) :
    ∃ j, toJson (.ext x) = .ok j ∧ ofJson j = .ok (.ext x) := by
  obtain ⟨c, hc, h1, h2, h3, e, h4, v', h5, h6⟩ := h
  refine ⟨c.toJson, by simp [toJson, toJsonWith, hc], ?_⟩
  have hv : v' = .ext x := by
    cases v' <;> simp [Value.beq] at h6
    subst h6; rfl
  subst hv
  simp only [ev] at h5
  simp [ofJson, exprOfJson, CJ.ofJson, h1, h2, h3, h4, evalR, h5, bind, Except.bind]

/-- non-vacuity: concrete extension values round trip -/
example : ExtRoundTrip (.duration (-9223372036854775808)) := extRoundTrip_duration _ (by decide)
example : ExtRoundTrip (.decimal 15000) := extRoundTrip_decimal _ (by decide)
example : ofJson (.obj [("__extn", .obj [("fn", .str "decimal"), ("arg", .str "-1.5000")])]) = .ok (.ext (.decimal (-15000))) := by
  rfl

/-! ### round trip -/

/-- **json_roundtrip**, for any rendering `ρ` of extension values whose leaves round trip (Rust stores the
    constructor call with each extension value; the invariant `eval(func(args)) = value` is `LeafOK ρ`). -/
theorem json_roundtrip_with (ρ : Ext → String × List Expr) (v : Value) (j : Json)
    (hwf : WF v) (hext : AllExt (LeafOK ρ) v) (h : toJsonWith ρ v = .ok j) :
    ∃ v', ofJson j = .ok v' ∧ Value.beq v v' = true := by
  unfold toJsonWith at h
  split at h
  · rename_i c hc
    cases h
    obtain ⟨h1, h2, h3, e, h4, v', h5, h6⟩ := rt_value ρ v c hwf hext hc
    refine ⟨v', ?_, h6⟩
    simp only [ev] at h5
    simp [ofJson, exprOfJson, CJ.ofJson, h1, h2, h3, h4, evalR, h5, bind, Except.bind]
  · cases h

/-- **json_roundtrip**: `toJson v = ok j → ofJson j = ok v'` with `v' == v` (Cedar equality), for every
    well-formed value — nested sets and records, entity references, strings, i64 extremes — whose extension
    leaves satisfy `ExtRoundTrip` (proved for decimal, datetime, duration, every IPv4 value and every IPv6 value
    that is not IPv4-mapped; false for IPv4-mapped IPv6 addresses: `extRoundTrip_ip_v6_mapped_false`;
    hypothesis-free version: `json_roundtrip_rustExt`). -/
theorem json_roundtrip (v : Value) (j : Json) (hwf : WF v) (hext : AllExt ExtRoundTrip v) (h : toJson v = .ok j) :
    ∃ v', ofJson j = .ok v' ∧ Value.beq v v' = true :=
  json_roundtrip_with canonRepr v j hwf hext h

/-- every extension leaf is a decimal / datetime / duration in i64 range: then no hypothesis is left -/
def NoIp : Ext → Prop
  | .decimal v => inI64 v = true
  | .datetime ms => inI64 ms = true
  | .duration ms => inI64 ms = true
  | .ipaddr .. => False

theorem extRoundTrip_of_noIp (x : Ext) (h : NoIp x) : ExtRoundTrip x := by
  cases x with
  | decimal v => exact extRoundTrip_decimal v h
  | datetime ms => exact extRoundTrip_datetime ms h
  | duration ms => exact extRoundTrip_duration ms h
  | ipaddr => exact absurd h id

/-- the extension values a Rust `Value` can hold — i64 payloads; an `IPAddr` is a u32 address with prefix ≤ 32 or a
    u128 address with prefix ≤ 128 — minus the IPv4-mapped IPv6 addresses -/
def RustExt : Ext → Prop
  | .decimal v => inI64 v = true
  | .datetime ms => inI64 ms = true
  | .duration ms => inI64 ms = true
  | .ipaddr false a p => a < 2 ^ 32 ∧ p ≤ 32
  | .ipaddr true a p => a < 2 ^ 128 ∧ p ≤ 128 ∧ isV4Mapped a = false

theorem extRoundTrip_of_rustExt (x : Ext) (h : RustExt x) : ExtRoundTrip x := by
  cases x with
  | decimal v => exact extRoundTrip_decimal v h
  | datetime ms => exact extRoundTrip_datetime ms h
  | duration ms => exact extRoundTrip_duration ms h
  | ipaddr v6 a p =>
    cases v6 with
    | false => exact extRoundTrip_ip_v4 a p h.1 h.2
    | true => exact extRoundTrip_ip_v6 a p h.1 h.2.1 h.2.2

/-- within the value ranges of Rust extension values, `ExtRoundTrip` fails exactly on the IPv4-mapped IPv6 addresses -/
theorem extRoundTrip_ip_v6_iff (a p : Nat) (ha : a < 2 ^ 128) (hp : p ≤ 128) :
    ExtRoundTrip (.ipaddr true a p) ↔ isV4Mapped a = false := by
  constructor
  · intro h
    cases hm : isV4Mapped a with
    | false => rfl
    | true => exact absurd h (extRoundTrip_ip_v6_mapped_false a p hm)
  · exact extRoundTrip_ip_v6 a p ha hp

mutual
theorem allExt_mono {P Q : Ext → Prop} (hpq : ∀ x, P x → Q x) : ∀ v, AllExt P v → AllExt Q v
  | .prim _, _ => by simp [AllExt]
  | .ext x, h => by simp only [AllExt] at h ⊢; exact hpq x h
  | .set vs, h => by simp only [AllExt] at h ⊢; exact allExtList_mono hpq vs h
  | .record kvs, h => by simp only [AllExt] at h ⊢; exact allExtKVs_mono hpq kvs h
theorem allExtList_mono {P Q : Ext → Prop} (hpq : ∀ x, P x → Q x) : ∀ vs, AllExtList P vs → AllExtList Q vs
  | [], _ => by simp [AllExtList]
  | v :: vs, h => by simp only [AllExtList] at h ⊢; exact ⟨allExt_mono hpq v h.1, allExtList_mono hpq vs h.2⟩
theorem allExtKVs_mono {P Q : Ext → Prop} (hpq : ∀ x, P x → Q x) : ∀ kvs, AllExtKVs P kvs → AllExtKVs Q kvs
  | [], _ => by simp [AllExtKVs]
  | (_, v) :: kvs, h => by simp only [AllExtKVs] at h ⊢; exact ⟨allExt_mono hpq v h.1, allExtKVs_mono hpq kvs h.2⟩
end

/-- the round trip without any extension hypothesis, for values without ipaddr leaves -/
theorem json_roundtrip_noIp (v : Value) (j : Json) (hwf : WF v) (hext : AllExt NoIp v) (h : toJson v = .ok j) :
    ∃ v', ofJson j = .ok v' ∧ Value.beq v v' = true :=
  json_roundtrip v j hwf (allExt_mono extRoundTrip_of_noIp v hext) h

/-- **json_roundtrip, no hypothesis left**: for every well-formed value whose extension leaves are Rust extension
    values other than IPv4-mapped IPv6 addresses (all four extension types, both ip families) -/
theorem json_roundtrip_rustExt (v : Value) (j : Json) (hwf : WF v) (hext : AllExt RustExt v) (h : toJson v = .ok j) :
    ∃ v', ofJson j = .ok v' ∧ Value.beq v v' = true :=
  json_roundtrip v j hwf (allExt_mono extRoundTrip_of_rustExt v hext) h

example : ∃ j v', toJson (.set [.ext (.ipaddr false 0x0a000001 8), .ext (.ipaddr true (2 ^ 112) 16)]) = .ok j ∧
    ofJson j = .ok v' ∧ Value.beq (.set [.ext (.ipaddr false 0x0a000001 8), .ext (.ipaddr true (2 ^ 112) 16)]) v' = true := by
  have hx : AllExt RustExt (.set [.ext (.ipaddr false 0x0a000001 8), .ext (.ipaddr true (2 ^ 112) 16)]) := by
    simp only [AllExt, AllExtList, RustExt]
    decide
  obtain ⟨c, hc⟩ := (refuse_value (.set [.ext (.ipaddr false 0x0a000001 8), .ext (.ipaddr true (2 ^ 112) 16)])).2 (by decide)
  obtain ⟨v', h1, h2⟩ := json_roundtrip_rustExt _ c.toJson (by simp [WF, WFList]) hx (by simp [toJson, toJsonWith, hc])
  exact ⟨c.toJson, v', by simp [toJson, toJsonWith, hc], h1, h2⟩

/-- non-vacuity: a nested value with an entity reference, an i64 extreme, an empty set, a record whose keys
    look like escape payload fields, and extension values -/
def sample : Value :=
  .record [("fn", .set [.prim (.int (-9223372036854775808)), .set [], .ext (.decimal (-1))]),
           ("id", .prim (.entityUID ⟨"NS::Doc", "a\"b"⟩)),
           ("type", .record [("arg", .ext (.datetime 86400000)), ("s", .prim (.string "\\\"\n"))])]

example : ∃ j v', toJson sample = .ok j ∧ ofJson j = .ok v' ∧ Value.beq sample v' = true := by
  have hwf : WF sample := by
    simp only [sample, WF, WFKVs, WFList, Sorted, List.map]
    decide
  have hx : AllExt NoIp sample := by
    simp only [sample, AllExt, AllExtKVs, AllExtList, NoIp]
    decide
  obtain ⟨c, hc⟩ := (refuse_value sample).2 (by decide)
  obtain ⟨v', h1, h2⟩ := json_roundtrip_noIp sample c.toJson hwf hx (by simp [toJson, toJsonWith, hc])
  exact ⟨c.toJson, v', by simp [toJson, toJsonWith, hc], h1, h2⟩

/-! ### refusal -/

/-- **toJson_refuses_iff**: serialisation fails iff some record inside the value has a reserved key, and the
    failure is `ReservedKey` (nothing is silently altered: on success the round trip above applies). -/
theorem toJson_refuses_iff (v : Value) :
    (∃ e, toJson v = .error e) ↔ hasReserved v = true := by
  obtain ⟨h1, h2⟩ := refuse_value v
  constructor
  · rintro ⟨e, he⟩
    cases hr : hasReserved v with
    | true => rfl
    | false =>
      obtain ⟨c, hc⟩ := h2 hr
      simp [toJson, toJsonWith, hc] at he
  · intro hr
    exact ⟨.reserved, by simp [toJson, toJsonWith, h1 hr]⟩

theorem toJson_error_is_reserved (v : Value) (e : JErr) (h : toJson v = .error e) : e = .reserved := by
  obtain ⟨h1, h2⟩ := refuse_value v
  cases hr : hasReserved v with
  | true => simp [toJson, toJsonWith, h1 hr] at h; exact h.symm
  | false => obtain ⟨c, hc⟩ := h2 hr; simp [toJson, toJsonWith, hc] at h

example : toJson (.set [.record [("a", .prim (.int 1)), ("__extn", .prim (.bool true))]]) = .error .reserved := by rfl
example : ∃ j, toJson (.record [("type", .prim (.string "User")), ("id", .prim (.string "a"))]) = .ok j := ⟨_, rfl⟩

/-! ### schema-directed parsing agrees with the explicit forms -/

-- `instOf v τ` (value-level conformance), `Form τ v j` (the documents for `v` under expected type `τ`: implicit or
-- explicit per node) and `ClosedType τ` (closed record types, attribute maps key-sorted `BTreeMap`s) are defined in
-- `Lemmas/JsonTypedDefs.lean` (namespace `Cedar.C10`).

/-- **typed_agrees_explicit**, as first stated (no hypothesis on `τ`): for a well-formed, serialisable instance `v`
    of `τ`, every document for `v` (any implicit/explicit choice per node) parses under `τ` to a value equal to `v`,
    and the fully explicit document parses the same with and without the type.
    FALSE of the model (and of the implementation) for open record types — `typedAgreesExplicit_unrestricted_false`
    below — and for "types" that declare an attribute twice (not a `BTreeMap`; second `example` below).  The precise
    statement is `TypedAgreesExplicitClosed`, proved as `typed_agrees_explicit`. -/
def TypedAgreesExplicit : Prop :=
  ∀ (τ : SchemaType) (v : Value), instOf v τ = true → WF v → hasReserved v = false → AllExt ExtRoundTrip v →
    (∀ j, Form (some τ) v j → ∃ v', ofJsonTyped τ j = .ok v' ∧ Value.beq v v' = true) ∧
    (∀ j, toJson v = .ok j → ofJsonTyped τ j = ofJson j)

/-- counterexample to the unrestricted statement: an open record type drops the members it does not declare
    (the implementation does the same: `c10` stream, `open-record` cases) -/
theorem typedAgreesExplicit_unrestricted_false : ¬ TypedAgreesExplicit := by
  intro h
  have hform : Form (some (.record [] true)) (.record [("x", .prim (.int 1))]) (.obj [("x", .int 1)]) :=
    .record _ _ _ (.cons _ "x" _ _ _ _ (.lit _ (.int 1) (by intro u hu; cases hu)) (.nil _))
  obtain ⟨v', h1, h2⟩ := (h (.record [] true) (.record [("x", .prim (.int 1))]) (by decide)
    (by simp only [WF, WFKVs, Sorted, List.map]; decide) (by decide) (by simp [AllExt, AllExtKVs])).1 _ hform
  have : ofJsonTyped (.record [] true) (.obj [("x", .int 1)]) = .ok (.record []) := by rfl
  rw [this] at h1
  cases h1
  simp [Value.beq, Value.beqKVs] at h2

/-- a "record type" declaring `a` twice is not a Rust `SchemaType` (attributes are a `BTreeMap`); for such a list
    the walk over the declarations parses the member once per declaration -/
example : instOf (.record [("a", .prim (.int 1))]) (.record [("a", true, .long), ("a", true, .ext "decimal")] false) = true ∧
    ofJsonTyped (.record [("a", true, .long), ("a", true, .ext "decimal")] false) (.obj [("a", .int 1)])
      = .error (.eval .type) := by
  constructor <;> rfl

/-- **typed_agrees_explicit**, precise statement: for a well-formed, serialisable instance `v` of a type `τ` whose
    record types are closed `BTreeMap`s (`ClosedType`), every document for `v` (any implicit/explicit choice per
    node, at every nesting depth) parses under `τ` to a value equal to `v`, and the fully explicit document parses
    the same with and without the type. -/
def TypedAgreesExplicitClosed : Prop :=
  ∀ (τ : SchemaType) (v : Value), instOf v τ = true → ClosedType τ → WF v → hasReserved v = false →
    AllExt ExtRoundTrip v →
    (∀ j, Form (some τ) v j → ∃ v', ofJsonTyped τ j = .ok v' ∧ Value.beq v v' = true) ∧
    (∀ j, toJson v = .ok j → ofJsonTyped τ j = ofJson j)

/-- **typed_agrees_explicit** (all value shapes: scalars, entity references, the four extension types in bare /
    implicit / explicit form, nested sets, nested closed records with optional attributes).  By
    `typed_forms_agree` (induction over the value; `Lemmas/JsonTyped*.lean`): every document of `v` parses
    schema-directed to the *same* restricted expression, the one the explicit document parses to without a schema. -/
theorem typed_agrees_explicit : TypedAgreesExplicitClosed := by
  intro τ v hinst hcl hwf hres hext
  obtain ⟨jx, e, v', hj, hb, _, ho, hfx, hall⟩ := typed_forms_agree τ v hinst hcl hwf hres hext
  refine ⟨fun j hf => ⟨v', (hall j hf).2, hb⟩, ?_⟩
  intro j hj'
  rw [hj] at hj'
  cases hj'
  rw [(hall _ hfx).2, ho]

/-- stronger form used above, worth stating: *all* documents of `v` (implicit or explicit per node) parse under
    `τ` to one and the same value, which is the schema-less parse of the explicit document -/
theorem typed_forms_parse_alike (τ : SchemaType) (v : Value) (hinst : instOf v τ = true) (hcl : ClosedType τ)
    (hwf : WF v) (hres : hasReserved v = false) (hext : AllExt ExtRoundTrip v) :
    ∃ jx, toJson v = .ok jx ∧ ∀ j, Form (some τ) v j → ofJsonTyped τ j = ofJson jx := by
  obtain ⟨jx, e, v', hj, _, _, ho, _, hall⟩ := typed_forms_agree τ v hinst hcl hwf hres hext
  exact ⟨jx, hj, fun j hf => by rw [(hall j hf).2, ho]⟩

/-- non-vacuity of `typed_agrees_explicit`: a closed record type with an optional attribute left out, a set of
    records, an entity reference and two extension values; the hypotheses hold and a document mixing implicit and
    explicit forms is a `Form` -/
def sampleType : SchemaType :=
  .record [("d", true, .ext "decimal"), ("o", false, .long),
           ("s", true, .set (.record [("t", true, .ext "datetime"), ("u", true, .entity "User")] false))] false
def sampleTyped : Value :=
  .record [("d", .ext (.decimal 15000)),
           ("s", .set [.record [("t", .ext (.datetime 5)), ("u", .prim (.entityUID ⟨"User", "a"⟩))]])]
def sampleDoc : Json :=
  .obj [("d", .str "1.5000"),
        ("s", .arr [.obj [("t", .obj [("fn", .str "offset"), ("args", .arr [
                              .obj [("__extn", .obj [("fn", .str "datetime"), ("arg", .str "1970-01-01")])],
                              .obj [("__extn", .obj [("fn", .str "duration"), ("arg", .str "5ms")])]])]),
                          ("u", .obj [("type", .str "User"), ("id", .str "a")])]])]

example : instOf sampleTyped sampleType = true ∧ ClosedType sampleType ∧ WF sampleTyped ∧
    hasReserved sampleTyped = false ∧ AllExt ExtRoundTrip sampleTyped ∧ Form (some sampleType) sampleTyped sampleDoc ∧
    ∃ v', ofJsonTyped sampleType sampleDoc = .ok v' ∧ Value.beq sampleTyped v' = true := by
  have hinst : instOf sampleTyped sampleType = true := by decide
  have hcl : ClosedType sampleType := by
    simp only [sampleType, ClosedType, ClosedAttrs, Sorted, List.map]
    decide
  have hwf : WF sampleTyped := by
    simp only [sampleTyped, WF, WFKVs, WFList, Sorted, List.map]
    decide
  have hres : hasReserved sampleTyped = false := by decide
  have hext : AllExt ExtRoundTrip sampleTyped := by
    simp only [sampleTyped, AllExt, AllExtKVs, AllExtList]
    exact ⟨extRoundTrip_decimal _ (by decide), ⟨⟨extRoundTrip_datetime _ (by decide), trivial, trivial⟩, trivial⟩, trivial⟩
  have hform : Form (some sampleType) sampleTyped sampleDoc := by
    refine .record _ _ _ (.cons _ "d" _ _ _ _ (.extBare "decimal" _ "decimal" "1.5000" rfl rfl)
      (.cons _ "s" _ _ _ _ (.set _ _ _ (.cons _ _ _ _ _ (.record _ _ _
        (.cons _ "t" _ _ _ _ (.extImplicit "datetime" _ _ rfl)
          (.cons _ "u" _ _ _ _ (.entImplicit "User" _) (.nil _)))) (.nil _))) (.nil _)))
  exact ⟨hinst, hcl, hwf, hres, hext, hform, (typed_agrees_explicit _ _ hinst hcl hwf hres hext).1 _ hform⟩

/-- beyond conforming values (explicit documents, types without special parsing rules): under `bool`,
    `long`, `string` the schema-directed parser *is* the escape-directed parser, on every document whatsoever
    (conforming or not) that is not an explicit `unknown` call. -/
theorem typed_agrees_explicit_scalar_partial (τ : SchemaType) (hτ : τ = .bool ∨ τ = .long ∨ τ = .string ∨ τ = .emptySet)
    (j : Json) (hd : noDupKeys j = true) (hu : explicitUnknown j = false) :
    ofJsonTyped τ j = ofJson j := by
  have : exprOfJsonTyped (some τ) j = exprOfJson j := by
    simp only [exprOfJsonTyped, hd, Bool.not_true, Bool.false_eq_true, if_false]
    show typed ((2 * j.size + 1) + 1) (some τ) j = exprOfJson j
    rcases hτ with rfl | rfl | rfl | rfl <;> simp [typed, hu]
  simp [ofJsonTyped, ofJson, this]

/-- beyond conforming values (entity types, any `ty`): the implicit `{type,id}` document and the explicit
    `{"__entity":{type,id}}` document parse, under any entity type, to the reference itself; the explicit one
    parses the same without a schema. -/
theorem typed_agrees_explicit_entity_partial (ty : EntityType) (u : EntityUID) (hv : validName u.ty = true) :
    ofJsonTyped (.entity ty) (uidJson u) = .ok (.prim (.entityUID u)) ∧
    ofJsonTyped (.entity ty) (CJ.ofPrim (.entityUID u)).toJson = .ok (.prim (.entityUID u)) ∧
    ofJson (CJ.ofPrim (.entityUID u)).toJson = .ok (.prim (.entityUID u)) := by
  refine ⟨?_, ?_, ?_⟩
  · simp [ofJsonTyped, exprOfJsonTyped, uidJson, noDupKeys, noDupKeysKVs, hasDup, Json.size, Json.sizeKVs, typed,
      explicitUnknown, lookupKV, uidOfJson, typeAndId, hv, evalR, evaluate, bind, Except.bind]
  · simp [ofJsonTyped, exprOfJsonTyped, CJ.ofPrim, CJ.toJson, noDupKeys, noDupKeysKVs, hasDup, Json.size, Json.sizeKVs,
      typed, explicitUnknown, lookupKV, fnAndArgs, uidOfJson, typeAndId, hv, evalR, evaluate, bind, Except.bind]
  · obtain ⟨h1, h2, h3, e, h4, v', h5, h6⟩ := rt_prim (.entityUID u) (by simpa [WF] using hv)
    have h4' : (CJ.ofPrim (.entityUID u)).intoExpr = .ok (.lit (.entityUID u)) := by
      simp [CJ.ofPrim, CJ.intoExpr, hv]
    simp [ofJson, exprOfJson, CJ.ofJson, h1, h2, h3, h4', evalR, evaluate, bind, Except.bind]

/-- beyond conforming values (extension types, single-argument constructors, any argument string): under the extension type
    `n` with constructor `f`, the bare string `s`, the implicit call `{fn: f, arg: s}` and the explicit escape
    `{"__extn": {fn: f, arg: s}}` all parse to the same result, which is also the schema-less parse of the
    explicit escape — for every string `s`, valid or not. -/
theorem typed_agrees_explicit_ext_partial (n f s : String) (hc : singleArgCtor n = some f) :
    let explicit : Json := .obj [("__extn", .obj [("fn", .str f), ("arg", .str s)])]
    ofJsonTyped (.ext n) (.str s) = ofJson explicit ∧
    ofJsonTyped (.ext n) (.obj [("fn", .str f), ("arg", .str s)]) = ofJson explicit ∧
    ofJsonTyped (.ext n) explicit = ofJson explicit := by
  have hf : f = "decimal" ∨ f = "ip" ∨ f = "datetime" ∨ f = "duration" := by
    unfold singleArgCtor at hc
    split at hc <;> simp_all
  have hn : n = "decimal" ∨ n = "ipaddr" ∨ n = "datetime" ∨ n = "duration" := by
    unfold singleArgCtor at hc
    split at hc <;> simp_all
  rcases hn with rfl | rfl | rfl | rfl <;> simp [singleArgCtor] at hc <;> subst hc <;>
  · refine ⟨?_, ?_, ?_⟩ <;>
    simp [ofJsonTyped, ofJson, exprOfJsonTyped, exprOfJson, CJ.ofJson, noDupKeys, noDupKeysKVs, hasDup, Json.size,
      Json.sizeKVs, typed, explicitUnknown, lookupKV, fnAndArgs, extnOfJson, rawOk, rawOkKVs, CJ.ofRaw, CJ.ofRawKVs,
      sortKVs, insertKV, CJ.mkRecord, CJ.toJson, CJ.intoExpr, CJ.callsUnknown, singleArgCtor, extFnSig, zipE,
      validName, splitColons, isIdent, isIdStart, isIdCont, reservedIds, bind, Except.bind]

/-- non-vacuity of the schema-directed route: implicit entity reference, bare-string decimal, implicit
    `offset` call with implicit arguments, inside a closed record type; same value as the explicit document -/
example :
    ofJsonTyped (.record [("d", true, .ext "decimal"), ("t", false, .ext "datetime"), ("u", true, .entity "User")] false)
      (.obj [("u", .obj [("type", .str "User"), ("id", .str "a")]), ("d", .str "1.5"),
             ("t", .obj [("fn", .str "offset"), ("args", .arr [.str "1970-01-01", .obj [("fn", .str "duration"), ("arg", .str "5ms")]])])])
    = .ok (.record [("d", .ext (.decimal 15000)), ("t", .ext (.datetime 5)), ("u", .prim (.entityUID ⟨"User", "a"⟩))]) := by
  rfl
example :
    ofJson (.obj [("u", .obj [("__entity", .obj [("type", .str "User"), ("id", .str "a")])]),
                  ("d", .obj [("__extn", .obj [("fn", .str "decimal"), ("arg", .str "1.5")])]),
                  ("t", .obj [("__extn", .obj [("fn", .str "offset"), ("args", .arr [
                      .obj [("__extn", .obj [("fn", .str "datetime"), ("arg", .str "1970-01-01")])],
                      .obj [("__extn", .obj [("fn", .str "duration"), ("arg", .str "5ms")])]])])])])
    = .ok (.record [("d", .ext (.decimal 15000)), ("t", .ext (.datetime 5)), ("u", .prim (.entityUID ⟨"User", "a"⟩))]) := by
  rfl
/-- an open record type drops the members it does not declare (the implementation does the same: `c10` stream,
    `open-record` cases) — the reason `TypedAgreesExplicit` is about closed record types -/
example : ofJsonTyped (.record [] true) (.obj [("x", .int 1)]) = .ok (.record []) := by rfl
example : ofJsonTyped (.record [] false) (.obj [("x", .int 1)]) = .error .unexpectedAttr := by rfl

/-! ### entities and stores -/

theorem noDup_uidJsons (us : List EntityUID) : noDupKeysList (us.map uidJson) = true := by
  induction us with
  | nil => rfl
  | cons u us ih => simp [noDupKeysList, uidJson, noDupKeys, noDupKeysKVs, hasDup, ih]

/-- what the round trip needs from an entity: valid type names, action entities only below action entities
    (`Entity::validate`), well-formed attribute and tag maps whose extension leaves round trip -/
structure EntityWF (uid : EntityUID) (d : EntityData) : Prop where
  uid_ok : validName uid.ty = true
  anc_ok : ∀ u, u ∈ d.ancestors → validName u.ty = true
  action_ok : isAction uid = true → ∀ u, u ∈ d.ancestors → isAction u = true
  attrs_wf : WFKVs d.attrs
  attrs_sorted : Sorted (d.attrs.map Prod.fst)
  attrs_ext : AllExtKVs ExtRoundTrip d.attrs
  tags_wf : WFKVs d.tags
  tags_sorted : Sorted (d.tags.map Prod.fst)
  tags_ext : AllExtKVs ExtRoundTrip d.tags

/-- **entity_roundtrip**: a serialised entity parses back (without schema) to the same uid, to attribute and
    tag maps with the same keys and equal values, and to a parent list that is exactly the ancestor list that was
    written. -/
theorem entity_roundtrip (uid : EntityUID) (d : EntityData) (j : Json) (hwf : EntityWF uid d)
    (h : entityToJson uid d = .ok j) :
    ∃ d', entityOfJson j = .ok (uid, d') ∧ d'.ancestors = d.ancestors ∧ BeqKVs d.attrs d'.attrs ∧ BeqKVs d.tags d'.tags := by
  unfold entityToJson at h
  split at h
  · rename_i as ts has hts
    cases h
    obtain ⟨es, avs, a1, a2, a3, a4, a5⟩ := kvs_roundtrip d.attrs as hwf.attrs_wf hwf.attrs_sorted hwf.attrs_ext has
    obtain ⟨ets, tvs, t1, t2, t3, t4, t5⟩ := kvs_roundtrip d.tags ts hwf.tags_wf hwf.tags_sorted hwf.tags_ext hts
    have hp := parents_roundtrip uid d.ancestors hwf.anc_ok hwf.action_ok
    have hu := uidOfJson_uidJson uid hwf.uid_ok
    have hnd := noDup_uidJsons d.ancestors
    have hp' := hp
    unfold parentStep at hp'
    simp [bind, Except.bind] at hp'
    have hs0 : sortKVs ([] : List (String × Json)) = [] := rfl
    refine ⟨{ attrs := avs, ancestors := d.ancestors, tags := tvs }, ?_, rfl, a3, t3⟩
    cases hemp : ts.isEmpty with
    | true =>
      have hts0 : ts = [] := by cases ts <;> simp_all
      subst hts0
      simp only [CJ.toJsonKVs, hs0] at t1
      simp [entityOfJson, lookupKV, uidJson, noDupKeys, noDupKeysKVs, noDupKeysList, hasDup, a4, a5, hnd, hu, a1, t1, hp', a2, t2,
        hs0, bind, Except.bind] at hu ⊢
    | false =>
      simp [entityOfJson, hemp, lookupKV, uidJson, noDupKeys, noDupKeysKVs, noDupKeysList, hasDup, a4, a5, t4, t5, hnd, hu, a1, t1,
        hp', a2, t2, bind, Except.bind] at hu ⊢
  · cases h
  · cases h

/-- non-vacuity: an entity with an attribute *named* like an escape, a tag and two ancestors -/
def sampleEntity : EntityData where
  attrs := [("__entity", .prim (.entityUID ⟨"Group", "g"⟩))]
  ancestors := [⟨"Group", "g"⟩, ⟨"Group", "h"⟩]
  tags := [("k", .ext (.duration 5))]

example : ∃ j d', entityToJson ⟨"User", "a"⟩ sampleEntity = .ok j ∧
    entityOfJson j = .ok (⟨"User", "a"⟩, d') ∧ d'.ancestors = [⟨"Group", "g"⟩, ⟨"Group", "h"⟩] :=
  ⟨_, _, rfl, rfl, rfl⟩

/-- **store_roundtrip**: a store is serialised and parsed entity by entity; with every entity well formed the
    parsed store has the same uids in the same order, equal attribute / tag values, and parent lists equal to the
    ancestor lists written (transitive closure of an already closed relation adds nothing: C04). Schema-based
    loading (`Entities::from_entities(.., Some schema)`) appends `schema.action_entities()` to this list and nothing
    else — checked on the implementation by the `c10` stream. -/
theorem store_roundtrip : ∀ (es : Entities) (j : Json), (∀ p, p ∈ es → EntityWF p.1 p.2) → storeToJson es = .ok j →
    ∃ es', storeOfJson j = .ok es' ∧
      Rel2 (fun (p q : EntityUID × EntityData) => p.1 = q.1 ∧ q.2.ancestors = p.2.ancestors ∧
        BeqKVs p.2.attrs q.2.attrs ∧ BeqKVs p.2.tags q.2.tags) es es' := by
  intro es
  induction es with
  | nil =>
    intro j _ h
    simp [storeToJson, mapE, bind, Except.bind] at h
    subst h
    exact ⟨[], rfl, .nil⟩
  | cons p es ih =>
    intro j hwf h
    simp only [storeToJson, mapE, bind_ok] at h
    obtain ⟨js, ⟨j1, hj1, js', hjs', hh⟩, hj⟩ := h
    cases hh
    cases hj
    obtain ⟨d', hd', r1, r2, r3⟩ := entity_roundtrip p.1 p.2 j1 (hwf p (List.mem_cons_self ..)) hj1
    obtain ⟨es', hes', hrel⟩ := ih (.arr js') (fun q hq => hwf q (List.mem_cons_of_mem _ hq))
      (by simp [storeToJson, hjs', bind, Except.bind])
    simp only [storeOfJson] at hes'
    exact ⟨(p.1, d') :: es', by simp [storeOfJson, mapE, hd', hes', bind, Except.bind], .cons ⟨rfl, r1, r2, r3⟩ hrel⟩

end Cedar.C10
