import CedarVerif.Cedar.Validation.Conformance
namespace Cedar.C11
end Cedar.C11
