import CedarVerif.Lemmas.Conformance
/-
C11 — Schema conformance checks accept exactly conformant data.

Property theorems only (helpers: Lemmas/Conformance.lean).  The statements are about the mirrors in
Cedar/Validation/Conformance.lean of `typecheck_restricted_expr_against_schematype`, `Type::typecheck_restricted_expr`,
`EntitySchemaConformanceChecker::validate_entity` and `validate_request` / `validate_context`, and the declarative
specification `InstanceOfType` / `ConformsEntity` / `ConformsContext` / `ConformsRequest` given there.

* exactness (both directions, all nesting depths): `typecheckValue_iff`, `checkValue_iff`, `checkEntity_iff`,
  `checkContext_iff`, `checkRequest_iff`;
* every single-fault class of the statement falsifies the specification: `single_fault_rejected_*`
  (nested faults propagate outwards through `…_value_set` / `…_value_record`, and through `…_euid_nested` for uids).

Hypotheses that are really needed are shown to be needed (`checkValue_iff_needs_schematic`).  The schema is the
*resolved* one; `Schema.schematic` (all attribute/tag types are what schema construction yields) is re-checked by the
driver on every generated schema (`(nonschematic)` reply otherwise).
-/
namespace Cedar.C11
open Cedar

/-- C11 (context values): the mirror of `Type::typecheck_restricted_expr` accepts exactly the instances of the type —
for every validator type, at every nesting depth. -/
theorem typecheckValue_iff (v : Value) (t : CedarType) : typecheckValue v t = true ↔ InstanceOfType v t :=
  typecheckValue_iff_instanceOf v t

/-- C11 (attribute and tag values): for a type that schema construction produces, the conversion to `SchemaType`
succeeds (no `expect` panic) and the mirror of `typecheck_restricted_expr_against_schematype` accepts exactly the
instances of the type. -/
theorem checkValue_iff (v : Value) (τ : CedarType) (hs : τ.schematic = true) :
    ∃ σ, τ.toSchemaType? = some σ ∧ (checkValue v σ = true ↔ InstanceOfType v τ) := by
  obtain ⟨σ, hσ⟩ := schematic_conv τ hs
  refine ⟨σ, hσ, ?_⟩
  rw [checkValue_eq_typecheckValue_aux (sizeOf v + 1) v τ σ (Nat.lt_succ_self _) hs hσ]
  exact typecheckValue_iff v τ

/-- the restriction to schematic types in `checkValue_iff` cannot be dropped: `SchemaType` is coarser than `Type`
(singleton booleans collapse to `Bool`), so `false` passes the converted type of `True`. -/
theorem checkValue_iff_needs_schematic :
    ¬ (∀ (v : Value) (τ : CedarType) (σ : SchemaType), τ.toSchemaType? = some σ →
        (checkValue v σ = true ↔ InstanceOfType v τ)) := by
  intro h
  have := (h (.prim (.bool false)) (.bool .tt) .bool rfl).mp (by simp [checkValue])
  cases this

/-- C11 (entities): the mirror of `validate_entity` accepts exactly the conforming entities -/
theorem checkEntity_iff (s : Schema) (hs : s.schematic = true) (uid : EntityUID) (d : EntityData) :
    checkEntity s uid d = .ok () ↔ ConformsEntity s uid d := by
  unfold checkEntity ConformsEntity
  by_cases ha : isActionType uid.ty = true
  · simp only [ha, if_true]
    unfold validateAction
    cases hact : s.action? uid with
    | none => simp
    | some a =>
      simp only [ite_ok_iff, Bool.and_eq_true, sameUidSet_iff, List.isEmpty_iff]
      constructor
      · rintro ⟨⟨h1, h2⟩, h3⟩; exact ⟨a, rfl, h1, h2, h3⟩
      · rintro ⟨a', he, h1, h2, h3⟩; cases he; exact ⟨⟨h1, h2⟩, h3⟩
  · simp only [ha, if_false, Bool.false_eq_true]
    cases het : s.entityType? uid.ty with
    | none => simp
    | some et =>
      obtain ⟨hsa, hst⟩ := schematic_entry hs het
      simp only [bind_ok_iff, validateEuid_iff, validateAncestors_iff, validateTags_iff s et hst]
      unfold validateEntityAttributes
      constructor
      · rintro ⟨h1, h2, h3, h4, h5⟩
        by_cases hr : (et.requiredAttrs.all (fun a => d.attrs.any (fun kv => kv.1 == a))) = true
        · rw [if_pos hr, validateAttrs_iff s et hsa] at h2
          exact ⟨et, rfl, h1, (requiredAll_iff et d.attrs).mp hr, fun k v hm => (h2 k v hm).1,
            fun k v hm => (h2 k v hm).2.1, fun k v hm => (h2 k v hm).2.2, h3, h4, h5⟩
        · rw [if_neg hr] at h2; cases h2
      · rintro ⟨et', he, h1, hr, h2, h3, h4, h5, h6, h7⟩
        cases he
        refine ⟨h1, ?_, h5, h6, h7⟩
        rw [if_pos ((requiredAll_iff et d.attrs).mpr hr), validateAttrs_iff s et hsa]
        exact fun k v hm => ⟨h2 k v hm, h3 k v hm, h4 k v hm⟩

/-- C11 (contexts): the mirror of `validate_context` accepts exactly the conforming contexts -/
theorem checkContext_iff (s : Schema) (action : EntityUID) (ctx : List (String × Value)) :
    checkContext s action ctx = .ok () ↔ ConformsContext s action ctx := by
  unfold checkContext ConformsContext
  cases ha : s.action? action with
  | none => simp
  | some a =>
    simp only [bind_ok_iff, liftEuid_ok_iff, validateEuids_iff, ite_ok_iff, typecheckValue_iff_instanceOf]
    constructor
    · rintro ⟨h1, h2⟩; exact ⟨a, rfl, h1, h2⟩
    · rintro ⟨a', he, h1, h2⟩; cases he; exact ⟨h1, h2⟩

/-- C11 (requests): the mirror of `validate_request` accepts exactly the conforming requests -/
theorem checkRequest_iff (s : Schema) (q : Request) :
    checkRequest s q = .ok () ↔ ConformsRequest s q := by
  unfold checkRequest checkScope ConformsRequest
  simp only [bind_ok_iff, checkScopeEntity_iff, checkApplies_iff, checkContext_iff]
  constructor
  · rintro ⟨⟨⟨h1, h2⟩, ⟨h3, h4⟩, h5⟩, h6⟩; exact ⟨h1, h2, h3, h4, h5, h6⟩
  · rintro ⟨h1, h2, h3, h4, h5, h6⟩; exact ⟨⟨⟨h1, h2⟩, ⟨h3, h4⟩, h5⟩, h6⟩

/-! ### single-fault mutations falsify the specification -/

/-- wrong type (kind): a value is an instance only of types of its own kind -/
theorem single_fault_rejected_wrong_kind (v : Value) (τ : CedarType) (h : InstanceOfType v τ) :
    (∀ b, v = .prim (.bool b) → ∃ bt, τ = .bool bt) ∧
    (∀ i, v = .prim (.int i) → τ = .long) ∧
    (∀ s, v = .prim (.string s) → τ = .string) ∧
    (∀ u, v = .prim (.entityUID u) → τ = .anyEntity ∨ ∃ lub, τ = .entity lub ∧ u.ty ∈ lub) ∧
    (∀ x, v = .ext x → τ = .ext x.typeName) ∧
    (∀ vs, v = .set vs → ∃ el, τ = .set el) ∧
    (∀ kvs, v = .record kvs → ∃ attrs o, τ = .record attrs o) := by
  cases h <;> simp_all

/-- a fault in a set element is a fault of the set (nesting through sets) -/
theorem single_fault_rejected_value_set (vs : List Value) (t : CedarType) (w : Value)
    (hm : w ∈ vs) (hw : ¬ InstanceOfType w t) : ¬ InstanceOfType (.set vs) (.set (some t)) := by
  intro h; cases h with | set _ _ h => exact hw (h w hm)

/-- faults of a record: a field of the wrong type (nesting through records), a missing required field, an
undeclared field of a closed record -/
theorem single_fault_rejected_value_record (kvs : List (String × Value)) (attrs : Attrs) (o : Bool) :
    (∀ k w r t, (k, w) ∈ kvs → Attrs.find? attrs k = some (r, t) → ¬ InstanceOfType w t →
        ¬ InstanceOfType (.record kvs) (.record attrs o)) ∧
    (∀ k t, (k, true, t) ∈ attrs → (∀ v, (k, v) ∉ kvs) → ¬ InstanceOfType (.record kvs) (.record attrs o)) ∧
    (∀ k w, (k, w) ∈ kvs → Attrs.find? attrs k = none → o = false →
        ¬ InstanceOfType (.record kvs) (.record attrs o)) := by
  refine ⟨?_, ?_, ?_⟩
  · intro k w r t hm hf hw h; cases h with | record _ _ _ h1 _ _ => exact hw (h1 k w hm r t hf)
  · intro k t hm hab h; cases h with | record _ _ _ _ _ h3 => obtain ⟨v, hv⟩ := h3 k t hm; exact hab v hv
  · intro k w hm hf ho h; cases h with | record _ _ _ _ h2 _ => have := h2 k w hm hf; simp [ho] at this

/-- an enumerated entity id outside the declared choices, or an undeclared action uid, is not a valid uid -/
theorem single_fault_rejected_euid (s : Schema) (u : EntityUID) :
    (∀ et ids, s.entityType? u.ty = some et → et.enumIds = some ids → u.eid ∉ ids → ¬ ValidUid s u) ∧
    (isActionType u.ty = true → s.action? u = none → ¬ ValidUid s u) := by
  refine ⟨fun et ids h1 h2 h3 h => h3 (h.1 et ids h1 h2), fun h1 h2 h => ?_⟩
  obtain ⟨a, ha⟩ := h.2 h1; rw [h2] at ha; cases ha

/-- a uid occurring anywhere inside a value (through sets and records) is among the uids checked for that value -/
theorem single_fault_rejected_euid_nested (u : EntityUID) :
    (u ∈ Value.euids (.prim (.entityUID u))) ∧
    (∀ vs w, w ∈ vs → u ∈ w.euids → u ∈ Value.euids (.set vs)) ∧
    (∀ kvs k w, (k, w) ∈ kvs → u ∈ w.euids → u ∈ Value.euids (.record kvs)) := by
  refine ⟨by simp [Value.euids], ?_, ?_⟩
  · intro vs w hm hu
    simp only [Value.euids]
    induction vs with
    | nil => cases hm
    | cons x xs ih =>
      simp only [Value.euidsList, List.mem_append]
      rcases List.mem_cons.mp hm with rfl | hm'
      · exact Or.inl hu
      · exact Or.inr (ih hm')
  · intro kvs k w hm hu
    simp only [Value.euids]
    induction kvs with
    | nil => cases hm
    | cons x xs ih =>
      obtain ⟨k', x'⟩ := x
      simp only [Value.euidsKVs, List.mem_append]
      rcases List.mem_cons.mp hm with he | hm'
      · cases he; exact Or.inl hu
      · exact Or.inr (ih hm')

/-- every single-fault class of the statement about (non-action) entities falsifies `ConformsEntity`:
undeclared entity type; invalid (enumerated) uid; attribute of the wrong type; missing required attribute; undeclared
attribute; invalid uid nested in an attribute; ancestor that is an invalid uid; ancestor of a non-permitted type;
tag on a type without tags; tag of the wrong type; invalid uid nested in a tag -/
theorem single_fault_rejected_entity (s : Schema) (uid : EntityUID) (d : EntityData)
    (hna : isActionType uid.ty = false) :
    (s.entityType? uid.ty = none → ¬ ConformsEntity s uid d) ∧
    (¬ ValidUid s uid → ¬ ConformsEntity s uid d) ∧
    (∀ et, s.entityType? uid.ty = some et →
      (∀ k v r t, (k, v) ∈ d.attrs → Attrs.find? et.attrs k = some (r, t) → ¬ InstanceOfType v t → ¬ ConformsEntity s uid d) ∧
      (∀ k t, (k, true, t) ∈ et.attrs → (∀ v, (k, v) ∉ d.attrs) → ¬ ConformsEntity s uid d) ∧
      (∀ k v, (k, v) ∈ d.attrs → Attrs.find? et.attrs k = none → et.isOpen = false → ¬ ConformsEntity s uid d) ∧
      (∀ k v u, (k, v) ∈ d.attrs → u ∈ v.euids → ¬ ValidUid s u → ¬ ConformsEntity s uid d) ∧
      (∀ a, a ∈ d.ancestors → ¬ ValidUid s a → ¬ ConformsEntity s uid d) ∧
      (∀ a, a ∈ d.ancestors → a.ty ∉ s.allowedParentTypes uid.ty → ¬ ConformsEntity s uid d) ∧
      (∀ k v, (k, v) ∈ d.tags → et.tags = none → ¬ ConformsEntity s uid d) ∧
      (∀ k v t, (k, v) ∈ d.tags → et.tags = some t → ¬ InstanceOfType v t → ¬ ConformsEntity s uid d) ∧
      (∀ k v u, (k, v) ∈ d.tags → u ∈ v.euids → ¬ ValidUid s u → ¬ ConformsEntity s uid d)) := by
  unfold ConformsEntity
  simp only [hna, Bool.false_eq_true, if_false]
  refine ⟨?_, ?_, ?_⟩
  · rintro h ⟨et, he, _⟩; rw [h] at he; cases he
  · rintro h ⟨et, _, hv, _⟩; exact h hv
  · intro et het
    refine ⟨?_, ?_, ?_, ?_, ?_, ?_, ?_, ?_, ?_⟩
    · rintro k v r t hm hf hi ⟨et', he, _, _, h, _⟩; rw [het] at he; cases he; exact hi (h k v hm r t hf)
    · rintro k t hm hab ⟨et', he, _, h, _⟩; rw [het] at he; cases he; obtain ⟨v, hv⟩ := h k t hm; exact hab v hv
    · rintro k v hm hf ho ⟨et', he, _, _, _, h, _⟩; rw [het] at he; cases he; have := h k v hm hf; simp [ho] at this
    · rintro k v u hm hu hv ⟨et', _, _, _, _, _, h, _⟩; exact hv (h k v hm u hu)
    · rintro a hm hv ⟨et', _, _, _, _, _, _, h, _⟩; exact hv (h a hm).1
    · rintro a hm ht ⟨et', _, _, _, _, _, _, h, _⟩; exact ht (h a hm).2
    · rintro k v hm hn ⟨et', he, _, _, _, _, _, _, h, _⟩; rw [het] at he; cases he
      obtain ⟨t, ht, _⟩ := h k v hm; rw [hn] at ht; cases ht
    · rintro k v t hm hs hi ⟨et', he, _, _, _, _, _, _, h, _⟩; rw [het] at he; cases he
      obtain ⟨t', ht, hi'⟩ := h k v hm; rw [hs] at ht; cases ht; exact hi hi'
    · rintro k v u hm hu hv ⟨et', _, _, _, _, _, _, _, _, h⟩; exact hv (h k v hm u hu)

/-- action entities: an undeclared action, or one differing from its schema definition in attributes, tags or
ancestor set, does not conform -/
theorem single_fault_rejected_action (s : Schema) (uid : EntityUID) (d : EntityData)
    (ha : isActionType uid.ty = true) :
    (s.action? uid = none → ¬ ConformsEntity s uid d) ∧
    (∀ a, s.action? uid = some a →
      (Value.beqKVs d.attrs a.attrs = false → ¬ ConformsEntity s uid d) ∧
      (d.tags ≠ [] → ¬ ConformsEntity s uid d) ∧
      (∀ u, (u ∈ d.ancestors ∧ u ∉ a.ancestors) ∨ (u ∉ d.ancestors ∧ u ∈ a.ancestors) → ¬ ConformsEntity s uid d)) := by
  unfold ConformsEntity
  simp only [ha, if_true]
  refine ⟨?_, ?_⟩
  · rintro h ⟨a, he, _⟩; rw [h] at he; cases he
  · intro a hact
    refine ⟨?_, ?_, ?_⟩
    · rintro h ⟨a', he, hb, _⟩; rw [hact] at he; cases he; rw [h] at hb; cases hb
    · rintro h ⟨a', _, _, ht, _⟩; exact h ht
    · rintro u hu ⟨a', he, _, _, hs⟩; rw [hact] at he; cases he
      rcases hu with ⟨h1, h2⟩ | ⟨h1, h2⟩
      · exact h2 ((hs u).mp h1)
      · exact h1 ((hs u).mpr h2)

/-- every single-fault class of the statement about requests falsifies `ConformsRequest`: undeclared action,
principal / resource of an undeclared type, with an invalid enumerated id, of a type the action does not apply to,
and a context that does not conform (whose own fault classes are those of `single_fault_rejected_value_record`
and `single_fault_rejected_euid`) -/
theorem single_fault_rejected_request (s : Schema) (q : Request) :
    (s.action? q.action = none → ¬ ConformsRequest s q) ∧
    (s.entityType? q.principal.ty = none → ¬ ConformsRequest s q) ∧
    (s.entityType? q.resource.ty = none → ¬ ConformsRequest s q) ∧
    (validEnumId s q.principal = false → ¬ ConformsRequest s q) ∧
    (validEnumId s q.resource = false → ¬ ConformsRequest s q) ∧
    (∀ a, s.action? q.action = some a → q.principal.ty ∉ a.principals → ¬ ConformsRequest s q) ∧
    (∀ a, s.action? q.action = some a → q.resource.ty ∉ a.resources → ¬ ConformsRequest s q) ∧
    (¬ ConformsContext s q.action q.context → ¬ ConformsRequest s q) ∧
    (∀ a, s.action? q.action = some a → ¬ InstanceOfType (.record q.context) a.context → ¬ ConformsRequest s q) ∧
    (∀ u, u ∈ Value.euids (.record q.context) → ¬ ValidUid s u → ¬ ConformsRequest s q) := by
  unfold ConformsRequest ConformsContext
  refine ⟨?_, ?_, ?_, ?_, ?_, ?_, ?_, ?_, ?_, ?_⟩
  · rintro h ⟨_, _, _, _, ⟨a, he, _⟩, _⟩; rw [h] at he; cases he
  · rintro h ⟨⟨et, he⟩, _⟩; rw [h] at he; cases he
  · rintro h ⟨_, _, ⟨et, he⟩, _⟩; rw [h] at he; cases he
  · rintro h ⟨_, hv, _⟩; rw [h] at hv; cases hv
  · rintro h ⟨_, _, _, hv, _⟩; rw [h] at hv; cases hv
  · rintro a ha hp ⟨_, _, _, _, ⟨a', he, hp', _⟩, _⟩; rw [ha] at he; cases he; exact hp hp'
  · rintro a ha hr ⟨_, _, _, _, ⟨a', he, _, hr'⟩, _⟩; rw [ha] at he; cases he; exact hr hr'
  · rintro h ⟨_, _, _, _, _, hc⟩; exact h hc
  · rintro a ha hi ⟨_, _, _, _, _, ⟨a', he, _, hi'⟩⟩; rw [ha] at he; cases he; exact hi hi'
  · rintro u hu hv ⟨_, _, _, _, _, ⟨a', _, hv', _⟩⟩; exact hv (hv' u hu)

/-! ### non-vacuity: a concrete schema, conforming data, and faults at depth -/

/-- `entity Color enum ["red"]; entity Group; entity User in [Group] { name: String, prefs?: { tags: Set<Color> } } tags Long;
action view appliesTo { principal: User, resource: Group, context: { n: Long } };` -/
def exView : ActionEntry :=
  { principals := ["User"], resources := ["Group"], context := .record [("n", true, .long)] false,
    descendants := [], ancestors := [], attrs := [] }

def exSchema : Schema :=
  { ets := [
      ("Color", { attrs := [], isOpen := false, tags := none, descendants := [], enumIds := some ["red"] }),
      ("Group", { attrs := [], isOpen := false, tags := none, descendants := ["User"], enumIds := none }),
      ("User", { attrs := [("name", true, .string),
                           ("prefs", false, .record [("tags", true, .set (some (.entity ["Color"])))] false)],
                 isOpen := false, tags := some .long, descendants := [], enumIds := none })],
    acts := [(⟨"Action", "view"⟩, exView)] }

def exUser (color : String) : EntityData :=
  { attrs := [("name", .prim (.string "alice")),
              ("prefs", .record [("tags", .set [.prim (.entityUID ⟨"Color", color⟩)])])],
    ancestors := [⟨"Group", "g"⟩],
    tags := [("k", .prim (.int 1))] }

example : exSchema.schematic = true := by decide +kernel

/-- hypotheses of `checkEntity_iff` are satisfiable and its left side is `ok`: the user conforms … -/
example : ConformsEntity exSchema ⟨"User", "a"⟩ (exUser "red") :=
  (checkEntity_iff exSchema (by decide +kernel) _ _).mp ((ok_iff_isOkB _).mpr (by decide +kernel))

/-- … and the same user with an invalid enumerated id two levels deep (record → set → uid) does not -/
example : ¬ ConformsEntity exSchema ⟨"User", "a"⟩ (exUser "blue") := by
  rw [← checkEntity_iff exSchema (by decide +kernel), ok_iff_isOkB]
  decide +kernel

/-- a wrong-typed set element inside a record field is not an instance (depth 2), via the propagation lemmas -/
example : ¬ InstanceOfType (.record [("tags", .set [.prim (.int 3)])])
    (.record [("tags", true, .set (some (.entity ["Color"])))] false) := by
  refine (single_fault_rejected_value_record _ _ _).1 "tags" _ true _ (List.mem_cons_self ..) rfl ?_
  refine single_fault_rejected_value_set _ _ (.prim (.int 3)) (List.mem_cons_self ..) ?_
  intro h; cases h

example : ConformsRequest exSchema ⟨⟨"User", "a"⟩, ⟨"Action", "view"⟩, ⟨"Group", "g"⟩, [("n", .prim (.int 1))]⟩ :=
  (checkRequest_iff _ _).mp ((ok_iff_isOkB _).mpr (by decide +kernel))

example : ¬ ConformsRequest exSchema ⟨⟨"Group", "g"⟩, ⟨"Action", "view"⟩, ⟨"Group", "g"⟩, [("n", .prim (.int 1))]⟩ :=
  (single_fault_rejected_request _ _).2.2.2.2.2.1 exView rfl (by decide +kernel)

example : ¬ ConformsContext exSchema ⟨"Action", "view"⟩ [("n", .prim (.string "str"))] := by
  rw [← checkContext_iff, ok_iff_isOkB]; decide +kernel

end Cedar.C11
