import CedarVerif.Lemmas.Auth
import CedarVerif.Lemmas.EvalExt
/-
C01 — Authorization: default-deny, forbid-overrides, skip-on-error, pure function.
Property theorems only (helper lemmas live in Lemmas/Auth.lean). All statements are about
`Cedar.isAuthorized`, the mirror of `is_authorized_core_internal` + `From<PartialResponse> for Response`,
for arbitrary policy lists, requests and stores.
-/
namespace Cedar.C01
open Cedar

variable (req : Request) (es : Entities)

/-- C01: allow iff some permit is satisfied and no forbid is. -/
theorem allow_iff (ps : List Policy) :
    (isAuthorized req es ps).decision = .allow ↔
      (∃ p, p ∈ ps ∧ p.effect = .permit ∧ Sat req es p) ∧
      ¬ (∃ p, p ∈ ps ∧ p.effect = .forbid ∧ Sat req es p) := by
  unfold isAuthorized Buckets.concretize
  simp only
  have hP := mem_satPermits req es ps {}
  have hF := mem_satForbids req es ps {}
  constructor
  · intro h
    split at h
    · rename_i hc
      simp only [Bool.and_eq_true, Bool.not_eq_true', isEmpty_iff_no_mem] at hc
      obtain ⟨hne, hemp⟩ := hc
      constructor
      · cases hl : (ps.foldl (Buckets.step req es) {}).satPermits with
        | nil => simp [hl] at hne
        | cons x xs =>
          have := (hP x).mp (by simp [hl])
          simp at this
          obtain ⟨p, hp, _, h2, h3⟩ := this
          exact ⟨p, hp, h2, h3⟩
      · rintro ⟨p, hp, h2, h3⟩
        exact hemp p.id ((hF p.id).mpr (Or.inr ⟨p, hp, rfl, h2, h3⟩))
    · cases h
  · rintro ⟨⟨p, hp, h2, h3⟩, hno⟩
    have h1 : p.id ∈ (ps.foldl (Buckets.step req es) {}).satPermits :=
      (hP p.id).mpr (Or.inr ⟨p, hp, rfl, h2, h3⟩)
    have h2' : (ps.foldl (Buckets.step req es) {}).satForbids.isEmpty = true := by
      rw [isEmpty_iff_no_mem]
      intro x hx
      have := (hF x).mp hx
      simp at this
      obtain ⟨q, hq, _, e1, e2⟩ := this
      exact hno ⟨q, hq, e1, e2⟩
    have h1' : (ps.foldl (Buckets.step req es) {}).satPermits.isEmpty = false := by
      cases hl : (ps.foldl (Buckets.step req es) {}).satPermits with
      | nil => simp [hl] at h1
      | cons _ _ => rfl
    simp [h1', h2']

/-- C01: the errors are exactly the erroring policies. -/
theorem errors_exact (ps : List Policy) (id : String) :
    id ∈ (isAuthorized req es ps).errors ↔ ∃ p, p ∈ ps ∧ id = p.id ∧ Errs req es p := by
  unfold isAuthorized Buckets.concretize
  simp only
  rw [mem_errors]; simp

/-- C01: reasons = satisfied forbids if any, else satisfied permits. -/
theorem reasons_exact (ps : List Policy) (id : String) :
    ((∃ p, p ∈ ps ∧ p.effect = .forbid ∧ Sat req es p) →
      (id ∈ (isAuthorized req es ps).reasons ↔ ∃ p, p ∈ ps ∧ id = p.id ∧ p.effect = .forbid ∧ Sat req es p)) ∧
    ((¬ ∃ p, p ∈ ps ∧ p.effect = .forbid ∧ Sat req es p) →
      (id ∈ (isAuthorized req es ps).reasons ↔ ∃ p, p ∈ ps ∧ id = p.id ∧ p.effect = .permit ∧ Sat req es p)) := by
  unfold isAuthorized Buckets.concretize
  simp only
  have hP := mem_satPermits req es ps {}
  have hF := mem_satForbids req es ps {}
  constructor
  · rintro ⟨q, hq, e1, e2⟩
    have hne : (ps.foldl (Buckets.step req es) {}).satForbids.isEmpty = false := by
      have : q.id ∈ (ps.foldl (Buckets.step req es) {}).satForbids := (hF q.id).mpr (Or.inr ⟨q, hq, rfl, e1, e2⟩)
      cases hl : (ps.foldl (Buckets.step req es) {}).satForbids with
      | nil => simp [hl] at this
      | cons _ _ => rfl
    simp only [hne, Bool.false_eq_true, if_false]
    rw [hF]; simp
  · intro hex
    have hemp : (ps.foldl (Buckets.step req es) {}).satForbids.isEmpty = true := by
      rw [isEmpty_iff_no_mem]
      intro x hx
      have := (hF x).mp hx
      simp at this
      obtain ⟨q, hq, _, e1, e2⟩ := this
      exact hex ⟨q, hq, e1, e2⟩
    simp only [hemp, if_true]
    rw [hP]; simp

/-- C01: independent of policy order. -/
theorem perm_invariant (ps₁ ps₂ : List Policy) (h : ps₁.Perm ps₂) :
    (isAuthorized req es ps₁).decision = (isAuthorized req es ps₂).decision ∧
    (∀ id, id ∈ (isAuthorized req es ps₁).reasons ↔ id ∈ (isAuthorized req es ps₂).reasons) ∧
    (∀ id, id ∈ (isAuthorized req es ps₁).errors ↔ id ∈ (isAuthorized req es ps₂).errors) := by
  have hm : ∀ p, p ∈ ps₁ ↔ p ∈ ps₂ := fun p => h.mem_iff
  refine ⟨?_, ?_, ?_⟩
  · have key : (isAuthorized req es ps₁).decision = .allow ↔ (isAuthorized req es ps₂).decision = .allow := by
      rw [allow_iff, allow_iff]; simp only [hm]
    cases h1 : (isAuthorized req es ps₁).decision <;> cases h2 : (isAuthorized req es ps₂).decision <;>
      simp [h1, h2] at key ⊢
  · intro id
    have r1 := reasons_exact req es ps₁ id
    have r2 := reasons_exact req es ps₂ id
    simp only [hm] at r1
    by_cases hex : ∃ p, p ∈ ps₂ ∧ p.effect = .forbid ∧ Sat req es p
    · rw [r1.1 hex, r2.1 hex]
    · rw [r1.2 hex, r2.2 hex]
  · intro id
    rw [errors_exact, errors_exact]; simp only [hm]

/-- C01: Deny otherwise (default deny; forbid overrides). -/
theorem deny_otherwise (ps : List Policy) :
    (isAuthorized req es ps).decision = .deny ↔
      (¬ ∃ p, p ∈ ps ∧ p.effect = .permit ∧ Sat req es p) ∨
      (∃ p, p ∈ ps ∧ p.effect = .forbid ∧ Sat req es p) := by
  have h := allow_iff req es ps
  cases hd : (isAuthorized req es ps).decision
  · simp only [hd, true_iff] at h
    simp only [reduceCtorEq, false_iff, not_or, Classical.not_not]
    exact h
  · simp only [hd, reduceCtorEq, false_iff] at h
    simp only [true_iff]
    by_cases hp : ∃ p, p ∈ ps ∧ p.effect = .permit ∧ Sat req es p
    · right
      exact Classical.not_not.mp (fun hf => h ⟨hp, hf⟩)
    · left; exact hp

/-- C01: a policy whose evaluation errors is not satisfied (so it can never be a reason). -/
theorem erroring_not_satisfied (p : Policy) : Errs req es p → ¬ Sat req es p := by
  unfold Errs Sat; intro h; rw [h]; simp


/-! ### purity: the response is a function of (policies, request, store-as-a-lookup-function) -/

/-- C01: stores with the same lookup function give the same response — the response does not depend on entity
    insertion order, duplicates shadowed by earlier entries, or any other representation detail of the store. -/
theorem store_extensional (es₁ es₂ : Entities) (h : ∀ u, es₁.find? u = es₂.find? u) (ps : List Policy) :
    isAuthorized req es₁ ps = isAuthorized req es₂ ps := by
  have ho : ∀ p : Policy, p.outcome req es₁ = p.outcome req es₂ := by
    intro p; simp [Policy.outcome, evaluate_ext req p.env es₁ es₂ h p.condition]
  have hs : Buckets.step req es₁ = Buckets.step req es₂ := by
    funext b p; simp [Buckets.step, ho p]
  simp [isAuthorized, hs]

/-- respelling of policy ids -/
def Policy.rename (ρ : String → String) (p : Policy) : Policy := { p with id := ρ p.id }

def Buckets.rename (ρ : String → String) (b : Buckets) : Buckets :=
  { satPermits := b.satPermits.map ρ,
    falsePermits := b.falsePermits.map (fun x => (ρ x.1, x.2)),
    satForbids := b.satForbids.map ρ,
    falseForbids := b.falseForbids.map (fun x => (ρ x.1, x.2)),
    errors := b.errors.map ρ }

def Response.rename (ρ : String → String) (r : Response) : Response :=
  { decision := r.decision, reasons := r.reasons.map ρ, errors := r.errors.map ρ }

theorem step_rename (ρ : String → String) (b : Buckets) (p : Policy) :
    Buckets.step req es (Buckets.rename ρ b) (Policy.rename ρ p) = Buckets.rename ρ (Buckets.step req es b p) := by
  have ho : (Policy.rename ρ p).outcome req es = p.outcome req es := rfl
  have he : (Policy.rename ρ p).effect = p.effect := rfl
  simp only [Buckets.step, ho, he]
  cases p.outcome req es <;> cases p.effect <;> simp [Buckets.rename, Policy.rename]

theorem foldl_rename (ρ : String → String) (ps : List Policy) (b : Buckets) :
    (ps.map (Policy.rename ρ)).foldl (Buckets.step req es) (Buckets.rename ρ b) =
      Buckets.rename ρ (ps.foldl (Buckets.step req es) b) := by
  induction ps generalizing b with
  | nil => rfl
  | cons p ps ih => simp only [List.map_cons, List.foldl_cons, step_rename, ih]

theorem concretize_rename (ρ : String → String) (b : Buckets) :
    (Buckets.rename ρ b).concretize = Response.rename ρ b.concretize := by
  simp only [Buckets.concretize, Buckets.rename, Response.rename, List.isEmpty_map]
  cases hf : b.satForbids.isEmpty <;> cases hp : b.satPermits.isEmpty <;> simp

/-- C01: the response does not depend on how policy ids are spelled: renaming every id by any function `ρ`
    renames the ids in the response and changes nothing else (decision included). -/
theorem rename_equivariant (ρ : String → String) (ps : List Policy) :
    isAuthorized req es (ps.map (Policy.rename ρ)) = Response.rename ρ (isAuthorized req es ps) := by
  have h := foldl_rename req es ρ ps {}
  have h0 : Buckets.rename ρ {} = ({} : Buckets) := rfl
  rw [h0] at h
  unfold isAuthorized
  rw [h, concretize_rename]

/-- C01 (mirror = spec): the whole response, stated declaratively. -/
theorem mirror_eq_spec (ps : List Policy) :
    let r := isAuthorized req es ps
    let satisfied (eff : Effect) := ps.filter (fun p => p.effect == eff && p.outcome req es == .sat)
    r.decision = (if !(satisfied .permit).isEmpty && (satisfied .forbid).isEmpty then .allow else .deny) ∧
    r.reasons = (if (satisfied .forbid).isEmpty then (satisfied .permit).map (·.id) else (satisfied .forbid).map (·.id)) ∧
    r.errors = (ps.filter (fun p => p.outcome req es == .err)).map (·.id) := by
  -- the bucket lists are exactly the filtered lists, in policy order
  have key : ∀ (ps : List Policy) (b : Buckets),
      (ps.foldl (Buckets.step req es) b).satPermits =
        b.satPermits ++ (ps.filter (fun p => p.effect == .permit && p.outcome req es == .sat)).map (·.id) ∧
      (ps.foldl (Buckets.step req es) b).satForbids =
        b.satForbids ++ (ps.filter (fun p => p.effect == .forbid && p.outcome req es == .sat)).map (·.id) ∧
      (ps.foldl (Buckets.step req es) b).errors =
        b.errors ++ (ps.filter (fun p => p.outcome req es == .err)).map (·.id) := by
    intro ps
    induction ps with
    | nil => intro b; simp
    | cons p ps ih =>
      intro b
      obtain ⟨h1, h2, h3⟩ := ih (Buckets.step req es b p)
      simp only [List.foldl_cons, h1, h2, h3]
      cases ho : p.outcome req es <;> cases he : p.effect <;> simp [Buckets.step, ho, he]
  obtain ⟨h1, h2, h3⟩ := key ps {}
  simp only [isAuthorized, Buckets.concretize, h1, h2, h3, List.nil_append, List.isEmpty_map]
  simp

/-- non-vacuity: a concrete set with a satisfied permit, an erroring permit and a satisfied forbid -/
example :
    let req : Request := ⟨⟨"U", "a"⟩, ⟨"A", "x"⟩, ⟨"R", "r"⟩, []⟩
    let p1 : Policy := ⟨"p1", .permit, .lit (.bool true), []⟩
    let p2 : Policy := ⟨"p2", .permit, .getAttr (.var .context) "nosuch", []⟩
    let p3 : Policy := ⟨"p3", .forbid, .lit (.bool true), []⟩
    (isAuthorized req [] [p1, p2]).decision = .allow ∧ (isAuthorized req [] [p1, p2]).errors = ["p2"] ∧
    (isAuthorized req [] [p1, p2, p3]).decision = .deny ∧ (isAuthorized req [] [p1, p2, p3]).reasons = ["p3"] := by
  decide

end Cedar.C01
